(* C03 — executable comparison functions used by the generated cases files (no proofs). *)
From Coq Require Import List NArith ZArith Bool.
From Dae Require Import C03_Spec C03_Model C03_JanSpec C03_JanModel.
From Dae.gen Require Import C03_Consts.
Import ListNotations.
Open Scope N_scope.

Definition optN_eqb (a b : option N) : bool :=
  match a, b with Some x, Some y => x =? y | None, None => true | _, _ => false end.
Definition eth_eqb (a b : eth_t) := (eh_proto a =? eh_proto b) && (eh_source a =? eh_source b) && (eh_dest a =? eh_dest b).
Definition ip4_eqb (a b : ip4_t) := (i4_ver a =? i4_ver b) && (i4_ihl a =? i4_ihl b) && (i4_tos a =? i4_tos b) &&
  (i4_proto a =? i4_proto b) && (i4_saddr a =? i4_saddr b) && (i4_daddr a =? i4_daddr b).
Definition ip6_eqb (a b : ip6_t) := (i6_b0 a =? i6_b0 b) && (i6_b1 a =? i6_b1 b) && (i6_saddr a =? i6_saddr b) && (i6_daddr a =? i6_daddr b).
Definition tcp_eqb (a b : tcp_t) := (t_sport a =? t_sport b) && (t_dport a =? t_dport b) && Bool.eqb (t_syn a) (t_syn b) &&
  Bool.eqb (t_ack a) (t_ack b) && Bool.eqb (t_fin a) (t_fin b) && Bool.eqb (t_rst a) (t_rst b).
Definition udp_eqb (a b : udp_t) := (u_sport a =? u_sport b) && (u_dport a =? u_dport b).
Definition pctx_eqb (a b : pctx) := eth_eqb (c_eth a) (c_eth b) && ip4_eqb (c_ip4 a) (c_ip4 b) && ip6_eqb (c_ip6 a) (c_ip6 b) &&
  (c_icmp_type a =? c_icmp_type b) && tcp_eqb (c_tcp a) (c_tcp b) && udp_eqb (c_udp a) (c_udp b) &&
  (c_ihl a =? c_ihl b) && (c_l4proto a =? c_l4proto b) && (c_listener a =? c_listener b).
(* a parse result as far as it is defined: the context only matters for ret >= 0 *)
Definition pres_eqb (a b : Z * pctx) : bool :=
  (fst a =? fst b)%Z && ((fst a <? 0)%Z || pctx_eqb (snd a) (snd b)).
Definition pclass_n (c : pclass) : N := match c with PMalformed => 0 | PIgnored => 1 | PTcp => 2 | PUdp => 3 end.
Definition packet_eqb (a b : packet) : bool :=
  (pclass_n (p_class a) =? pclass_n (p_class b)) && fkey_eqb (p_key a) (p_key b) && (p_dscp a =? p_dscp b) &&
  (p_mac a =? p_mac b) && Bool.eqb (p_syn a) (p_syn b) && Bool.eqb (p_ack a) (p_ack b) && Bool.eqb (p_fin a) (p_fin b) &&
  Bool.eqb (p_rst a) (p_rst b).
Definition proj_eqb (a b : Z * (packet * N * N * N)) : bool :=
  let '(ra, (pa, a1, a2, a3)) := a in let '(rb, (pb, b1, b2, b3)) := b in
  (ra =? rb)%Z && packet_eqb pa pb && (a1 =? b1) && (a2 =? b2) && (a3 =? b3).

(* frames and raw records are written in the cases files as one hex number plus a length *)
Definition word8 (w : N) : list N :=
  [N.shiftr w 56 mod 256; N.shiftr w 48 mod 256; N.shiftr w 40 mod 256; N.shiftr w 32 mod 256;
   N.shiftr w 24 mod 256; N.shiftr w 16 mod 256; N.shiftr w 8 mod 256; w mod 256].
Definition unhex (n : N) (ws : list N) : list N := firstn (N.to_nat n) (flat_map word8 ws).

(* ---------- parse cases ---------- *)
Record obs_parse := { op_eth : bool; op_proto : N; op_pf : bool; op_lin : N; op_frame : list N;
                      op_fast : Z * pctx; op_slow : Z * pctx }.
(* codes: 1 impl<>model  2 impl<>spec (the two real parsers disagree on what a hook reads)  3 model<>spec *)
Definition check_parse (c : obs_parse) : list N :=
  let mf := parse_fast (op_eth c) (op_proto c) (op_pf c) (op_lin c) (op_frame c) in
  let ms := parse_slow (op_eth c) (op_proto c) (op_frame c) in
  (* a frame too short for the Ethernet header leaves the slow path's context unwritten (ret 1, nothing is read) *)
  (if pres_eqb (op_fast c) mf && (if op_eth c && (len (op_frame c) <? 14) then (fst (op_slow c) =? fst ms)%Z else pres_eqb (op_slow c) ms) then [] else [1]) ++
  (if (fst (op_fast c) =? -1)%Z || proj_eqb (proj (op_fast c)) (proj (op_slow c)) then [] else [2]) ++
  (if (fst mf =? -1)%Z || proj_eqb (proj mf) (proj ms) then [] else [3]).
Definition parse_signature (c : obs_parse) : N :=
  let mf := parse_fast (op_eth c) (op_proto c) (op_pf c) (op_lin c) (op_frame c) in
  let ms := parse_slow (op_eth c) (op_proto c) (op_frame c) in
  Z.to_N (fst mf + 20) * 1000000 + Z.to_N (fst ms + 20) * 10000 + (c_l4proto (snd ms) mod 100) * 100
  + (if op_eth c then 10 else 0) + (if eh_proto (c_eth (snd ms)) =? 0x0800 then 1 else if eh_proto (c_eth (snd ms)) =? 0x86DD then 2 else 3).

(* ---------- hook sequences ---------- *)
Definition rquery_eqb (a b : rquery) : bool :=
  (q_l4 a =? q_l4 b) && (q_ipver a =? q_ipver b) && (q_pname a =? q_pname b) && (q_dscp a =? q_dscp b) &&
  (q_wan a =? q_wan b) && (q_mac a =? q_mac b) && (q_sport a =? q_sport b) && (q_dport a =? q_dport b) &&
  (q_sip a =? q_sip b) && (q_dip a =? q_dip b).
Definition cstate_eqb (a b : cstate) : bool :=
  Bool.eqb (cs_wan_in a) (cs_wan_in b) && (cs_state a =? cs_state b) && (cs_last a =? cs_last b) && (cs_mark a =? cs_mark b) &&
  (cs_out a =? cs_out b) && (cs_must a =? cs_must b) && (cs_dscp a =? cs_dscp b) && (cs_has a =? cs_has b) &&
  (cs_mac a =? cs_mac b) && (cs_pname a =? cs_pname b) && (cs_pid a =? cs_pid b).
Definition rr_eqb (a b : rresult) : bool :=
  (rr_mark a =? rr_mark b) && (rr_must a =? rr_must b) && (rr_mac a =? rr_mac b) && (rr_out a =? rr_out b) &&
  (rr_pname a =? rr_pname b) && (rr_pid a =? rr_pid b) && (rr_dscp a =? rr_dscp b).
Definition hentry_eqb (a b : hentry) : bool := (he_last a =? he_last b) && rr_eqb (he_res a) (he_res b).
Definition dec_eqb (a b : decision) : bool := (d_out a =? d_out b) && (d_mark a =? d_mark b) && (d_must a =? d_must b).
Definition frec_eqb (a b : frec) : bool :=
  dec_eqb (r_dec a) (r_dec b) && (r_dscp a =? r_dscp b) && (r_mac a =? r_mac b) && (r_pname a =? r_pname b) && (r_pid a =? r_pid b).
Definition fentry_eqb (a b : fentry) : bool :=
  Bool.eqb (fe_wan_in a) (fe_wan_in b) && Bool.eqb (fe_closing a) (fe_closing b) && (fe_last a =? fe_last b) &&
  (match fe_dec a, fe_dec b with Some x, Some y => dec_eqb x y | None, None => true | _, _ => false end) &&
  (fe_dscp a =? fe_dscp b) && (fe_mac a =? fe_mac b) && (fe_pname a =? fe_pname b) && (fe_pid a =? fe_pid b).
Definition verdict_eqb (a b : verdict) : bool :=
  match a, b with
  | Pass x, Pass y => optN_eqb x y
  | Drop, Drop => true
  | ToDae p l r, ToDae p' l' r' => Bool.eqb p p' && (l =? l') && frec_eqb r r'
  | Lost p l, Lost p' l' => Bool.eqb p p' && (l =? l')
  | _, _ => false
  end.
(* a Pass that writes the mark the packet already carries cannot be told from one that writes nothing *)
Definition norm_verdict (init : N) (v : verdict) : verdict :=
  match v with Pass None => Pass (Some init) | _ => v end.

Definition map_same {V} (veq : V -> V -> bool) (a b : list (fkey * V)) : bool :=
  Nat.eqb (length a) (length b) &&
  forallb (fun kv => match tab_get b (fst kv) with Some w => veq (snd kv) w | None => false end) a.
Fixpoint bytes_eqb (a b : list N) : bool :=
  match a, b with [] , [] => true | x :: a', y :: b' => (x =? y) && bytes_eqb a' b' | _, _ => false end.
Fixpoint raw_get (l : list (list N * list N)) (k : list N) : option (list N) :=
  match l with [] => None | (a, v) :: r => if bytes_eqb a k then Some v else raw_get r k end.
(* every record of the model, laid out as the C struct, is byte for byte what the implementation stored *)
Definition raw_same {V} (enc : V -> list N) (m : list (fkey * V)) (raw : list (list N * list N)) : bool :=
  Nat.eqb (length m) (length raw) &&
  forallb (fun kv => match raw_get raw (c_key_bytes (fst kv)) with Some b => bytes_eqb (enc (snd kv)) b | None => false end) m.

Record obs_step := {
  os_hook : hook; os_eth : bool; os_proto : N; os_pf : bool; os_lin : N; os_frame : list N;
  os_now : N; os_skb_mark : N; os_ingress_if : N; os_proc : option (N * N); os_sock : option (N * N);
  os_alive : list (N * N);
  os_route : option (rquery * Z);
  os_act : N; os_mark_after : N; os_cb0 : N; os_cb1 : N; os_redir : N; os_ifx : N; os_changed : bool;
  os_conn : list (fkey * cstate); os_conn_raw : list (list N * list N);
  os_hand : list (fkey * hentry); os_hand_raw : list (list N * list N);
  os_go_key : list N; os_go_res : option frec;
  os_defer : bool;                                   (* dae handles this redirected packet later *)
  os_recov : list (list N * option frec) }.         (* recoveries of earlier deferred packets, done now, in order *)
Record obs_case := { oc_param : param; oc_dae0 : N; oc_steps : list obs_step }.

Definition env_of (s : obs_step) : env :=
  mk_env (os_now s) (os_proto s =? 0x0800) (os_skb_mark s) (os_ingress_if s) (os_proc s) (os_sock s) (os_alive s)
         (fun q => match os_route s with
                   | Some (q0, w) => if rquery_eqb q q0 then w else (-1000)%Z
                   | None => (-1000)%Z
                   end).
Definition step_of (s : obs_step) : step :=
  mk_step (os_hook s) (env_of s) (os_eth s) (os_proto s) (os_pf s) (os_lin s) (os_frame s).
Definition forward_hook (h : hook) : bool := match h with HLanIngress | HWanEgress => true | _ => false end.

Definition impl_verdict (s : obs_step) : verdict :=
  if os_act s =? TC_ACT_SHOT then Drop
  else if os_act s =? TC_ACT_REDIRECT then
    match os_go_res s with
    | Some r => ToDae (os_redir s =? 2) (os_cb1 s) r
    | None => Lost (os_redir s =? 2) (os_cb1 s)
    end
  else Pass (Some (os_mark_after s)).

Definition spec_step (strict : bool) (P : param) (s : obs_step) (t : ftab) (p : packet) : option verdict * ftab :=
  match os_hook s with
  | HLanIngress => let '(v, t') := spec_lan_ingress P (env_of s) t p in (Some v, t')
  | HWanEgress => let '(v, t') := spec_wan_egress strict P (env_of s) t p in (Some v, t')
  | _ => (None, spec_reverse_hook (env_of s) t p)
  end.

(* the hypothesis of the refinement theorems, as a test *)
Definition wf_parse_b (r : Z * pctx) : bool :=
  negb (fst r =? 0)%Z ||
  (let c := snd r in
   if c_l4proto c =? IPPROTO_TCP then c_listener c =? (if tcp_flags_new (c_tcp c) then IPPROTO_TCP else 0)
   else if c_l4proto c =? IPPROTO_UDP then c_listener c =? IPPROTO_UDP
   else c_l4proto c =? IPPROTO_ICMPV6).

Definition optfrec_eqb (a b : option frec) : bool :=
  match a, b with Some x, Some y => frec_eqb x y | None, None => true | _, _ => false end.
(* recoveries observed on the implementation vs the model's, with the Go key bytes of each *)
Fixpoint recov_same (m : list (option frec)) (o : list (list N * option frec)) (keys : list (list N)) : bool :=
  match m, o, keys with
  | [], [], [] => true
  | x :: m', (kb, y) :: o', kk :: keys' => optfrec_eqb x y && bytes_eqb kb kk && recov_same m' o' keys'
  | _, _, _ => false
  end.
(* a packet whose handling is deferred is compared without its record *)
Definition defer_strip (d : bool) (v : verdict) : verdict :=
  if d then match v with ToDae p l _ => Lost p l | _ => v end else v.
(* every deferred packet's recovery returns the record of its flow (within the handoff window, and unless
   something other than a redirect of that tuple happened meanwhile) *)
Fixpoint pend_ok (pend : list (fkey * option frec * N * bool)) (o : list (list N * option frec)) (now : N) : bool :=
  match pend, o with
  | [], _ => true
  | (_, pr, pt, pc) :: pend', (_, y) :: o' =>
      (if pc && (now - pt <=? DOC_HANDOFF_NS) then optfrec_eqb pr y else true) && pend_ok pend' o' now
  | _ :: _, [] => false
  end.

(* codes: 1 impl<>model   2 impl<>spec (property as written, reference parser)   3 model<>spec as built (theorem re-observed)
          4 model<>spec as written (the model itself violates the property on this input)
          5 a passed frame was modified *)
Fixpoint check_steps (P : param) (dae0 : N) (steps : list obs_step) (st : kstate) (tstrict tbuilt : ftab) (n : N)
         (mfail : bool) (pend : list (fkey * option frec * N * bool)) : list (N * N) :=
  match steps with
  | [] => []
  | s :: rest =>
      let e := env_of s in
      let r := parse_transport (os_eth s) (os_proto s) (os_pf s) (os_lin s) (os_frame s) in
      let rref := parse_slow (os_eth s) (os_proto s) (os_frame s) in
      let h := run_hook P st (step_of s) in
      let k := p_key (classify r) in
      let redirected := h_act h =? TC_ACT_REDIRECT in
      let reached := forward_hook (os_hook s) && (fst (parse_packet r) =? 0)%Z &&
                     (match os_hook s with HWanEgress => os_ingress_if s =? 0 | _ => true end) in
      let handled := reached && negb (os_defer s) in
      let mark_after := match h_mark h with Some m => m | None => os_skb_mark s end in
      let ok_model :=
        (h_act h =? os_act s) && (mark_after =? os_mark_after s) &&
        (match h_cb h with Some (a, b) => (a =? os_cb0 s) && (b =? os_cb1 s) | None => (os_cb0 s =? 0) && (os_cb1 s =? 0) end) &&
        (if redirected then (os_redir s =? (if h_peer h then 2 else 1)) && (os_ifx s =? dae0) else os_redir s =? 0) &&
        (match h_query h, os_route s with
         | Some q, Some (q0, _) => rquery_eqb q q0 | None, None => true | _, _ => false end) &&
        map_same cstate_eqb (ks_conn (h_st h)) (os_conn s) && map_same hentry_eqb (ks_hand (h_st h)) (os_hand s) &&
        raw_same c_conn_bytes (ks_conn (h_st h)) (os_conn_raw s) && raw_same c_hand_bytes (ks_hand (h_st h)) (os_hand_raw s) &&
        (if handled
         then let '(mres, _) := recover_many go_recover (h_st h) (map (fun x => fst (fst (fst x))) pend ++ [k]) (os_now s) in
              recov_same mres (os_recov s ++ [(os_go_key s, os_go_res s)])
                         (map c_key_bytes (map (fun x => fst (fst (fst x))) pend ++ [k]))
         else match os_recov s with [] => true | _ => false end) in
      let '(vs, tstrict') := spec_step true P s tstrict (classify rref) in
      let '(vb, tbuilt') := spec_step false P s tbuilt (classify r) in
      let vm := observe h k (os_now s) in
      (* earlier deferred packets of this tuple: their record is the one published by the latest redirect *)
      let pend1 := map (fun x => let '(pk, pr, pt, pc) := x in
                                 if reached && fkey_eqb pk k
                                 then match vs with Some (ToDae _ _ r0) => (pk, Some r0, os_now s, pc) | _ => (pk, pr, pt, false) end
                                 else if forward_hook (os_hook s) then x else (pk, pr, pt, false)) pend in
      let ok_spec :=
        match vs with
        | Some v => verdict_eqb (defer_strip (os_defer s) (norm_verdict (os_skb_mark s) (impl_verdict s)))
                                (defer_strip (os_defer s) (norm_verdict (os_skb_mark s) v))
        | None => true
        end &&
        (if handled then pend_ok pend1 (os_recov s) (os_now s) else true) in
      let ok_thm := negb (wf_parse_b r) ||
        (match vb with Some v => verdict_eqb vm v | None => true end) &&
        map_same fentry_eqb (abs_conn (ks_conn (h_st h))) tbuilt' in
      let ok_mspec :=
        match vs with
        | Some v => verdict_eqb (norm_verdict (os_skb_mark s) vm) (norm_verdict (os_skb_mark s) v)
        | None => true
        end in
      let ok_untouched :=
        if forward_hook (os_hook s) && negb (os_act s =? TC_ACT_SHOT) && negb (os_act s =? TC_ACT_REDIRECT)
        then negb (os_changed s) else true in
      (* model-related disagreements (1,3,4) are reported once and the walk goes on: the comparison of the
         implementation with the specification does not depend on the model *)
      let merrs := if mfail then [] else
                     (if ok_model then [] else [(n, 1)]) ++ (if ok_thm then [] else [(n, 3)]) ++ (if ok_mspec then [] else [(n, 4)]) in
      let serrs := (if ok_spec then [] else [(n, 2)]) ++ (if ok_untouched then [] else [(n, 5)]) in
      let pend2 := if handled then []
                   else if reached && os_defer s && redirected
                        then pend1 ++ [match vs with Some (ToDae _ _ r0) => (k, Some r0, os_now s, true) | _ => (k, None, os_now s, false) end]
                        else pend1 in
      match serrs with
      | [] => merrs ++ check_steps P dae0 rest (h_st h) tstrict' tbuilt' (n + 1)
                                   (mfail || negb (ok_model && ok_thm && ok_mspec)) pend2
      | _ => merrs ++ serrs
      end
  end.

Definition check_case (c : obs_case) : list (N * N) :=
  check_steps (oc_param c) (oc_dae0 c) (oc_steps c) (mk_ks [] []) [] [] 0 false [].

(* branch signature of a sequence (for the evidence): per step hook, packet class, parse path, verdict kind,
   whether the rule program was consulted; folded into one number *)
Definition verdict_n (v : verdict) : N :=
  match v with Pass None => 0 | Pass (Some _) => 1 | Drop => 2 | ToDae _ _ _ => 3 | Lost _ _ => 4 end.
Definition hook_n (h : hook) : N := match h with HLanIngress => 0 | HWanEgress => 1 | HWanIngress => 2 | HLanEgress => 3 end.
Fixpoint sig_steps (P : param) (steps : list obs_step) (st : kstate) (acc : N) (todae : N) : N * N :=
  match steps with
  | [] => (acc, todae)
  | s :: rest =>
      let r := parse_transport (os_eth s) (os_proto s) (os_pf s) (os_lin s) (os_frame s) in
      let h := run_hook P st (step_of s) in
      let v := observe h (p_key (classify r)) (os_now s) in
      let fast := negb (fst (parse_fast (os_eth s) (os_proto s) (os_pf s) (os_lin s) (os_frame s)) =? -1)%Z in
      let code := hook_n (os_hook s) + 4 * pclass_n (p_class (classify r)) + 16 * verdict_n v
                  + 128 * (if fast then 1 else 0) + 256 * (match h_query h with Some _ => 1 | None => 0 end) in
      sig_steps P rest (h_st h) ((acc * 1009 + code + 1) mod 0xffffffffffff) (todae + (if verdict_n v =? 3 then 1 else 0))
  end.
Definition case_signature (c : obs_case) : N * N * N :=
  let '(a, t) := sig_steps (oc_param c) (oc_steps c) (mk_ks [] []) 0 0 in (a, t, N.of_nat (length (oc_steps c))).

(* ---------- janitor sweeps ---------- *)
(* oj_closing: per entry, whether its state byte is the one the kernel writes for a closing (FIN/RST seen) entry *)
Record obs_jan := { oj_sample : N; oj_aggr : bool; oj_stale : N; oj_entries : list (fkey * cstate); oj_closing : list bool;
                    oj_sel : list bool }.
Fixpoint bools_eqb (a b : list bool) : bool :=
  match a, b with [], [] => true | x :: a', y :: b' => Bool.eqb x y && bools_eqb a' b' | _, _ => false end.
(* codes: 1 impl<>model  2 impl<>spec (an ordinary sweep removes exactly the entries idle beyond their timeout at the
   sample, as integers)  3 model<>spec *)
Definition check_jan (c : obs_jan) : list N :=
  let m := map (fun kv => jan_code_selected (oj_aggr c) (oj_stale c) (oj_sample c) (fst kv) (snd kv)) (oj_entries c) in
  let sp := map (fun x => spec_jan_removes (oj_sample c) (fst (fst x)) (snd x) (cs_last (snd (fst x)))) (combine (oj_entries c) (oj_closing c)) in
  let ordinary := negb (oj_aggr c) && (oj_stale c =? 0) in
  (if bools_eqb m (oj_sel c) then [] else [1]) ++
  (if ordinary && negb (bools_eqb (oj_sel c) sp) then [2] else []) ++
  (if ordinary && negb (bools_eqb m sp) then [3] else []).
Definition jan_signature (c : obs_jan) : N :=
  let sel := N.of_nat (length (filter (fun b => b) (oj_sel c))) in
  let ahead := N.of_nat (length (filter (fun kv => oj_sample c <? cs_last (snd kv)) (oj_entries c))) in
  sel * 1000 + ahead * 10 + (if oj_aggr c then 2 else 0) + (if oj_stale c =? 0 then 0 else 1).
