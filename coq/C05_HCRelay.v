(* C05 - the relay simulation agrees with the closed-form half-close expectation (relay_matches_spec). *)
From Coq Require Import List NArith Bool Lia ZifyBool ZifyN ZifyNat.
From Dae Require Import C05_Spec C05_Model C05_HCDefs C05_Proofs.
From Dae.gen Require Import C05_Extracted.
Import ListNotations.
Open Scope N_scope.

(* ------------------------------------------------------------------ constants, basics *)
Lemma relay_buf_pos : 0 < c05_relay_buf.
Proof. reflexivity. Qed.
Lemma bufio_le_relay : (bufio_size <=? c05_relay_buf) = true.
Proof. reflexivity. Qed.

Lemma take_nonempty : forall n l, 0 < n -> l <> [] -> take n l <> [].
Proof.
  intros n l Hn Hl. unfold take. destruct (len l <=? n); [exact Hl|].
  destruct l as [|x l]; [congruence|]. destruct (N.to_nat n) eqn:E; [lia|]. cbn [firstn]. discriminate.
Qed.

Lemma has_close_write_all : forall c, has_close_write c = true.
Proof. induction c; cbn [has_close_write]; auto. Qed.

(* ------------------------------------------------------------------ transparent wrappers *)
Fixpoint transp (c : conn) : bool :=
  match c with
  | CSock => true
  | CBufio [] c' => transp c'
  | CPrefixed [] c' => transp c'
  | CSniffer [] None c' => transp c'
  | _ => false
  end.

Lemma conn_read_transp : forall c, transp c = true -> forall s now,
  conn_read c c05_relay_buf s now = let '(r, s', t) := sock_read now c05_relay_buf s in (r, c, s', t).
Proof.
  induction c as [|buf c IH|pre c IH|buf derr c IH]; intros H s now.
  - cbn [conn_read]. reflexivity.
  - destruct buf; [|discriminate]. cbn [transp] in H. cbn [conn_read]. rewrite bufio_le_relay.
    rewrite (IH H). destruct (sock_read now c05_relay_buf s) as [[r s'] t]. reflexivity.
  - destruct pre; [|discriminate]. cbn [transp] in H. cbn [conn_read].
    rewrite (IH H). destruct (sock_read now c05_relay_buf s) as [[r s'] t]. reflexivity.
  - destruct buf; [|discriminate]. destruct derr; [discriminate|]. cbn [transp] in H. cbn [conn_read].
    rewrite (IH H). destruct (sock_read now c05_relay_buf s) as [[r s'] t]. reflexivity.
Qed.

(* ------------------------------------------------------------------ one direction, abstractly *)
Definition dheld (d : dirst) : list N := match d_phase d with PStart => pending (d_stack d) | _ => [] end.
Definition dsent (d : dirst) : list N := d_out d ++ dheld d.
Definition dir_ok (d : dirst) : Prop :=
  d_cw d = 0 /\
  match d_phase d with PStart => ready_stack (d_stack d) | PLoop via => transp via = true | PDone _ => False end.
Definition dmeas (d : dirst) : nat := match d_phase d with PStart => 2 | PLoop _ => 1 | PDone _ => 0 end.

Lemma data_pending_not_block : forall s now n r s' t,
  data_pending s now = true -> sock_read now n s = (r, s', t) -> r_err r <> Some EBlock.
Proof.
  intros s now n r s' t Hp H. unfold data_pending in Hp. unfold sock_read in H.
  destruct (k_closed s); [discriminate|]. cbn [negb andb] in Hp.
  destruct (expired (k_dl s) now); [inversion H; subst; discriminate|].
  destruct (k_in s) as [|c rest]; [discriminate|].
  destruct (expired (k_dl s) (N.max now (c_at c))); inversion H; subst; discriminate.
Qed.

Lemma dir_step_cases : forall pend d s now d' s' t,
  dir_ok d -> dir_step pend d s now = (d', s', t) ->
  (s' = s /\ t = now /\ dir_ok d' /\ dsent d' = dsent d /\ (dmeas d' < dmeas d)%nat)
  \/ (exists r, sock_read now c05_relay_buf s = (r, s', t) /\ d_cw d' = 0 /\ d_out d' = dsent d ++ r_data r /\
        (step_blocks pend d s now = false -> r_err r <> Some EBlock) /\
        match r_err r with
        | None => exists via, d_phase d' = PLoop via /\ transp via = true
        | Some e => d_phase d' = PDone (if is_err (Some e) then Some e else None)
        end).
Proof.
  intros pend [ph st out nw cw cwat cwlen] s now d' s' t [Hcw Hph] H. cbn [d_cw d_phase d_stack] in *. subst cw.
  destruct ph as [|via|e]; [| |contradiction].
  - unfold dir_step in H. cbn [d_phase d_stack d_out d_nwrites d_cw d_cw_at d_cw_len] in H.
    assert (Hsilent : forall segs c1 d1, transp (continuation c1) = true ->
              d1 = mkD (PLoop (continuation c1)) c1 (out ++ segs) (nw + 1) 0 cwat cwlen ->
              pending st = segs ->
              (d1, s, now) = (d', s', t) ->
              s' = s /\ t = now /\ dir_ok d' /\ dsent d' = dsent (mkD PStart st out nw 0 cwat cwlen) /\
              (dmeas d' < dmeas (mkD PStart st out nw 0 cwat cwlen))%nat).
    { intros segs c1 d1 Ht -> Hp E. inversion E; subst.
      split; [reflexivity|]. split; [reflexivity|]. split; [split; [reflexivity|exact Ht]|].
      split; [|cbn [dmeas d_phase]; lia].
      unfold dsent, dheld. cbn [d_phase d_out d_stack]. now rewrite app_nil_r. }
    assert (Hread : forall segs c1, transp c1 = true -> transp (continuation c1) = true ->
              pending st = segs -> pend && data_pending s now = true ->
              (let '(r, c2, s2, t0) := conn_read c1 c05_relay_buf s now in
               let out0 := out ++ segs ++ r_data r in
               match r_err r with
               | Some e => (mkD (PDone (if is_err (Some e) then Some e else None)) c2 out0 (nw + 1) 0 cwat cwlen, s2, t0)
               | None => (mkD (PLoop (continuation c2)) c2 out0 (nw + 1) 0 cwat cwlen, s2, t0)
               end) = (d', s', t) ->
              exists r, sock_read now c05_relay_buf s = (r, s', t) /\ d_cw d' = 0 /\
                d_out d' = dsent (mkD PStart st out nw 0 cwat cwlen) ++ r_data r /\
                (step_blocks pend (mkD PStart st out nw 0 cwat cwlen) s now = false -> r_err r <> Some EBlock) /\
                match r_err r with
                | None => exists via, d_phase d' = PLoop via /\ transp via = true
                | Some e => d_phase d' = PDone (if is_err (Some e) then Some e else None)
                end).
    { intros segs c1 Ht Htc Hp Hdp E. rewrite (conn_read_transp _ Ht) in E.
      destruct (sock_read now c05_relay_buf s) as [[r s2] t2] eqn:Er. exists r.
      apply andb_true_iff in Hdp. destruct Hdp as [_ Hdp].
      pose proof (data_pending_not_block _ _ _ _ _ _ Hdp Er) as Hnb.
      unfold dsent, dheld. cbn [d_phase d_out d_stack]. rewrite Hp.
      destruct (r_err r) eqn:Ee; inversion E; subst; cbn [d_cw d_out d_phase];
        (split; [reflexivity|split; [reflexivity|split; [now rewrite app_assoc|split; [intros _; exact Hnb|]]]]).
      - reflexivity.
      - eexists; split; [reflexivity|exact Htc]. }
    destruct Hph as [->|[[b ->]|[[b ->]|[b ->]]]]; cbn [take_segments] in H.
    + inversion H; subst. left. repeat split; auto; cbn [dmeas d_phase]; lia.
    + destruct b as [|x b].
      * inversion H; subst. left. repeat split; auto; cbn [dmeas d_phase]; lia.
      * destruct (pend && data_pending s now) eqn:Edp.
        -- right. eapply (Hread (x :: b) (CBufio [] CSock)); eauto. cbn [pending]. now rewrite app_nil_r.
        -- left. eapply (Hsilent (x :: b) (CBufio [] CSock)); eauto. cbn [pending]. now rewrite app_nil_r.
    + destruct b as [|x b].
      * inversion H; subst. left. repeat split; auto; cbn [dmeas d_phase]; lia.
      * destruct (pend && data_pending s now) eqn:Edp.
        -- right. eapply (Hread (x :: b) (CPrefixed [] CSock)); eauto. cbn [pending]. now rewrite app_nil_r.
        -- left. eapply (Hsilent (x :: b) (CPrefixed [] CSock)); eauto. cbn [pending]. now rewrite app_nil_r.
    + destruct b as [|x b].
      * inversion H; subst. left. repeat split; auto; cbn [dmeas d_phase]; lia.
      * destruct (pend && data_pending s now) eqn:Edp.
        -- right. eapply (Hread (x :: b) (CSniffer [] None (CPrefixed [] CSock))); eauto.
           cbn [pending app]. now rewrite app_nil_r.
        -- left. eapply (Hsilent (x :: b) (CSniffer [] None (CPrefixed [] CSock))); eauto.
           cbn [pending app]. now rewrite app_nil_r.
  - unfold dir_step in H. cbn [d_phase d_stack d_out d_nwrites d_cw d_cw_at d_cw_len] in H.
    right. rewrite (conn_read_transp _ Hph) in H.
    destruct (sock_read now c05_relay_buf s) as [[r s2] t2] eqn:Er. exists r.
    assert (Hnb : step_blocks pend (mkD (PLoop via) st out nw 0 cwat cwlen) s now = false -> r_err r <> Some EBlock).
    { unfold step_blocks. cbn [d_phase]. rewrite (conn_read_transp _ Hph), Er. intros Hb Hr. rewrite Hr in Hb. discriminate. }
    unfold dsent, dheld. cbn [d_phase d_out d_stack]. rewrite app_nil_r.
    destruct (r_err r) eqn:Ee; inversion H; subst; cbn [d_cw d_out d_phase];
      (split; [reflexivity|split; [reflexivity|split; [reflexivity|split; [exact Hnb|]]]]).
    + reflexivity.
    + eexists; split; [reflexivity|exact Hph].
Qed.

(* ------------------------------------------------------------------ arrival scripts *)
Definition sock_wf (s : sock) : Prop := wf_chunks (k_in s) (k_eof s) /\ data_nonempty (k_in s).

Lemma sorted_from_all : forall l t, sorted_from t l -> forall c, In c l -> t <= c_at c.
Proof.
  induction l as [|a l IH]; cbn [sorted_from In]; intros t H c Hin; [contradiction|].
  destruct H as [H1 H2]. destruct Hin as [<-|Hin]; [exact H1|]. specialize (IH _ H2 _ Hin). lia.
Qed.

Lemma sorted_from_weaken : forall l t t', sorted_from t l -> t' <= t -> sorted_from t' l.
Proof. destruct l; cbn [sorted_from]; intros; [exact I|]. destruct H. split; [lia|assumption]. Qed.

Lemma wf_head_le : forall c rest eof, wf_chunks (c :: rest) eof ->
  (forall c', In c' (c :: rest) -> c_at c <= c_at c') /\
  (forall e, eof = Some e -> c_at c <= e).
Proof.
  intros c rest eof [Hs He]. cbn [sorted_from] in Hs. destruct Hs as [_ Hs]. split.
  - intros c' [<-|Hin]; [lia|]. eapply sorted_from_all; eauto.
  - intros e ->. apply (He c). now left.
Qed.

Lemma wf_tail : forall c rest eof, wf_chunks (c :: rest) eof -> wf_chunks rest eof.
Proof.
  intros c rest eof [Hs He]. cbn [sorted_from] in Hs. destruct Hs as [_ Hs]. split.
  - eapply sorted_from_weaken; eauto. lia.
  - intros c' Hin. apply He. now right.
Qed.

Lemma wf_rehead : forall c rest eof b, wf_chunks (c :: rest) eof -> wf_chunks (mkChunk (c_at c) b :: rest) eof.
Proof.
  intros c rest eof b [Hs He]. cbn [sorted_from] in Hs. destruct Hs as [H0 Hs]. split.
  - cbn [sorted_from c_at]. split; assumption.
  - intros c' [<-|Hin]; [cbn [c_at]; apply (He c); now left|apply He; now right].
Qed.

Definition quiet_until (now t : N) (s : sock) : Prop :=
  (forall c, In c (k_in s) -> t <= seen now (c_at c)) /\ (forall e, k_eof s = Some e -> t <= seen now e).

Lemma quiet_mono : forall now t t' s, t <= t' -> quiet_until now t' s -> quiet_until now t s.
Proof.
  intros now t t' s Hle [H1 H2]. split.
  - intros c Hc. specialize (H1 c Hc). lia.
  - intros e He. specialize (H2 e He). lia.
Qed.

Lemma sock_read_quiet : forall now n s r s' t,
  k_closed s = false -> k_dl s = None -> wf_chunks (k_in s) (k_eof s) ->
  sock_read now n s = (r, s', t) -> now <= t /\ quiet_until now t s.
Proof.
  intros now n [kin keof kdl kcl] r s' t Hc Hd Hwf H. cbn [k_closed k_dl k_in k_eof] in *. subst.
  unfold sock_read in H. cbn [k_closed k_dl k_in k_eof expired] in H. unfold quiet_until, seen. cbn [k_in k_eof].
  destruct kin as [|c rest].
  - destruct keof as [e|]; inversion H; subst; (split; [lia|]); (split; [intros c []|]); intros e' E; inversion E; subst; lia.
  - inversion H; subst. destruct (wf_head_le _ _ _ Hwf) as [H1 H2]. split; [lia|]. split.
    + intros c' Hin. specialize (H1 c' Hin). lia.
    + intros e E. specialize (H2 e E). lia.
Qed.

(* ------------------------------------------------------------------ expectation algebra *)
Definition shut1 (now : N) (cut : option N) (eof : option N) : bool :=
  match eof with Some e => olt (seen now e) cut | None => false end.
Definition pfx (a b : list N) (x : expectation) : expectation :=
  mkExp (a ++ x_up x) (b ++ x_down x) (x_up_shut x) (x_down_shut x) (x_alive x).
Definition xswap (x : expectation) : expectation :=
  mkExp (x_down x) (x_up x) (x_down_shut x) (x_up_shut x) (x_alive x).

Lemma pfx_pfx : forall a b a' b' x, pfx a b (pfx a' b' x) = pfx (a ++ a') (b ++ b') x.
Proof. intros. unfold pfx. cbn [x_up x_down x_up_shut x_down_shut x_alive]. now rewrite !app_assoc. Qed.
Lemma xswap_pfx : forall a b x, xswap (pfx a b x) = pfx b a (xswap x).
Proof. reflexivity. Qed.
Lemma expect_swap : forall grace t A B, expect grace t B A = xswap (expect grace t A B).
Proof.
  intros. unfold expect, xswap. cbv zeta. cbn [x_up x_down x_up_shut x_down_shut x_alive].
  f_equal. f_equal. apply orb_comm.
Qed.

Lemma deliverable_ext : forall now t cut l,
  (forall c, In c l -> seen t (c_at c) = seen now (c_at c)) -> deliverable t cut l = deliverable now cut l.
Proof.
  intros now t cut l H. unfold deliverable. f_equal. f_equal. apply filter_ext_in.
  intros c Hc. unfold seen_lt. now rewrite (H c Hc).
Qed.

Lemma deliverable_cons_in : forall t cut c rest,
  olt (seen t (c_at c)) cut = true -> deliverable t cut (c :: rest) = c_data c ++ deliverable t cut rest.
Proof. intros t cut c rest H. unfold deliverable. cbn [filter]. unfold seen_lt at 1. rewrite H. reflexivity. Qed.

Lemma deliverable_none : forall now cut l,
  (forall c, In c l -> cut <= seen now (c_at c)) -> deliverable now (Some cut) l = [].
Proof.
  intros now cut l. induction l as [|c l IH]; intros H; [reflexivity|].
  unfold deliverable. cbn [filter]. unfold seen_lt at 1. cbn [olt].
  assert (seen now (c_at c) <? cut = false) as -> by (specialize (H c (or_introl eq_refl)); lia).
  apply IH. intros c' Hc'. apply H. now right.
Qed.

Lemma seen_shift : forall now t x, now <= t -> t <= seen now x -> seen t x = seen now x.
Proof. unfold seen. intros. lia. Qed.

Lemma expect_shift : forall grace now t A B, now <= t -> quiet_until now t A -> quiet_until now t B ->
  expect grace t (sock_side A) (sock_side B) = expect grace now (sock_side A) (sock_side B).
Proof.
  intros grace now t A B Hle HA HB.
  assert (E : forall S, quiet_until now t S -> eof_seen t (sock_side S) = eof_seen now (sock_side S)).
  { intros S [_ H]. unfold eof_seen, sock_side. cbn [s_eof]. destruct (k_eof S) as [e|]; [|reflexivity].
    cbn [option_map]. f_equal. apply seen_shift; auto. }
  assert (F : forall S cut, quiet_until now t S -> before_cut t cut (sock_side S) = before_cut now cut (sock_side S)).
  { intros S cut [H _]. apply (deliverable_ext now t cut (k_in S)). intros c Hc. apply seen_shift; auto. }
  unfold expect, cut_of, shut_of. cbv zeta. rewrite !(E A HA), !(E B HB), !(F A _ HA), !(F B _ HB). reflexivity.
Qed.

Lemma cut_of_gt : forall grace t A B x, 0 < grace -> x <= t -> olt x (cut_of grace t A B) = true.
Proof.
  intros grace t A B x Hg Hx. unfold cut_of, eof_seen. destruct (s_eof B) as [e|]; [|reflexivity].
  cbn [option_map]. destruct (olt (seen t e) (option_map (seen t) (s_eof A))); [|reflexivity].
  cbn [olt]. unfold seen. lia.
Qed.

Lemma expect_head : forall grace t c rest eA B, 0 < grace -> c_at c <= t ->
  expect grace t (mkSide (c :: rest) eA) B = pfx (c_data c) [] (expect grace t (mkSide rest eA) B).
Proof.
  intros grace t c rest eA B Hg Hc. unfold expect, pfx. cbv zeta. cbn [x_up x_down x_up_shut x_down_shut x_alive app].
  change (cut_of grace t (mkSide (c :: rest) eA) B) with (cut_of grace t (mkSide rest eA) B).
  change (cut_of grace t B (mkSide (c :: rest) eA)) with (cut_of grace t B (mkSide rest eA)).
  change (shut_of t (cut_of grace t (mkSide rest eA) B) (mkSide (c :: rest) eA))
    with (shut_of t (cut_of grace t (mkSide rest eA) B) (mkSide rest eA)).
  f_equal. apply (deliverable_cons_in t (cut_of grace t (mkSide rest eA) B) c rest).
  apply cut_of_gt; auto. unfold seen. lia.
Qed.

Lemma expect_eof : forall grace t eL R, 0 < grace -> eL <= t -> wf_chunks (k_in R) (k_eof R) ->
  expect grace t (mkSide [] (Some eL)) (sock_side R) =
  mkExp [] (deliverable t (Some (t + grace)) (k_in R)) true (shut1 t (Some (t + grace)) (k_eof R)) false.
Proof.
  intros grace t eL R Hg He [_ Hwf]. unfold expect. cbv zeta.
  assert (HsL : seen t eL = t) by (unfold seen; lia).
  assert (EU : cut_of grace t (mkSide [] (Some eL)) (sock_side R) = None).
  { unfold cut_of, eof_seen, sock_side. cbn [s_eof option_map]. destruct (k_eof R) as [e|]; [|reflexivity].
    cbn [option_map olt]. rewrite HsL. assert (seen t e <? t = false) as -> by (unfold seen; lia). reflexivity. }
  rewrite EU.
  assert (SU : shut_of t None (mkSide [] (Some eL)) = true) by reflexivity.
  rewrite SU. cbn [orb negb].
  change (before_cut t None (mkSide [] (Some eL))) with (@nil N).
  unfold cut_of, shut_of, eof_seen, sock_side. cbn [s_eof option_map s_chunks]. rewrite HsL.
  change (before_cut t ?c (mkSide (k_in R) (k_eof R))) with (deliverable t c (k_in R)).
  destruct (k_eof R) as [e|] eqn:Ee; cbn [option_map olt shut1].
  - destruct (t <? seen t e) eqn:Elt.
    + reflexivity.
    + assert (Hse : seen t e = t) by (unfold seen in *; lia).
      f_equal.
      * unfold deliverable. f_equal. f_equal. apply filter_ext_in. intros c Hc. unfold seen_lt. cbn [olt].
        specialize (Hwf c Hc). cbn beta iota in Hwf. unfold seen in *. lia.
      * cbn [olt]. rewrite Hse. lia.
  - reflexivity.
Qed.

(* ------------------------------------------------------------------ one socket read against the prediction *)
Lemma read_total : forall now n s r s' t,
  sock_read now n s = (r, s', t) -> r_data r <> [] -> (total_len s' < total_len s)%nat.
Proof.
  intros now n s r s' t H Hne. apply sock_read_conserve in H. unfold total_len. rewrite <- H, app_length.
  destruct (r_data r); [congruence|cbn [length]; lia].
Qed.

Lemma readA : forall grace now s o r s' t,
  0 < grace -> k_closed s = false -> k_dl s = None -> sock_wf s -> wf_chunks (k_in o) (k_eof o) ->
  sock_read now c05_relay_buf s = (r, s', t) ->
  quiet_until now t o -> r_err r <> Some EBlock ->
  (r_err r = None /\ k_closed s' = false /\ k_dl s' = None /\ sock_wf s' /\ (total_len s' < total_len s)%nat /\
    forall a b, pfx a b (expect grace now (sock_side s) (sock_side o)) =
                pfx (a ++ r_data r) b (expect grace t (sock_side s') (sock_side o)))
  \/ (r_err r = Some EEof /\ s' = s /\ r_data r = [] /\
    forall a b, pfx a b (expect grace now (sock_side s) (sock_side o)) =
       mkExp a (b ++ deliverable t (Some (t + grace)) (k_in o)) true (shut1 t (Some (t + grace)) (k_eof o)) false).
Proof.
  intros grace now s o r s' t Hg Hc Hd [Hwf Hne] Hwo H Hq Hnb.
  destruct (sock_read_quiet _ _ _ _ _ _ Hc Hd Hwf H) as [Hle Hqs].
  pose proof (expect_shift grace now t s o Hle Hqs Hq) as Hsh.
  pose proof (read_total _ _ _ _ _ _ H) as Htot.
  destruct s as [kin keof kdl kcl]. cbn [k_closed k_dl k_in k_eof] in *. subst.
  unfold sock_read in H. cbn [k_closed k_dl k_in k_eof expired] in H.
  destruct kin as [|c rest].
  - destruct keof as [e|]; inversion H; subst; [|cbn [r_err] in Hnb; congruence].
    right. split; [reflexivity|]. split; [reflexivity|]. split; [reflexivity|]. intros a b.
    rewrite <- Hsh. unfold sock_side at 1. cbn [k_in k_eof]. rewrite expect_eof; auto; [|lia].
    unfold pfx. cbn [x_up x_down x_up_shut x_down_shut x_alive]. now rewrite app_nil_r.
  - inversion H; subst. clear H. left.
    assert (Hcd : c_data c <> []) by (exact (Forall_inv Hne)).
    pose proof (take_nonempty _ _ relay_buf_pos Hcd) as Htk.
    split; [reflexivity|]. split; [reflexivity|]. split; [reflexivity|]. split; [|split; [apply Htot; exact Htk|]].
    + unfold sock_wf. cbn [k_in k_eof]. destruct (drop c05_relay_buf (c_data c)) eqn:Ed.
      * split; [eapply wf_tail; eauto|exact (Forall_inv_tail Hne)].
      * split; [apply wf_rehead; auto|]. constructor; [cbn [c_data]; discriminate|exact (Forall_inv_tail Hne)].
    + intros a b. rewrite <- Hsh. unfold sock_side. cbn [k_in k_eof r_data].
      rewrite (expect_head grace _ c rest keof _ Hg) by lia.
      pose proof (take_drop c05_relay_buf (c_data c)) as Htd.
      destruct (drop c05_relay_buf (c_data c)) as [|x l] eqn:Ed.
      * rewrite app_nil_r in Htd. rewrite Htd. rewrite pfx_pfx, app_nil_r. reflexivity.
      * rewrite (expect_head grace _ (mkChunk (c_at c) (x :: l)) rest keof _ Hg) by (cbn [c_at]; lia).
        cbn [c_data]. rewrite !pfx_pfx, !app_nil_r. rewrite <- app_assoc, Htd. reflexivity.
Qed.

Lemma readB : forall now s r s' t cut,
  k_closed s = false -> k_dl s = Some cut -> now < cut -> sock_wf s ->
  sock_read now c05_relay_buf s = (r, s', t) ->
  now <= t /\
  ((r_err r = None /\ t < cut /\ k_closed s' = false /\ k_dl s' = Some cut /\ sock_wf s' /\
    (total_len s' < total_len s)%nat /\
    (forall a, a ++ deliverable now (Some cut) (k_in s) = (a ++ r_data r) ++ deliverable t (Some cut) (k_in s')) /\
    shut1 now (Some cut) (k_eof s) = shut1 t (Some cut) (k_eof s'))
  \/ (exists e, r_err r = Some e /\ e <> EBlock /\ r_data r = [] /\ s' = s /\
       deliverable now (Some cut) (k_in s) = [] /\
       shut1 now (Some cut) (k_eof s) = negb (is_err (Some e)))).
Proof.
  intros now s r s' t cut Hc Hd Hlt [Hwf Hne] H.
  pose proof (read_total _ _ _ _ _ _ H) as Htot.
  destruct s as [kin keof kdl kcl]. cbn [k_closed k_dl k_in k_eof] in *. subst.
  unfold sock_read in H. cbn [k_closed k_dl k_in k_eof expired dl_or] in H.
  assert (cut <=? now = false) as E0 by lia. rewrite E0 in H.
  destruct kin as [|c rest].
  - destruct keof as [e|].
    + destruct (cut <=? N.max now e) eqn:E1; inversion H; subst; (split; [lia|]); right.
      * exists ETimeout. repeat split; try discriminate. cbn [shut1 olt is_err negb]. unfold seen. lia.
      * exists EEof. repeat split; try discriminate. cbn [shut1 olt is_err negb]. unfold seen. lia.
    + inversion H; subst. split; [lia|]. right. exists ETimeout. repeat split; discriminate.
  - destruct (wf_head_le _ _ _ Hwf) as [H1 H2].
    destruct (cut <=? N.max now (c_at c)) eqn:E1; inversion H; subst; clear H; (split; [lia|]).
    + right. exists ETimeout. split; [reflexivity|]. split; [discriminate|]. split; [reflexivity|]. split; [reflexivity|].
      split.
      * apply deliverable_none. intros c' Hc'. specialize (H1 c' Hc'). unfold seen. lia.
      * cbn [is_err negb]. destruct keof as [e|]; [|reflexivity]. cbn [shut1 olt]. specialize (H2 e eq_refl).
        unfold seen. lia.
    + left.
      assert (Hcd : c_data c <> []) by (exact (Forall_inv Hne)).
      pose proof (take_nonempty _ _ relay_buf_pos Hcd) as Htk.
      set (t := N.max now (c_at c)) in *.
      split; [reflexivity|]. split; [lia|]. split; [reflexivity|]. split; [reflexivity|].
      split; [|split; [apply Htot; exact Htk|]].
      * unfold sock_wf. cbn [k_in k_eof]. destruct (drop c05_relay_buf (c_data c)) eqn:Ed.
        -- split; [eapply wf_tail; eauto|exact (Forall_inv_tail Hne)].
        -- split; [apply wf_rehead; auto|]. constructor; [cbn [c_data]; discriminate|exact (Forall_inv_tail Hne)].
      * split.
        -- intros a. cbn [k_in r_data].
           rewrite <- (deliverable_ext now t (Some cut) (c :: rest))
             by (intros c' Hc'; specialize (H1 c' Hc'); unfold seen; lia).
           assert (Hin : forall d, olt (seen t (c_at (mkChunk (c_at c) d))) (Some cut) = true)
             by (intros d; cbn [olt c_at]; unfold seen; lia).
           rewrite (deliverable_cons_in t (Some cut) c rest (Hin (c_data c))).
           pose proof (take_drop c05_relay_buf (c_data c)) as Htd.
           destruct (drop c05_relay_buf (c_data c)) as [|x l] eqn:Ed.
           ++ rewrite app_nil_r in Htd. rewrite Htd. now rewrite app_assoc.
           ++ rewrite (deliverable_cons_in t (Some cut) _ rest (Hin (x :: l))). cbn [c_data].
              rewrite <- Htd at 1. now rewrite !app_assoc.
        -- cbn [k_eof]. destruct keof as [e|]; [|reflexivity]. cbn [shut1 olt]. specialize (H2 e eq_refl).
           unfold seen. lia.
Qed.
(* ------------------------------------------------------------------ relay level *)
Ltac rsimp := cbn [y_now y_l2r y_r2l y_L y_R y_err y_end d_phase d_stack d_out d_nwrites d_cw d_cw_at d_cw_len
                   k_in k_eof k_dl k_closed] in *.

Definition dir_done (d : dirst) : Prop := running d = false /\ d_cw d = 1 /\ d_cw_len d = len (d_out d).
Definition armed (now : N) (s : sock) : Prop := k_closed s = false /\ exists cut, k_dl s = Some cut /\ now < cut.
Definition fresh (s : sock) : Prop := k_closed s = false /\ k_dl s = None.

Definition Inv (y : relay) : Prop :=
  sock_wf (y_L y) /\ sock_wf (y_R y) /\
  ( (dir_ok (y_l2r y) /\ dir_ok (y_r2l y) /\ fresh (y_L y) /\ fresh (y_R y))
  \/ (dir_done (y_l2r y) /\ dir_ok (y_r2l y) /\ armed (y_now y) (y_R y))
  \/ (dir_ok (y_l2r y) /\ dir_done (y_r2l y) /\ armed (y_now y) (y_L y))
  \/ (dir_done (y_l2r y) /\ dir_done (y_r2l y)) ).

Definition pred (grace : N) (y : relay) : expectation :=
  let dl := y_l2r y in let dr := y_r2l y in
  if running dl then
    if running dr then pfx (dsent dl) (dsent dr) (expect grace (y_now y) (sock_side (y_L y)) (sock_side (y_R y)))
    else mkExp (dsent dl ++ deliverable (y_now y) (k_dl (y_L y)) (k_in (y_L y))) (d_out dr)
               (shut1 (y_now y) (k_dl (y_L y)) (k_eof (y_L y))) (shut_clean dr) false
  else
    if running dr then mkExp (d_out dl) (dsent dr ++ deliverable (y_now y) (k_dl (y_R y)) (k_in (y_R y)))
                             (shut_clean dl) (shut1 (y_now y) (k_dl (y_R y)) (k_eof (y_R y))) false
    else mkExp (d_out dl) (d_out dr) (shut_clean dl) (shut_clean dr) false.

Definition measure (y : relay) : nat :=
  (total_len (y_L y) + total_len (y_R y) + dmeas (y_l2r y) + dmeas (y_r2l y))%nat.

Definition picked (pend left : bool) (y : relay) : Prop :=
  let tl := next_time pend (y_l2r y) (y_L y) (y_now y) in
  let tr := next_time false (y_r2l y) (y_R y) (y_now y) in
  if left then running (y_l2r y) = true /\ step_blocks pend (y_l2r y) (y_L y) (y_now y) = false /\
               (running (y_r2l y) = false \/ step_blocks false (y_r2l y) (y_R y) (y_now y) = true \/ tl <= tr)
  else running (y_r2l y) = true /\ step_blocks false (y_r2l y) (y_R y) (y_now y) = false /\
               (running (y_l2r y) = false \/ step_blocks pend (y_l2r y) (y_L y) (y_now y) = true \/ tr <= tl).

Lemma dir_ok_running : forall d, dir_ok d -> running d = true.
Proof. intros d [_ H]. unfold running. destruct (d_phase d); [reflexivity|reflexivity|contradiction]. Qed.

Lemma dmeas_ok : forall d, dir_ok d -> (1 <= dmeas d)%nat.
Proof. intros d [_ X]. unfold dmeas. destruct (d_phase d); [lia|lia|contradiction]. Qed.

Lemma sock_wf_set_dl : forall s x, sock_wf s -> sock_wf (set_dl s x).
Proof. intros s x H. exact H. Qed.
Lemma sock_wf_close : forall s, sock_wf s -> sock_wf (close_sock s).
Proof. intros s H. exact H. Qed.
Lemma total_set_dl : forall s x, total_len (set_dl s x) = total_len s.
Proof. reflexivity. Qed.
Lemma total_close : forall s, total_len (close_sock s) = total_len s.
Proof. reflexivity. Qed.

Lemma blocks_fresh : forall pend d s now, dir_ok d -> k_closed s = false -> k_dl s = None ->
  step_blocks pend d s now = true -> dheld d = [] /\ shut_clean d = false /\ k_in s = [] /\ k_eof s = None.
Proof.
  intros pend [ph st out nw cw cwat cwlen] [kin keof kdl kcl] now [_ Hph] Hc Hd H. rsimp. subst.
  unfold step_blocks in H. rsimp. destruct ph as [|via|e]; [discriminate| |contradiction].
  rewrite (conn_read_transp _ Hph) in H. unfold sock_read in H. rsimp. cbn [expired] in H.
  destruct kin as [|c rest]; [|discriminate]. destruct keof; [discriminate|].
  repeat split; reflexivity.
Qed.

Lemma other_quiet : forall pend d s now t,
  dir_ok d -> k_closed s = false -> k_dl s = None -> sock_wf s ->
  (running d = false \/ step_blocks pend d s now = true \/ t <= next_time pend d s now) -> quiet_until now t s.
Proof.
  intros pend d s now t Hok Hc Hd [Hwf _] [H|[H|H]].
  - rewrite (dir_ok_running _ Hok) in H. discriminate.
  - destruct (blocks_fresh _ _ _ _ Hok Hc Hd H) as [_ [_ [Hi He]]]. unfold quiet_until. rewrite Hi, He.
    split; [intros c []|intros e E; discriminate].
  - unfold next_time in H. destruct (dir_step pend d s now) as [[d' s'] t'] eqn:E.
    apply (quiet_mono now t t' s H).
    destruct (dir_step_cases _ _ _ _ _ _ _ Hok E) as [[_ [-> _]] | [r [Hr _]]].
    + unfold quiet_until, seen. split; intros; lia.
    + eapply sock_read_quiet; eauto.
Qed.

Lemma armed_not_blocks : forall pend d s now, dir_ok d -> armed now s -> sock_wf s -> step_blocks pend d s now = false.
Proof.
  intros pend d s now [_ Hph] [Hc [cut [Hd Hlt]]] Hw. unfold step_blocks.
  destruct (d_phase d) as [|via|e]; [reflexivity| |contradiction].
  rewrite (conn_read_transp _ Hph). destruct (sock_read now c05_relay_buf s) as [[r s'] t] eqn:Er.
  destruct (readB _ _ _ _ _ _ Hc Hd Hlt Hw Er) as [_ [[-> _] | [e [-> [Hne _]]]]]; [reflexivity|].
  destruct e; congruence.
Qed.

Lemma shut_clean_done : forall ph st out nw t,
  shut_clean (mkD (PDone ph) st out nw (0 + 1) t (len out)) = match ph with None => true | Some _ => false end.
Proof. intros. unfold shut_clean. rsimp. destruct ph; [reflexivity|]. rewrite ?N.eqb_refl. reflexivity. Qed.

Lemma advance_left_ok : forall grace pend y, 0 < grace -> Inv y -> picked pend true y ->
  Inv (advance grace pend true y) /\ (measure (advance grace pend true y) < measure y)%nat /\
  pred grace (advance grace pend true y) = pred grace y.
Proof.
  intros grace pend [now dl dr L R err en] Hg [HwL [HwR Hcase]] [Hrl [Hsbl Hoth]]. rsimp.
  unfold advance. rsimp.
  destruct (dir_step pend dl L now) as [[d' s'] t] eqn:Estep.
  assert (Hnt : next_time pend dl L now = t) by (unfold next_time; now rewrite Estep).
  destruct Hcase as [[Hdl [Hdr [[HcL HdL] [HcR HdR]]]] | [[[Hdl _] _] | [[Hdl [Hdr [HcL [cut [HdL Hlt]]]]] | [[Hdl _] _]]]];
    try (rewrite Hdl in Hrl; discriminate).
  - (* both running *)
    destruct (dir_step_cases _ _ _ _ _ _ _ Hdl Estep) as [[-> [-> [Hd' [Hs Hm]]]] | [r [Hr [Hcw [Hout [Hnb Hph]]]]]].
    + rewrite (dir_ok_running _ Hd'). split; [|split].
      * split; [exact HwL|]. split; [exact HwR|]. left. rsimp. split; [exact Hd'|]. split; [exact Hdr|]. split; split; assumption.
      * unfold measure. rsimp. clear - Hm. lia.
      * unfold pred. rsimp. rewrite (dir_ok_running _ Hd'), (dir_ok_running _ Hdl), (dir_ok_running _ Hdr), Hs. reflexivity.
    + destruct (sock_read_quiet _ _ _ _ _ _ HcL HdL (proj1 HwL) Hr) as [Hle HqL].
      assert (HqR : quiet_until now t R).
      { apply (other_quiet false dr R now t); auto. rewrite <- Hnt. exact Hoth. }
      destruct (readA grace now L R r s' t Hg HcL HdL HwL (proj1 HwR) Hr HqR (Hnb Hsbl))
        as [[He [Hc' [Hd'' [Hw' [Htot Hexp]]]]] | [He [-> [Hrd Hexp]]]]; rewrite He in Hph.
      * destruct Hph as [via [Hph Htr]].
        assert (Hok' : dir_ok d') by (split; [exact Hcw|rewrite Hph; exact Htr]).
        assert (Hs : dsent d' = dsent dl ++ r_data r) by (unfold dsent at 1, dheld; rewrite Hph, app_nil_r; exact Hout).
        rewrite (dir_ok_running _ Hok'). split; [|split].
        -- split; [exact Hw'|]. split; [exact HwR|]. left. rsimp. split; [exact Hok'|]. split; [exact Hdr|]. split; split; assumption.
        -- unfold measure. rsimp. assert (Hm2 : dmeas d' = 1%nat) by (unfold dmeas; now rewrite Hph).
           pose proof (dmeas_ok _ Hdl) as Hm1. clear - Htot Hm1 Hm2. lia.
        -- unfold pred. rsimp. rewrite (dir_ok_running _ Hok'), (dir_ok_running _ Hdl), (dir_ok_running _ Hdr), Hs.
           symmetry. apply Hexp.
      * cbn [is_err] in Hph. destruct d' as [ph' st' out' nw' cw' cwat' cwlen']. rsimp. subst ph' cw'.
        cbn [running d_phase]. unfold finish. rsimp.
        split; [|split].
        -- split; [exact HwL|]. split; [apply sock_wf_set_dl; exact HwR|]. right. left. rsimp.
           split; [repeat split; reflexivity|]. split; [exact Hdr|]. split; [exact HcR|].
           exists (t + grace). split; [reflexivity|lia].
        -- unfold measure. rsimp. rewrite total_set_dl. cbn [dmeas d_phase].
           pose proof (dmeas_ok _ Hdl) as Hm1. clear - Hm1. lia.
        -- unfold pred. rsimp. cbn [running d_phase]. rewrite (dir_ok_running _ Hdl), (dir_ok_running _ Hdr).
           rewrite shut_clean_done. rewrite Hexp. rewrite Hout, Hrd, app_nil_r. reflexivity.
  - (* r2l done, L armed *)
    destruct (dir_step_cases _ _ _ _ _ _ _ Hdl Estep) as [[-> [-> [Hd' [Hs Hm]]]] | [r [Hr [Hcw [Hout [Hnb Hph]]]]]].
    + rewrite (dir_ok_running _ Hd'). split; [|split].
      * split; [exact HwL|]. split; [exact HwR|]. right. right. left. rsimp.
        split; [exact Hd'|]. split; [exact Hdr|]. split; [exact HcL|]. exists cut; auto.
      * unfold measure. rsimp. clear - Hm. lia.
      * unfold pred. rsimp. rewrite (dir_ok_running _ Hd'), (dir_ok_running _ Hdl), (proj1 Hdr), Hs. reflexivity.
    + destruct (readB _ _ _ _ _ _ HcL HdL Hlt HwL Hr)
        as [Hle [[He [Hlt' [Hc' [Hd'' [Hw' [Htot [Hdel Hsh]]]]]]] | [e [He [Hne [Hrd [-> [Hdel Hsh]]]]]]]]; rewrite He in Hph.
      * destruct Hph as [via [Hph Htr]].
        assert (Hok' : dir_ok d') by (split; [exact Hcw|rewrite Hph; exact Htr]).
        assert (Hs : dsent d' = dsent dl ++ r_data r) by (unfold dsent at 1, dheld; rewrite Hph, app_nil_r; exact Hout).
        rewrite (dir_ok_running _ Hok'). split; [|split].
        -- split; [exact Hw'|]. split; [exact HwR|]. right. right. left. rsimp.
           split; [exact Hok'|]. split; [exact Hdr|]. split; [exact Hc'|]. exists cut; auto.
        -- unfold measure. rsimp. assert (Hm2 : dmeas d' = 1%nat) by (unfold dmeas; now rewrite Hph).
           pose proof (dmeas_ok _ Hdl) as Hm1. clear - Htot Hm1 Hm2. lia.
        -- unfold pred. rsimp. rewrite (dir_ok_running _ Hok'), (dir_ok_running _ Hdl), (proj1 Hdr), Hs.
           rewrite Hd'', HdL, <- Hdel, <- Hsh. reflexivity.
      * destruct d' as [ph' st' out' nw' cw' cwat' cwlen']. rsimp. subst ph' cw'.
        cbn [running d_phase]. unfold finish. rsimp.
        pose proof (dmeas_ok _ Hdl) as Hm.
        destruct (is_err (Some e)) eqn:Eie; rsimp; (split; [|split]).
        -- split; [apply sock_wf_close; exact HwL|]. split; [apply sock_wf_close; exact HwR|]. right. right. right. rsimp.
           split; [repeat split; reflexivity|exact Hdr].
        -- unfold measure. rsimp. rewrite !total_close. cbn [dmeas d_phase]. clear - Hm. lia.
        -- unfold pred. rsimp. cbn [running d_phase]. rewrite (dir_ok_running _ Hdl), (proj1 Hdr).
           rewrite shut_clean_done. rewrite HdL, Hdel, Hsh, Hout, Hrd, !app_nil_r. reflexivity.
        -- split; [exact HwL|]. split; [apply sock_wf_set_dl; exact HwR|]. right. right. right. rsimp.
           split; [repeat split; reflexivity|exact Hdr].
        -- unfold measure. rsimp. rewrite total_set_dl. cbn [dmeas d_phase]. clear - Hm. lia.
        -- unfold pred. rsimp. cbn [running d_phase]. rewrite (dir_ok_running _ Hdl), (proj1 Hdr).
           rewrite shut_clean_done. rewrite HdL, Hdel, Hsh, Hout, Hrd, !app_nil_r. reflexivity.
Qed.

Lemma swapA : forall g n t A A' B x,
  (forall a b, pfx a b (expect g n A B) = pfx (a ++ x) b (expect g t A' B)) ->
  forall a b, pfx a b (expect g n B A) = pfx a (b ++ x) (expect g t B A').
Proof.
  intros g n t A A' B x H a b. rewrite (expect_swap g n A B), (expect_swap g t A' B), <- !xswap_pfx.
  f_equal. apply H.
Qed.

Lemma swapA_eof : forall g n A B dv sh,
  (forall a b, pfx a b (expect g n A B) = mkExp a (b ++ dv) true sh false) ->
  forall a b, pfx a b (expect g n B A) = mkExp (a ++ dv) b sh true false.
Proof. intros g n A B dv sh H a b. rewrite (expect_swap g n A B), <- xswap_pfx, H. reflexivity. Qed.

Lemma advance_right_ok : forall grace pend y, 0 < grace -> Inv y -> picked pend false y ->
  Inv (advance grace pend false y) /\ (measure (advance grace pend false y) < measure y)%nat /\
  pred grace (advance grace pend false y) = pred grace y.
Proof.
  intros grace pend [now dl dr L R err en] Hg [HwL [HwR Hcase]] [Hrr [Hsbr Hoth]]. rsimp.
  unfold advance. rsimp.
  destruct (dir_step false dr R now) as [[d' s'] t] eqn:Estep.
  assert (Hnt : next_time false dr R now = t) by (unfold next_time; now rewrite Estep).
  destruct Hcase as [[Hdl [Hdr [[HcL HdL] [HcR HdR]]]] | [[Hdl [Hdr [HcR [cut [HdR Hlt]]]]] | [[_ [[Hdr _] _]] | [_ [Hdr _]]]]];
    try (rewrite Hdr in Hrr; discriminate).
  - (* both running *)
    destruct (dir_step_cases _ _ _ _ _ _ _ Hdr Estep) as [[-> [-> [Hd' [Hs Hm]]]] | [r [Hr [Hcw [Hout [Hnb Hph]]]]]].
    + rewrite (dir_ok_running _ Hd'). split; [|split].
      * split; [exact HwL|]. split; [exact HwR|]. left. rsimp. split; [exact Hdl|]. split; [exact Hd'|]. split; split; assumption.
      * unfold measure. rsimp. clear - Hm. lia.
      * unfold pred. rsimp. rewrite (dir_ok_running _ Hd'), (dir_ok_running _ Hdl), (dir_ok_running _ Hdr), Hs. reflexivity.
    + destruct (sock_read_quiet _ _ _ _ _ _ HcR HdR (proj1 HwR) Hr) as [Hle HqR].
      assert (HqL : quiet_until now t L).
      { apply (other_quiet pend dl L now t); auto. rewrite <- Hnt. exact Hoth. }
      destruct (readA grace now R L r s' t Hg HcR HdR HwR (proj1 HwL) Hr HqL (Hnb Hsbr))
        as [[He [Hc' [Hd'' [Hw' [Htot Hexp]]]]] | [He [-> [Hrd Hexp]]]]; rewrite He in Hph.
      * destruct Hph as [via [Hph Htr]].
        assert (Hok' : dir_ok d') by (split; [exact Hcw|rewrite Hph; exact Htr]).
        assert (Hs : dsent d' = dsent dr ++ r_data r) by (unfold dsent at 1, dheld; rewrite Hph, app_nil_r; exact Hout).
        rewrite (dir_ok_running _ Hok'). split; [|split].
        -- split; [exact HwL|]. split; [exact Hw'|]. left. rsimp. split; [exact Hdl|]. split; [exact Hok'|]. split; split; assumption.
        -- unfold measure. rsimp. assert (Hm2 : dmeas d' = 1%nat) by (unfold dmeas; now rewrite Hph).
           pose proof (dmeas_ok _ Hdr) as Hm1. clear - Htot Hm1 Hm2. lia.
        -- unfold pred. rsimp. rewrite (dir_ok_running _ Hok'), (dir_ok_running _ Hdl), (dir_ok_running _ Hdr), Hs.
           symmetry. apply (swapA _ _ _ _ _ _ _ Hexp).
      * cbn [is_err] in Hph. destruct d' as [ph' st' out' nw' cw' cwat' cwlen']. rsimp. subst ph' cw'.
        cbn [running d_phase]. unfold finish. rsimp. rewrite has_close_write_all.
        split; [|split].
        -- split; [apply sock_wf_set_dl; exact HwL|]. split; [exact HwR|]. right. right. left. rsimp.
           split; [exact Hdl|]. split; [repeat split; reflexivity|]. split; [exact HcL|].
           exists (t + grace). split; [reflexivity|lia].
        -- unfold measure. rsimp. rewrite total_set_dl. cbn [dmeas d_phase].
           pose proof (dmeas_ok _ Hdr) as Hm1. clear - Hm1. lia.
        -- unfold pred. rsimp. cbn [running d_phase]. rewrite (dir_ok_running _ Hdl), (dir_ok_running _ Hdr).
           rewrite shut_clean_done. rewrite (swapA_eof _ _ _ _ _ _ Hexp). rewrite Hout, Hrd, app_nil_r. reflexivity.
  - (* l2r done, R armed *)
    destruct (dir_step_cases _ _ _ _ _ _ _ Hdr Estep) as [[-> [-> [Hd' [Hs Hm]]]] | [r [Hr [Hcw [Hout [Hnb Hph]]]]]].
    + rewrite (dir_ok_running _ Hd'). split; [|split].
      * split; [exact HwL|]. split; [exact HwR|]. right. left. rsimp.
        split; [exact Hdl|]. split; [exact Hd'|]. split; [exact HcR|]. exists cut; auto.
      * unfold measure. rsimp. clear - Hm. lia.
      * unfold pred. rsimp. rewrite (dir_ok_running _ Hd'), (dir_ok_running _ Hdr), (proj1 Hdl), Hs. reflexivity.
    + destruct (readB _ _ _ _ _ _ HcR HdR Hlt HwR Hr)
        as [Hle [[He [Hlt' [Hc' [Hd'' [Hw' [Htot [Hdel Hsh]]]]]]] | [e [He [Hne [Hrd [-> [Hdel Hsh]]]]]]]]; rewrite He in Hph.
      * destruct Hph as [via [Hph Htr]].
        assert (Hok' : dir_ok d') by (split; [exact Hcw|rewrite Hph; exact Htr]).
        assert (Hs : dsent d' = dsent dr ++ r_data r) by (unfold dsent at 1, dheld; rewrite Hph, app_nil_r; exact Hout).
        rewrite (dir_ok_running _ Hok'). split; [|split].
        -- split; [exact HwL|]. split; [exact Hw'|]. right. left. rsimp.
           split; [exact Hdl|]. split; [exact Hok'|]. split; [exact Hc'|]. exists cut; auto.
        -- unfold measure. rsimp. assert (Hm2 : dmeas d' = 1%nat) by (unfold dmeas; now rewrite Hph).
           pose proof (dmeas_ok _ Hdr) as Hm1. clear - Htot Hm1 Hm2. lia.
        -- unfold pred. rsimp. rewrite (dir_ok_running _ Hok'), (dir_ok_running _ Hdr), (proj1 Hdl), Hs.
           rewrite Hd'', HdR, <- Hdel, <- Hsh. reflexivity.
      * destruct d' as [ph' st' out' nw' cw' cwat' cwlen']. rsimp. subst ph' cw'.
        cbn [running d_phase]. unfold finish. rsimp. rewrite has_close_write_all.
        pose proof (dmeas_ok _ Hdr) as Hm.
        destruct (is_err (Some e)) eqn:Eie; rsimp; (split; [|split]).
        -- split; [apply sock_wf_close; exact HwL|]. split; [apply sock_wf_close; exact HwR|]. right. right. right. rsimp.
           split; [exact Hdl|repeat split; reflexivity].
        -- unfold measure. rsimp. rewrite !total_close. cbn [dmeas d_phase]. clear - Hm. lia.
        -- unfold pred. rsimp. cbn [running d_phase]. rewrite (dir_ok_running _ Hdr), (proj1 Hdl).
           rewrite shut_clean_done. rewrite HdR, Hdel, Hsh, Hout, Hrd, !app_nil_r. reflexivity.
        -- split; [apply sock_wf_set_dl; exact HwL|]. split; [exact HwR|]. right. right. right. rsimp.
           split; [exact Hdl|repeat split; reflexivity].
        -- unfold measure. rsimp. rewrite total_set_dl. cbn [dmeas d_phase]. clear - Hm. lia.
        -- unfold pred. rsimp. cbn [running d_phase]. rewrite (dir_ok_running _ Hdr), (proj1 Hdl).
           rewrite shut_clean_done. rewrite HdR, Hdel, Hsh, Hout, Hrd, !app_nil_r. reflexivity.
Qed.

(* ------------------------------------------------------------------ the whole run *)
Definition act (p : relay * bool) : expectation :=
  mkExp (d_out (y_l2r (fst p))) (d_out (y_r2l (fst p))) (shut_clean (y_l2r (fst p))) (shut_clean (y_r2l (fst p))) (snd p).

Lemma pick_spec : forall rl rr sbl sbr prio tl tr,
  negb rl && negb rr = false -> (negb rl || sbl) && (negb rr || sbr) = false ->
  if (if negb rl || sbl then false else if negb rr || sbr then true
      else if tl <? tr then true else if tr <? tl then false else prio)
  then rl = true /\ sbl = false /\ (rr = false \/ sbr = true \/ tl <= tr)
  else rr = true /\ sbr = false /\ (rl = false \/ sbl = true \/ tr <= tl).
Proof.
  intros rl rr sbl sbr prio tl tr H1 H2.
  destruct rl, rr, sbl, sbr; cbn [negb andb orb] in *; try discriminate; try (intuition; fail).
  destruct (tl <? tr) eqn:E1; [intuition lia|]. destruct (tr <? tl) eqn:E2; [intuition lia|].
  destruct prio; intuition lia.
Qed.

Lemma simulate_ok : forall grace pend prio fuel y, 0 < grace -> Inv y -> (measure y <= fuel)%nat ->
  act (simulate fuel grace pend prio y) = pred grace y.
Proof.
  intros grace pend prio fuel. induction fuel as [|f IH]; intros y Hg HI Hm.
  - cbn [simulate]. unfold act, pred. cbn [fst snd].
    assert (running (y_l2r y) = false /\ running (y_r2l y) = false) as [-> ->].
    { unfold measure in Hm. unfold running, dmeas in *.
      destruct (d_phase (y_l2r y)), (d_phase (y_r2l y)); try lia; auto. }
    reflexivity.
  - cbn [simulate].
    destruct (negb (running (y_l2r y)) && negb (running (y_r2l y))) eqn:E1.
    + unfold act, pred. cbn [fst snd]. apply andb_true_iff in E1. destruct E1 as [A B].
      apply negb_true_iff in A, B. rewrite A, B. reflexivity.
    + destruct ((negb (running (y_l2r y)) || step_blocks pend (y_l2r y) (y_L y) (y_now y)) &&
                (negb (running (y_r2l y)) || step_blocks false (y_r2l y) (y_R y) (y_now y))) eqn:E2.
      * (* quiescent: both directions block for ever *)
        unfold act. cbn [fst snd].
        destruct HI as [HwL [HwR [[Hdl [Hdr [[HcL HdL] [HcR HdR]]]] | [[Hdl [Hdr Harm]] | [[Hdl [Hdr Harm]] | [Hdl Hdr]]]]]].
        -- rewrite (dir_ok_running _ Hdl), (dir_ok_running _ Hdr) in E2. cbn [negb orb] in E2.
           apply andb_true_iff in E2. destruct E2 as [B1 B2].
           destruct (blocks_fresh _ _ _ _ Hdl HcL HdL B1) as [Hh1 [Hs1 [Hi1 He1]]].
           destruct (blocks_fresh _ _ _ _ Hdr HcR HdR B2) as [Hh2 [Hs2 [Hi2 He2]]].
           unfold pred. rewrite (dir_ok_running _ Hdl), (dir_ok_running _ Hdr). unfold dsent, sock_side.
           rewrite Hh1, Hh2, Hs1, Hs2, Hi1, Hi2, He1, He2.
           change (expect grace (y_now y) (mkSide [] None) (mkSide [] None)) with (mkExp [] [] false false true).
           unfold pfx. cbn [x_up x_down x_up_shut x_down_shut x_alive]. now rewrite !app_nil_r.
        -- rewrite (proj1 Hdl), (dir_ok_running _ Hdr), (armed_not_blocks false _ _ _ Hdr Harm HwR) in E2.
           cbn [negb orb andb] in E2. discriminate.
        -- rewrite (proj1 Hdr), (dir_ok_running _ Hdl), (armed_not_blocks pend _ _ _ Hdl Harm HwL) in E2.
           cbn [negb orb andb] in E2. discriminate.
        -- rewrite (proj1 Hdl), (proj1 Hdr) in E1. discriminate.
      * pose proof (pick_spec _ _ _ _ prio (next_time pend (y_l2r y) (y_L y) (y_now y))
                      (next_time false (y_r2l y) (y_R y) (y_now y)) E1 E2) as Hp.
        match goal with |- context [advance grace pend ?l y] => set (left := l) in * end.
        destruct left.
        -- destruct (advance_left_ok grace pend y Hg HI Hp) as [HI' [Hm' Hp']].
           rewrite IH; auto. clear - Hm Hm'. lia.
        -- destruct (advance_right_ok grace pend y Hg HI Hp) as [HI' [Hm' Hp']].
           rewrite IH; auto. clear - Hm Hm'. lia.
Qed.

Theorem relay_matches_spec : relay_matches_spec_stmt.
Proof.
  unfold relay_matches_spec_stmt.
  intros grace pend prio stack L R start Hrs Hg HdL HcL HdR HcR HwL HwR HnL HnR. cbv zeta.
  unfold run_relay.
  set (y0 := mkRelay start (new_dir stack) (new_dir CSock) L R false start).
  set (fuel := (total_len L + length (pending stack) + total_len R + 16)%nat).
  assert (HI : Inv y0).
  { split; [split; assumption|]. split; [split; assumption|]. left. unfold y0. rsimp.
    split; [split; [reflexivity|exact Hrs]|]. split; [split; [reflexivity|now left]|]. split; split; assumption. }
  assert (Hm : (measure y0 <= fuel)%nat).
  { unfold measure, fuel, y0. rsimp. cbn [dmeas new_dir d_phase]. lia. }
  pose proof (simulate_ok grace pend prio fuel y0 Hg HI Hm) as H.
  assert (Hp : pred grace y0 = pfx (pending stack) [] (expect grace start (sock_side L) (sock_side R))) by reflexivity.
  rewrite Hp in H. unfold act, pfx in H. injection H as H1 H2 H3 H4 H5. cbn [app] in H2.
  repeat split; assumption.
Qed.

Print Assumptions relay_matches_spec.
