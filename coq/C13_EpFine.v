(* C13 — finer model of UdpEndpointPool.GetOrCreate / createEndpointLocked: a caller is a thread with a
   program counter; its atomic steps end at the verif yield points of control/udp_endpoint_pool.go
     endpoint.getorcreate.after_stale_unlock   endpoint.create.after_generation
     endpoint.create.before_publish            endpoint.create.before_register
   and at the per-shard creation mutex.  Everything else (WriteTo, TrackUdpConnStateTuplePair,
   InvalidateDialerNetworkType, Reset, janitor sweep, clock) stays one atomic step and is interleaved with
   the callers' steps by the schedule.  No proofs in this file. *)
From Coq Require Import List Arith Bool.
From Dae Require Import C13_Spec C13_Model C13_EpModel.
Import ListNotations.

Inductive gpc :=
| GStart                      (* before the read-locked fast path *)
| GWaitLock                   (* fast path missed; before shard.createMu.Lock() *)
| GSlow (stale : option nat)  (* holds createMu; re-check done, stale entry deleted   [yield after_stale_unlock] *)
| GHaveGen (e : nat)          (* endpoint built, generation captured                  [yield after_generation] *)
| GBeforePublish (e : nat)    (*                                                      [yield before_publish] *)
| GBeforeRegister (e : nat)   (* published in the shard map                           [yield before_register] *)
| GDone (r : eres).

Record gthread := mkG { g_k : nat; g_d : nat; g_g : nat; g_out : nat; g_pc : gpc }.

Record fstate := mkF {
  f_p : pstate;
  f_thr : list gthread;
  f_lock : nat -> option nat;        (* key -> thread holding the creation mutex of the key's shard *)
  f_hand : list (nat * nat);         (* hand-outs: (thread, endpoint id), oldest first *)
  f_inval : list nat }.              (* ghost: endpoints hit by a health invalidation before they carried traffic *)

Inductive flabel := FThr (i : nat) | FOp (o : pop).

Definition finit (thr : list (nat * nat * nat * nat)) : fstate :=
  mkF p0 (map (fun x => match x with (k, d, g, out) => mkG k d g out GStart end) thr) (fun _ => None) [] [].

Definition set_gpc (s : fstate) (i : nat) (t : gthread) (pc : gpc) : list gthread :=
  upd (f_thr s) i (mkG (g_k t) (g_d t) (g_g t) (g_out t) pc).

(* does the source close the stale entry it removed in the slow path?  (extracted constant: the seeded
   defect of /verif/seeded/C13_1 drops this Close for dead / generation-stale entries) *)
Definition unlock (s : fstate) (k : nat) : nat -> option nat := fset (f_lock s) k None.

(* build the endpoint object: dial ok, drain ticket acquired, generation captured; not yet in the pool *)
Definition build_endpoint (p : pstate) (k d g : nat) : pstate * nat :=
  let e := length (p_eps p) in
  let u := mkU k d false 0 false false 0 false (S (S (p_epoch p d))) false g (Some g) false [] in
  (mkP (p_pool p) (p_eps p ++ [u]) (p_handles p ++ [e]) (p_epoch p) (S (p_dials p)) (p_tr p) (p_kdel p)
       (fset (p_drainc p) g (S (p_drainc p g))) (p_now p), e).

Definition cache_failure (p : pstate) (k d : nat) : pstate :=
  let e := length (p_eps p) in
  let m := mkU k d true (p_now p + failure_ttl) false false 0 false 0 false 0 None false [] in
  mkP (fset (p_pool p) k (Some e)) (p_eps p ++ [m]) (p_handles p) (p_epoch p) (S (p_dials p)) (p_tr p) (p_kdel p)
      (p_drainc p) (p_now p).

Definition u_with_registered (u : uep) : uep :=
  mkU (u_key u) (u_dialer u) (u_failed u) (u_exp u) (u_dead u) (u_closed u) (u_conn_closes u) (u_sent u) (u_gen u) true
      (u_owner u) (u_drain u) (u_cs_closed u) (u_tuples u).

Definition hand (s : fstate) (i : nat) (r : eres) : list (nat * nat) :=
  match r_ret r with Some e => f_hand s ++ [(i, e)] | None => f_hand s end.

Definition fstep_thr (s : fstate) (i : nat) : fstate :=
  match nth_error (f_thr s) i with
  | None => s
  | Some t =>
      let p := f_p s in
      let k := g_k t in
      match g_pc t with
      | GStart =>
          (* fast path under the read lock *)
          match p_pool p k with
          | Some e =>
              match nth_error (p_eps p) e with
              | Some u =>
                  if u_failed u
                  then if is_expired u (p_now p)
                       then mkF p (set_gpc s i t GWaitLock) (f_lock s) (f_hand s) (f_inval s)
                       else let r := mkER None false 1 in
                            mkF p (set_gpc s i t (GDone r)) (f_lock s) (hand s i r) (f_inval s)
                  else if stale p u
                       then mkF p (set_gpc s i t GWaitLock) (f_lock s) (f_hand s) (f_inval s)
                       else let '(p', r) := ep_reuse p e (g_g t) u in
                            mkF p' (set_gpc s i t (GDone r)) (f_lock s) (hand s i r) (f_inval s)
              | None => mkF p (set_gpc s i t GWaitLock) (f_lock s) (f_hand s) (f_inval s)
              end
          | None => mkF p (set_gpc s i t GWaitLock) (f_lock s) (f_hand s) (f_inval s)
          end
      | GWaitLock =>
          match f_lock s k with
          | Some _ => s                              (* blocked on createMu *)
          | None =>
              let lock := fset (f_lock s) k (Some i) in
              match p_pool p k with
              | Some e =>
                  match nth_error (p_eps p) e with
                  | Some u =>
                      if u_failed u
                      then if is_expired u (p_now p)
                           then mkF (set_pool p (fset (p_pool p) k None)) (set_gpc s i t (GSlow (Some e))) lock (f_hand s) (f_inval s)
                           else let r := mkER None false 1 in
                                mkF p (set_gpc s i t (GDone r)) (f_lock s) (hand s i r) (f_inval s)
                      else if stale p u
                           then mkF (set_pool p (fset (p_pool p) k None)) (set_gpc s i t (GSlow (Some e))) lock (f_hand s) (f_inval s)
                           else let '(p', r) := ep_reuse p e (g_g t) u in
                                mkF p' (set_gpc s i t (GDone r)) (f_lock s) (hand s i r) (f_inval s)
                  | None => mkF p (set_gpc s i t (GSlow None)) lock (f_hand s) (f_inval s)
                  end
              | None => mkF p (set_gpc s i t (GSlow None)) lock (f_hand s) (f_inval s)
              end
          end
      | GSlow oe =>
          (* staleToClose.Close(); createEndpointLocked: GetDialOption, dial, build, capture generation *)
          let p1 := match oe with Some e => ep_close p e | None => p end in
          match g_out t with
          | 2 => let r := mkER None true 2 in
                 mkF p1 (set_gpc s i t (GDone r)) (unlock s k) (f_hand s) (f_inval s)
          | 1 => let r := mkER None true 2 in
                 mkF (cache_failure p1 k (g_d t)) (set_gpc s i t (GDone r)) (unlock s k) (f_hand s) (f_inval s)
          | _ => let '(p2, e) := build_endpoint p1 k (g_d t) (g_g t) in
                 mkF p2 (set_gpc s i t (GHaveGen e)) (f_lock s) (f_hand s) (f_inval s)
          end
      | GHaveGen e =>
          (* prewarmResponseConn; RefreshTtlWithTime *)
          match nth_error (p_eps p) e with
          | Some u => mkF (set_ep p e (u_with_exp u (p_now p + nat_timeout))) (set_gpc s i t (GBeforePublish e))
                          (f_lock s) (f_hand s) (f_inval s)
          | None => s
          end
      | GBeforePublish e =>
          mkF (set_pool p (fset (p_pool p) k (Some e))) (set_gpc s i t (GBeforeRegister e)) (f_lock s) (f_hand s) (f_inval s)
      | GBeforeRegister e =>
          match nth_error (p_eps p) e with
          | Some u =>
              let r := mkER (Some e) true 0 in
              mkF (set_ep p e (u_with_registered u)) (set_gpc s i t (GDone r)) (unlock s k) (hand s i r) (f_inval s)
          | None => s
          end
      | GDone _ => s
      end
  end.

(* atomic calls of other threads; a health invalidation also marks (ghost) every endpoint of the dialer that
   exists and has not carried traffic, registered in the dialer bucket or not *)
Definition inval_hits (p : pstate) (d : nat) : list nat :=
  filter (fun e => match nth_error (p_eps p) e with
                   | Some u => negb (u_failed u) && (u_dialer u =? d) && negb (u_sent u) && negb (u_closed u)
                   | None => false end) (seq 0 (length (p_eps p))).

Definition fstep (s : fstate) (l : flabel) : fstate :=
  match l with
  | FThr i => fstep_thr s i
  | FOp (PGoc _ _ _ _) => s
  | FOp (PWrite h _ as o) | FOp (PTrack h _ as o) | FOp (PRemove h as o) =>
      (* only a caller that was handed the endpoint can write to it / register tuples on it / Remove it *)
      match nth_error (p_handles (f_p s)) h with
      | Some e => if existsb (fun x => snd x =? e) (f_hand s)
                  then mkF (fst (pstep (f_p s) o)) (f_thr s) (f_lock s) (f_hand s) (f_inval s)
                  else s
      | None => s
      end
  | FOp o =>
      let inv := match o with PInval d => f_inval s ++ inval_hits (f_p s) d | _ => f_inval s end in
      mkF (fst (pstep (f_p s) o)) (f_thr s) (f_lock s) (f_hand s) inv
  end.

Definition frun (thr : list (nat * nat * nat * nat)) (sched : list flabel) : fstate :=
  fold_left fstep sched (finit thr).

Definition gdone (t : gthread) : bool := match g_pc t with GDone _ => true | _ => false end.
Definition fquiescent (s : fstate) : bool := forallb gdone (f_thr s).
