From Coq Require Import List NArith Bool Lia ZifyBool ZifyN ZifyNat.
From Dae Require Import C17_Spec C17_Model C17_Capacity.
From Dae.gen Require Import Extracted_C17.
Import ListNotations.
Open Scope N_scope.

Lemma indices_from_bound : forall l i x, In x (indices_from i l) -> x < i + N.of_nat (List.length l).
Proof.
  induction l as [|b r IH]; intros i x H; cbn [indices_from] in H; [contradiction|].
  cbn [List.length]. destruct b.
  - destruct H as [<-|H]; [lia|]. specialize (IH (i + 1) x H). lia.
  - specialize (IH (i + 1) x H). lia.
Qed.

Lemma over_limit_lowered : forall p, max_match_set_len <? n_match_sets p = true -> compile p = WErr.
Proof. intros p H. unfold compile, build_userspace. rewrite H. reflexivity. Qed.

Lemma compile_never_crashes : forall p, compile p <> WCrashed.
Proof.
  intros p. unfold compile, build_userspace.
  destruct (max_match_set_len <? n_match_sets p) eqn:E; [discriminate|].
  replace (existsb (fun i => max_match_set_len <=? i) (indices_from 0 (lower p))) with false; [discriminate|].
  symmetry. apply not_true_is_false. intro H. apply existsb_exists in H. destruct H as [x [Hin Hx]].
  apply indices_from_bound in Hin. unfold n_match_sets in E. lia.
Qed.

Lemma compile_answers : forall p, compile p = WErr \/ compile p = WOk tt.
Proof.
  intros p. pose proof (compile_never_crashes p) as H.
  destruct (compile p) as [[]| |]; auto. contradiction.
Qed.

(* 400 conditions with three distinct keys each: 401 counted in conditions, 1201 match sets *)
Definition C17_wide_program : program := repeat [Cond true [1; 2; 3]] 400.

Lemma condition_guard_refuted :
  exists p, max_match_set_len <? n_match_sets p = true /\ compile_condition_guard p = WCrashed.
Proof. exists C17_wide_program. split; vm_compute; reflexivity. Qed.

(* ... and without a domain condition beyond the limit it is silently accepted *)
Definition C17_wide_quiet_program : program := repeat [Cond true [1; 2; 3]] 300 ++ repeat [Cond false [0]] 200.
Lemma condition_guard_accepts_oversized :
  exists p, max_match_set_len <? n_match_sets p = true /\ compile_condition_guard p = WOk tt.
Proof. exists C17_wide_quiet_program. split; vm_compute; reflexivity. Qed.

Lemma capacity_nonvacuous :
  n_conditions C17_wide_program = 400 /\ n_match_sets C17_wide_program = 1201 /\ compile C17_wide_program = WErr
  /\ compile (repeat [Cond true [1; 2; 3; 2]] 341) = WOk tt /\ n_match_sets (repeat [Cond true [1; 2; 3; 2]] 341) = 1024.
Proof. repeat split; vm_compute; reflexivity. Qed.
