(* C03 — lemmas. *)
From Coq Require Import List NArith ZArith Bool Lia.
From Dae Require Import C03_Spec C03_Model.
From Dae.gen Require Import C03_Consts C03_Layout.
Import ListNotations.
Open Scope N_scope.

(* ---------- constants and layouts (about the current declarations, by computation) ---------- *)
Lemma constants_documented_proof :
  TCP_CONN_STATE_ESTABLISHED_TIMEOUT_NS = DOC_TCP_IDLE_NS /\ TCP_CONN_STATE_CLOSING_TIMEOUT_NS = DOC_TCP_CLOSING_NS /\
  UDP_CONN_STATE_TIMEOUT_NS = DOC_UDP_IDLE_NS /\ TCP_CONN_STATE_UPDATE_INTERVAL_NS = DOC_REFRESH_NS /\
  UDP_CONN_STATE_UPDATE_INTERVAL_NS = DOC_REFRESH_NS /\ GO_HANDOFF_TIMEOUT_NS = DOC_HANDOFF_NS /\
  OUTBOUND_DIRECT = OUT_DIRECT /\ OUTBOUND_BLOCK = OUT_BLOCK /\
  GO_SLOTS_PER_OUTBOUND = 6 /\ GO_SLOTS_PER_DOMAIN * GO_DOMAIN_DATA_UDP = 4 /\ CONNECTIVITY_ENTRIES = 1536.
Proof. repeat split; reflexivity. Qed.

(* offsets the byte-level model uses (c_conn_bytes, c_hand_bytes, c_key_bytes, go_*_decode) *)
Definition MODEL_LAYOUT_conn_state : list N := [56; 0; 1; 8; 16; 20; 21; 22; 23; 24; 32; 48].
Definition MODEL_LAYOUT_handoff : list N := [48; 0; 8; 0; 4; 5; 11; 12; 28; 32].
Definition MODEL_LAYOUT_tuples_key : list N := [40; 0; 16; 32; 34; 36].
Lemma layouts_agree_proof :
  C_LAYOUT_conn_state = GO_LAYOUT_conn_state /\ C_LAYOUT_handoff = GO_LAYOUT_handoff /\ C_LAYOUT_tuples_key = GO_LAYOUT_tuples_key /\
  C_LAYOUT_conn_state = MODEL_LAYOUT_conn_state /\ C_LAYOUT_handoff = MODEL_LAYOUT_handoff /\ C_LAYOUT_tuples_key = MODEL_LAYOUT_tuples_key.
Proof. repeat split; reflexivity. Qed.

(* ---------- loop guard ---------- *)
Lemma no_recapture_proof :
  forall P e st ret pk,
    e_ingress_if e = 0 -> ret = 0%Z -> pid_is_control_plane P e = true ->
    (pp_l4 pk = IPPROTO_UDP \/ (pp_l4 pk = IPPROTO_TCP /\ tcp_flags_new (pp_tcp pk) = true)) ->
    let h := wan_egress P e st (ret, Some pk) in
    h_act h = TC_ACT_OK /\ h_mark h = None /\ h_st h = st.
Proof.
  intros P e st ret pk Hif Hret Hcp Hl4. subst ret. unfold wan_egress. rewrite Hif. cbn [N.eqb negb Z.eqb].
  destruct Hl4 as [Hu | [Ht Hn]].
  - rewrite Hu. cbn [N.eqb IPPROTO_UDP IPPROTO_TCP Pos.eqb]. unfold wan_egress_udp. rewrite Hcp. cbn. auto.
  - rewrite Ht. cbn [N.eqb IPPROTO_TCP Pos.eqb]. unfold wan_egress_tcp. rewrite Hn, Hcp. cbn. auto.
Qed.

Lemma fkey_eqb_refl : forall k, fkey_eqb k k = true.
Proof. intro k. unfold fkey_eqb. rewrite !N.eqb_refl. reflexivity. Qed.
Lemma tab_get_set_same : forall V (m : list (fkey * V)) k v, tab_get (tab_set m k v) k = Some v.
Proof.
  intros V m k v. induction m as [| [a w] r IH]; simpl.
  - rewrite fkey_eqb_refl. reflexivity.
  - destruct (fkey_eqb a k) eqn:E; simpl; rewrite E; [reflexivity | exact IH].
Qed.

(* ---------- tracked TCP flows follow the stored decision, whatever the rule program says ---------- *)
Definition with_route (e : env) (f : rquery -> Z) : env :=
  mk_env (e_now e) (e_v4 e) (e_skb_mark e) (e_ingress_if e) (e_proc e) (e_sock e) (e_alive e) f.

Lemma alive_with_route : forall e f o l d, wan_outbound_is_alive (with_route e f) o l d = wan_outbound_is_alive e o l d.
Proof. reflexivity. Qed.

(* LAN ingress, a TCP packet that is not a pure SYN: the result is a function of the tracked entry alone *)
Lemma lan_tcp_established_proof :
  forall P e st pk,
    pp_l4 pk = IPPROTO_TCP -> tcp_flags_new (pp_tcp pk) = false ->
    let tr := mark_tcp_seen (ks_conn st) (pp_key pk) false false (tcp_flags_finrst (pp_tcp pk)) no_args (e_now e) in
    let st1 := mk_ks (snd tr) (ks_hand st) in
    let h := lan_ingress P e st (0%Z, Some pk) in
    h_query h = None /\
    match fst tr with
    | None => h_act h = TC_ACT_OK /\ h_mark h = None /\ h_st h = st1
    | Some s =>
        if cs_has s =? 0 then h_act h = TC_ACT_OK /\ h_mark h = None /\ h_st h = st1
        else if cs_out s =? OUTBOUND_DIRECT then h_act h = TC_ACT_OK /\ h_mark h = Some (cs_mark s) /\ h_st h = st1
        else if cs_out s =? OUTBOUND_BLOCK then h_act h = TC_ACT_SHOT /\ h_st h = st1
        else if negb (wan_outbound_is_alive e (cs_out s) IPPROTO_TCP (k_dport (pp_key pk))) then h_act h = TC_ACT_SHOT /\ h_st h = st1
        else h_act h = TC_ACT_REDIRECT /\ h_cb h = Some (TPROXY_MARK, pp_listener pk) /\ h_peer h = P_peer P /\
             ks_conn (h_st h) = snd tr /\
             tab_get (ks_hand (h_st h)) (pp_key pk) =
               Some (mk_he (e_now e) (mk_rr (cs_mark s) (cs_must s) (pp_hsource pk) (cs_out s) 0 0 (cs_dscp s)))
    end.
Proof.
  intros P e st pk Hl4 Hnew. cbv zeta. unfold lan_ingress. cbn [Z.eqb negb].
  rewrite Hl4, Hnew. cbn [N.eqb IPPROTO_TCP Pos.eqb negb andb].
  destruct (mark_tcp_seen (ks_conn st) (pp_key pk) false false (tcp_flags_finrst (pp_tcp pk)) no_args (e_now e)) as [ts conn1] eqn:Hm.
  cbn [fst snd]. destruct ts as [s|]; [| cbn; auto].
  destruct (cs_has s =? 0); [cbn; auto|].
  destruct (cs_out s =? OUTBOUND_DIRECT); [cbn; auto|].
  destruct (cs_out s =? OUTBOUND_BLOCK); [cbn; auto|].
  destruct (wan_outbound_is_alive e (cs_out s) IPPROTO_TCP (k_dport (pp_key pk))) eqn:Ha; cbn [negb]; [| cbn; auto].
  unfold redirect_lan. cbn [h_query h_act h_cb h_peer h_st ks_conn ks_hand].
  repeat split; try reflexivity.
  apply tab_get_set_same.
Qed.

Lemma lan_tcp_sticky_proof :
  forall P e f st pk,
    pp_l4 pk = IPPROTO_TCP -> tcp_flags_new (pp_tcp pk) = false ->
    lan_ingress P (with_route e f) st (0%Z, Some pk) = lan_ingress P e st (0%Z, Some pk).
Proof.
  intros P e f st pk Hl4 Hnew. unfold lan_ingress. cbn [Z.eqb negb].
  rewrite Hl4, Hnew. cbn [N.eqb IPPROTO_TCP Pos.eqb negb andb]. reflexivity.
Qed.

(* WAN egress, same *)
Lemma wan_tcp_sticky_proof :
  forall P e f st pk,
    pp_l4 pk = IPPROTO_TCP -> tcp_flags_new (pp_tcp pk) = false ->
    wan_egress P (with_route e f) st (0%Z, Some pk) = wan_egress P e st (0%Z, Some pk).
Proof.
  intros P e f st pk Hl4 Hnew. unfold wan_egress. cbn [with_route e_ingress_if Z.eqb negb].
  destruct (negb (e_ingress_if e =? 0)); [reflexivity|].
  rewrite Hl4. cbn [N.eqb IPPROTO_TCP Pos.eqb]. unfold wan_egress_tcp. rewrite Hnew. reflexivity.
Qed.

Lemma wan_tcp_established_proof :
  forall P e st pk,
    e_ingress_if e = 0 -> pp_l4 pk = IPPROTO_TCP -> tcp_flags_new (pp_tcp pk) = false ->
    let tr := mark_tcp_seen (ks_conn st) (pp_key pk) false false (tcp_flags_finrst (pp_tcp pk)) no_args (e_now e) in
    let st1 := mk_ks (snd tr) (ks_hand st) in
    let h := wan_egress P e st (0%Z, Some pk) in
    h_query h = None /\
    match fst tr with
    | None => h_act h = TC_ACT_OK /\ h_st h = st1
    | Some s =>
        if cs_has s =? 0 then h_act h = TC_ACT_OK /\ h_st h = st1
        else if (cs_out s =? OUTBOUND_DIRECT) && (cs_mark s =? 0) then h_act h = TC_ACT_OK /\ h_st h = st1
        else if cs_out s =? OUTBOUND_BLOCK then h_act h = TC_ACT_SHOT /\ h_st h = st1
        else if negb (wan_outbound_is_alive e (cs_out s) IPPROTO_TCP (k_dport (pp_key pk))) then h_act h = TC_ACT_SHOT /\ h_st h = st1
        else h_act h = TC_ACT_REDIRECT /\ h_cb h = Some (TPROXY_MARK, 0) /\ h_peer h = false /\ ks_conn (h_st h) = snd tr
    end.
Proof.
  intros P e st pk Hif Hl4 Hnew. cbv zeta. unfold wan_egress. rewrite Hif. cbn [N.eqb negb Z.eqb].
  rewrite Hl4. cbn [N.eqb IPPROTO_TCP Pos.eqb]. unfold wan_egress_tcp. rewrite Hnew.
  destruct (mark_tcp_seen (ks_conn st) (pp_key pk) false false (tcp_flags_finrst (pp_tcp pk)) no_args (e_now e)) as [ts conn1] eqn:Hm.
  cbn [fst snd]. destruct ts as [s|]; [| cbn; auto].
  destruct (cs_has s =? 0); [cbn; auto|].
  unfold wan_tail, needs_control_plane. rewrite Hl4.
  destruct ((cs_out s =? OUTBOUND_DIRECT) && (cs_mark s =? 0)); cbn [negb]; [cbn; auto|].
  destruct (cs_out s =? OUTBOUND_BLOCK); [cbn; auto|].
  destruct (wan_outbound_is_alive e (cs_out s) IPPROTO_TCP (k_dport (pp_key pk))) eqn:Ha; cbn [negb]; [| cbn; auto].
  cbn. auto.
Qed.

(* tracking of a TCP flow ends only by a pure SYN or by its idle timeout: any other packet of the flow
   leaves an unexpired entry in place with its decision *)
Lemma tcp_tracking_persists_proof :
  forall m k wan_in fin_rst now s,
    tab_get m k = Some s -> tcp_conn_state_expired s now = false ->
    exists s', fst (mark_tcp_seen m k wan_in false fin_rst no_args now) = Some s' /\
               cs_has s' = cs_has s /\ cs_out s' = cs_out s /\ cs_mark s' = cs_mark s /\ cs_must s' = cs_must s /\
               cs_mac s' = cs_mac s /\ cs_pname s' = cs_pname s /\ cs_pid s' = cs_pid s /\ cs_dscp s' = cs_dscp s.
Proof.
  intros m k wan_in fin_rst now s Hg Hexp. unfold mark_tcp_seen. rewrite Hg, Hexp.
  cbn [fst]. eexists. split; [reflexivity|].
  unfold apply_routing, no_args, a_rt.
  destruct (gt (sub64 now (cs_last s)) TCP_CONN_STATE_UPDATE_INTERVAL_NS); destruct fin_rst; cbn; repeat split; reflexivity.
Qed.

(* ---------- UDP flows: a stored decision is followed; WAN "direct, no mark" decisions are not stored ---------- *)
Lemma lan_udp_sticky_proof :
  forall P e f st pk,
    pp_l4 pk = IPPROTO_UDP -> is_short_lived_udp_traffic (pp_key pk) = false ->
    cs_has (fst (mark_udp_seen (ks_conn st) (pp_key pk) false (mk_args None None None (pp_dscp pk) 0) (e_now e))) =? 0 = false ->
    lan_ingress P (with_route e f) st (0%Z, Some pk) = lan_ingress P e st (0%Z, Some pk).
Proof.
  intros P e f st pk Hl4 Hs Hhas. unfold lan_ingress. cbn [Z.eqb negb].
  rewrite Hl4, Hs. cbn [N.eqb IPPROTO_UDP IPPROTO_TCP Pos.eqb negb andb].
  cbn [with_route e_now].
  destruct (mark_udp_seen (ks_conn st) (pp_key pk) false (mk_args None None None (pp_dscp pk) 0) (e_now e)) as [us conn1] eqn:Hm.
  cbn [fst] in Hhas. rewrite Hhas. cbn [negb].
  destruct (cs_wan_in us); [reflexivity|].
  destruct (cs_out us =? OUTBOUND_DIRECT); [reflexivity|].
  destruct (cs_out us =? OUTBOUND_BLOCK); [reflexivity|].
  rewrite alive_with_route.
  destruct (wan_outbound_is_alive e (cs_out us) IPPROTO_UDP (k_dport (pp_key pk))); reflexivity.
Qed.

Lemma wan_udp_sticky_proof :
  forall P e f st pk,
    pp_l4 pk = IPPROTO_UDP -> is_short_lived_udp_traffic (pp_key pk) = false ->
    cs_has (fst (mark_udp_seen (ks_conn st) (pp_key pk) false no_args (e_now e))) =? 0 = false ->
    wan_egress P (with_route e f) st (0%Z, Some pk) = wan_egress P e st (0%Z, Some pk).
Proof.
  intros P e f st pk Hl4 Hs Hhas. unfold wan_egress. cbn [with_route e_ingress_if Z.eqb negb].
  destruct (negb (e_ingress_if e =? 0)); [reflexivity|].
  rewrite Hl4. cbn [N.eqb IPPROTO_UDP IPPROTO_TCP Pos.eqb]. unfold wan_egress_udp.
  change (pid_is_control_plane P (with_route e f)) with (pid_is_control_plane P e).
  destruct (pid_is_control_plane P e); [reflexivity|].
  rewrite Hs. cbn [negb]. cbn [with_route e_now].
  destruct (mark_udp_seen (ks_conn st) (pp_key pk) false no_args (e_now e)) as [us conn1] eqn:Hm.
  cbn [fst] in Hhas.
  destruct (cs_wan_in us); [reflexivity|].
  rewrite Hhas. cbn [negb]. reflexivity.
Qed.

(* the full sticky clause for locally originated UDP: after a first packet decided by the rules, a second
   packet of the still tracked flow does not depend on the rules.  Witness against it: *)
Definition udp_frame_pk : ppkt :=
  mk_ppkt 0x0800 0x020000000002 (mk_fkey 0xffff0a000002 0xffff01020304 40000 443 17) 0 z_tcp 17 17.
Definition sticky_env (now : N) (w : Z) : env := mk_env now true 0 0 (Some (1001, 0x6375726c)) None [(12, 1); (16, 1)] (fun _ => w).
Definition wan_udp_sticky_full : Prop :=
  forall P e1 e2 f st pk,
    pp_l4 pk = IPPROTO_UDP -> is_short_lived_udp_traffic (pp_key pk) = false ->
    e_ingress_if e1 = 0 -> e_ingress_if e2 = 0 ->
    e_now e1 <= e_now e2 -> e_now e2 - e_now e1 <= DOC_UDP_IDLE_NS -> e_now e2 < TWO64 ->
    let h1 := wan_egress P e1 st (0%Z, Some pk) in
    (exists q, h_query h1 = Some q /\ (0 <= e_route e1 q)%Z) ->
    h_act (wan_egress P (with_route e2 f) (h_st h1) (0%Z, Some pk)) = h_act (wan_egress P e2 (h_st h1) (0%Z, Some pk)).
Lemma wan_udp_sticky_refuted_proof : ~ wan_udp_sticky_full.
Proof.
  intro H.
  specialize (H (mk_param 77 0 false) (sticky_env 1000 0%Z) (sticky_env 2000 0%Z) (fun _ => 2%Z) (mk_ks [] []) udp_frame_pk).
  cbv zeta in H.
  assert (Hq : exists q, h_query (wan_egress (mk_param 77 0 false) (sticky_env 1000 0%Z) (mk_ks [] []) (0%Z, Some udp_frame_pk)) = Some q /\
                         (0 <= e_route (sticky_env 1000 0%Z) q)%Z).
  { eexists. split; [vm_compute; reflexivity | vm_compute; discriminate]. }
  specialize (H eq_refl eq_refl eq_refl eq_refl).
  assert (H1 : e_now (sticky_env 1000 0%Z) <= e_now (sticky_env 2000 0%Z)) by (vm_compute; discriminate).
  assert (H2 : e_now (sticky_env 2000 0%Z) - e_now (sticky_env 1000 0%Z) <= DOC_UDP_IDLE_NS) by (vm_compute; discriminate).
  assert (H3 : e_now (sticky_env 2000 0%Z) < TWO64) by (vm_compute; reflexivity).
  specialize (H H1 H2 H3 Hq). vm_compute in H. discriminate H.
Qed.
