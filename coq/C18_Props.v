(* C18 — property theorems only.  Each is closed by `exact` of a lemma of C18_Proofs.v.
   All theorems hold for EVERY classification function is_ip (netip.ParseAddr is one instance), every dial
   mode, every outbound index, every destination text/port and every sniffed byte string. *)
From Coq Require Import List NArith ZArith Bool String.
From Dae Require Import C18_GoStrings C18_ParseAddr C18_Spec C18_Model C18_Proofs.
From Dae.gen Require Import C18_Consts.
Import ListNotations.
Open Scope N_scope.

(* The whole decision table: whether the name is used, whether the flow is routed again, and — for the
   original address, for IP literals (bare or bracketed), for values that carry a port and for names
   without brackets — the endpoint (host, port) that Go's own address parser reads out of the target. *)
Theorem C18_table :
  forall (is_ip : str -> bool) (mode : dial_mode) (outbound : N) (dst : dest) (domain : str) (l : lookups),
    let k := knowledge_of is_ip l in
    let c := classify is_ip domain in
    let r := is_reserved outbound in
    let o := choose_dial_target is_ip mode outbound dst domain l in
    o_use_name o = spec_use_name is_ip mode r c k /\
    o_reroute o = spec_reroute is_ip mode r c k /\
    (dest_wf dst = true -> literal_clean c = true -> endpoint_constrained is_ip mode r c k = true ->
     denotes (o_target o) (spec_endpoint is_ip mode r (d_ip dst) (d_port dst) c k) = true).
Proof. exact choose_table. Qed.
Print Assumptions C18_table.

(* dial_mode ip, nothing sniffed, a built-in outbound, or an unverified name in mode domain:
   the target is exactly the original ip:port and the flow is not routed again. *)
Theorem C18_ip_when_not_allowed :
  forall (is_ip : str -> bool) mode outbound dst domain l,
    (mode = ModeIp \/ domain = [] \/ is_reserved outbound = true \/
     (mode = ModeDomain /\ genuine (knowledge_of is_ip l) = false)) ->
    let o := choose_dial_target is_ip mode outbound dst domain l in
    o_target o = dst_string dst /\ o_reroute o = false /\ o_dial_ip o = true.
Proof. exact ip_when_not_allowed. Qed.
Print Assumptions C18_ip_when_not_allowed.

(* the flow is routed again exactly in domain++ (always) and in domain with a genuine, non-address name *)
Theorem C18_reroute_iff :
  forall (is_ip : str -> bool) mode outbound dst domain l,
    let o := choose_dial_target is_ip mode outbound dst domain l in
    o_reroute o = true <->
    (is_reserved outbound = false /\ domain <> [] /\
     (mode = ModeDomainCao \/
      (mode = ModeDomain /\ ip_like is_ip (classify is_ip domain) = false /\ genuine (knowledge_of is_ip l) = true))).
Proof. exact reroute_iff. Qed.
Print Assumptions C18_reroute_iff.

(* never a malformed target: net.SplitHostPort accepts it and returns the endpoint of the table, a host
   without brackets and a port without colon or bracket.  Side conditions: the destination text is what
   netip prints (no brackets; no colon if IPv4) and a sniffed IP literal carries no bracket inside its
   zone identifier (see C18_wellformed_target_full / _refuted below). *)
Theorem C18_wellformed_target_partial :
  forall (is_ip : str -> bool) mode outbound dst domain l,
    let k := knowledge_of is_ip l in
    let c := classify is_ip domain in
    let r := is_reserved outbound in
    let o := choose_dial_target is_ip mode outbound dst domain l in
    dest_wf dst = true -> literal_clean c = true -> endpoint_constrained is_ip mode r c k = true ->
    exists h p, split_host_port (o_target o) = Some (h, p) /\
                (h, p) = spec_endpoint is_ip mode r (d_ip dst) (d_port dst) c k /\
                no_brackets h = true /\ no_brackets p = true /\ contains c_colon p = false.
Proof. exact wellformed_target. Qed.
Print Assumptions C18_wellformed_target_partial.

(* net.SplitHostPort inverts net.JoinHostPort (library models), the fact the above rests on *)
Theorem C18_join_then_split :
  forall h p, no_brackets h = true -> no_brackets p = true -> contains c_colon p = false ->
              split_host_port (join_host_port h p) = Some (h, p).
Proof. exact split_join_roundtrip. Qed.
Print Assumptions C18_join_then_split.

(* Histories.  For every finite history of DNS answers entering the cache (any keys and original
   deadlines, past or future), time steps and ChooseDialTarget calls (any arguments, any answer of the
   bootstrap resolvers to the verification probe), starting from the empty control plane at any time:
   every call decides exactly as the table says, where "resolved" means an earlier answer for the
   destination's family whose original TTL is still running and "verified" is the outcome of dae's own
   earlier probes of that very name (positive for good, negative for the negative-cache TTL). *)
Theorem C18_history_table :
  forall (is_ip : str -> bool) (mode : dial_mode) (now0 : Z) (h : list op),
    history_ok is_ip mode (init_state now0) [] h.
Proof. exact history_table. Qed.
Print Assumptions C18_history_table.

(* ... hence in mode domain the name is dialled only if it is genuine *)
Theorem C18_name_only_if_genuine :
  forall (is_ip : str -> bool) evs now outbound dst domain key o,
    step_ok is_ip ModeDomain evs now outbound dst domain key o -> o_use_name o = true ->
    (exists x, In (EvResolved key x) evs /\ (now < x)%Z) \/ (exists t, In (EvVerified domain t true) evs).
Proof. exact name_only_if_genuine. Qed.
Print Assumptions C18_name_only_if_genuine.

(* The full statement of well-formedness — no side condition on the sniffed literal, with Go's own
   ParseAddr as classification — is FALSE of the faithful model: *)
Definition C18_wellformed_target_full : Prop :=
  forall mode outbound dst domain l,
    let k := knowledge_of go_parse_addr l in
    let c := classify go_parse_addr domain in
    let r := is_reserved outbound in
    let o := choose_dial_target go_parse_addr mode outbound dst domain l in
    dest_wf dst = true -> endpoint_constrained go_parse_addr mode r c k = true ->
    exists h p, split_host_port (o_target o) = Some (h, p) /\
                (h, p) = spec_endpoint go_parse_addr mode r (d_ip dst) (d_port dst) c k.

(* witness: dial_mode domain+, sniffed value "::%[" (an IPv6 literal with zone "[" for netip.ParseAddr):
   the target is "[::%[]:443", which net.SplitHostPort rejects.  The same input is found and replayed on
   the implementation by the correspondence run (matcher iplit-zone-bracket). *)
Theorem C18_wellformed_target_refuted : ~ C18_wellformed_target_full.
Proof. exact wellformed_target_refuted. Qed.
Print Assumptions C18_wellformed_target_refuted.

(* OutboundIndex.IsReserved (an index with a name in String()) is exactly "outside the user-defined
   range", for every 8-bit outbound index: the built-in outbounds of the statement *)
Theorem C18_builtin_outbounds :
  forall outbound, (outbound < 256)%N -> is_reserved outbound = builtin_outbound outbound.
Proof. exact reserved_is_builtin. Qed.
Print Assumptions C18_builtin_outbounds.

(* reserved_outbounds (gen/C18_Consts.v) is the set of ALL 8-bit indices for which the real
   OutboundIndex.IsReserved answered true, evaluated exhaustively by the harness on every run; the theorem
   above says that set is exactly the complement of the user-defined range; in particular it contains
   direct and block *)
Theorem C18_builtin_direct_block :
  is_reserved outbound_direct = true /\ is_reserved outbound_block = true /\
  builtin_outbound outbound_direct = true /\ builtin_outbound outbound_block = true.
Proof. exact builtin_direct_block. Qed.
Print Assumptions C18_builtin_direct_block.

(* routeDial: every attempt of one call (the first dial and the retry after a local network failure)
   hands chooseProxyDialer the same sniffed name, hence the node gets the target of the decision table on
   EVERY dial of the flow.  (route_dial_retry_keeps_domain is read off the source of routeDial.) *)
Theorem C18_every_attempt_same_target :
  forall (is_ip : str -> bool) mode outbound dst domain l first_fails d,
    In d (route_dial_domains domain first_fails) ->
    d = domain /\ choose_dial_target is_ip mode outbound dst d l = choose_dial_target is_ip mode outbound dst domain l.
Proof. exact every_attempt_same_target. Qed.
Print Assumptions C18_every_attempt_same_target.

(* a retry on parameters without Domain does not have that property: domain+, "example.com" *)
Theorem C18_attempt_without_domain_refuted :
  exists mode outbound dst domain l d,
    In d (route_dial_domains_dropping domain true) /\
    o_target (choose_dial_target nv_is_ip mode outbound dst d l) <>
    o_target (choose_dial_target nv_is_ip mode outbound dst domain l).
Proof. exact attempt_without_domain_refuted. Qed.
Print Assumptions C18_attempt_without_domain_refuted.

(* NormalizeDomain (applied by the sniffers before the control plane sees the value) on the classes the
   statement names: "[literal]" becomes the literal and is then treated as an IP literal; a value that
   carries a port becomes its bare host, which has no bracket. *)
Theorem C18_normalize_classes :
  forall (is_ip : str -> bool),
    (forall a, no_brackets a = true -> normalize_lowered (c_lbr :: a ++ [c_rbr]) = a) /\
    (forall a x, no_brackets (x :: a) = true -> is_ip (x :: a) = true ->
                 classify is_ip (normalize_lowered (c_lbr :: (x :: a) ++ [c_rbr])) = CIpLit (x :: a)) /\
    (forall lt h p, has_suffix1 c_rbr lt = false -> split_host_port lt = Some (h, p) ->
                    normalize_lowered lt = h /\ no_brackets h = true).
Proof. exact normalize_classes. Qed.
Print Assumptions C18_normalize_classes.

(* From the raw sniffed value to the target.  lt = the sniffed value with blanks trimmed and lower-cased.
   For every lt whose host the spec names (spec_sniffed_host: names, names with a port, IPv4/IPv6 literals
   bare, bracketed, with a port, trailing dot; see C18_Spec.v), NormalizeDomain followed by
   ChooseDialTarget decides as the table says for the class of that host, and the target is well-formed:
   net.SplitHostPort accepts it, its host is the sniffed host (no bracket, no port) or the original IP,
   its port is the destination port. *)
Theorem C18_sniffed_to_target :
  forall (is_ip : str -> bool) mode outbound dst lt h l,
    spec_sniffed_host is_ip lt = Some h ->
    let k := knowledge_of is_ip l in
    let c := classify is_ip h in
    let r := is_reserved outbound in
    let o := choose_dial_target is_ip mode outbound dst (normalize_lowered lt) l in
    o_use_name o = spec_use_name is_ip mode r c k /\
    o_reroute o = spec_reroute is_ip mode r c k /\
    (dest_wf dst = true ->
     exists th tp, split_host_port (o_target o) = Some (th, tp) /\
                   (th, tp) = spec_endpoint is_ip mode r (d_ip dst) (d_port dst) c k /\
                   (th = h \/ th = d_ip dst) /\ tp = itoa (d_port dst) /\ no_brackets th = true).
Proof. exact sniffed_to_target. Qed.
Print Assumptions C18_sniffed_to_target.

(* the classes of the quantifier really are named by the spec (non-vacuity of the hypothesis above) *)
Example C18_sniffed_classes :
  map (spec_sniffed_host nv_is_ip)
      [bs "example.com"; bs "example.com."; bs "example.com:8443"; bs "1.2.3.4"; bs "1.2.3.4:80"; bs "::1";
       bs "[::1]"; bs "[::1]:8080"; bs ""; bs "[::1"; bs "a:b:c"]%string =
  [Some (bs "example.com"); Some (bs "example.com"); Some (bs "example.com"); Some (bs "1.2.3.4");
   Some (bs "1.2.3.4"); Some (bs "::1"); Some (bs "::1"); Some (bs "::1"); Some []; None; None]%string.
Proof. vm_compute. reflexivity. Qed.

(* The DNS-knowledge keys.  The code's key function (DnsController.cacheKey = miekg CanonicalName + type,
   cut at "|" on the store side) maps a name to its normal form (lower case, no trailing dot) + "." + type;
   hence the key under which an answer for a question name AS IT ARRIVES ON THE WIRE (mixed case, trailing
   dot) is remembered is the key ChooseDialTarget looks up for every spelling of that name that is equal up
   to ASCII case and a trailing dot.  For all names without an escaped final dot ("\.") and, on the store
   side, without "|". *)
Theorem C18_store_key_is_lookup_key :
  forall qname dom q scope,
    same_name qname dom = true ->
    no_escaped_dot qname = true -> no_pipe qname = true -> no_escaped_dot dom = true ->
    store_key qname q scope = lookup_key dom q.
Proof. exact store_key_is_lookup_key. Qed.
Print Assumptions C18_store_key_is_lookup_key.

(* ... so a name resolved through dae is "resolved" for every sniffed spelling while its TTL runs *)
Theorem C18_resolved_name_is_known :
  forall evs qname q scope e now dom ttl,
    In (EvResolved (store_key qname q scope) e) evs -> (now < e)%Z ->
    same_name qname dom = true ->
    no_escaped_dot qname = true -> no_pipe qname = true -> no_escaped_dot dom = true ->
    k_resolved (knowledge_now ttl evs (lookup_key dom q) dom now) = true.
Proof. exact resolved_name_is_known. Qed.
Print Assumptions C18_resolved_name_is_known.

(* the history theorem over wire-form histories: question names and sniffed names as they arrive, keys
   computed by the code's own key functions *)
Theorem C18_history_table_wire :
  forall (is_ip : str -> bool) (mode : dial_mode) (now0 : Z) (h : list wire_op),
    history_ok is_ip mode (init_state now0) [] (map op_of_wire h).
Proof. exact history_table_wire. Qed.
Print Assumptions C18_history_table_wire.

(* the variant of cacheKey that canonicalises only names WITHOUT a trailing dot does not have the
   agreement property: question "wWw.SeEd-DeMo.ExAmPlE." vs sniffed "www.seed-demo.example" *)
Theorem C18_key_only_without_dot_refuted :
  exists qname dom q,
    same_name qname dom = true /\ no_escaped_dot qname = true /\ no_pipe qname = true /\ no_escaped_dot dom = true /\
    base_key (cache_key_only_without_dot qname q) <> cache_key_only_without_dot dom q.
Proof. exact key_variant_refuted. Qed.
Print Assumptions C18_key_only_without_dot_refuted.

(* chooseProxyDialer: for every state reachable by a history (Inv: the state is what the past events say)
   the outbound finally used is the routing result exactly when the flow is routed again (or arrived
   marked for control-plane routing), and the dial target handed to the node dialer obeys the decision
   table for THAT outbound (so a flow re-routed to a built-in outbound is dialled by IP). *)
Theorem C18_dial_after_reroute :
  forall (is_ip : str -> bool) mode st evs outbound route_to dst domain ka k6 hr ans,
    Inv st evs ->
    let '(o, fin, asked, st') := choose_proxy_dialer is_ip mode st outbound route_to dst domain ka k6 hr ans in
    let key := if d_is4 dst then ka else k6 in
    let k := knowledge_now neg_ttl evs key domain (s_now st) in
    fin = spec_final_outbound is_ip mode (is_reserved outbound) outbound route_to (classify is_ip domain) k /\
    step_ok is_ip mode evs (s_now st) fin dst domain key o /\
    Inv st' (evs ++ probe_events domain (s_now st) asked ans).
Proof. exact dial_ok. Qed.
Print Assumptions C18_dial_after_reroute.

Open Scope string_scope.
Open Scope Z_scope.
(* Non-vacuity: a concrete history exercising verification, resolution, expiry, negative memory, a
   bracketed literal and a built-in outbound; bracketed literal and host:port in domain+ / domain++;
   and the malformed target of the zone-bracket witness really is rejected by SplitHostPort. *)
Example C18_nonvacuous :
  map nv_view (fst (run nv_is_ip ModeDomain (init_state 0) nv_history)) =
  [ Some (bs "8.8.8.8:443", false, true); Some (bs "example.com:443", true, false); None;
    Some (bs "x.org:443", true, false); None; Some (bs "8.8.8.8:443", false, true);
    Some (bs "8.8.8.8:443", false, false); Some (bs "8.8.8.8:443", false, false);
    Some (bs "8.8.8.8:443", false, false) ]
  /\ o_target (choose_dial_target nv_is_ip ModeDomainPlus 2%N nv_dst (bs "[::1]")
                                  {| l_dns := false; l_real_known := false; l_real_real := false |}) = bs "[::1]:443"
  /\ o_target (choose_dial_target nv_is_ip ModeDomainCao 2%N nv_dst (bs "1.2.3.4:80")
                                  {| l_dns := false; l_real_known := false; l_real_real := false |}) = bs "1.2.3.4:80"
  /\ split_host_port (bs "[fe80::1%a]b]:443") = None.
Proof. exact nonvacuous_proof. Qed.
