(* Link — shared adapters between the `string`-based developments (C01, C07) and C11 (byte lists).

   1. [bytes]: a Coq string as C11's [str] (list of byte values), with the adapter lemmas for the string
      primitives C01_Spec / C07_Spec use ([String.eqb], [prefix], [substring]-based [ends_with], [index]-based
      [contains]) against C11_Spec's list primitives.
   2. [s_domain_holds]: the (textually identical) definition of "pattern of kind k holds for name d" of
      C01_Spec and C07_Spec, over C11's [kind]; [s_domain_holds_pat_matches]: it equals C11_Spec.pat_matches
      on a non-empty, normalised name over the host-name alphabet, except for the empty keyword.
   3. [bitmap_words]: the []uint32 that MatchDomainBitmap assembles from the per-index answers
      (bitmap[i/32] |= 1 << (i%32)), which C11's model leaves out (it exposes [match_bit] per index).
   4. [c11_bitmap]: C11's matcher, over the trie exactly as pkg/trie stores it (packed), as a bitmap function,
      and [c11_bitmap_bit]: bit i of it = C11_Spec.bit (from C11_matcher_packed_partial).
   No hypotheses are introduced here; everything is closed under the global context. *)
From Coq Require Import List Arith NArith Bool String Ascii Lia ZifyBool ZifyN ZifyNat.
From Dae Require Import C11_Spec C11_Model C11_Louds C11_Proofs C11_Layer3 C11_Props.
From Dae.gen Require Import C11_Extracted.
Import ListNotations.
Open Scope N_scope.

(* ---------- 1. strings as byte lists ---------- *)
Fixpoint bytes (s : string) : str :=
  match s with EmptyString => [] | String c r => N_of_ascii c :: bytes r end.

Lemma N_of_ascii_inj : forall a b, N_of_ascii a = N_of_ascii b -> a = b.
Proof. intros a b H. rewrite <- (ascii_N_embedding a), <- (ascii_N_embedding b). now rewrite H. Qed.

Lemma N_of_ascii_lt : forall a, N_of_ascii a < 256.
Proof. intros a. destruct a as [[] [] [] [] [] [] [] []]; vm_compute; reflexivity. Qed.

Lemma ascii_eqb_bytes : forall a b, Ascii.eqb a b = (N_of_ascii a =? N_of_ascii b).
Proof.
  intros a b. destruct (Ascii.eqb_spec a b) as [->|Hn]; [now rewrite N.eqb_refl|].
  symmetry. apply N.eqb_neq. intro H. apply Hn. now apply N_of_ascii_inj.
Qed.

Lemma bytes_inj : forall a b, bytes a = bytes b -> a = b.
Proof.
  induction a as [|c a IH]; intros [|d b] H; try discriminate; [reflexivity|].
  cbn in H. inversion H as [[H1 H2]]. f_equal; [now apply N_of_ascii_inj | now apply IH].
Qed.

Lemma bytes_eqb : forall a b, String.eqb a b = str_eqb (bytes a) (bytes b).
Proof.
  induction a as [|c a IH]; intros [|d b]; cbn; try reflexivity.
  rewrite ascii_eqb_bytes. destruct (N_of_ascii c =? N_of_ascii d); [apply IH | reflexivity].
Qed.

Lemma bytes_app : forall a b, bytes (a ++ b) = (bytes a ++ bytes b)%list.
Proof. induction a as [|c a IH]; intros b; cbn; [reflexivity|]. now rewrite IH. Qed.

Lemma bytes_length : forall a, List.length (bytes a) = String.length a.
Proof. induction a as [|c a IH]; cbn; [reflexivity|]. now rewrite IH. Qed.

Lemma bytes_nil : forall a, bytes a = [] <-> a = ""%string.
Proof. intros [|c a]; cbn; split; intro H; try reflexivity; discriminate. Qed.

Lemma bytes_lt : forall a, Forall (fun c => c < 256) (bytes a).
Proof. induction a as [|c a IH]; cbn; constructor; [apply N_of_ascii_lt | exact IH]. Qed.

Lemma bytes_prefix : forall k d, String.prefix k d = is_prefix (bytes k) (bytes d).
Proof.
  induction k as [|c k IH]; intros [|e d]; cbn; try reflexivity.
  destruct (ascii_dec c e) as [->|Hn].
  - rewrite N.eqb_refl. apply IH.
  - replace (N_of_ascii c =? N_of_ascii e) with false; [reflexivity|].
    symmetry. apply N.eqb_neq. intro H. apply Hn. now apply N_of_ascii_inj.
Qed.

Lemma bytes_substring : forall s n m, bytes (substring n m s) = firstn m (skipn n (bytes s)).
Proof.
  induction s as [|c s IH]; intros n m.
  - cbn. destruct n, m; reflexivity.
  - destruct n as [|n].
    + destruct m as [|m]; [reflexivity|]. cbn [substring bytes skipn firstn]. f_equal.
      exact (IH 0%nat m).
    + cbn [substring bytes skipn]. apply IH.
Qed.

(* the two string-level predicates of C01_Spec / C07_Spec, verbatim *)
Definition s_ends_with (d s : string) : bool :=
  let ld := String.length d in let ls := String.length s in
  Nat.leb ls ld && String.eqb (substring (ld - ls) ls d) s.
Definition s_contains (d k : string) : bool :=
  match index 0 k d with Some _ => true | None => false end.

(* list level: "the last |suf| elements are suf" = C11's ends_with *)
Lemma ends_with_firstn_skipn : forall (name suf : str),
  Nat.leb (List.length suf) (List.length name)
  && str_eqb (firstn (List.length suf) (skipn (List.length name - List.length suf) name)) suf
  = ends_with name suf.
Proof.
  intros name suf. apply bool_eq_iff. rewrite ends_with_true, andb_true_iff, str_eqb_true. split.
  - intros [Hl He]. exists (firstn (List.length name - List.length suf) name).
    rewrite firstn_all2 in He by (rewrite skipn_length; apply Nat.leb_le in Hl; lia).
    rewrite <- He at 2. symmetry. apply firstn_skipn.
  - intros [pre ->]. rewrite app_length. split; [apply Nat.leb_le; lia|].
    replace (List.length pre + List.length suf - List.length suf)%nat with (List.length pre) by lia.
    rewrite skipn_app, skipn_all, Nat.sub_diag. cbn [skipn app]. apply firstn_all.
Qed.

Lemma bytes_ends_with : forall d s, s_ends_with d s = ends_with (bytes d) (bytes s).
Proof.
  intros d s. unfold s_ends_with. cbv zeta. rewrite bytes_eqb, bytes_substring.
  rewrite <- !bytes_length. apply ends_with_firstn_skipn.
Qed.

Lemma bytes_contains : forall d k, s_contains d k = contains (bytes d) (bytes k).
Proof.
  unfold s_contains. induction d as [|c d IH]; intros k.
  - cbn. destruct k; reflexivity.
  - cbn [index]. rewrite bytes_prefix. cbn [bytes contains].
    destruct (is_prefix (bytes k) (N_of_ascii c :: bytes d)); [reflexivity|]. cbn [orb].
    rewrite <- IH. destruct (index 0 k d); reflexivity.
Qed.

Lemma bytes_prefix_dot : forall s,
  String.prefix "." s = match bytes s with c :: _ => c =? ch_dot | [] => false end.
Proof.
  intros [|c s]; [reflexivity|]. cbn [prefix bytes].
  destruct (ascii_dec "."%char c) as [<-|Hn]; [destruct s; reflexivity|].
  symmetry. apply N.eqb_neq. intro H. apply Hn. apply N_of_ascii_inj. exact (eq_sym H).
Qed.

(* ---------- 2. the string-level meaning of one pattern, and C11's ---------- *)
Definition s_domain_holds (k : kind) (s d : string) (hits : list string) : bool :=
  negb (String.eqb d "") &&
  match k with
  | KFull => String.eqb d s
  | KSuffix => if prefix "." s then s_ends_with d s
               else String.eqb d s || s_ends_with d (String "."%char s)
  | KKeyword => s_contains d s
  | KRegex => existsb (String.eqb s) hits
  end.

Lemma pat_ok_tail : forall c s, pat_ok (c :: s) = true -> pat_ok s = true.
Proof. intros c s H. cbn in H. now apply andb_true_iff in H as [_ H]. Qed.

Lemma contains_pat_ok : forall name p, pat_ok name = true -> contains name p = true -> pat_ok p = true.
Proof.
  intros name p Hn H. apply contains_true in H as [a [b ->]].
  rewrite !pat_ok_app in Hn. apply andb_true_iff in Hn as [_ Hn]. now apply andb_true_iff in Hn as [Hn _].
Qed.

(* For a non-empty name in normal form over the host-name alphabet, the string-level reading of C01/C07 and
   C11's reading of a pattern coincide — for every pattern (any bytes: C11 skips a pattern with a byte outside
   the alphabet, and such a pattern cannot be equal to / a suffix of / contained in such a name) except the
   regular expressions (oracle on both sides; linked by [Hrx]).  The empty keyword is NOT excluded here: C11's
   *spec* agrees with C01/C07 on it (contained in every name); it is C11's *model* that differs (open finding
   C11/keyword-empty), which is why the composed theorems carry [kw_nonempty]. *)
Lemma s_domain_holds_pat_matches : forall (rx : str -> str -> bool) k s d hits,
  d <> ""%string -> pat_ok (bytes d) = true ->
  (k = KRegex -> existsb (String.eqb s) hits = rx (bytes s) (bytes d)) ->
  s_domain_holds k s d hits = pat_matches rx k (bytes s) (bytes d).
Proof.
  intros rx k s d hits Hne Hok Hrx. unfold s_domain_holds.
  replace (String.eqb d "") with false by (symmetry; now apply String.eqb_neq). cbn [negb andb].
  destruct k; cbn [pat_matches].
  - rewrite bytes_eqb. destruct (str_eqb (bytes d) (bytes s)) eqn:E; [|reflexivity].
    apply str_eqb_true in E. now rewrite <- E, Hok.
  - rewrite bytes_prefix_dot.
    assert (G : forall b : bool, (b = true -> pat_ok (bytes s) = true) -> b = b && pat_ok (bytes s)).
    { intros [|] H; [now rewrite H | reflexivity]. }
    destruct (bytes s) as [|c r] eqn:Es.
    + rewrite bytes_eqb, bytes_ends_with. cbn [bytes]. rewrite Es. change (N_of_ascii ".") with ch_dot.
      now rewrite andb_true_r.
    + destruct (c =? ch_dot) eqn:Ec.
      * rewrite bytes_ends_with, Es. apply G. intro H. exact (ends_with_pat_ok _ _ Hok H).
      * rewrite bytes_eqb, bytes_ends_with. cbn [bytes]. rewrite Es. change (N_of_ascii ".") with ch_dot.
        apply G. intro H. apply orb_true_iff in H as [H|H].
        -- apply str_eqb_true in H. now rewrite <- H.
        -- apply (pat_ok_tail ch_dot). exact (ends_with_pat_ok _ _ Hok H).
  - rewrite bytes_contains. destruct (contains (bytes d) (bytes s)) eqn:E; [|reflexivity].
    now rewrite (contains_pat_ok _ _ Hok E).
  - now apply Hrx.
Qed.

(* ---------- 3. the bitmap MatchDomainBitmap assembles ---------- *)
Definition word_bits (f : N -> bool) (w : N) (bs : list N) : N :=
  fold_right (fun b acc => N.lor (if f (32 * w + b) then N.shiftl 1 b else 0) acc) 0 bs.
Definition word_of (f : N -> bool) (w : N) : N := word_bits f w (map N.of_nat (seq 0 32)).
(* nwords = len(n.ac)/32 rounded up; f i = "index i matched" *)
Definition bitmap_words (nwords : nat) (f : N -> bool) : list N :=
  map (fun w => word_of f (N.of_nat w)) (seq 0 nwords).

Lemma testbit_one_shl : forall b j, N.testbit (N.shiftl 1 b) j = (b =? j).
Proof.
  intros b j. destruct (N.eqb_spec b j) as [->|Hn].
  - rewrite N.shiftl_spec_high' by lia. now rewrite N.sub_diag.
  - destruct (N.lt_ge_cases j b) as [Hlt|Hge].
    + now apply N.shiftl_spec_low.
    + rewrite N.shiftl_spec_high' by lia. replace (j - b) with (N.succ (N.pred (j - b))) by lia.
      now rewrite N.bits_above_log2 by (cbn; lia).
Qed.

Lemma word_bits_testbit : forall f w bs j,
  N.testbit (word_bits f w bs) j = existsb (fun b => (b =? j) && f (32 * w + b)) bs.
Proof.
  intros f w bs j. induction bs as [|b bs IH]; cbn [word_bits fold_right existsb]; [apply N.bits_0|].
  fold (word_bits f w bs). rewrite N.lor_spec, IH. f_equal.
  destruct (f (32 * w + b)); [rewrite testbit_one_shl; now rewrite andb_true_r | rewrite N.bits_0; now rewrite andb_false_r].
Qed.

Lemma existsb_seq_pick : forall (g : N -> bool) n j,
  existsb (fun b => (b =? j) && g b) (map N.of_nat (seq 0 n)) = (j <? N.of_nat n) && g j.
Proof.
  intros g n j. induction n as [|n IH]; [cbn [seq map existsb]; now destruct j|].
  rewrite seq_S, map_app, existsb_app, IH. cbn [plus map existsb]. rewrite orb_false_r.
  destruct (N.eqb_spec (N.of_nat n) j) as [<-|Hn].
  - replace (N.of_nat n <? N.of_nat n) with false by (symmetry; apply N.ltb_irrefl).
    replace (N.of_nat n <? N.of_nat (S n)) with true by (symmetry; apply N.ltb_lt; lia). reflexivity.
  - cbn [andb]. rewrite orb_false_r. f_equal.
    destruct (N.ltb_spec j (N.of_nat n)), (N.ltb_spec j (N.of_nat (S n))); try reflexivity; lia.
Qed.

Lemma word_of_testbit : forall f w j, N.testbit (word_of f w) j = (j <? 32) && f (32 * w + j).
Proof.
  intros f w j. unfold word_of. rewrite word_bits_testbit.
  exact (existsb_seq_pick (fun b => f (32 * w + b)) 32 j).
Qed.

Lemma bitmap_words_nth : forall n f k,
  nth_error (bitmap_words n f) k = if (k <? n)%nat then Some (word_of f (N.of_nat k)) else None.
Proof.
  intros n f k. unfold bitmap_words. destruct (Nat.ltb_spec k n) as [Hlt|Hge].
  - rewrite (nth_error_map _ _ _); rewrite ?nth_error_map.
    replace (nth_error (seq 0 n) k) with (Some k); [reflexivity|].
    symmetry. rewrite (nth_error_nth' _ 0%nat) by (now rewrite seq_length). now rewrite seq_nth.
  - apply nth_error_None. now rewrite map_length, seq_length.
Qed.

(* reading bit i as both matchers do: word i/32, bit i%32 *)
Lemma bitmap_words_read : forall n f i,
  nth_error (bitmap_words n f) (N.to_nat (i / 32))
  = if i <? 32 * N.of_nat n then Some (word_of f (i / 32)) else None.
Proof.
  intros n f i. rewrite bitmap_words_nth, N2Nat.id.
  assert (H32 : 32 <> 0) by discriminate.
  pose proof (N.div_mod i 32 H32) as Hdm. pose proof (N.mod_lt i 32 H32) as Hm.
  destruct (Nat.ltb_spec (N.to_nat (i / 32)) n), (N.ltb_spec i (32 * N.of_nat n)); try reflexivity; exfalso; nia.
Qed.

Lemma word_of_read : forall f i, N.testbit (word_of f (i / 32)) (i mod 32) = f i.
Proof.
  intros f i. rewrite word_of_testbit.
  assert (H32 : 32 <> 0) by discriminate.
  pose proof (N.mod_lt i 32 H32) as Hm. rewrite <- (N.div_mod i 32 H32).
  now replace (i mod 32 <? 32) with true by (symmetry; now apply N.ltb_lt).
Qed.

(* ---------- 4. C11's matcher as a bitmap function ---------- *)
Definition c11_nwords : nat := 32.   (* consts.MaxMatchSetLen / 32: the bitLength every caller passes *)
Definition c11_nbits : N := 1024.

(* Build over the packed trie (pkg/trie as stored), the keyword automaton as the library behaves *)
Definition c11_build (rx_ok : str -> bool) (sets : list pset) : option (C11_Model.matcher ptrie) :=
  build ac_ok_lib ptrie (p_new valid_domain_chars) (add_sets valid_domain_chars rx_ok sets).
Definition c11_match_bit (rx : str -> str -> bool) (m : C11_Model.matcher ptrie) (raw : str) (i : N) : bool :=
  match_bit rx ac_real ptrie (p_has valid_domain_chars) m raw i.
(* MatchDomainBitmap *)
Definition c11_bitmap (rx : str -> str -> bool) (m : C11_Model.matcher ptrie) (raw : str) : list N :=
  bitmap_words c11_nwords (c11_match_bit rx m raw).

(* what C11_matcher_packed_partial gives per index: Build succeeds on compiling regexps, and every answer is
   the spec's [bit] *)
Lemma c11_build_bit : forall rx_ok rx sets,
  kw_nonempty sets = true -> sets_size_ok sets -> sets_ok rx_ok sets = true ->
  exists m, c11_build rx_ok sets = Some m /\
    forall raw i, name_ok raw = true -> c11_match_bit rx m raw i = bit rx sets raw i.
Proof.
  intros rx_ok rx sets Hk Hs Ho.
  assert (P : forall raw i, name_ok raw = true ->
            model_answer_packed rx_ok rx sets [raw] [i] = Some [filter (bit rx sets raw) [i]]).
  { intros raw i Hn. rewrite (C11_matcher_packed_partial rx_ok rx sets [raw] [i] Hk); [|now cbn; rewrite Hn|exact Hs].
    unfold spec_answer. now rewrite Ho. }
  unfold model_answer_packed, run in P. fold (c11_build rx_ok sets) in P.
  destruct (c11_build rx_ok sets) as [m|] eqn:Hb.
  - exists m. split; [reflexivity|]. intros raw i Hn. specialize (P raw i Hn). cbn [map filter] in P.
    fold (c11_match_bit rx m raw i) in P.
    destruct (c11_match_bit rx m raw i), (bit rx sets raw i); try reflexivity; inversion P.
  - exfalso. specialize (P [] 0 eq_refl). discriminate.
Qed.

Lemma c11_bitmap_nth : forall rx m raw i,
  nth_error (c11_bitmap rx m raw) (N.to_nat (i / 32))
  = if i <? c11_nbits then Some (word_of (c11_match_bit rx m raw) (i / 32)) else None.
Proof. intros. unfold c11_bitmap. now rewrite bitmap_words_read. Qed.

(* sets whose indices are pairwise distinct: bit i is the meaning of THE set attached to i *)
Lemma bit_nodup : forall rx sets raw x,
  NoDup (map ps_idx sets) -> In x sets ->
  bit rx sets raw (ps_idx x) = set_matches rx x (normalize raw).
Proof.
  intros rx sets raw x. unfold bit. induction sets as [|y sets IH]; intros Hnd Hin; [destruct Hin|].
  cbn [map] in Hnd. inversion Hnd as [|? ? Hni Hnd']; subst. cbn [existsb].
  destruct Hin as [->|Hin].
  - rewrite N.eqb_refl. cbn [andb].
    replace (existsb _ sets) with false; [now rewrite orb_false_r|].
    symmetry. apply not_true_is_false. intro H. apply existsb_exists in H as [z [Hz H]].
    apply andb_true_iff in H as [H _]. apply N.eqb_eq in H. apply Hni. rewrite <- H. now apply in_map.
  - rewrite (IH Hnd' Hin).
    replace (ps_idx y =? ps_idx x) with false; [reflexivity|].
    symmetry. apply N.eqb_neq. intro H. apply Hni. rewrite H. now apply in_map.
Qed.

(* is the byte list of a name in C11's normal form (lower case, no trailing dot)? *)
Definition normalized (raw : str) : Prop := normalize raw = raw.

Lemma normalized_pat_ok : forall raw, name_ok raw = true -> normalized raw -> pat_ok raw = true.
Proof. intros raw Hn Hz. rewrite <- Hz. now apply normalize_pat_ok. Qed.

Lemma existsb_ext_in : forall {A} (f g : A -> bool) l, (forall x, In x l -> f x = g x) -> existsb f l = existsb g l.
Proof.
  intros A f g l. induction l as [|a l IH]; intros H; cbn; [reflexivity|].
  rewrite (H a (or_introl eq_refl)), IH; [reflexivity|]. intros x Hx. apply H. now right.
Qed.

Lemma existsb_map_c : forall {A B} (f : B -> bool) (g : A -> B) l, existsb f (map g l) = existsb (fun x => f (g x)) l.
Proof. intros A B f g l. induction l as [|a l IH]; cbn; [reflexivity|]. now rewrite IH. Qed.

(* ---------- 5. normalisation of a name at string level ---------- *)
(* strings.ToLower(strings.TrimSuffix(s, ".")) on a Coq string; C07_Spec.norm_name is the same function
   (Link_C07_C11.norm_name_s) *)
Definition s_lower_ascii (c : ascii) : ascii :=
  let n := N_of_ascii c in if (65 <=? n) && (n <=? 90) then ascii_of_N (n + 32) else c.
Fixpoint s_lower (s : string) : string :=
  match s with EmptyString => EmptyString | String c r => String (s_lower_ascii c) (s_lower r) end.
Fixpoint s_strip_dot (s : string) : string :=
  match s with
  | EmptyString => EmptyString
  | String c r => match r with
                  | EmptyString => if Ascii.eqb c "."%char then EmptyString else s
                  | _ => String c (s_strip_dot r)
                  end
  end.
Definition s_norm (s : string) : string := s_lower (s_strip_dot s).

Lemma bytes_lower_ascii : forall c, N_of_ascii (s_lower_ascii c) = lower_byte (N_of_ascii c).
Proof.
  intros c. unfold s_lower_ascii, lower_byte, is_upper, in_range. cbv zeta.
  destruct ((65 <=? N_of_ascii c) && (N_of_ascii c <=? 90)) eqn:E; [|reflexivity].
  apply N_ascii_embedding. lia.
Qed.

Lemma bytes_s_lower : forall s, bytes (s_lower s) = map lower_byte (bytes s).
Proof. induction s as [|c s IH]; cbn; [reflexivity|]. now rewrite bytes_lower_ascii, IH. Qed.

Lemma strip_dot_cons : forall x l, l <> [] -> C11_Spec.strip_dot (x :: l) = x :: C11_Spec.strip_dot l.
Proof.
  intros x l Hne. unfold C11_Spec.strip_dot. cbn [rev].
  destruct (rev l) as [|c r] eqn:E.
  - exfalso. apply Hne. rewrite <- (rev_involutive l), E. reflexivity.
  - cbn [app]. destruct (c =? ch_dot); [|reflexivity]. rewrite rev_app_distr. reflexivity.
Qed.

Lemma bytes_strip_dot : forall s, bytes (s_strip_dot s) = C11_Spec.strip_dot (bytes s).
Proof.
  induction s as [|c s IH]; [reflexivity|]. destruct s as [|c' s'].
  - cbn [s_strip_dot bytes]. unfold C11_Spec.strip_dot. cbn [rev app].
    rewrite ascii_eqb_bytes. change (N_of_ascii ".") with ch_dot.
    destruct (N_of_ascii c =? ch_dot); reflexivity.
  - change (s_strip_dot (String c (String c' s'))) with (String c (s_strip_dot (String c' s'))).
    cbn [bytes] in *. rewrite IH. symmetry. apply strip_dot_cons. discriminate.
Qed.

(* the string-level normalisation IS C11's *)
Lemma bytes_s_norm : forall s, bytes (s_norm s) = normalize (bytes s).
Proof. intros s. unfold s_norm, normalize. now rewrite bytes_s_lower, bytes_strip_dot. Qed.

Lemma strip_dot_empty : forall s, s_strip_dot s = ""%string -> s = ""%string \/ s = "."%string.
Proof.
  intros [|c [|c' s']]; [now left | |].
  - cbn. destruct (Ascii.eqb_spec c "."%char) as [->|]; [now right | discriminate].
  - change (s_strip_dot (String c (String c' s'))) with (String c (s_strip_dot (String c' s'))). discriminate.
Qed.

(* the only names that normalise to the empty name: "" and the root "." *)
Lemma s_norm_empty : forall s, s_norm s = ""%string -> s = ""%string \/ s = "."%string.
Proof.
  intros s H. unfold s_norm in H. apply strip_dot_empty.
  destruct (s_strip_dot s); [reflexivity | discriminate].
Qed.


(* ---------- 6. C07's reading of one pattern (regexps are NOT guarded against the empty name) ---------- *)
Definition s_domain_holds_rx (k : kind) (s d : string) (hits : list string) : bool :=
  match k with
  | KFull => negb (String.eqb d "") && String.eqb d s
  | KSuffix => negb (String.eqb d "") &&
               (if prefix "." s then s_ends_with d s
                else String.eqb d s || s_ends_with d (String "."%char s))
  | KKeyword => negb (String.eqb d "") && s_contains d s
  | KRegex => existsb (String.eqb s) hits
  end.

(* ... equals C11's on EVERY normalised name over the alphabet, the empty one included (the root question "."),
   except that C11 (and the Go code) let an EMPTY full / suffix pattern match the empty name *)
Lemma s_domain_holds_rx_pat_matches : forall (rx : str -> str -> bool) k s d hits,
  pat_ok (bytes d) = true ->
  (d = ""%string -> k <> KRegex -> s <> ""%string) ->
  (k = KRegex -> existsb (String.eqb s) hits = rx (bytes s) (bytes d)) ->
  s_domain_holds_rx k s d hits = pat_matches rx k (bytes s) (bytes d).
Proof.
  intros rx k s d hits Hok Hemp Hrx.
  destruct (String.eqb_spec d "") as [->|Hne].
  - destruct k; try (now apply Hrx);
      (assert (Hs : s <> ""%string) by (apply Hemp; [reflexivity | discriminate]);
       destruct s as [|c r]; [congruence|]; cbn [s_domain_holds_rx String.eqb negb andb bytes pat_matches]).
    + reflexivity.
    + destruct (N_of_ascii c =? ch_dot); reflexivity.
    + reflexivity.
  - rewrite <- (s_domain_holds_pat_matches rx k s d hits Hne Hok Hrx).
    unfold s_domain_holds_rx, s_domain_holds.
    replace (String.eqb d "") with false by (symmetry; now apply String.eqb_neq). now destruct k.
Qed.
