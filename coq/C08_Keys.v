(* C08 — cache-key strings determine (lower-cased fqdn, qtype, scope string) (lemmas). *)
From Coq Require Import List ZArith NArith Bool Lia.
From Dae Require Import C08_Spec C08_Model.
Import ListNotations.
Open Scope N_scope.

(* ------------------------------------------------------------------ splitting at a separator *)
Definition tail_ok (sep : N) (t : bytes) : Prop := t = [] \/ exists r, t = sep :: r.

Lemma split_sep : forall sep a b ta tb,
    ~ In sep a -> ~ In sep b -> tail_ok sep ta -> tail_ok sep tb ->
    a ++ ta = b ++ tb -> a = b /\ ta = tb.
Proof.
  intros sep. induction a as [|x a IH]; intros b ta tb Ha Hb Hta Htb E.
  - destruct b as [|y b]; [auto|]. cbn in E. exfalso. apply Hb. left.
    destruct Hta as [->|[r ->]]; [discriminate|]. inversion E. reflexivity.
  - destruct b as [|y b].
    + cbn in E. exfalso. apply Ha. left. destruct Htb as [->|[r ->]]; [discriminate|]. inversion E. reflexivity.
    + cbn in E. inversion E; subst. destruct (IH b ta tb) as [E1 E2]; auto.
      * intros H. apply Ha. right. assumption.
      * intros H. apply Hb. right. assumption.
      * subst. auto.
Qed.

(* ------------------------------------------------------------------ decimal digits *)
Definition is_digit (d : N) : Prop := 48 <= d <= 57.
Definition val (l : bytes) : N := fold_left (fun a d => a * 10 + (d - 48)) l 0.

Lemma val_app1 : forall l d, val (l ++ [d]) = val l * 10 + (d - 48).
Proof. intros. unfold val. rewrite fold_left_app. reflexivity. Qed.

Ltac nlia n := pose proof (N.div_mod n 10 ltac:(discriminate)); pose proof (N.mod_upper_bound n 10 ltac:(discriminate));
                generalize dependent (n mod 10); generalize dependent (n / 10); intros; lia.

Lemma digits_fuel_spec : forall f n acc,
    n < 10 ^ N.of_nat (S f) ->
    exists ds, digits_fuel (S f) n acc = ds ++ acc /\ ds <> [] /\ val ds = n /\ Forall is_digit ds.
Proof.
  induction f as [|f IH]; intros n acc Hn.
  - replace (10 ^ N.of_nat 1) with 10 in Hn by reflexivity.
    cbn [digits_fuel]. assert (Hd : N.div n 10 = 0) by (apply N.div_small; exact Hn). rewrite Hd. cbn [N.eqb].
    exists [48 + n mod 10]. split; [reflexivity|]. split; [discriminate|]. split; [|constructor; [|constructor]].
    + unfold val. cbn [fold_left]. revert Hd. nlia n.
    + unfold is_digit. clear Hd. nlia n.
  - remember (S f) as f1. cbn [digits_fuel]. destruct (N.eqb (N.div n 10) 0) eqn:E.
    + apply N.eqb_eq in E. exists [48 + n mod 10]. split; [reflexivity|]. split; [discriminate|]. split; [|constructor; [|constructor]].
      * unfold val. cbn [fold_left]. clear IH Hn. revert E. nlia n.
      * unfold is_digit. clear IH Hn E. nlia n.
    + subst f1. assert (Hq : N.div n 10 < 10 ^ N.of_nat (S f)).
      { apply N.div_lt_upper_bound; [discriminate|]. rewrite <- N.pow_succ_r'. rewrite <- Nnat.Nat2N.inj_succ. exact Hn. }
      destruct (IH (N.div n 10) ((48 + n mod 10) :: acc) Hq) as [ds [E1 [E2 [E3 E4]]]].
      exists (ds ++ [48 + n mod 10]). rewrite E1, <- app_assoc. split; [reflexivity|]. split; [|split].
      * destruct ds; discriminate.
      * rewrite val_app1, E3. clear. nlia n.
      * apply Forall_app. split; [assumption|]. constructor; [|constructor].
        unfold is_digit. clear. nlia n.
Qed.

Lemma digits_spec : forall n, n < 65536 -> digits n <> [] /\ val (digits n) = n /\ Forall is_digit (digits n).
Proof.
  intros n Hn. unfold digits. destruct (digits_fuel_spec 39 n []) as [ds [E1 [E2 [E3 E4]]]].
  - eapply N.lt_trans; [exact Hn|]. vm_compute. reflexivity.
  - rewrite E1, app_nil_r. auto.
Qed.

Lemma digits_inj : forall a b, a < 65536 -> b < 65536 -> digits a = digits b -> a = b.
Proof.
  intros a b Ha Hb E. destruct (digits_spec a Ha) as [_ [Va _]]. destruct (digits_spec b Hb) as [_ [Vb _]].
  rewrite <- Va, <- Vb, E. reflexivity.
Qed.

Lemma digits_no : forall n c, n < 65536 -> ~ is_digit c -> ~ In c (digits n).
Proof.
  intros n c Hn Hc Hin. destruct (digits_spec n Hn) as [_ [_ F]]. rewrite Forall_forall in F. apply Hc. apply F. assumption.
Qed.

(* ------------------------------------------------------------------ names *)
Lemma lower_byte_bar : forall b, lower_byte b = bar -> b = bar.
Proof.
  intros b. unfold lower_byte, bar. destruct (N.leb 65 b && N.leb b 90)%bool eqn:E; [|auto].
  apply andb_true_iff in E. destruct E as [E1 E2]. apply N.leb_le in E1. apply N.leb_le in E2. lia.
Qed.

Lemma lower_no_bar : forall s, ~ In bar s -> ~ In bar (lower s).
Proof.
  intros s H Hin. unfold lower in Hin. apply in_map_iff in Hin. destruct Hin as [b [E Hb]].
  apply lower_byte_bar in E. subst. contradiction.
Qed.

Lemma fqdn_no_bar : forall s, ~ In bar s -> ~ In bar (fqdn s).
Proof.
  intros s H. unfold fqdn. destruct (ends_with_dot s); [assumption|]. intros Hin. apply in_app_or in Hin.
  destruct Hin as [Hin|[Hin|[]]]; [contradiction | unfold dot, bar in Hin; discriminate].
Qed.

(* the canonical name ends with a dot: its reversal starts with one *)
Lemma rev_canon : forall s, exists r, rev (lower (fqdn s)) = dot :: r.
Proof.
  intros s. unfold lower. rewrite <- map_rev. unfold fqdn. destruct (ends_with_dot s) eqn:E.
  - unfold ends_with_dot in E. destruct (rev s) as [|x r]; [discriminate|]. apply N.eqb_eq in E. subst.
    exists (map lower_byte r). reflexivity.
  - rewrite rev_app_distr. cbn. exists (map lower_byte (rev s)). reflexivity.
Qed.

Definition canon_digits_split : forall n1 n2 q1 q2,
    q1 < 65536 -> q2 < 65536 ->
    lower (fqdn n1) ++ digits q1 = lower (fqdn n2) ++ digits q2 ->
    lower (fqdn n1) = lower (fqdn n2) /\ q1 = q2.
Proof.
  intros n1 n2 q1 q2 H1 H2 E. apply (f_equal (@rev N)) in E. rewrite !rev_app_distr in E.
  destruct (rev_canon n1) as [r1 R1]. destruct (rev_canon n2) as [r2 R2].
  assert (Hnd : ~ is_digit dot) by (unfold is_digit, dot; lia).
  destruct (split_sep dot (rev (digits q1)) (rev (digits q2)) (rev (lower (fqdn n1))) (rev (lower (fqdn n2)))) as [E1 E2].
  - rewrite <- in_rev. apply digits_no; assumption.
  - rewrite <- in_rev. apply digits_no; assumption.
  - right. eauto.
  - right. eauto.
  - exact E.
  - split.
    + apply (f_equal (@rev N)) in E2. rewrite !rev_involutive in E2. exact E2.
    + apply (f_equal (@rev N)) in E1. rewrite !rev_involutive in E1. apply digits_inj; assumption.
Qed.

Lemma rck_form : forall base s, exists t, response_cache_key base s = base ++ t /\ tail_ok bar t
                                    /\ (scope_str s = [] -> t = []) /\ (scope_str s <> [] -> t = bar :: scope_str s).
Proof.
  intros base s. unfold response_cache_key. destruct (scope_str s) as [|x r].
  - exists []. rewrite app_nil_r. repeat split; auto. left; reflexivity. intros H; contradiction.
  - exists (bar :: x :: r). repeat split; auto. right; eauto. intros H; discriminate.
Qed.

Lemma tail_scope : forall s1 s2 t1 t2,
    ((scope_str s1 = [] -> t1 = []) /\ (scope_str s1 <> [] -> t1 = bar :: scope_str s1)) ->
    ((scope_str s2 = [] -> t2 = []) /\ (scope_str s2 <> [] -> t2 = bar :: scope_str s2)) ->
    t1 = t2 -> scope_str s1 = scope_str s2.
Proof.
  intros s1 s2 t1 t2 [A1 A2] [B1 B2] E.
  destruct (scope_str s1) as [|x r] eqn:S1; destruct (scope_str s2) as [|y r'] eqn:S2; auto.
  - rewrite A1 in E by reflexivity. rewrite B2 in E by discriminate. discriminate.
  - rewrite B1 in E by reflexivity. rewrite A2 in E by discriminate. discriminate.
  - rewrite A2 in E by discriminate. rewrite B2 in E by discriminate. inversion E. reflexivity.
Qed.

(* (i) names without '|' *)
Lemma key_injective_names_proof : forall n1 q1 s1 n2 q2 s2,
    ~ In bar n1 -> ~ In bar n2 -> q1 < 65536 -> q2 < 65536 ->
    (key_of n1 q1 s1 = key_of n2 q2 s2
     <-> lower (fqdn n1) = lower (fqdn n2) /\ q1 = q2 /\ scope_str s1 = scope_str s2).
Proof.
  intros n1 q1 s1 n2 q2 s2 B1 B2 Q1 Q2. split.
  - intros E. unfold key_of, cache_key in E.
    destruct (rck_form (lower (fqdn n1) ++ digits q1) s1) as [t1 [F1 [T1 [U1 V1]]]].
    destruct (rck_form (lower (fqdn n2) ++ digits q2) s2) as [t2 [F2 [T2 [U2 V2]]]].
    rewrite F1, F2 in E.
    assert (Hnb : ~ is_digit bar) by (unfold is_digit, bar; lia).
    destruct (split_sep bar (lower (fqdn n1) ++ digits q1) (lower (fqdn n2) ++ digits q2) t1 t2) as [E1 E2]; try assumption.
    + intros Hin. apply in_app_or in Hin. destruct Hin as [Hin|Hin]; [apply (lower_no_bar _ (fqdn_no_bar _ B1)); assumption | apply (digits_no q1 bar Q1 Hnb); assumption].
    + intros Hin. apply in_app_or in Hin. destruct Hin as [Hin|Hin]; [apply (lower_no_bar _ (fqdn_no_bar _ B2)); assumption | apply (digits_no q2 bar Q2 Hnb); assumption].
    + destruct (canon_digits_split n1 n2 q1 q2 Q1 Q2 E1) as [EN EQ]. repeat split; try assumption.
      eapply tail_scope; [split; eassumption | split; eassumption | exact E2].
  - intros [EN [EQ ES]]. unfold key_of, cache_key, response_cache_key. rewrite EN, EQ, ES. reflexivity.
Qed.

(* (ii) any names, when both questions are scoped by a scope text without '|' (every key the production
   request path builds: "asis@addr:port", "reject", "upstream@scheme://host:port/path") *)
Lemma key_injective_scoped_proof : forall n1 q1 s1 n2 q2 s2,
    scope_str s1 <> [] -> scope_str s2 <> [] -> ~ In bar (scope_str s1) -> ~ In bar (scope_str s2) ->
    q1 < 65536 -> q2 < 65536 ->
    (key_of n1 q1 s1 = key_of n2 q2 s2
     <-> lower (fqdn n1) = lower (fqdn n2) /\ q1 = q2 /\ scope_str s1 = scope_str s2).
Proof.
  intros n1 q1 s1 n2 q2 s2 N1 N2 B1 B2 Q1 Q2. split.
  - intros E. unfold key_of, cache_key in E.
    destruct (rck_form (lower (fqdn n1) ++ digits q1) s1) as [t1 [F1 [_ [_ V1]]]].
    destruct (rck_form (lower (fqdn n2) ++ digits q2) s2) as [t2 [F2 [_ [_ V2]]]].
    rewrite F1, F2, (V1 N1), (V2 N2) in E.
    apply (f_equal (@rev N)) in E. rewrite !rev_app_distr in E. cbn [rev] in E. rewrite <- !app_assoc in E. cbn [app] in E.
    destruct (split_sep bar (rev (scope_str s1)) (rev (scope_str s2))
                        (bar :: rev (lower (fqdn n1) ++ digits q1)) (bar :: rev (lower (fqdn n2) ++ digits q2))) as [E1 E2].
    + rewrite <- in_rev. assumption.
    + rewrite <- in_rev. assumption.
    + right. eauto.
    + right. eauto.
    + rewrite !rev_app_distr. exact E.
    + inversion E2 as [E3]. apply (f_equal (@rev N)) in E3. rewrite !rev_involutive in E3.
      destruct (canon_digits_split n1 n2 q1 q2 Q1 Q2 E3) as [EN EQ]. repeat split; try assumption.
      apply (f_equal (@rev N)) in E1. rewrite !rev_involutive in E1. exact E1.
  - intros [EN [EQ ES]]. unfold key_of, cache_key, response_cache_key. rewrite EN, EQ, ES. reflexivity.
Qed.

(* the full statement fails on arbitrary byte strings: an unscoped question whose name contains '|'
   collides with a scoped one *)
Definition kw_n1 : bytes := [97; 46].                                   (* "a." *)
Definition kw_s1 : scope := ScUpstream [117; 46; 53].                   (* upstream text "u.5" *)
Definition kw_n2 : bytes := [97; 46; 49; 124; 117; 112; 115; 116; 114; 101; 97; 109; 64; 117; 46].  (* "a.1|upstream@u." *)
Lemma key_injective_refuted_proof :
  key_of kw_n1 1 kw_s1 = key_of kw_n2 5 ScNone /\ lower (fqdn kw_n1) <> lower (fqdn kw_n2).
Proof. split; vm_compute; [reflexivity | discriminate]. Qed.

Lemma key_injective_full_refuted_proof :
  ~ (forall n1 q1 s1 n2 q2 s2, q1 < 65536 -> q2 < 65536 ->
       key_of n1 q1 s1 = key_of n2 q2 s2 ->
       lower (fqdn n1) = lower (fqdn n2) /\ q1 = q2 /\ scope_str s1 = scope_str s2).
Proof.
  intros H. destruct key_injective_refuted_proof as [E Hne].
  destruct (H kw_n1 1 kw_s1 kw_n2 5 ScNone ltac:(reflexivity) ltac:(reflexivity) E) as [A _]. contradiction.
Qed.

(* the rendering of the type: decimal, for every 16-bit value *)
Lemma qtype_rendering_proof : forall q, q < 65536 -> digits q <> [] /\ val (digits q) = q /\ Forall is_digit (digits q).
Proof. exact digits_spec. Qed.

(* an array of pre-computed strings with unfilled slots, only bounds-checked: SOA (6) and HINFO (13) share a key *)
Lemma key_array_variant_refuted_proof :
  key_of_array kw_n1 6 ScNone = key_of_array kw_n1 13 ScNone.
Proof. vm_compute. reflexivity. Qed.

(* no leading zero: digits q is THE decimal numeral of q *)
Lemma digits_fuel_nolead : forall f n acc,
    n < 10 ^ N.of_nat (S f) -> n <> 0 ->
    exists d r, digits_fuel (S f) n acc = d :: r /\ d <> 48.
Proof.
  induction f as [|f IH]; intros n acc Hn Hz.
  - replace (10 ^ N.of_nat 1) with 10 in Hn by reflexivity.
    cbn [digits_fuel]. assert (Hd : N.div n 10 = 0) by (apply N.div_small; exact Hn). rewrite Hd. cbn [N.eqb].
    exists (48 + n mod 10), acc. split; [reflexivity|]. rewrite N.mod_small by exact Hn. lia.
  - remember (S f) as f1. cbn [digits_fuel]. destruct (N.eqb (N.div n 10) 0) eqn:E.
    + apply N.eqb_eq in E. exists (48 + n mod 10), acc. split; [reflexivity|].
      clear IH Hn. revert E Hz. nlia n.
    + subst f1. apply N.eqb_neq in E.
      assert (Hq : N.div n 10 < 10 ^ N.of_nat (S f)).
      { apply N.div_lt_upper_bound; [discriminate|]. rewrite <- N.pow_succ_r'. rewrite <- Nnat.Nat2N.inj_succ. exact Hn. }
      exact (IH (N.div n 10) ((48 + n mod 10) :: acc) Hq E).
Qed.

Lemma digits_canonical_proof : forall q, q < 65536 ->
    Forall is_digit (digits q) /\ val (digits q) = q /\ (q = 0 -> digits q = [48]) /\ (q <> 0 -> exists d r, digits q = d :: r /\ d <> 48).
Proof.
  intros q Hq. destruct (digits_spec q Hq) as [_ [V F]]. repeat split; try assumption.
  - intros ->. vm_compute. reflexivity.
  - intros Hz. unfold digits. apply digits_fuel_nolead; [|assumption]. eapply N.lt_trans; [exact Hq|]. vm_compute. reflexivity.
Qed.
