(* C17 — the model of filepath.Glob lists its matches in lexical order, and only matches. *)
From Coq Require Import List NArith Bool Lia Sorting.Sorted.
From Coq Require Import ZifyBool ZifyN ZifyNat.
From Dae Require Import C17_Spec C17_Model C17_MergeSpec C17_Paths C17_ProofsMerge.
Import ListNotations.
Open Scope N_scope.

Definition plt (a b : path) : Prop := path_ltb a b = true.
Definition nodup_listing (listing : path -> option (list str)) : Prop :=
  forall d ns, listing d = Some ns -> NoDup ns.

Definition slt (a b : str) : Prop := str_ltb a b = true.

(* ------------------------------------------------------------------ the order on names *)
Lemma str_ltb_irrefl a : str_ltb a a = false.
Proof. induction a as [|x a IH]; [reflexivity|]. cbn [str_ltb]. rewrite N.ltb_irrefl. exact IH. Qed.

Lemma str_ltb_trans a : forall b c, str_ltb a b = true -> str_ltb b c = true -> str_ltb a c = true.
Proof.
  induction a as [|x a IH]; intros [|y b] [|z c]; cbn [str_ltb]; try discriminate; auto.
  destruct (x <? y) eqn:E1, (y <? x) eqn:E2, (y <? z) eqn:E3, (z <? y) eqn:E4,
           (x <? z) eqn:E5, (z <? x) eqn:E6; try discriminate; try reflexivity; try lia.
  apply IH.
Qed.

Lemma str_ltb_total a : forall b, str_ltb a b = false -> str_ltb b a = false -> a = b.
Proof.
  induction a as [|x a IH]; intros [|y b]; cbn [str_ltb]; try discriminate; auto.
  destruct (x <? y) eqn:E1, (y <? x) eqn:E2; try discriminate.
  intros H1 H2. f_equal; [lia|auto].
Qed.

(* ------------------------------------------------------------------ generic facts on StronglySorted *)
Lemma SS_app {A} (R : A -> A -> Prop) l1 l2 :
  StronglySorted R l1 -> StronglySorted R l2 -> (forall x y, In x l1 -> In y l2 -> R x y) ->
  StronglySorted R (l1 ++ l2).
Proof.
  induction l1 as [|a l1 IH]; intros H1 H2 H; [exact H2|].
  apply StronglySorted_inv in H1. destruct H1 as [H1 Ha]. cbn [app]. constructor.
  - apply IH; [assumption|assumption|]. intros x y Hx Hy. apply H; [right|]; assumption.
  - apply Forall_app. split; [assumption|]. apply Forall_forall. intros y Hy. apply H; [left; reflexivity|assumption].
Qed.

Lemma SS_map {A B} (R : A -> A -> Prop) (R' : B -> B -> Prop) (f : A -> B) l :
  StronglySorted R l -> (forall x y, R x y -> R' (f x) (f y)) -> StronglySorted R' (map f l).
Proof.
  intros H Hf. induction H as [|a l Hl IH Ha]; cbn [map]; constructor; [assumption|].
  rewrite Forall_forall in *. intros y Hy. apply in_map_iff in Hy. destruct Hy as (x & <- & Hx). auto.
Qed.

Lemma SS_filter {A} (R : A -> A -> Prop) (p : A -> bool) l :
  StronglySorted R l -> StronglySorted R (filter p l).
Proof.
  intros H. induction H as [|a l Hl IH Ha]; cbn [filter]; [constructor|].
  destruct (p a); [|assumption]. constructor; [assumption|].
  rewrite Forall_forall in *. intros y Hy. apply filter_In in Hy. destruct Hy as [Hy _]. auto.
Qed.

Lemma SS_flat_map {A B} (R : A -> A -> Prop) (R' : B -> B -> Prop) (f : A -> list B) l :
  StronglySorted R l -> (forall d, StronglySorted R' (f d)) ->
  (forall d1 d2, In d1 l -> In d2 l -> R d1 d2 -> forall x y, In x (f d1) -> In y (f d2) -> R' x y) ->
  StronglySorted R' (flat_map f l).
Proof.
  intros H Hf Hc. induction H as [|a l Hl IH Ha]; cbn [flat_map]; [constructor|].
  apply SS_app; [apply Hf| |].
  - apply IH. intros d1 d2 H1 H2. apply Hc; right; assumption.
  - intros x y Hx Hy. apply in_flat_map in Hy. destruct Hy as (d & Hd & Hy).
    rewrite Forall_forall in Ha.
    apply (Hc a d); [left; reflexivity|right; assumption|auto|assumption|assumption].
Qed.

(* ------------------------------------------------------------------ 1, 2: sort_names *)
Lemma insert_in x l y : In y (insert_sorted x l) <-> y = x \/ In y l.
Proof.
  induction l as [|z l IH]; cbn [insert_sorted In]; [intuition|].
  destruct (str_ltb z x); cbn [In]; [rewrite IH|]; intuition.
Qed.

Lemma sort_names_perm : forall l x, In x (sort_names l) <-> In x l.
Proof.
  induction l as [|a l IH]; intros x; cbn [sort_names fold_right In]; [reflexivity|].
  fold (sort_names l). rewrite insert_in, IH. intuition.
Qed.

Lemma insert_sorted_ok x l : ~ In x l -> StronglySorted slt l -> StronglySorted slt (insert_sorted x l).
Proof.
  intros Hn H. induction H as [|y l Hl IH Hy]; cbn [insert_sorted].
  - constructor; constructor.
  - destruct (str_ltb y x) eqn:E.
    + constructor; [apply IH; intros Hi; apply Hn; right; assumption|].
      apply Forall_forall. intros z Hz. apply insert_in in Hz. destruct Hz as [->|Hz]; [exact E|].
      rewrite Forall_forall in Hy. auto.
    + assert (Hxy : slt x y).
      { unfold slt. destruct (str_ltb x y) eqn:E'; [reflexivity|]. exfalso. apply Hn. left.
        symmetry. apply str_ltb_total; assumption. }
      constructor; [constructor; assumption|].
      constructor; [assumption|]. rewrite Forall_forall in *. intros z Hz.
      apply (str_ltb_trans x y z); [assumption|]. apply Hy. assumption.
Qed.

Lemma sort_names_sorted : forall l, NoDup l -> StronglySorted (fun a b => str_ltb a b = true) (sort_names l).
Proof.
  intros l H. change (StronglySorted slt (sort_names l)).
  induction H as [|x l Hx Hl IH]; cbn [sort_names fold_right]; [constructor|].
  fold (sort_names l). apply insert_sorted_ok; [|assumption].
  intros Hi. apply Hx. apply sort_names_perm. assumption.
Qed.

(* ------------------------------------------------------------------ 3, 4: glob is sorted *)
Lemma path_ltb_snoc_same d n1 n2 : str_ltb n1 n2 = true -> path_ltb (d ++ [n1]) (d ++ [n2]) = true.
Proof.
  intros H. induction d as [|x d IH]; cbn [app path_ltb]; [rewrite H; reflexivity|].
  rewrite str_ltb_irrefl. exact IH.
Qed.

Lemma path_ltb_snoc_lt d1 : forall d2 n1 n2,
  path_ltb d1 d2 = true -> length d1 = length d2 -> path_ltb (d1 ++ [n1]) (d2 ++ [n2]) = true.
Proof.
  induction d1 as [|x a IH]; intros [|y b] n1 n2; cbn [path_ltb app length]; try discriminate.
  destruct (str_ltb x y); [reflexivity|]. destruct (str_ltb y x); [discriminate|].
  intros H Hl. apply IH; [assumption|]. injection Hl as Hl. exact Hl.
Qed.

Definition ginv (cands : list path) (L : nat) : Prop :=
  StronglySorted plt cands /\ forall d, In d cands -> length d = L.

Lemma glob_step_inv listing cands c L :
  nodup_listing listing -> ginv cands L -> ginv (glob_step listing cands c) (S L).
Proof.
  intros Hnd [Hs Hl]. unfold glob_step. split.
  - apply (SS_flat_map plt plt); [assumption| |].
    + intros d. destruct (listing d) as [ns|] eqn:E; [|constructor].
      apply (SS_map slt plt); [|intros x y; apply path_ltb_snoc_same].
      apply SS_filter. apply sort_names_sorted. exact (Hnd d ns E).
    + intros d1 d2 H1 H2 H12 x y Hx Hy.
      destruct (listing d1); [|contradiction]. destruct (listing d2); [|contradiction].
      apply in_map_iff in Hx. destruct Hx as (n1 & <- & _).
      apply in_map_iff in Hy. destruct Hy as (n2 & <- & _).
      apply path_ltb_snoc_lt; [exact H12|]. rewrite (Hl d1 H1), (Hl d2 H2). reflexivity.
  - intros q Hq. apply in_flat_map in Hq. destruct Hq as (d & Hd & Hq).
    destruct (listing d); [|contradiction].
    apply in_map_iff in Hq. destruct Hq as (n & <- & _).
    rewrite app_length, (Hl d Hd). cbn [length]. lia.
Qed.

Lemma fold_glob_sorted listing rest : nodup_listing listing -> forall cands L,
  ginv cands L -> StronglySorted plt (fold_left (glob_step listing) rest cands).
Proof.
  intros Hnd. induction rest as [|c r IH]; intros cands L H; cbn [fold_left]; [exact (proj1 H)|].
  apply (IH _ (S L)). apply glob_step_inv; assumption.
Qed.

Lemma glob_comps_sorted : forall listing lit rest,
  nodup_listing listing -> StronglySorted plt (glob_comps listing lit rest).
Proof.
  intros listing lit rest Hnd. unfold glob_comps.
  apply (fold_glob_sorted listing rest Hnd [lit] (length lit)). split.
  - constructor; constructor.
  - intros d [<-|[]]. reflexivity.
Qed.

Lemma glob_sorted : forall listing lexists p,
  nodup_listing listing -> StronglySorted plt (glob listing lexists p).
Proof.
  intros listing lexists p Hnd. unfold glob. destruct (existsb has_meta p).
  - destruct (split_meta [] p) as [lit rest]. apply glob_comps_sorted. assumption.
  - destruct (lexists (clean p)); [constructor; constructor|constructor].
Qed.

(* ------------------------------------------------------------------ 5: only matches *)
Lemma fold_glob_sound listing rest : forall cands q,
  In q (fold_left (glob_step listing) rest cands) ->
  exists d names, In d cands /\ q = d ++ names /\ length names = length rest /\
    Forall2 (fun c n => pmatch c n = true) rest names /\
    (forall k, (k < length names)%nat ->
       exists ns, listing (d ++ firstn k names) = Some ns /\ In (nth k names []) ns).
Proof.
  induction rest as [|c r IH]; intros cands q H; cbn [fold_left] in H.
  - exists q, []. split; [assumption|]. rewrite app_nil_r. repeat split; [constructor|].
    intros k Hk. cbn [length] in Hk. lia.
  - apply IH in H. destruct H as (d' & names' & Hd' & Eq & Hl & HF & Hk).
    unfold glob_step in Hd'. apply in_flat_map in Hd'. destruct Hd' as (d & Hd & Hin).
    destruct (listing d) as [ns|] eqn:E; [|contradiction].
    apply in_map_iff in Hin. destruct Hin as (n & <- & Hn).
    apply filter_In in Hn. destruct Hn as [Hn Hm]. apply (proj1 (sort_names_perm _ _)) in Hn.
    exists d, (n :: names'). split; [assumption|].
    split; [rewrite Eq, <- app_assoc; reflexivity|].
    split; [cbn [length]; rewrite Hl; reflexivity|].
    split; [constructor; assumption|].
    intros [|k] Hlt; cbn [firstn nth].
    + rewrite app_nil_r. exists ns. split; [exact E|exact Hn].
    + cbn [length] in Hlt. destruct (Hk k) as (ns' & E' & Hi'); [lia|].
      rewrite <- app_assoc in E'. cbn [app] in E'. exists ns'. split; assumption.
Qed.

Lemma glob_comps_sound : forall listing lit rest q, In q (glob_comps listing lit rest) ->
  exists names, q = lit ++ names /\ length names = length rest /\
    Forall2 (fun c n => pmatch c n = true) rest names /\
    (forall k, (k < length names)%nat ->
       exists ns, listing (lit ++ firstn k names) = Some ns /\ In (nth k names []) ns).
Proof.
  intros listing lit rest q H. unfold glob_comps in H. apply fold_glob_sound in H.
  destruct H as (d & names & [<-|[]] & H). exists names. exact H.
Qed.

(* ------------------------------------------------------------------ 6: the merger over globbed includes *)
Lemma merge_order_globs : forall os listing entry_dir fuel entry m vis,
  nodup_listing listing ->
  dfs_merge fuel (fs_of os entry_dir) (expand_of os listing entry_dir) [] entry = Ok (m, vis) ->
  exists t, tree_root t = entry /\ resolves (fs_of os entry_dir) (expand_of os listing entry_dir) t /\
    (forall n, sm_get m n = merged_items t n) /\ vis = rev (tree_paths t) /\ NoDup (tree_paths t) /\
    (forall written, StronglySorted plt
       (filter (keep os) (glob listing (fun p => negb (match os p with OMissing => true | _ => false end))
                              (pattern_path entry_dir written)))).
Proof.
  intros os listing entry_dir fuel entry m vis Hnd H.
  apply merge_order in H. destruct H as (t & H1 & H2 & H3 & H4 & H5).
  exists t. repeat (split; [assumption|]).
  intros written. apply SS_filter. apply glob_sorted. assumption.
Qed.
