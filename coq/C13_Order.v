(* C13 — ordered exactly-once handling of the task pool under the race-free side condition
   (no step inside the claim window F7 or the overflow-pop window F14). *)
From Coq Require Import List Arith Bool ZArith Lia Permutation.
From Dae Require Import C13_Spec C13_Model C13_Race.
From Dae.gen Require Import C13_Consts.
Import ListNotations.

(* ------------------------------------------------------------------------------------------ *)
(* generic list facts                                                                          *)
(* ------------------------------------------------------------------------------------------ *)
Definition b2n (b : bool) : nat := if b then 1 else 0.
Definition count {A} (f : A -> bool) (l : list A) : nat := length (filter f l).
Arguments count : simpl never.

Lemma nth_error_upd {A} (l : list A) i j x :
  nth_error (upd l i x) j = if j =? i then (match nth_error l i with Some _ => Some x | None => None end)
                            else nth_error l j.
Proof.
  revert i j; induction l as [|y r IH]; intros i j.
  - destruct i, j; cbn; try reflexivity; destruct (j =? i); reflexivity.
  - destruct i, j; cbn; try reflexivity. apply IH.
Qed.

Lemma nth_nth_error {A} (l : list A) i d x : nth_error l i = Some x -> nth i l d = x.
Proof. revert i; induction l; intros [|i] H; cbn in *; try discriminate; [now inversion H|auto]. Qed.

Lemma nth_error_nth_some {A} (l : list A) i d : i < length l -> nth_error l i = Some (nth i l d).
Proof. revert i; induction l; intros [|i] H; cbn in *; try lia; [reflexivity|apply IHl; lia]. Qed.

Lemma upd_overflow {A} (l : list A) i x : length l <= i -> upd l i x = l.
Proof.
  revert i; induction l as [|y r IH]; intros i H; destruct i; cbn in *; try reflexivity; try lia.
  f_equal. apply IH. lia.
Qed.

Lemma count_nil {A} (f : A -> bool) : count f [] = 0.
Proof. reflexivity. Qed.

Lemma count_cons {A} (f : A -> bool) x l : count f (x :: l) = b2n (f x) + count f l.
Proof. unfold count; cbn. destruct (f x); reflexivity. Qed.

Lemma count_app {A} (f : A -> bool) l1 l2 : count f (l1 ++ l2) = count f l1 + count f l2.
Proof. unfold count. rewrite filter_app, app_length. reflexivity. Qed.

Lemma count_upd {A} (f : A -> bool) l i x y :
  nth_error l i = Some y -> count f (upd l i x) + b2n (f y) = count f l + b2n (f x).
Proof.
  revert i; induction l as [|z r IH]; intros i H; destruct i; cbn in *; try discriminate.
  - inversion H; subst. rewrite !count_cons. lia.
  - specialize (IH i H). rewrite !count_cons. lia.
Qed.

Lemma count_upd' {A} (f : A -> bool) l i x y bx by_ :
  nth_error l i = Some y -> f x = bx -> f y = by_ -> count f (upd l i x) + b2n by_ = count f l + b2n bx.
Proof. intros H <- <-. now apply count_upd. Qed.

Lemma count_upd_eq {A} (f : A -> bool) l i x y :
  nth_error l i = Some y -> f x = f y -> count f (upd l i x) = count f l.
Proof. intros H E. pose proof (count_upd f l i x y H). rewrite E in *. lia. Qed.

Lemma count_ge1 {A} (f : A -> bool) l i x : nth_error l i = Some x -> f x = true -> 1 <= count f l.
Proof.
  revert i; induction l as [|z r IH]; intros i H E; destruct i; cbn in *; try discriminate.
  - inversion H; subst. rewrite count_cons, E. cbn. lia.
  - rewrite count_cons. specialize (IH i H E). lia.
Qed.

Lemma count_ge2 {A} (f : A -> bool) l i j x y :
  nth_error l i = Some x -> nth_error l j = Some y -> i <> j -> f x = true -> f y = true -> 2 <= count f l.
Proof.
  revert i j; induction l as [|z r IH]; intros i j Hi Hj N Ex Ey; destruct i, j; cbn in *; try discriminate; try lia.
  - inversion Hi; subst. rewrite count_cons, Ex. pose proof (count_ge1 f r j y Hj Ey). cbn. lia.
  - inversion Hj; subst. rewrite count_cons, Ey. pose proof (count_ge1 f r i x Hi Ex). cbn. lia.
  - rewrite count_cons. assert (i <> j) by lia. specialize (IH i j Hi Hj H Ex Ey). lia.
Qed.

Lemma count_zero {A} (f : A -> bool) l : (forall i x, nth_error l i = Some x -> f x = false) -> count f l = 0.
Proof.
  induction l as [|z r IH]; intros H; [reflexivity|].
  rewrite count_cons, (H 0 z eq_refl). cbn. apply IH. intros i x Hx. apply (H (S i) x Hx).
Qed.

Lemma count_zero_inv {A} (f : A -> bool) l i x : count f l = 0 -> nth_error l i = Some x -> f x = false.
Proof.
  intros C H. destruct (f x) eqn:E; [|reflexivity]. pose proof (count_ge1 f l i x H E). lia.
Qed.

Lemma count_ext_map {A B} (v : A -> B) (g : A -> bool) l l' :
  map v l' = map v l -> (forall x y, v x = v y -> g x = g y) -> count g l' = count g l.
Proof.
  revert l'; induction l as [|z r IH]; intros [|z' r'] H E; cbn in H; try discriminate; [reflexivity|].
  inversion H. rewrite !count_cons, (E z' z), (IH r'); auto.
Qed.

Lemma nth_error_map_eq {A B} (v : A -> B) l l' i x' :
  map v l' = map v l -> nth_error l' i = Some x' -> exists x, nth_error l i = Some x /\ v x = v x'.
Proof.
  revert l' i; induction l as [|z r IH]; intros [|z' r'] i H Hx; cbn in H; try discriminate.
  - destruct i; discriminate.
  - inversion H. destruct i; cbn in *.
    + inversion Hx; subst. eauto.
    + eapply IH; eauto.
Qed.

Lemma map_upd_same {A B} (v : A -> B) l i x y :
  nth_error l i = Some y -> v x = v y -> map v (upd l i x) = map v l.
Proof.
  revert i; induction l as [|z r IH]; intros i H E; destruct i; cbn in *; try discriminate.
  - inversion H; subst. now rewrite E.
  - f_equal. now apply IH.
Qed.

Lemma upd_same {A} (l : list A) i x : nth_error l i = Some x -> upd l i x = l.
Proof.
  revert i; induction l as [|z r IH]; intros i H; destruct i; cbn in *; try discriminate.
  - now inversion H.
  - f_equal. now apply IH.
Qed.

Lemma upd_length {A} (l : list A) i x : length (upd l i x) = length l.
Proof. revert i; induction l; intros [|i]; cbn; auto. Qed.

Lemma nth_error_app_l {A} (l l' : list A) i x : nth_error l i = Some x -> nth_error (l ++ l') i = Some x.
Proof. intros H. rewrite nth_error_app1; auto. apply nth_error_Some. congruence. Qed.

Lemma nth_error_snoc {A} (l : list A) y i x :
  nth_error (l ++ [y]) i = Some x -> nth_error l i = Some x \/ (i = length l /\ x = y).
Proof.
  intros H. destruct (Nat.lt_ge_cases i (length l)).
  - rewrite nth_error_app1 in H by auto. now left.
  - rewrite nth_error_app2 in H by auto. destruct (i - length l) as [|n] eqn:E; cbn in H.
    + inversion H. right. split; [lia|reflexivity].
    + destruct n; discriminate.
Qed.

Lemma nth_error_lt {A} (l : list A) i x : nth_error l i = Some x -> i < length l.
Proof. intros H. apply nth_error_Some. congruence. Qed.

Lemma count_mem c l : mem c l = true -> 1 <= count (Nat.eqb c) l.
Proof.
  induction l as [|z r IH]; cbn; [discriminate|]. intros H. rewrite count_cons.
  destruct (c =? z); cbn in *; [lia|]. specialize (IH H). lia.
Qed.

Lemma count_in c l : In c l -> 1 <= count (Nat.eqb c) l.
Proof.
  induction l as [|z r IH]; cbn; [tauto|]. intros [H|H]; rewrite count_cons.
  - subst. rewrite Nat.eqb_refl. cbn. lia.
  - specialize (IH H). lia.
Qed.

Lemma count_remove1 c c' l :
  mem c l = true -> count (Nat.eqb c') (remove1 c l) + b2n (c' =? c) = count (Nat.eqb c') l.
Proof.
  induction l as [|z r IH]; cbn; [discriminate|]. intros H.
  destruct (Nat.eqb_spec c z).
  - subst z. rewrite Nat.eqb_refl. rewrite count_cons. lia.
  - rewrite (proj2 (Nat.eqb_neq z c)) by auto. cbn in H. rewrite !count_cons. specialize (IH H). lia.
Qed.

(* ------------------------------------------------------------------------------------------ *)
(* part A: map / reference counts / channel ownership                                          *)
(* ------------------------------------------------------------------------------------------ *)
Definition active (pc : cpc) : bool :=
  match pc with CNotStarted | CTop | CPopOver | CRun _ | CWait | CChecked => true | _ => false end.
Definition live (pc : cpc) : bool := match pc with CExit => false | _ => true end.
Definition is_ns (pc : cpc) : bool := match pc with CNotStarted => true | _ => false end.
Definition gone (pc : cpc) : bool := match pc with CDelFailed | CDeleted | CExit => true | _ => false end.

Definition holds (q : nat) (p : nat * ppc) : bool :=
  match snd p with PEnq q' | PRel q' | PSpawn q' => q =? q' | _ => false end.
Definition creator (q : nat) (p : nat * ppc) : bool :=
  match snd p with PStored q' | PSpawn q' => q =? q' | _ => false end.
Definition having (c : nat) (p : nat * ppc) : bool :=
  match snd p with PHave c' => c =? c' | _ => false end.
Definition qowns (c : nat) (Q : queue) : bool := live (q_pc Q) && (c =? q_ch Q).
Definition chown (s : state) (c : nat) : nat :=
  count (qowns c) (st_qs s) + count (Nat.eqb c) (st_pool s) + count (having c) (st_prods s).

Definition pc_ok (s : state) (k : nat) (pc : ppc) : Prop :=
  match pc with
  | PLoaded q | PLoaded2 q | PStored q | PSpawn q | PEnq q | PRel q =>
      exists Q, nth_error (st_qs s) q = Some Q /\ q_key Q = k
  | PCad q => exists Q, nth_error (st_qs s) q = Some Q /\ q_key Q = k /\ active (q_pc Q) = false
  | _ => True
  end.

Record InvA (s : state) : Prop := mkA {
  a_map : forall k q, st_map s k = Some q -> exists Q, nth_error (st_qs s) q = Some Q /\ q_key Q = k;
  a_act : forall q Q, nth_error (st_qs s) q = Some Q -> active (q_pc Q) = true -> st_map s (q_key Q) = Some q;
  a_gone : forall q Q, nth_error (st_qs s) q = Some Q -> gone (q_pc Q) = true -> st_map s (q_key Q) <> Some q;
  a_refs : forall q Q, nth_error (st_qs s) q = Some Q ->
      if active (q_pc Q) then q_refs Q = Z.of_nat (count (holds q) (st_prods s))
      else (q_refs Q < 0)%Z /\ count (holds q) (st_prods s) = 0;
  a_creat : forall q Q, nth_error (st_qs s) q = Some Q -> count (creator q) (st_prods s) = b2n (is_ns (q_pc Q));
  a_prod : forall i k pc, nth_error (st_prods s) i = Some (k, pc) -> pc_ok s k pc;
  a_own : forall c, chown s c = b2n (c <? length (st_chans s)) }.

Definition qv (Q : queue) :=
  (q_key Q, q_ch Q, q_refs Q, (active (q_pc Q), gone (q_pc Q), is_ns (q_pc Q), live (q_pc Q))).

Lemma qv_inv Q Q' : qv Q = qv Q' ->
  q_key Q = q_key Q' /\ q_ch Q = q_ch Q' /\ q_refs Q = q_refs Q' /\ active (q_pc Q) = active (q_pc Q')
  /\ gone (q_pc Q) = gone (q_pc Q') /\ is_ns (q_pc Q) = is_ns (q_pc Q') /\ live (q_pc Q) = live (q_pc Q').
Proof. unfold qv. intros H. inversion H. repeat split; assumption. Qed.

Lemma pc_ok_mono s s' k pc :
  (forall q Q, nth_error (st_qs s) q = Some Q ->
     exists Q', nth_error (st_qs s') q = Some Q' /\ q_key Q' = q_key Q /\ (active (q_pc Q) = false -> active (q_pc Q') = false)) ->
  pc_ok s k pc -> pc_ok s' k pc.
Proof.
  intros M H. destruct pc; cbn in *; auto;
    destruct H as (Q & Hq & Hk); destruct (M _ _ Hq) as (Q' & Hq' & Hk' & Ha); exists Q'.
  all: try (split; [assumption|congruence]).
  destruct Hk as [Hk Hi]. repeat split; [assumption|congruence|auto].
Qed.

(* frame: nothing that part A looks at changes *)
Lemma A_frame s s' :
  InvA s ->
  map qv (st_qs s') = map qv (st_qs s) ->
  st_map s' = st_map s -> st_pool s' = st_pool s -> length (st_chans s') = length (st_chans s) ->
  (forall q, count (holds q) (st_prods s') = count (holds q) (st_prods s)) ->
  (forall q, count (creator q) (st_prods s') = count (creator q) (st_prods s)) ->
  (forall c, count (having c) (st_prods s') = count (having c) (st_prods s)) ->
  (forall i k pc, nth_error (st_prods s') i = Some (k, pc) -> pc_ok s k pc) ->
  InvA s'.
Proof.
  intros I HQ HM HP HC Hh Hc Hv Hok.
  assert (F : forall q Q', nth_error (st_qs s') q = Some Q' -> exists Q, nth_error (st_qs s) q = Some Q /\ qv Q = qv Q').
  { intros q Q' H. eapply nth_error_map_eq; eauto. }
  assert (B : forall q Q, nth_error (st_qs s) q = Some Q -> exists Q', nth_error (st_qs s') q = Some Q' /\ qv Q' = qv Q).
  { intros q Q H. eapply nth_error_map_eq; [symmetry; exact HQ|exact H]. }
  constructor.
  - intros k q H. rewrite HM in H. destruct (a_map s I k q H) as (Q & Hq & Hk).
    destruct (B q Q Hq) as (Q' & Hq' & E). apply qv_inv in E. exists Q'. split; [assumption|]. destruct E as (E & _). congruence.
  - intros q Q' H Ha. destruct (F q Q' H) as (Q & Hq & E). apply qv_inv in E. destruct E as (E1 & _ & _ & E4 & _).
    rewrite HM, <- E1. apply (a_act s I q Q Hq). congruence.
  - intros q Q' H Ha. destruct (F q Q' H) as (Q & Hq & E). apply qv_inv in E. destruct E as (E1 & _ & _ & _ & E5 & _).
    rewrite HM, <- E1. apply (a_gone s I q Q Hq). congruence.
  - intros q Q' H. destruct (F q Q' H) as (Q & Hq & E). apply qv_inv in E. destruct E as (_ & _ & E3 & E4 & _).
    rewrite Hh, <- E3, <- E4. apply (a_refs s I q Q Hq).
  - intros q Q' H. destruct (F q Q' H) as (Q & Hq & E). apply qv_inv in E. destruct E as (_ & _ & _ & _ & _ & E6 & _).
    rewrite Hc, <- E6. apply (a_creat s I q Q Hq).
  - intros i k pc H. eapply pc_ok_mono; [|apply (Hok i k pc H)].
    intros q Q Hq. destruct (B q Q Hq) as (Q' & Hq' & E). apply qv_inv in E. exists Q'.
    destruct E as (E1 & _ & _ & E4 & _). repeat split; [assumption|assumption|congruence].
  - intros c. unfold chown. rewrite HP, HC, Hv, <- (a_own s I c). unfold chown. f_equal. f_equal.
    apply (count_ext_map qv); [assumption|].
    intros x y E. apply qv_inv in E. destruct E as (_ & E2 & _ & _ & _ & _ & E7). unfold qowns. congruence.
Qed.

Lemma nth_upd_cases {A} (l : list A) i x j y :
  nth_error (upd l i x) j = Some y -> (j = i /\ y = x) \/ (j <> i /\ nth_error l j = Some y).
Proof.
  rewrite nth_error_upd. destruct (Nat.eqb_spec j i).
  - subst. destruct (nth_error l i); [|discriminate]. intros H; inversion H. now left.
  - intros H. now right.
Qed.

Lemma nth_upd_same {A} (l : list A) i x y : nth_error l i = Some y -> nth_error (upd l i x) i = Some x.
Proof. intros H. rewrite nth_error_upd, Nat.eqb_refl, H. reflexivity. Qed.

Lemma nth_upd_other {A} (l : list A) i x j : j <> i -> nth_error (upd l i x) j = nth_error l j.
Proof. intros H. rewrite nth_error_upd. now rewrite (proj2 (Nat.eqb_neq j i)). Qed.

Lemma nth_error_snoc_new {A} (l : list A) y : nth_error (l ++ [y]) (length l) = Some y.
Proof. rewrite nth_error_app2, Nat.sub_diag; auto. Qed.

Lemma opt_is_true o q : opt_is o q = true <-> o = Some q.
Proof.
  destruct o as [x|]; cbn; [|split; discriminate]. rewrite Nat.eqb_eq. split; [intros ->; reflexivity|intros H; now inversion H].
Qed.

Lemma opt_is_false o q : opt_is o q = false <-> o <> Some q.
Proof.
  rewrite <- opt_is_true. destruct (opt_is o q); split; auto; try discriminate. intros H; exfalso; now apply H.
Qed.

Lemma map_set_same m k v : map_set m k v k = v.
Proof. unfold map_set. now rewrite Nat.eqb_refl. Qed.
Lemma map_set_other m k v k' : k' <> k -> map_set m k v k' = m k'.
Proof. intros H. unfold map_set. now rewrite (proj2 (Nat.eqb_neq k' k)). Qed.

Lemma mono_upd (qs : list queue) q Q Q' :
  nth_error qs q = Some Q -> q_key Q' = q_key Q -> (active (q_pc Q) = false -> active (q_pc Q') = false) ->
  forall q0 Q0, nth_error qs q0 = Some Q0 ->
    exists Q0', nth_error (upd qs q Q') q0 = Some Q0' /\ q_key Q0' = q_key Q0 /\ (active (q_pc Q0) = false -> active (q_pc Q0') = false).
Proof.
  intros Hq Hk Ha q0 Q0 H0. destruct (Nat.eq_dec q0 q).
  - subst. exists Q'. rewrite (nth_upd_same _ _ _ _ Hq). assert (Q0 = Q) by congruence. subst. auto.
  - exists Q0. rewrite nth_upd_other by auto. auto.
Qed.

Lemma mono_app (qs : list queue) Qn :
  forall q0 Q0, nth_error qs q0 = Some Q0 ->
    exists Q0', nth_error (qs ++ [Qn]) q0 = Some Q0' /\ q_key Q0' = q_key Q0 /\ (active (q_pc Q0) = false -> active (q_pc Q0') = false).
Proof. intros q0 Q0 H. exists Q0. split; [now apply nth_error_app_l|auto]. Qed.

Lemma mono_refl (qs : list queue) :
  forall q0 Q0, nth_error qs q0 = Some Q0 ->
    exists Q0', nth_error qs q0 = Some Q0' /\ q_key Q0' = q_key Q0 /\ (active (q_pc Q0) = false -> active (q_pc Q0') = false).
Proof. intros q0 Q0 H. exists Q0. auto. Qed.

Lemma ok_upd s i k pc pc' :
  InvA s -> nth_error (st_prods s) i = Some (k, pc) -> pc_ok s k pc' ->
  forall i1 k1 pc1, nth_error (upd (st_prods s) i (k, pc')) i1 = Some (k1, pc1) -> pc_ok s k1 pc1.
Proof.
  intros I Hp Hok i1 k1 pc1 H. apply nth_upd_cases in H. destruct H as [[-> E]|[N H]].
  - inversion E; subst. exact Hok.
  - apply (a_prod s I _ _ _ H).
Qed.

Lemma holds_fresh s : InvA s -> count (holds (length (st_qs s))) (st_prods s) = 0.
Proof.
  intros I. apply count_zero. intros i [k pc] H. pose proof (a_prod s I i k pc H) as O.
  unfold holds; cbn [snd]. destruct pc; try reflexivity; cbn in O; destruct O as (Q & Hq & _);
    apply nth_error_lt in Hq; apply Nat.eqb_neq; lia.
Qed.

Lemma creator_fresh s : InvA s -> count (creator (length (st_qs s))) (st_prods s) = 0.
Proof.
  intros I. apply count_zero. intros i [k pc] H. pose proof (a_prod s I i k pc H) as O.
  unfold creator; cbn [snd]. destruct pc; try reflexivity; cbn in O; destruct O as (Q & Hq & _);
    apply nth_error_lt in Hq; apply Nat.eqb_neq; lia.
Qed.

Ltac simp_st :=
  cbn [st_map st_qs st_chans st_pool st_prods st_log set_map set_qs set_chans set_pool set_prods add_log
       set_q set_ppc set_chan start_task].
Ltac simp_q := cbn [q_key q_ch q_over q_mode q_refs q_pc q_set_refs q_set_pc q_set_over].
Ltac simp_q_in H := cbn [q_key q_ch q_over q_mode q_refs q_pc q_set_refs q_set_pc q_set_over] in H.
Ltac updc H := apply nth_upd_cases in H; destruct H as [[-> ->]|[? H]].

Lemma active_not_gone pc : active pc = true -> gone pc = false.
Proof. destruct pc; cbn; congruence. Qed.

(* one producer moves and changes the reference count of an active queue *)
Lemma A_refs_step s q Q i k pc pc' r' :
  InvA s -> nth_error (st_qs s) q = Some Q -> nth_error (st_prods s) i = Some (k, pc) ->
  active (q_pc Q) = true ->
  (forall q1, q1 <> q -> holds q1 (k, pc') = holds q1 (k, pc)) ->
  (r' + Z.of_nat (b2n (holds q (k, pc))) = q_refs Q + Z.of_nat (b2n (holds q (k, pc'))))%Z ->
  (forall q1, creator q1 (k, pc') = creator q1 (k, pc)) ->
  (forall c, having c (k, pc') = having c (k, pc)) ->
  pc_ok s k pc' ->
  InvA (set_ppc (set_q s q (q_set_refs Q r')) i k pc').
Proof.
  intros I Hq Hp Ha Hh Hr Hc Hv Hok. constructor; simp_st.
  - intros k0 q0 H. destruct (a_map s I _ _ H) as (Q0 & Hq0 & Hk0).
    destruct (mono_upd _ q Q (q_set_refs Q r') Hq eq_refl (fun x => x) q0 Q0 Hq0) as (Q0' & H0 & E & _).
    exists Q0'. split; [assumption|congruence].
  - intros q0 Q0 H A0. updc H; [apply (a_act s I q Q Hq Ha)|apply (a_act s I q0 Q0 H A0)].
  - intros q0 Q0 H A0. updc H; [|apply (a_gone s I q0 Q0 H A0)].
    simp_q_in A0. rewrite (active_not_gone _ Ha) in A0. discriminate.
  - intros q0 Q0 H. updc H.
    + simp_q. rewrite Ha. pose proof (a_refs s I q Q Hq) as R. rewrite Ha in R.
      pose proof (count_upd (holds q) _ i (k, pc') _ Hp) as C. lia.
    + rewrite (count_upd_eq (holds q0) _ i (k, pc') (k, pc) Hp (Hh q0 H0)). apply (a_refs s I q0 Q0 H).
  - intros q0 Q0 H. rewrite (count_upd_eq (creator q0) _ i (k, pc') (k, pc) Hp (Hc q0)).
    updc H; [apply (a_creat s I q Q Hq)|apply (a_creat s I q0 Q0 H)].
  - intros i0 k0 pc0 H. eapply pc_ok_mono; [|eapply (ok_upd s i k pc pc'); eauto].
    simp_st. apply (mono_upd _ q Q); auto.
  - intros c. unfold chown; simp_st.
    rewrite (count_upd_eq (having c) _ i (k, pc') (k, pc) Hp (Hv c)).
    rewrite (count_upd_eq (qowns c) _ q (q_set_refs Q r') Q Hq eq_refl). apply (a_own s I c).
Qed.

(* one convoy moves: only its queue record (not key / channel), the map and the pool may change *)
Lemma A_qstep s s' q Q Q' :
  InvA s -> nth_error (st_qs s) q = Some Q ->
  st_qs s' = upd (st_qs s) q Q' -> st_prods s' = st_prods s -> length (st_chans s') = length (st_chans s) ->
  q_key Q' = q_key Q -> is_ns (q_pc Q') = is_ns (q_pc Q) ->
  (active (q_pc Q) = false -> active (q_pc Q') = false) ->
  (forall k0 q0, st_map s' k0 = Some q0 -> st_map s k0 = Some q0) ->
  (forall q0 Q0, q0 <> q -> nth_error (st_qs s) q0 = Some Q0 -> active (q_pc Q0) = true -> st_map s' (q_key Q0) = Some q0) ->
  (active (q_pc Q') = true -> st_map s' (q_key Q) = Some q) ->
  (gone (q_pc Q') = true -> st_map s' (q_key Q) <> Some q) ->
  (if active (q_pc Q') then q_refs Q' = Z.of_nat (count (holds q) (st_prods s))
   else (q_refs Q' < 0)%Z /\ count (holds q) (st_prods s) = 0) ->
  (forall c, count (qowns c) (upd (st_qs s) q Q') + count (Nat.eqb c) (st_pool s')
             = count (qowns c) (st_qs s) + count (Nat.eqb c) (st_pool s)) ->
  InvA s'.
Proof.
  intros I Hq EQ EP EC Hk Hns Hin HM1 HM2 HM3 HM4 HR HO. constructor; rewrite ?EQ, ?EP, ?EC.
  - intros k0 q0 H. apply HM1 in H. destruct (a_map s I _ _ H) as (Q0 & Hq0 & Hk0).
    destruct (mono_upd _ q Q Q' Hq Hk Hin q0 Q0 Hq0) as (Q0' & H0 & E & _).
    exists Q0'. split; [assumption|congruence].
  - intros q0 Q0 H A0. updc H; [rewrite Hk; auto|apply (HM2 q0 Q0); auto].
  - intros q0 Q0 H A0. updc H; [rewrite Hk; auto|].
    intros C. apply HM1 in C. revert C. apply (a_gone s I q0 Q0 H A0).
  - intros q0 Q0 H. updc H; [exact HR|apply (a_refs s I q0 Q0 H)].
  - intros q0 Q0 H. updc H; [rewrite Hns; apply (a_creat s I q Q Hq)|apply (a_creat s I q0 Q0 H)].
  - intros i0 k0 pc0 H. eapply pc_ok_mono; [|apply (a_prod s I _ _ _ H)].
    rewrite EQ. apply (mono_upd _ q Q); auto.
  - intros c. unfold chown. rewrite ?EQ, ?EP, ?EC. rewrite (HO c). apply (a_own s I c).
Qed.

Lemma qowns_upd_same qs q Q Q' c :
  nth_error qs q = Some Q -> q_ch Q' = q_ch Q -> live (q_pc Q') = live (q_pc Q) ->
  count (qowns c) (upd qs q Q') = count (qowns c) qs.
Proof. intros H E1 E2. apply (count_upd_eq _ _ _ _ Q H). unfold qowns. congruence. Qed.

Ltac conv_frame s I Hq Hpc :=
  apply (A_frame s);
  [exact I
  |simp_st; apply (map_upd_same qv _ _ _ _ Hq); unfold qv; simp_q; rewrite Hpc; reflexivity
  |reflexivity|reflexivity|simp_st; rewrite ?upd_length; reflexivity
  |reflexivity|reflexivity|reflexivity|exact (a_prod s I)].

Ltac qstep_auto s I Hq Hpc :=
  simp_st; simp_q; rewrite ?Hpc; try reflexivity; try discriminate; auto;
  try (intros q0 Q0 N H0 A0; apply (a_act s I q0 Q0 H0 A0));
  try (intros c0; rewrite (qowns_upd_same _ _ _ _ _ Hq); [reflexivity|reflexivity|simp_q; rewrite Hpc; reflexivity]).

Lemma A_step_conv s q c : InvA s -> InvA (step_conv s q c).
Proof.
  intros I. unfold step_conv.
  destruct (nth_error (st_qs s) q) as [Q|] eqn:Hq; [|exact I].
  destruct (q_pc Q) eqn:Hpc; try exact I.
  - (* CTop *)
    destruct (chan s (q_ch Q)) as [|t r]; conv_frame s I Hq Hpc.
  - (* CPopOver *)
    destruct (if pop_overflow_rechecks_channel then chan s (q_ch Q) else []) as [|t0 r0];
      [destruct (q_over Q) as [|t r]|]; conv_frame s I Hq Hpc.
  - (* CRun *) conv_frame s I Hq Hpc.
  - (* CWait *)
    destruct c; try exact I.
    + destruct (chan s (q_ch Q)) as [|t r]; [exact I|conv_frame s I Hq Hpc].
    + destruct (_ || _ || _); [exact I|conv_frame s I Hq Hpc].
    + conv_frame s I Hq Hpc.
  - (* CChecked *)
    destruct (q_refs Q =? 0)%Z eqn:Er; [|conv_frame s I Hq Hpc].
    apply Z.eqb_eq in Er. pose proof (a_refs s I q Q Hq) as R. rewrite Hpc in R. cbn in R.
    apply (A_qstep s _ q Q (q_set_pc (q_set_refs Q refs_sentinel) CClaimed) I Hq); qstep_auto s I Hq Hpc.
    cbn. split; [reflexivity|lia].
  - (* CClaimed *)
    pose proof (a_refs s I q Q Hq) as R. rewrite Hpc in R. cbn in R.
    destruct (opt_is (st_map s (q_key Q)) q) eqn:Eo.
    + apply opt_is_true in Eo.
      apply (A_qstep s _ q Q (q_set_pc Q CDeleted) I Hq); qstep_auto s I Hq Hpc.
      * intros k0 q0. unfold map_set. destruct (k0 =? q_key Q); [discriminate|auto].
      * intros q0 Q0 N H0 A0. pose proof (a_act s I q0 Q0 H0 A0) as M.
        rewrite map_set_other; [assumption|]. intros E. rewrite E in M. congruence.
      * intros _. rewrite map_set_same. discriminate.
    + apply opt_is_false in Eo.
      apply (A_qstep s _ q Q (q_set_pc Q CDelFailed) I Hq); qstep_auto s I Hq Hpc.
  - (* CDeleted *)
    pose proof (a_refs s I q Q Hq) as R. rewrite Hpc in R. cbn in R.
    assert (G : st_map s (q_key Q) <> Some q) by (apply (a_gone s I q Q Hq); now rewrite Hpc).
    apply (A_qstep s _ q Q (q_set_pc Q CExit) I Hq); qstep_auto s I Hq Hpc.
    intros c0. pose proof (count_upd (qowns c0) _ q (q_set_pc Q CExit) Q Hq) as C.
    assert (E1 : qowns c0 Q = (c0 =? q_ch Q)) by (unfold qowns; rewrite Hpc; reflexivity).
    assert (E2 : qowns c0 (q_set_pc Q CExit) = false) by reflexivity.
    rewrite E1, E2 in C. rewrite count_cons. cbn [b2n] in C. lia.
  - (* CDelFailed *)
    pose proof (a_refs s I q Q Hq) as R. rewrite Hpc in R. cbn in R.
    assert (G : st_map s (q_key Q) <> Some q) by (apply (a_gone s I q Q Hq); now rewrite Hpc).
    destruct (opt_is (st_map s (q_key Q)) q) eqn:Eo; [apply opt_is_true in Eo; contradiction|].
    apply (A_qstep s _ q Q (q_set_pc Q CExit) I Hq); qstep_auto s I Hq Hpc.
    intros c0. pose proof (count_upd (qowns c0) _ q (q_set_pc Q CExit) Q Hq) as C.
    assert (E1 : qowns c0 Q = (c0 =? q_ch Q)) by (unfold qowns; rewrite Hpc; reflexivity).
    assert (E2 : qowns c0 (q_set_pc Q CExit) = false) by reflexivity.
    rewrite E1, E2 in C. rewrite count_cons. cbn [b2n] in C. lia.
Qed.

(* one producer moves; queue records unchanged; the map may shrink, pool / channels may change *)
Lemma A_pstep s s' i k pc pc' :
  InvA s -> nth_error (st_prods s) i = Some (k, pc) ->
  st_prods s' = upd (st_prods s) i (k, pc') -> st_qs s' = st_qs s ->
  (forall q1, holds q1 (k, pc') = holds q1 (k, pc)) ->
  (forall q1, creator q1 (k, pc') = creator q1 (k, pc)) ->
  pc_ok s k pc' ->
  (forall k0 q0, st_map s' k0 = Some q0 -> st_map s k0 = Some q0) ->
  (forall q0 Q0, nth_error (st_qs s) q0 = Some Q0 -> active (q_pc Q0) = true -> st_map s' (q_key Q0) = Some q0) ->
  (forall c, count (qowns c) (st_qs s) + count (Nat.eqb c) (st_pool s') + count (having c) (upd (st_prods s) i (k, pc'))
             = b2n (c <? length (st_chans s'))) ->
  InvA s'.
Proof.
  intros I Hp EP EQ Hh Hc Hok HM1 HM2 HO. constructor; rewrite ?EQ, ?EP.
  - intros k0 q0 H. apply HM1 in H. apply (a_map s I _ _ H).
  - intros q0 Q0 H A0. apply (HM2 q0 Q0 H A0).
  - intros q0 Q0 H A0 C. apply HM1 in C. revert C. apply (a_gone s I q0 Q0 H A0).
  - intros q0 Q0 H. rewrite (count_upd_eq (holds q0) _ i (k, pc') (k, pc) Hp (Hh q0)). apply (a_refs s I q0 Q0 H).
  - intros q0 Q0 H. rewrite (count_upd_eq (creator q0) _ i (k, pc') (k, pc) Hp (Hc q0)). apply (a_creat s I q0 Q0 H).
  - intros i0 k0 pc0 H. eapply pc_ok_mono; [|eapply (ok_upd s i k pc pc'); eauto].
    rewrite EQ. apply mono_refl.
  - intros c. unfold chown. rewrite ?EQ, ?EP. apply HO.
Qed.

Lemma ltb_succ_b2n c n : b2n (c <? n + 1) = b2n (c <? n) + b2n (c =? n).
Proof. destruct (Nat.ltb_spec c (n + 1)), (Nat.ltb_spec c n), (Nat.eqb_spec c n); cbn; lia. Qed.

Lemma A_create s i k c :
  InvA s -> nth_error (st_prods s) i = Some (k, PHave c) -> st_map s k = None ->
  InvA (set_ppc (set_map (set_qs s (st_qs s ++ [mkQ k c [] false 0%Z CNotStarted]))
                         (map_set (st_map s) k (Some (length (st_qs s))))) i k (PStored (length (st_qs s)))).
Proof.
  intros I Hp Em. set (n := length (st_qs s)). set (Qn := mkQ k c [] false 0%Z CNotStarted).
  assert (Hn : nth_error (st_qs s ++ [Qn]) n = Some Qn) by apply nth_error_snoc_new.
  constructor; simp_st.
  - intros k0 q0 H. unfold map_set in H. destruct (Nat.eqb_spec k0 k).
    + inversion H; subst. exists Qn. split; [assumption|reflexivity].
    + destruct (a_map s I _ _ H) as (Q0 & Hq0 & Hk0). exists Q0. split; [now apply nth_error_app_l|assumption].
  - intros q0 Q0 H A0. apply nth_error_snoc in H. destruct H as [H|[-> ->]].
    + pose proof (a_act s I q0 Q0 H A0) as M. rewrite map_set_other; [assumption|]. intros E. rewrite E in M. congruence.
    + cbn [q_key Qn]. apply map_set_same.
  - intros q0 Q0 H A0. apply nth_error_snoc in H. destruct H as [H|[-> ->]]; [|discriminate].
    unfold map_set. destruct (q_key Q0 =? k).
    + intros C. inversion C. apply nth_error_lt in H. fold n in H. lia.
    + apply (a_gone s I q0 Q0 H A0).
  - intros q0 Q0 H. rewrite (count_upd_eq (holds q0) _ i (k, PStored n) (k, PHave c) Hp eq_refl).
    apply nth_error_snoc in H. destruct H as [H|[-> ->]]; [apply (a_refs s I q0 Q0 H)|].
    cbn [active q_pc q_refs Qn]. fold n. unfold n. rewrite (holds_fresh s I). reflexivity.
  - intros q0 Q0 H. pose proof (count_upd' (creator q0) _ i (k, PStored n) _ (q0 =? n) false Hp eq_refl eq_refl) as C.
    apply nth_error_snoc in H. destruct H as [H|[-> ->]].
    + rewrite <- (a_creat s I q0 Q0 H). apply nth_error_lt in H. fold n in H.
      rewrite (proj2 (Nat.eqb_neq q0 n)) in C by lia. cbn [b2n] in C. lia.
    + fold n in C. rewrite Nat.eqb_refl in C. pose proof (creator_fresh s I) as F. unfold n in *. cbn in *. lia.
  - intros i0 k0 pc0 H. apply nth_upd_cases in H. destruct H as [[-> E]|[N H]].
    + inversion E; subst. cbn. exists Qn. split; [assumption|reflexivity].
    + eapply pc_ok_mono; [|apply (a_prod s I _ _ _ H)]. simp_st. apply mono_app.
  - intros c0. unfold chown; simp_st. rewrite count_app.
    pose proof (count_upd' (having c0) _ i (k, PStored n) _ false (c0 =? c) Hp eq_refl eq_refl) as C. cbn [b2n] in C.
    pose proof (a_own s I c0) as O. unfold chown in O.
    rewrite count_cons, count_nil. assert (E : qowns c0 Qn = (c0 =? c)) by reflexivity. rewrite E. lia.
Qed.

Lemma A_spawn s q Q i k :
  InvA s -> nth_error (st_qs s) q = Some Q -> nth_error (st_prods s) i = Some (k, PSpawn q) ->
  InvA (set_ppc (set_q s q (q_set_pc Q CTop)) i k (PEnq q)).
Proof.
  intros I Hq Hp.
  assert (Hns : q_pc Q = CNotStarted).
  { pose proof (a_creat s I q Q Hq) as C. pose proof (count_ge1 (creator q) _ i _ Hp) as G.
    unfold creator in G at 1. cbn [snd] in G. rewrite Nat.eqb_refl in G. specialize (G eq_refl).
    destruct (q_pc Q); cbn in C; try lia. reflexivity. }
  assert (Hin : active (q_pc Q) = false -> active (q_pc (q_set_pc Q CTop)) = false) by (rewrite Hns; discriminate).
  constructor; simp_st.
  - intros k0 q0 H. destruct (a_map s I _ _ H) as (Q0 & Hq0 & Hk0).
    destruct (mono_upd _ q Q (q_set_pc Q CTop) Hq eq_refl Hin q0 Q0 Hq0) as (Q0' & H0 & E & _).
    exists Q0'. split; [assumption|congruence].
  - intros q0 Q0 H A0. updc H; [apply (a_act s I q Q Hq); now rewrite Hns|apply (a_act s I q0 Q0 H A0)].
  - intros q0 Q0 H A0. updc H; [discriminate|apply (a_gone s I q0 Q0 H A0)].
  - intros q0 Q0 H. rewrite (count_upd_eq (holds q0) _ i (k, PEnq q) (k, PSpawn q) Hp eq_refl).
    updc H; [|apply (a_refs s I q0 Q0 H)]. pose proof (a_refs s I q Q Hq) as R. rewrite Hns in R. exact R.
  - intros q0 Q0 H. pose proof (count_upd' (creator q0) _ i (k, PEnq q) _ false (q0 =? q) Hp eq_refl eq_refl) as C.
    cbn [b2n] in C. updc H.
    + pose proof (a_creat s I q Q Hq) as R. rewrite Hns in R. rewrite Nat.eqb_refl in C. cbn in *. lia.
    + rewrite <- (a_creat s I q0 Q0 H). rewrite (proj2 (Nat.eqb_neq q0 q)) in C by auto. cbn in C. lia.
  - intros i0 k0 pc0 H. eapply pc_ok_mono; [|eapply (ok_upd s i k (PSpawn q) (PEnq q)); eauto].
    + simp_st. apply (mono_upd _ q Q); auto.
    + apply (a_prod s I _ _ _ Hp).
  - intros c. unfold chown; simp_st.
    rewrite (count_upd_eq (having c) _ i (k, PEnq q) (k, PSpawn q) Hp eq_refl).
    rewrite (qowns_upd_same _ _ Q); auto; [apply (a_own s I c)|]. simp_q. now rewrite Hns.
Qed.

Ltac prod_frame s I Hp :=
  apply (A_frame s);
  [exact I | simp_st; try reflexivity | reflexivity | reflexivity | simp_st; rewrite ?upd_length; reflexivity
  | intros x; simp_st; apply (count_upd_eq _ _ _ _ _ Hp); reflexivity
  | intros x; simp_st; apply (count_upd_eq _ _ _ _ _ Hp); reflexivity
  | intros x; simp_st; apply (count_upd_eq _ _ _ _ _ Hp); reflexivity
  | simp_st; apply (ok_upd s _ _ _ _ I Hp) ].

Lemma refs_nonneg_active s q Q : InvA s -> nth_error (st_qs s) q = Some Q -> (q_refs Q <? 0)%Z = false -> active (q_pc Q) = true.
Proof.
  intros I Hq E. pose proof (a_refs s I q Q Hq) as R. destruct (active (q_pc Q)); [reflexivity|].
  apply Z.ltb_ge in E. lia.
Qed.

Lemma refs_neg_inactive s q Q : InvA s -> nth_error (st_qs s) q = Some Q -> (q_refs Q <? 0)%Z = true -> active (q_pc Q) = false.
Proof.
  intros I Hq E. pose proof (a_refs s I q Q Hq) as R. destruct (active (q_pc Q)); [|reflexivity].
  apply Z.ltb_lt in E. lia.
Qed.

Lemma holder_active s q Q i k pc :
  InvA s -> nth_error (st_qs s) q = Some Q -> nth_error (st_prods s) i = Some (k, pc) -> holds q (k, pc) = true ->
  active (q_pc Q) = true.
Proof.
  intros I Hq Hp H. pose proof (a_refs s I q Q Hq) as R. destruct (active (q_pc Q)); [reflexivity|].
  pose proof (count_ge1 (holds q) _ i _ Hp H). lia.
Qed.

Lemma A_step_prod cap s i g : InvA s -> InvA (step_prod cap s i g).
Proof.
  intros I. unfold step_prod.
  destruct (nth_error (st_prods s) i) as [[k pc]|] eqn:Hp; [|exact I].
  pose proof (a_prod s I i k pc Hp) as Ok.
  destruct pc; cbn [pc_ok] in Ok.
  - (* PStart *)
    destruct (st_map s k) as [q|] eqn:Em; prod_frame s I Hp; [|exact Logic.I].
    cbn. apply (a_map s I k q Em).
  - (* PLoaded *)
    destruct (nth_error (st_qs s) q) as [Q|] eqn:Hq; [|exact I].
    destruct (q_refs Q <? 0)%Z eqn:Er.
    + prod_frame s I Hp. exact Logic.I.
    + apply (A_refs_step s q Q i k (PLoaded q) (PEnq q)); auto.
      * apply (refs_nonneg_active s q Q I Hq Er).
      * intros q1 N. unfold holds; cbn [snd]. now apply Nat.eqb_neq.
      * unfold holds; cbn [snd]. rewrite Nat.eqb_refl. cbn. lia.
      * cbn; rewrite ?Hq; exact Ok.
  - (* PGet *)
    destruct g as [c|].
    + destruct (mem c (st_pool s)) eqn:Ec; [|exact I].
      apply (A_pstep s _ i k PGet (PHave c) I Hp); simp_st; try reflexivity; auto.
      * intros q0 Q0. apply (a_act s I).
      * intros c0. pose proof (a_own s I c0) as O. unfold chown in O.
        pose proof (count_remove1 c c0 _ Ec) as R.
        pose proof (count_upd' (having c0) _ i (k, PHave c) _ (c0 =? c) false Hp eq_refl eq_refl) as C.
        cbn [b2n] in C. lia.
    + apply (A_pstep s _ i k PGet (PHave (length (st_chans s))) I Hp); simp_st; try reflexivity; auto.
      * intros q0 Q0. apply (a_act s I).
      * intros c0. pose proof (a_own s I c0) as O. unfold chown in O.
        pose proof (count_upd' (having c0) _ i (k, PHave (length (st_chans s))) _ (c0 =? length (st_chans s)) false Hp eq_refl eq_refl) as C.
        cbn [b2n] in C. rewrite app_length. cbn [length]. rewrite ltb_succ_b2n. lia.
  - (* PHave *)
    destruct (st_map s k) as [q|] eqn:Em.
    + apply (A_pstep s _ i k (PHave c) (PLoaded2 q) I Hp); simp_st; try reflexivity; auto.
      * cbn. apply (a_map s I k q Em).
      * intros q0 Q0. apply (a_act s I).
      * intros c0. pose proof (a_own s I c0) as O. unfold chown in O.
        pose proof (count_upd' (having c0) _ i (k, PLoaded2 q) _ false (c0 =? c) Hp eq_refl eq_refl) as C.
        cbn [b2n] in C. rewrite count_cons. lia.
    + apply (A_create s i k c I Hp Em).
  - (* PLoaded2 *)
    destruct (nth_error (st_qs s) q) as [Q|] eqn:Hq; [|exact I].
    destruct (q_refs Q <? 0)%Z eqn:Er.
    + prod_frame s I Hp. cbn. exists Q. destruct Ok as (Q' & Hq' & Hk'). assert (Q' = Q) by congruence. subst.
      repeat split; auto. apply (refs_neg_inactive s q Q I Hq Er).
    + apply (A_refs_step s q Q i k (PLoaded2 q) (PEnq q)); auto.
      * apply (refs_nonneg_active s q Q I Hq Er).
      * intros q1 N. unfold holds; cbn [snd]. now apply Nat.eqb_neq.
      * unfold holds; cbn [snd]. rewrite Nat.eqb_refl. cbn. lia.
      * cbn; rewrite ?Hq; exact Ok.
  - (* PCad *)
    destruct Ok as (Q & Hq & Hk & Hi).
    destruct (opt_is (st_map s k) q) eqn:Eo.
    + apply opt_is_true in Eo.
      apply (A_pstep s _ i k (PCad q) PGet I Hp); simp_st; try reflexivity; auto.
      * intros k0 q0. unfold map_set. destruct (k0 =? k); [discriminate|auto].
      * intros q0 Q0 H0 A0. pose proof (a_act s I q0 Q0 H0 A0) as M.
        rewrite map_set_other; [assumption|]. intros E. rewrite E in M.
        assert (q0 = q) by congruence. subst. assert (Q0 = Q) by congruence. subst. congruence.
      * intros c0. pose proof (a_own s I c0) as O. unfold chown in O.
        rewrite (count_upd_eq (having c0) _ i (k, PGet) (k, PCad q) Hp eq_refl). exact O.
    + prod_frame s I Hp. exact Logic.I.
  - (* PStored *)
    destruct (nth_error (st_qs s) q) as [Q|] eqn:Hq; [|exact I].
    apply (A_refs_step s q Q i k (PStored q) (PSpawn q)); auto.
    + pose proof (a_creat s I q Q Hq) as C.
      assert (G : 1 <= count (creator q) (st_prods s)).
      { apply (count_ge1 _ _ i _ Hp). unfold creator; cbn [snd]. apply Nat.eqb_refl. }
      destruct (q_pc Q); cbn in C; try lia. reflexivity.
    + intros q1 N. unfold holds; cbn [snd]. now apply Nat.eqb_neq.
    + unfold holds; cbn [snd]. rewrite Nat.eqb_refl. cbn. lia.
    + cbn; rewrite ?Hq; exact Ok.
  - (* PSpawn *)
    destruct (nth_error (st_qs s) q) as [Q|] eqn:Hq; [|exact I].
    apply (A_spawn s q Q i k I Hq Hp).
  - (* PEnq *)
    destruct (nth_error (st_qs s) q) as [Q|] eqn:Hq; [|exact I].
    destruct (q_mode Q); [|destruct (length (chan s (q_ch Q)) <? cap)]; prod_frame s I Hp;
      try (apply (map_upd_same qv _ _ _ _ Hq); reflexivity); cbn; rewrite ?Hq; exact Ok.
  - (* PRel *)
    destruct (nth_error (st_qs s) q) as [Q|] eqn:Hq; [|exact I].
    apply (A_refs_step s q Q i k (PRel q) PDone); auto.
    + apply (holder_active s q Q i k (PRel q) I Hq Hp). unfold holds; cbn [snd]. apply Nat.eqb_refl.
    + intros q1 N. unfold holds; cbn [snd]. symmetry. now apply Nat.eqb_neq.
    + unfold holds; cbn [snd]. rewrite Nat.eqb_refl. cbn. lia.
    + exact Logic.I.
  - exact I.
Qed.

Lemma A_step cap s l : InvA s -> InvA (step cap s l).
Proof. destruct l; [apply A_step_prod|apply A_step_conv]. Qed.

Lemma A_init keys : InvA (init keys).
Proof.
  constructor; cbn.
  - discriminate.
  - intros [|q] Q H; discriminate.
  - intros [|q] Q H; discriminate.
  - intros [|q] Q H; discriminate.
  - intros [|q] Q H; discriminate.
  - intros i k pc H. rewrite nth_error_map in H. destruct (nth_error keys i); cbn in H; [|discriminate].
    inversion H. exact Logic.I.
  - intros c. unfold chown; cbn. rewrite !count_nil. cbn.
    apply count_zero. intros i x H. rewrite nth_error_map in H. destruct (nth_error keys i); cbn in H; [|discriminate].
    inversion H. reflexivity.
Qed.

(* ------------------------------------------------------------------------------------------ *)
(* part B: emptiness (uses the race-free side condition at the claiming CAS)                    *)
(* ------------------------------------------------------------------------------------------ *)
Record InvB (s : state) : Prop := mkB {
  b_chan : forall c, chan s c = [] \/
             exists q Q, nth_error (st_qs s) q = Some Q /\ active (q_pc Q) = true /\ q_ch Q = c;
  b_over : forall q Q, nth_error (st_qs s) q = Some Q -> active (q_pc Q) = false -> q_over Q = [];
  b_mode : forall q Q, nth_error (st_qs s) q = Some Q -> q_mode Q = false -> q_over Q = [] }.

Lemma chan_set_chan_other s c0 l c : c <> c0 -> chan (set_chan s c0 l) c = chan s c.
Proof.
  intros N. unfold chan, set_chan, set_chans; cbn [st_chans].
  destruct (nth_error (st_chans s) c) as [x|] eqn:E.
  - rewrite (nth_nth_error _ _ _ _ E). apply nth_nth_error. now rewrite nth_upd_other.
  - apply nth_error_None in E. rewrite !nth_overflow; auto. now rewrite upd_length.
Qed.

Lemma chan_set_chan_same s c0 l : c0 < length (st_chans s) -> chan (set_chan s c0 l) c0 = l.
Proof.
  intros H. unfold chan, set_chan, set_chans; cbn [st_chans]. apply nth_nth_error.
  destruct (nth_error (st_chans s) c0) eqn:E; [eapply nth_upd_same; eauto|].
  apply nth_error_None in E. lia.
Qed.

Lemma chan_new s c : nth c (st_chans s ++ [[]]) [] = chan s c.
Proof.
  unfold chan. destruct (Nat.lt_ge_cases c (length (st_chans s))).
  - now rewrite app_nth1.
  - rewrite app_nth2 by auto. rewrite (nth_overflow (st_chans s)) by auto.
    destruct (c - length (st_chans s)) as [|[|n]]; reflexivity.
Qed.

Lemma B_same s s' : st_qs s' = st_qs s -> st_chans s' = st_chans s -> InvB s -> InvB s'.
Proof.
  intros EQ EC [B1 B2 B3]. constructor; unfold chan; rewrite ?EQ, ?EC; auto.
Qed.

Lemma B_qstep s s' q Q Q' :
  InvB s -> nth_error (st_qs s) q = Some Q -> st_qs s' = upd (st_qs s) q Q' -> q_ch Q' = q_ch Q ->
  (forall c, c <> q_ch Q -> chan s' c = chan s c) ->
  ((active (q_pc Q') = active (q_pc Q) /\ chan s' (q_ch Q) = chan s (q_ch Q)) \/ chan s' (q_ch Q) = [] \/ active (q_pc Q') = true) ->
  (active (q_pc Q') = false -> q_over Q' = []) ->
  (q_mode Q' = false -> q_over Q' = []) ->
  InvB s'.
Proof.
  intros [B1 B2 B3] Hq EQ Hc H2 H3 H4 H5. constructor; rewrite ?EQ.
  - intros c. destruct (Nat.eq_dec c (q_ch Q)) as [->|N].
    + destruct H3 as [[Ea Ec]|[E|Ea]].
      * rewrite Ec. destruct (B1 (q_ch Q)) as [E|(q0 & Q0 & H0 & A0 & C0)]; [now left|right].
        destruct (Nat.eq_dec q0 q) as [->|Nq].
        -- exists q, Q'. rewrite (nth_upd_same _ _ _ _ Hq). assert (Q0 = Q) by congruence. subst. repeat split; congruence.
        -- exists q0, Q0. rewrite nth_upd_other by auto. auto.
      * now left.
      * right. exists q, Q'. rewrite (nth_upd_same _ _ _ _ Hq). auto.
    + rewrite (H2 c N). destruct (B1 c) as [E|(q0 & Q0 & H0 & A0 & C0)]; [now left|right].
      exists q0, Q0. rewrite nth_upd_other; [auto|]. intros ->. assert (Q0 = Q) by congruence. subst. congruence.
  - intros q0 Q0 H A0. updc H; [auto|apply (B2 q0 Q0 H A0)].
  - intros q0 Q0 H M0. updc H; [auto|apply (B3 q0 Q0 H M0)].
Qed.

(* derived: a channel with an active owner has no other holder *)
Lemma own_active s q Q :
  InvA s -> nth_error (st_qs s) q = Some Q -> live (q_pc Q) = true ->
  q_ch Q < length (st_chans s) /\ count (qowns (q_ch Q)) (st_qs s) = 1
  /\ count (Nat.eqb (q_ch Q)) (st_pool s) = 0 /\ count (having (q_ch Q)) (st_prods s) = 0.
Proof.
  intros I Hq L. pose proof (a_own s I (q_ch Q)) as O. unfold chown in O.
  assert (G : 1 <= count (qowns (q_ch Q)) (st_qs s)).
  { apply (count_ge1 _ _ q Q Hq). unfold qowns. now rewrite L, Nat.eqb_refl. }
  destruct (Nat.ltb_spec (q_ch Q) (length (st_chans s))); cbn [b2n] in O; lia.
Qed.

Lemma live_distinct s q Q q' Q' :
  InvA s -> nth_error (st_qs s) q = Some Q -> nth_error (st_qs s) q' = Some Q' ->
  live (q_pc Q) = true -> live (q_pc Q') = true -> q_ch Q = q_ch Q' -> q = q'.
Proof.
  intros I Hq Hq' L L' E. destruct (Nat.eq_dec q q') as [|N]; [assumption|exfalso].
  destruct (own_active s q Q I Hq L) as (_ & C & _).
  assert (2 <= count (qowns (q_ch Q)) (st_qs s)); [|lia].
  apply (count_ge2 _ _ q q' Q Q' Hq Hq' N); unfold qowns.
  - now rewrite L, Nat.eqb_refl.
  - now rewrite L', E, Nat.eqb_refl.
Qed.

Lemma active_live pc : active pc = true -> live pc = true.
Proof. destruct pc; cbn; congruence. Qed.

Lemma pool_chan_empty s c : InvA s -> InvB s -> In c (st_pool s) -> chan s c = [].
Proof.
  intros I B H. destruct (b_chan s B c) as [E|(q & Q & Hq & A & C)]; [assumption|exfalso].
  destruct (own_active s q Q I Hq (active_live _ A)) as (_ & _ & P & _).
  rewrite C in P. pose proof (count_in c _ H). lia.
Qed.

Lemma have_chan_empty s i k c : InvA s -> InvB s -> nth_error (st_prods s) i = Some (k, PHave c) -> chan s c = [].
Proof.
  intros I B H. destruct (b_chan s B c) as [E|(q & Q & Hq & A & C)]; [assumption|exfalso].
  destruct (own_active s q Q I Hq (active_live _ A)) as (_ & _ & _ & P).
  rewrite C in P. assert (1 <= count (having c) (st_prods s)); [|lia].
  apply (count_ge1 _ _ i _ H). unfold having; cbn [snd]. apply Nat.eqb_refl.
Qed.

Lemma claimed_chan_empty s q Q :
  InvA s -> InvB s -> nth_error (st_qs s) q = Some Q -> active (q_pc Q) = false -> live (q_pc Q) = true ->
  chan s (q_ch Q) = [].
Proof.
  intros I B Hq A L. destruct (b_chan s B (q_ch Q)) as [E|(q' & Q' & Hq' & A' & C)]; [assumption|exfalso].
  assert (q' = q) by (apply (live_distinct s q' Q' q Q I Hq' Hq (active_live _ A') L C)).
  subst. assert (Q' = Q) by congruence. subst. congruence.
Qed.

Ltac b_triv s B Hq Hpc :=
  eapply (B_qstep s _ _ _ _ B Hq);
  [simp_st; reflexivity | reflexivity | intros; reflexivity
  | left; simp_q; rewrite ?Hpc; split; reflexivity
  | simp_q; first [ intros HH; discriminate HH | intros _; apply (b_over s B _ _ Hq); rewrite Hpc; reflexivity ]
  | simp_q; try apply (b_mode s B _ _ Hq); auto ].

Lemma B_step_conv s q c :
  InvA s -> InvB s -> claim_hit s (LConv q c) = false -> InvB (step_conv s q c).
Proof.
  intros I B CH. unfold step_conv. cbn [claim_hit] in CH.
  destruct (nth_error (st_qs s) q) as [Q|] eqn:Hq; [|exact B].
  assert (Hpop : forall t r pc, active pc = true ->
            InvB (add_log (set_q (set_chan s (q_ch Q) r) q (q_set_pc Q pc)) t)).
  { intros t r pc Ha. eapply (B_qstep s _ _ _ _ B Hq).
    - simp_st. reflexivity.
    - reflexivity.
    - intros c0 N. apply (chan_set_chan_other s (q_ch Q) r c0 N).
    - right. right. exact Ha.
    - simp_q. rewrite Ha. discriminate.
    - simp_q. apply (b_mode s B _ _ Hq). }
  destruct (q_pc Q) eqn:Hpc; try exact B.
  - (* CTop *)
    destruct (chan s (q_ch Q)) as [|t r]; [b_triv s B Hq Hpc|apply Hpop; reflexivity].
  - (* CPopOver *)
    destruct (if pop_overflow_rechecks_channel then chan s (q_ch Q) else []) as [|t0 r0]; [|apply Hpop; reflexivity].
    destruct (q_over Q) as [|t r] eqn:Ho.
    + eapply (B_qstep s _ _ _ _ B Hq); [simp_st; reflexivity|reflexivity|intros; reflexivity| | |]; simp_q; auto.
    + eapply (B_qstep s _ _ _ _ B Hq); [simp_st; reflexivity|reflexivity|intros; reflexivity| | |]; simp_q.
      * right. right. reflexivity.
      * discriminate.
      * destruct r; [reflexivity|]. intros M. pose proof (b_mode s B _ _ Hq M). congruence.
  - (* CRun *) b_triv s B Hq Hpc.
  - (* CWait *)
    destruct c; try exact B.
    + destruct (chan s (q_ch Q)) as [|t r]; [exact B|apply Hpop; reflexivity].
    + destruct (_ || _ || _); [exact B|b_triv s B Hq Hpc].
    + b_triv s B Hq Hpc.
  - (* CChecked *)
    destruct (q_refs Q =? 0)%Z eqn:Er; [|b_triv s B Hq Hpc].
    cbn [andb] in CH. apply orb_false_elim in CH. destruct CH as [C1 C2].
    assert (E1 : chan s (q_ch Q) = []) by (destruct (chan s (q_ch Q)); [reflexivity|discriminate]).
    assert (E2 : q_over Q = []) by (destruct (q_over Q); [reflexivity|discriminate]).
    eapply (B_qstep s _ _ _ _ B Hq); [simp_st; reflexivity|reflexivity|intros; reflexivity| | |]; simp_q; auto.
  - (* CClaimed *)
    destruct (opt_is (st_map s (q_key Q)) q); b_triv s B Hq Hpc.
  - (* CDeleted *) b_triv s B Hq Hpc.
  - (* CDelFailed *)
    assert (G : st_map s (q_key Q) <> Some q) by (apply (a_gone s I q Q Hq); now rewrite Hpc).
    destruct (opt_is (st_map s (q_key Q)) q) eqn:Eo; [apply opt_is_true in Eo; contradiction|].
    b_triv s B Hq Hpc.
Qed.

Ltac b_refs s B Hq :=
  eapply (B_qstep s _ _ _ _ B Hq);
  [simp_st; reflexivity | reflexivity | intros; reflexivity
  | left; split; reflexivity
  | simp_q; apply (b_over s B _ _ Hq)
  | simp_q; apply (b_mode s B _ _ Hq) ].

Lemma B_step_prod cap s i g : InvA s -> InvB s -> InvB (step_prod cap s i g).
Proof.
  intros I B. unfold step_prod.
  destruct (nth_error (st_prods s) i) as [[k pc]|] eqn:Hp; [|exact B].
  destruct pc.
  - destruct (st_map s k); apply (B_same s); auto.
  - destruct (nth_error (st_qs s) q) as [Q|] eqn:Hq; [|exact B].
    destruct (q_refs Q <? 0)%Z; [apply (B_same s); auto|b_refs s B Hq].
  - destruct g as [c|].
    + destruct (mem c (st_pool s)); [apply (B_same s); auto|exact B].
    + destruct B as [B1 B2 B3]. constructor; simp_st; auto.
      intros c. unfold chan; simp_st. rewrite chan_new. apply B1.
  - destruct (st_map s k); [apply (B_same s); auto|].
    destruct B as [B1 B2 B3]. constructor; simp_st.
    + intros c0. destruct (B1 c0) as [E|(q0 & Q0 & H0 & A0 & C0)]; [now left|right].
      exists q0, Q0. split; [now apply nth_error_app_l|auto].
    + intros q0 Q0 H A0. apply nth_error_snoc in H. destruct H as [H|[-> ->]]; [eauto|reflexivity].
    + intros q0 Q0 H A0. apply nth_error_snoc in H. destruct H as [H|[-> ->]]; [eauto|reflexivity].
  - destruct (nth_error (st_qs s) q) as [Q|] eqn:Hq; [|exact B].
    destruct (q_refs Q <? 0)%Z; [apply (B_same s); auto|b_refs s B Hq].
  - destruct (opt_is (st_map s k) q); apply (B_same s); auto.
  - destruct (nth_error (st_qs s) q) as [Q|] eqn:Hq; [|exact B]. b_refs s B Hq.
  - destruct (nth_error (st_qs s) q) as [Q|] eqn:Hq; [|exact B].
    eapply (B_qstep s _ _ _ _ B Hq); [simp_st; reflexivity|reflexivity|intros; reflexivity| | |]; simp_q.
    + right. right. reflexivity.
    + discriminate.
    + apply (b_mode s B _ _ Hq).
  - (* PEnq *)
    destruct (nth_error (st_qs s) q) as [Q|] eqn:Hq; [|exact B].
    assert (Ha : active (q_pc Q) = true).
    { apply (holder_active s q Q i k (PEnq q) I Hq Hp). unfold holds; cbn [snd]. apply Nat.eqb_refl. }
    assert (Hov : InvB (set_ppc (add_log (set_q s q (q_set_over Q (q_over Q ++ [i]) true)) (EAccept k i)) i k (PRel q))).
    { eapply (B_qstep s _ _ _ _ B Hq); [simp_st; reflexivity|reflexivity|intros; reflexivity| | |]; simp_q.
      - left. split; reflexivity.
      - rewrite Ha. discriminate.
      - discriminate. }
    destruct (q_mode Q); [exact Hov|]. destruct (length (chan s (q_ch Q)) <? cap); [|exact Hov].
    eapply (B_qstep s _ q Q Q B Hq).
    + simp_st. symmetry. now apply upd_same.
    + reflexivity.
    + intros c0 N. apply (chan_set_chan_other s (q_ch Q) _ c0 N).
    + right. right. exact Ha.
    + apply (b_over s B _ _ Hq).
    + apply (b_mode s B _ _ Hq).
  - destruct (nth_error (st_qs s) q) as [Q|] eqn:Hq; [|exact B]. b_refs s B Hq.
  - exact B.
Qed.

Lemma B_init keys : InvB (init keys).
Proof.
  constructor; cbn.
  - intros c. left. unfold chan; cbn. destruct c; reflexivity.
  - intros [|q] Q H; discriminate.
  - intros [|q] Q H; discriminate.
Qed.

(* ------------------------------------------------------------------------------------------ *)
(* part C: order                                                                               *)
(* ------------------------------------------------------------------------------------------ *)
Definition pendk (k : nat) (l : list (nat * nat)) : list nat := map snd (filter (fun p => fst p =? k) l).
Definition pcof (s : state) (t : nat) : ppc :=
  match nth_error (st_prods s) t with Some (_, pc) => pc | None => PDone end.
Definition relsafe (pc : ppc) : bool := match pc with PRel _ | PDone => true | _ => false end.
Definition buf (s : state) (k : nat) : list nat :=
  match st_map s k with
  | Some q => match nth_error (st_qs s) q with
              | Some Q => if active (q_pc Q) then chan s (q_ch Q) ++ q_over Q else []
              | None => []
              end
  | None => []
  end.
Definition SC (s : state) : scan := scan_log (st_log s).

Lemma scan_log_snoc l e : scan_log (l ++ [e]) = scan_step (scan_log l) e.
Proof. unfold scan_log. rewrite fold_left_app. reflexivity. Qed.

Lemma pendk_app k l1 l2 : pendk k (l1 ++ l2) = pendk k l1 ++ pendk k l2.
Proof. unfold pendk. now rewrite filter_app, map_app. Qed.

Lemma pendk_in k l t : In t (pendk k l) -> In (k, t) l.
Proof.
  unfold pendk. rewrite in_map_iff. intros ([k' t'] & E & H). apply filter_In in H. destruct H as [H F].
  cbn in *. apply Nat.eqb_eq in F. subst. exact H.
Qed.

Lemma first_of_key_pendk k l t r : pendk k l = t :: r -> first_of_key k l = Some t.
Proof.
  unfold pendk, first_of_key. induction l as [|p l IH]; cbn; [discriminate|].
  destruct (fst p =? k); cbn; [intros H; inversion H; reflexivity|exact IH].
Qed.

Lemma remove_task_pendk l k t r :
  (forall k', In (k', t) l -> k' = k) -> pendk k l = t :: r ->
  pendk k (remove_task t l) = r /\ forall k', k' <> k -> pendk k' (remove_task t l) = pendk k' l.
Proof.
  induction l as [|[a b] l IH]; intros HK HP; [discriminate|].
  cbn [remove_task snd]. destruct (Nat.eqb_spec b t) as [->|Nb].
  - assert (a = k) by (apply HK; now left). subst a.
    unfold pendk in *. cbn [filter fst map snd] in *. rewrite Nat.eqb_refl in HP. cbn in HP. inversion HP. split; [reflexivity|].
    intros k' N. rewrite (proj2 (Nat.eqb_neq k k')) by auto. reflexivity.
  - unfold pendk in *. cbn [filter fst map snd] in *. destruct (a =? k) eqn:Ea.
    + cbn in HP. inversion HP. contradiction.
    + destruct (IH (fun k' H => HK k' (or_intror H)) HP) as [I1 I2]. split; [exact I1|].
      intros k' N. destruct (a =? k'); cbn; [f_equal|]; apply I2; auto.
Qed.

Lemma remove_task_incl t (l : list (nat * nat)) x : In x (remove_task t l) -> In x l.
Proof.
  induction l as [|p l IH]; cbn; [tauto|]. destruct (snd p =? t); [now right|].
  intros [H|H]; [now left|right; auto].
Qed.

Lemma remove_task_perm t (l : list (nat * nat)) :
  In t (map snd l) -> Permutation (map snd l) (t :: map snd (remove_task t l)).
Proof.
  induction l as [|p l IH]; cbn; [tauto|]. destruct (Nat.eqb_spec (snd p) t) as [->|N].
  - intros _. apply Permutation_refl.
  - intros [H|H]; [contradiction|]. cbn. etransitivity; [apply perm_skip, IH, H|apply perm_swap].
Qed.

Lemma remove_task_nodup A t (l : list (nat * nat)) :
  NoDup (A ++ map snd l) -> NoDup (A ++ map snd (remove_task t l)).
Proof.
  revert A; induction l as [|p l IH]; intros A H; cbn in *; [assumption|].
  destruct (snd p =? t).
  - eapply NoDup_remove_1; eauto.
  - cbn. specialize (IH (A ++ [snd p])). rewrite <- !app_assoc in IH. apply IH. exact H.
Qed.

Lemma remove_task_neq t (l : list (nat * nat)) k0 t0 :
  NoDup (map snd l) -> In (k0, t0) (remove_task t l) -> t0 <> t.
Proof.
  induction l as [|p l IH]; cbn; [tauto|]. intros ND. inversion ND; subst.
  destruct (Nat.eqb_spec (snd p) t) as [E|N].
  - intros H Et. apply H1. rewrite E, <- Et. apply (in_map snd _ _ H).
  - intros [H|H]; [subst p; exact N|auto].
Qed.

Lemma nodup_app_r {A} (l1 l2 : list A) : NoDup (l1 ++ l2) -> NoDup l2.
Proof. induction l1; cbn; [auto|]. intros H. inversion H; auto. Qed.

Lemma pendk_all_nil l : (forall k, pendk k l = []) -> l = [].
Proof.
  destruct l as [|[a b] l]; [reflexivity|]. intros H. specialize (H a). unfold pendk in H. cbn in H.
  rewrite Nat.eqb_refl in H. discriminate.
Qed.

Record InvC (s : state) : Prop := mkC {
  c_errs : sc_errs (SC s) = [];
  c_pend : forall k, pendk k (sc_pend (SC s)) = buf s k;
  c_tkey : forall k t, In (k, t) (sc_pend (SC s)) -> task_key s t = k;
  c_nodup : NoDup (map snd (sc_pend (SC s)) ++ map snd (sc_run (SC s)));
  c_rel : forall t, In t (map snd (sc_pend (SC s)) ++ map snd (sc_run (SC s))) -> relsafe (pcof s t) = true;
  c_run : forall k t, In (k, t) (sc_run (SC s)) ->
            exists q Q, nth_error (st_qs s) q = Some Q /\ q_key Q = k /\ q_pc Q = CRun t }.

Lemma C_frame s s' :
  st_log s' = st_log s -> (forall k, buf s' k = buf s k) -> (forall t, task_key s' t = task_key s t) ->
  (forall t, relsafe (pcof s t) = true -> relsafe (pcof s' t) = true) ->
  (forall q Q t, nth_error (st_qs s) q = Some Q -> q_pc Q = CRun t ->
     exists Q', nth_error (st_qs s') q = Some Q' /\ q_key Q' = q_key Q /\ q_pc Q' = CRun t) ->
  InvC s -> InvC s'.
Proof.
  intros EL EB ET ER EQ [C1 C2 C3 C4 C5 C6]. constructor; unfold SC in *; rewrite EL.
  - exact C1.
  - intros k. rewrite EB. apply C2.
  - intros k t H. rewrite ET. now apply C3.
  - exact C4.
  - intros t H. apply ER, C5, H.
  - intros k t H. destruct (C6 k t H) as (q & Q & Hq & Hk & Hpc).
    destruct (EQ q Q t Hq Hpc) as (Q' & Hq' & Hk' & Hpc'). exists q, Q'. repeat split; congruence.
Qed.

Lemma run_upd (qs : list queue) q Q Q' :
  nth_error qs q = Some Q -> q_key Q' = q_key Q -> (forall t, q_pc Q = CRun t -> q_pc Q' = CRun t) ->
  forall q0 Q0 t, nth_error qs q0 = Some Q0 -> q_pc Q0 = CRun t ->
    exists Q0', nth_error (upd qs q Q') q0 = Some Q0' /\ q_key Q0' = q_key Q0 /\ q_pc Q0' = CRun t.
Proof.
  intros Hq Hk Hp q0 Q0 t H0 P0. destruct (Nat.eq_dec q0 q) as [->|N].
  - exists Q'. rewrite (nth_upd_same _ _ _ _ Hq). assert (Q0 = Q) by congruence. subst. auto.
  - exists Q0. rewrite nth_upd_other by auto. auto.
Qed.

Lemma run_refl (qs : list queue) :
  forall q0 Q0 t, nth_error qs q0 = Some Q0 -> q_pc Q0 = CRun t ->
    exists Q0', nth_error qs q0 = Some Q0' /\ q_key Q0' = q_key Q0 /\ q_pc Q0' = CRun t.
Proof. intros q0 Q0 t H P. exists Q0. auto. Qed.

(* buf: frames *)
Lemma buf_same s s' :
  st_map s' = st_map s -> st_qs s' = st_qs s -> (forall c, chan s' c = chan s c) -> forall k, buf s' k = buf s k.
Proof. intros EM EQ EC k. unfold buf. rewrite EM, EQ. destruct (st_map s k); [|reflexivity].
  destruct (nth_error (st_qs s) n); [|reflexivity]. now rewrite EC. Qed.

Lemma buf_upd s s' q Q Q' :
  nth_error (st_qs s) q = Some Q -> st_map s' = st_map s -> st_qs s' = upd (st_qs s) q Q' ->
  (forall c, chan s' c = chan s c) ->
  (if active (q_pc Q') then chan s (q_ch Q') ++ q_over Q' else []) = (if active (q_pc Q) then chan s (q_ch Q) ++ q_over Q else []) ->
  forall k, buf s' k = buf s k.
Proof.
  intros Hq EM EQ EC E k. unfold buf. rewrite EM, EQ. destruct (st_map s k) as [q0|]; [|reflexivity].
  destruct (Nat.eq_dec q0 q) as [->|N].
  - rewrite (nth_upd_same _ _ _ _ Hq), Hq, EC. exact E.
  - rewrite nth_upd_other by auto. destruct (nth_error (st_qs s) q0); [|reflexivity]. now rewrite EC.
Qed.

Lemma buf_other s s' q Q Q' k0 :
  InvA s -> nth_error (st_qs s) q = Some Q -> live (q_pc Q) = true ->
  st_map s' = st_map s -> st_qs s' = upd (st_qs s) q Q' ->
  (forall c, c <> q_ch Q -> chan s' c = chan s c) -> k0 <> q_key Q -> buf s' k0 = buf s k0.
Proof.
  intros I Hq L EM EQ EC N. unfold buf. rewrite EM, EQ. destruct (st_map s k0) as [q0|] eqn:E0; [|reflexivity].
  destruct (a_map s I _ _ E0) as (Q0 & H0 & K0).
  assert (q0 <> q) by (intros ->; assert (Q0 = Q) by congruence; subst; congruence).
  rewrite nth_upd_other by auto. rewrite H0. destruct (active (q_pc Q0)) eqn:A0; [|reflexivity].
  rewrite EC; [reflexivity|]. intros E. apply H. apply (live_distinct s q0 Q0 q Q I H0 Hq (active_live _ A0) L E).
Qed.

Lemma buf_self s s' q Q Q' :
  InvA s -> nth_error (st_qs s) q = Some Q -> active (q_pc Q) = true ->
  st_map s' = st_map s -> st_qs s' = upd (st_qs s) q Q' ->
  buf s (q_key Q) = chan s (q_ch Q) ++ q_over Q
  /\ buf s' (q_key Q) = if active (q_pc Q') then chan s' (q_ch Q') ++ q_over Q' else [].
Proof.
  intros I Hq A EM EQ. unfold buf. rewrite EM, EQ, (a_act s I q Q Hq A), Hq, A, (nth_upd_same _ _ _ _ Hq). auto.
Qed.

Lemma task_key_ppc s s1 i k pc pc' t :
  st_prods s1 = st_prods s -> nth_error (st_prods s) i = Some (k, pc) -> task_key (set_ppc s1 i k pc') t = task_key s t.
Proof.
  intros E Hp. unfold task_key, set_ppc, set_prods; cbn [st_prods]. rewrite E, nth_error_upd.
  destruct (Nat.eqb_spec t i) as [->|N]; [now rewrite Hp|reflexivity].
Qed.

Lemma relsafe_ppc s s1 i k pc pc' t :
  st_prods s1 = st_prods s -> nth_error (st_prods s) i = Some (k, pc) -> (relsafe pc = true -> relsafe pc' = true) ->
  relsafe (pcof s t) = true -> relsafe (pcof (set_ppc s1 i k pc') t) = true.
Proof.
  intros E Hp R. unfold pcof, set_ppc, set_prods; cbn [st_prods]. rewrite E, nth_error_upd.
  destruct (Nat.eqb_spec t i) as [->|N]; [rewrite Hp; exact R|auto].
Qed.

(* a convoy starts the head task of its flow *)
Lemma C_start s s' q Q Q' t rest :
  InvA s -> InvC s ->
  nth_error (st_qs s) q = Some Q -> active (q_pc Q) = true -> (forall t', q_pc Q <> CRun t') ->
  st_log s' = st_log s ++ [EStart (q_key Q) q (task_key s t) t] ->
  st_qs s' = upd (st_qs s) q Q' -> q_key Q' = q_key Q -> q_ch Q' = q_ch Q -> q_pc Q' = CRun t ->
  st_map s' = st_map s -> st_prods s' = st_prods s ->
  chan s (q_ch Q) ++ q_over Q = t :: rest ->
  chan s' (q_ch Q) ++ q_over Q' = rest ->
  (forall c, c <> q_ch Q -> chan s' c = chan s c) ->
  InvC s'.
Proof.
  intros I C Hq Ha Hnr EL EQ Hk Hc Hpc EM EP Hbuf Hbuf' EC.
  destruct (buf_self s s' q Q Q' I Hq Ha EM EQ) as [Bs Bs'].
  assert (HP : pendk (q_key Q) (sc_pend (SC s)) = t :: rest) by (rewrite (c_pend s C), Bs; exact Hbuf).
  assert (Hin : In (q_key Q, t) (sc_pend (SC s))) by (apply pendk_in; rewrite HP; now left).
  assert (Htk : task_key s t = q_key Q) by (apply (c_tkey s C _ _ Hin)).
  assert (HK : forall k', In (k', t) (sc_pend (SC s)) -> k' = q_key Q).
  { intros k' H. rewrite <- (c_tkey s C _ _ H). exact Htk. }
  destruct (remove_task_pendk _ _ t rest HK HP) as [R1 R2].
  assert (Hnorun : existsb (fun p => fst p =? q_key Q) (sc_run (SC s)) = false).
  { destruct (existsb _ _) eqn:E; [exfalso|reflexivity]. apply existsb_exists in E.
    destruct E as ([k' t'] & Hin' & Ek). cbn in Ek. apply Nat.eqb_eq in Ek. subst k'.
    destruct (c_run s C _ _ Hin') as (q' & Q'' & Hq' & Hk' & Hpc').
    assert (A' : active (q_pc Q'') = true) by (rewrite Hpc'; reflexivity).
    pose proof (a_act s I q' Q'' Hq' A') as M'. pose proof (a_act s I q Q Hq Ha) as M. rewrite Hk' in M'.
    assert (q' = q) by congruence. subst. assert (Q'' = Q) by congruence. subst. apply (Hnr _ Hpc'). }
  assert (ESC : SC s' = scan_step (SC s) (EStart (q_key Q) q (q_key Q) t)).
  { unfold SC. rewrite EL, scan_log_snoc, Htk. reflexivity. }
  assert (PM : Permutation (map snd (sc_pend (SC s)) ++ map snd (sc_run (SC s)))
                           (map snd (remove_task t (sc_pend (SC s))) ++ t :: map snd (sc_run (SC s)))).
  { etransitivity; [apply Permutation_app_tail, (remove_task_perm t)|cbn; apply Permutation_middle].
    apply (in_map snd _ _ Hin). }
  constructor; rewrite ESC; cbn [scan_step sc_errs sc_pend sc_run].
  - rewrite (c_errs s C), Nat.eqb_refl, (first_of_key_pendk _ _ _ _ HP), Nat.eqb_refl, Hnorun. reflexivity.
  - intros k0. destruct (Nat.eq_dec k0 (q_key Q)) as [->|N].
    + rewrite R1, Bs', Hpc. cbn [active]. rewrite Hc. symmetry. exact Hbuf'.
    + rewrite (R2 k0 N), (c_pend s C). symmetry.
      apply (buf_other s s' q Q Q' k0 I Hq (active_live _ Ha) EM EQ EC N).
  - intros k0 t0 H. apply remove_task_incl in H. unfold task_key. rewrite EP. apply (c_tkey s C _ _ H).
  - cbn [map snd]. eapply Permutation_NoDup; [exact PM|apply (c_nodup s C)].
  - cbn [map snd]. intros t0 H. unfold pcof. rewrite EP. apply (c_rel s C).
    eapply Permutation_in; [apply Permutation_sym, PM|exact H].
  - intros k0 t0 [H|H].
    + inversion H; subst. exists q, Q'. rewrite EQ, (nth_upd_same _ _ _ _ Hq). auto.
    + destruct (c_run s C _ _ H) as (q' & Q'' & Hq' & Hk' & Hpc').
      assert (q' <> q) by (intros ->; assert (Q'' = Q) by congruence; subst; apply (Hnr _ Hpc')).
      exists q', Q''. rewrite EQ, nth_upd_other by auto. auto.
Qed.

Lemma C_end s q Q t :
  InvA s -> InvC s -> nth_error (st_qs s) q = Some Q -> q_pc Q = CRun t ->
  InvC (add_log (set_q s q (q_set_pc Q CTop)) (EEnd q t)).
Proof.
  intros I C Hq Hpc.
  assert (ESC : SC (add_log (set_q s q (q_set_pc Q CTop)) (EEnd q t)) = scan_step (SC s) (EEnd q t)).
  { unfold SC. simp_st. now rewrite scan_log_snoc. }
  assert (NR : NoDup (map snd (sc_run (SC s)))) by (eapply nodup_app_r; apply (c_nodup s C)).
  constructor; rewrite ESC; cbn [scan_step sc_errs sc_pend sc_run].
  - apply (c_errs s C).
  - intros k. rewrite (c_pend s C). symmetry.
    apply (buf_upd s _ q Q (q_set_pc Q CTop) Hq); [reflexivity|reflexivity|intros; reflexivity|].
    simp_q. rewrite Hpc. reflexivity.
  - intros k t0 H. apply (c_tkey s C _ _ H).
  - apply remove_task_nodup, (c_nodup s C).
  - intros t0 H. change (relsafe (pcof s t0) = true). apply (c_rel s C).
    apply in_app_or in H. apply in_or_app. destruct H as [H|H]; [now left|right].
    apply in_map_iff in H. destruct H as (p & E & H). apply in_map_iff. exists p. split; [assumption|].
    eapply remove_task_incl; eauto.
  - intros k0 t0 H. pose proof (remove_task_neq _ _ _ _ NR H) as N. apply remove_task_incl in H.
    destruct (c_run s C _ _ H) as (q' & Q'' & Hq' & Hk' & Hpc').
    assert (q' <> q) by (intros ->; assert (Q'' = Q) by congruence; subst; congruence).
    exists q', Q''. simp_st. rewrite nth_upd_other by auto. auto.
Qed.

Lemma C_accept s s' q Q Q' i k :
  InvA s -> InvC s -> nth_error (st_qs s) q = Some Q -> nth_error (st_prods s) i = Some (k, PEnq q) ->
  st_log s' = st_log s ++ [EAccept k i] -> st_qs s' = upd (st_qs s) q Q' ->
  q_key Q' = q_key Q -> q_ch Q' = q_ch Q -> q_pc Q' = q_pc Q ->
  st_map s' = st_map s -> st_prods s' = upd (st_prods s) i (k, PRel q) ->
  chan s' (q_ch Q) ++ q_over Q' = (chan s (q_ch Q) ++ q_over Q) ++ [i] ->
  (forall c, c <> q_ch Q -> chan s' c = chan s c) ->
  InvC s'.
Proof.
  intros I C Hq Hp EL EQ Hk Hc Hpc EM EP Hbuf EC.
  assert (Ha : active (q_pc Q) = true).
  { apply (holder_active s q Q i k (PEnq q) I Hq Hp). unfold holds; cbn [snd]. apply Nat.eqb_refl. }
  assert (Kq : q_key Q = k).
  { pose proof (a_prod s I i k _ Hp) as O. cbn in O. destruct O as (Q0 & H0 & K0). congruence. }
  destruct (buf_self s s' q Q Q' I Hq Ha EM EQ) as [Bs Bs'].
  assert (ESC : SC s' = scan_step (SC s) (EAccept k i)).
  { unfold SC. now rewrite EL, scan_log_snoc. }
  assert (Hni : ~ In i (map snd (sc_pend (SC s)) ++ map snd (sc_run (SC s)))).
  { intros H. pose proof (c_rel s C i H) as R. unfold pcof in R. rewrite Hp in R. discriminate. }
  constructor; rewrite ESC; cbn [scan_step sc_errs sc_pend sc_run].
  - apply (c_errs s C).
  - intros k0. rewrite pendk_app. unfold pendk at 2. cbn [filter fst]. destruct (Nat.eq_dec k0 k) as [->|N].
    + rewrite Nat.eqb_refl. cbn [map snd]. rewrite (c_pend s C), <- Kq, Bs, Bs', Hpc, Ha, Hc. symmetry. exact Hbuf.
    + rewrite (proj2 (Nat.eqb_neq k k0)) by auto. cbn [map]. rewrite app_nil_r, (c_pend s C). symmetry.
      apply (buf_other s s' q Q Q' k0 I Hq (active_live _ Ha) EM EQ EC). congruence.
  - intros k0 t0 H. unfold task_key. rewrite EP. apply in_app_or in H. destruct H as [H|[H|[]]].
    + pose proof (c_tkey s C _ _ H) as T. unfold task_key in T. rewrite nth_error_upd.
      destruct (Nat.eqb_spec t0 i) as [->|N]; [rewrite Hp in *; exact T|exact T].
    + inversion H; subst. now rewrite (nth_upd_same _ _ _ _ Hp).
  - rewrite map_app. cbn [map snd]. eapply Permutation_NoDup; [|constructor; [exact Hni|apply (c_nodup s C)]].
    rewrite <- app_assoc. apply Permutation_middle.
  - rewrite map_app. cbn [map snd]. intros t0 H. unfold pcof. rewrite EP.
    destruct (Nat.eq_dec t0 i) as [->|N]; [now rewrite (nth_upd_same _ _ _ _ Hp)|].
    rewrite nth_upd_other by auto. apply (c_rel s C).
    rewrite <- app_assoc in H. apply in_app_or in H. apply in_or_app. destruct H as [H|[H|H]]; [now left|congruence|now right].
  - intros k0 t0 H. destruct (c_run s C _ _ H) as (q' & Q'' & Hq' & Hk' & Hpc').
    destruct (run_upd _ q Q Q' Hq Hk (fun t E => eq_trans Hpc E) q' Q'' t0 Hq' Hpc') as (Q3 & H3 & K3 & P3).
    exists q', Q3. rewrite EQ. repeat split; congruence.
Qed.

Ltac c_frame_q s C q Q Hq Hpc :=
  apply (C_frame s);
  [reflexivity
  |eapply (buf_upd s _ q Q _ Hq); [reflexivity|simp_st; reflexivity|intros; reflexivity|simp_q; rewrite ?Hpc; try reflexivity]
  |intros; reflexivity
  |intros tt HH; exact HH
  |simp_st; eapply (run_upd _ q Q _ Hq); [reflexivity|intros tt; simp_q; rewrite ?Hpc; try discriminate; auto]
  |exact C].

Lemma C_step_conv s q c :
  InvA s -> InvB s -> InvC s -> claim_hit s (LConv q c) = false -> pop_hit s (LConv q c) = false ->
  InvC (step_conv s q c).
Proof.
  intros I B C CH PH. unfold step_conv. cbn [claim_hit pop_hit] in CH, PH.
  destruct (nth_error (st_qs s) q) as [Q|] eqn:Hq; [|exact C].
  assert (Hchanpop : forall t r, active (q_pc Q) = true -> (forall t', q_pc Q <> CRun t') ->
            chan s (q_ch Q) = t :: r -> InvC (start_task (set_chan s (q_ch Q) r) q Q t)).
  { intros t r Ha Hnr Hc.
    destruct (own_active s q Q I Hq (active_live _ Ha)) as (Hlt & _).
    apply (C_start s _ q Q (q_set_pc Q (CRun t)) t (r ++ q_over Q) I C Hq Ha Hnr); try reflexivity.
    - rewrite Hc. reflexivity.
    - simp_q. change (chan (set_chan s (q_ch Q) r) (q_ch Q) ++ q_over Q = r ++ q_over Q).
      now rewrite (chan_set_chan_same s (q_ch Q) r Hlt).
    - intros c0 N. apply (chan_set_chan_other s (q_ch Q) r c0 N). }
  destruct (q_pc Q) eqn:Hpc; try exact C.
  - (* CTop *)
    destruct (chan s (q_ch Q)) as [|t r] eqn:Hc; [c_frame_q s C q Q Hq Hpc|].
    apply Hchanpop; [reflexivity|discriminate|reflexivity].
  - (* CPopOver *)
    destruct (if pop_overflow_rechecks_channel then chan s (q_ch Q) else []) as [|t0 r0] eqn:Ef.
    + destruct (q_over Q) as [|t r] eqn:Ho.
      * c_frame_q s C q Q Hq Hpc. rewrite Ho. reflexivity.
      * assert (Ech : chan s (q_ch Q) = []).
        { destruct pop_overflow_rechecks_channel; [exact Ef|]. cbn in PH.
          destruct (chan s (q_ch Q)); [reflexivity|discriminate]. }
        eapply (C_start s _ q Q _ t r I C Hq); try reflexivity.
        -- rewrite Hpc. reflexivity.
        -- rewrite Hpc. discriminate.
        -- rewrite Ech, Ho. reflexivity.
        -- simp_q. change (chan s (q_ch Q) ++ r = r). now rewrite Ech.
    + assert (Ech : chan s (q_ch Q) = t0 :: r0) by (destruct pop_overflow_rechecks_channel; [exact Ef|discriminate]).
      apply Hchanpop; [reflexivity|discriminate|exact Ech].
  - (* CRun *) apply (C_end s q Q t I C Hq Hpc).
  - (* CWait *)
    destruct c; try exact C.
    + destruct (chan s (q_ch Q)) as [|t r] eqn:Hc; [exact C|].
      apply Hchanpop; [reflexivity|discriminate|reflexivity].
    + destruct (_ || _ || _); [exact C|c_frame_q s C q Q Hq Hpc].
    + c_frame_q s C q Q Hq Hpc.
  - (* CChecked *)
    destruct (q_refs Q =? 0)%Z eqn:Er; [|c_frame_q s C q Q Hq Hpc].
    cbn [andb] in CH. apply orb_false_elim in CH. destruct CH as [C1 C2].
    assert (E1 : chan s (q_ch Q) = []) by (destruct (chan s (q_ch Q)); [reflexivity|discriminate]).
    assert (E2 : q_over Q = []) by (destruct (q_over Q); [reflexivity|discriminate]).
    c_frame_q s C q Q Hq Hpc. cbn [active]. now rewrite E1, E2.
  - (* CClaimed *)
    destruct (opt_is (st_map s (q_key Q)) q) eqn:Eo; [|c_frame_q s C q Q Hq Hpc].
    apply opt_is_true in Eo.
    apply (C_frame s); [reflexivity| |intros; reflexivity|intros tt HH; exact HH| |exact C].
    + intros k0. unfold buf. simp_st. unfold map_set. destruct (Nat.eqb_spec k0 (q_key Q)) as [->|N].
      * rewrite Eo, Hq, Hpc. reflexivity.
      * destruct (st_map s k0) as [q0|] eqn:E0; [|reflexivity].
        destruct (a_map s I _ _ E0) as (Q0 & H0 & K0).
        assert (q0 <> q) by (intros ->; assert (Q0 = Q) by congruence; subst; congruence).
        rewrite nth_upd_other by auto. reflexivity.
    + simp_st. eapply (run_upd _ q Q _ Hq); [reflexivity|intros tt; rewrite Hpc; discriminate].
  - (* CDeleted *) c_frame_q s C q Q Hq Hpc.
  - (* CDelFailed *)
    assert (G : st_map s (q_key Q) <> Some q) by (apply (a_gone s I q Q Hq); now rewrite Hpc).
    destruct (opt_is (st_map s (q_key Q)) q) eqn:Eo; [apply opt_is_true in Eo; contradiction|].
    c_frame_q s C q Q Hq Hpc.
Qed.

Lemma creator_ns s q Q i k pc :
  InvA s -> nth_error (st_qs s) q = Some Q -> nth_error (st_prods s) i = Some (k, pc) ->
  creator q (k, pc) = true -> q_pc Q = CNotStarted.
Proof.
  intros I Hq Hp Hc. pose proof (a_creat s I q Q Hq) as C. pose proof (count_ge1 (creator q) _ i _ Hp Hc) as G.
  destruct (q_pc Q); cbn in C; try lia. reflexivity.
Qed.

Ltac c_frame_p s C Hp BUF RUN :=
  apply (C_frame s);
  [reflexivity
  |BUF
  |intros tt; eapply task_key_ppc; [reflexivity|exact Hp]
  |intros tt; eapply relsafe_ppc; [reflexivity|exact Hp|intros HH; first [discriminate HH|reflexivity]]
  |RUN
  |exact C].
Ltac buf_same_t := apply buf_same; [reflexivity|reflexivity|intros; reflexivity].
Ltac run_same_t := simp_st; apply run_refl.
Ltac buf_refs_t s q Q Hq := eapply (buf_upd s _ q Q _ Hq); [reflexivity|simp_st; reflexivity|intros; reflexivity|reflexivity].
Ltac run_refs_t q Q Hq := simp_st; eapply (run_upd _ q Q _ Hq); [reflexivity|intros tt HH; exact HH].

Lemma C_step_prod cap s i g : InvA s -> InvB s -> InvC s -> InvC (step_prod cap s i g).
Proof.
  intros I B C. unfold step_prod.
  destruct (nth_error (st_prods s) i) as [[k pc]|] eqn:Hp; [|exact C].
  pose proof (a_prod s I i k pc Hp) as Ok.
  destruct pc; cbn [pc_ok] in Ok.
  - destruct (st_map s k); c_frame_p s C Hp buf_same_t run_same_t.
  - destruct (nth_error (st_qs s) q) as [Q|] eqn:Hq; [|exact C].
    destruct (q_refs Q <? 0)%Z; [c_frame_p s C Hp buf_same_t run_same_t|].
    c_frame_p s C Hp ltac:(buf_refs_t s q Q Hq) ltac:(run_refs_t q Q Hq).
  - destruct g as [c|].
    + destruct (mem c (st_pool s)); [|exact C]. c_frame_p s C Hp buf_same_t run_same_t.
    + c_frame_p s C Hp ltac:(apply buf_same; [reflexivity|reflexivity|intros c0; apply chan_new]) run_same_t.
  - destruct (st_map s k) as [q|] eqn:Em; [c_frame_p s C Hp buf_same_t run_same_t|].
    pose proof (have_chan_empty s i k c I B Hp) as Ec.
    c_frame_p s C Hp idtac idtac.
    + intros k0. unfold buf. simp_st. unfold map_set. destruct (Nat.eqb_spec k0 k) as [->|N].
      * rewrite nth_error_snoc_new, Em. cbn [q_pc active q_ch q_over]. rewrite app_nil_r. exact Ec.
      * destruct (st_map s k0) as [q0|] eqn:E0; [|reflexivity].
        destruct (a_map s I _ _ E0) as (Q0 & H0 & K0). rewrite (nth_error_app_l _ _ _ _ H0), H0. reflexivity.
    + simp_st. intros q0 Q0 t H0 P0. exists Q0. split; [now apply nth_error_app_l|auto].
  - destruct (nth_error (st_qs s) q) as [Q|] eqn:Hq; [|exact C].
    destruct (q_refs Q <? 0)%Z; [c_frame_p s C Hp buf_same_t run_same_t|].
    c_frame_p s C Hp ltac:(buf_refs_t s q Q Hq) ltac:(run_refs_t q Q Hq).
  - destruct Ok as (Q & Hq & Hk & Hi).
    destruct (opt_is (st_map s k) q) eqn:Eo; [|c_frame_p s C Hp buf_same_t run_same_t].
    apply opt_is_true in Eo. c_frame_p s C Hp idtac run_same_t.
    intros k0. unfold buf. simp_st. unfold map_set. destruct (Nat.eqb_spec k0 k) as [->|N]; [|reflexivity].
    rewrite Eo, Hq, Hi. reflexivity.
  - destruct (nth_error (st_qs s) q) as [Q|] eqn:Hq; [|exact C].
    c_frame_p s C Hp ltac:(buf_refs_t s q Q Hq) ltac:(run_refs_t q Q Hq).
  - destruct (nth_error (st_qs s) q) as [Q|] eqn:Hq; [|exact C].
    assert (Hns : q_pc Q = CNotStarted).
    { apply (creator_ns s q Q i k (PSpawn q) I Hq Hp). unfold creator; cbn [snd]. apply Nat.eqb_refl. }
    c_frame_p s C Hp idtac idtac.
    + eapply (buf_upd s _ q Q _ Hq); [reflexivity|simp_st; reflexivity|intros; reflexivity|]. simp_q. now rewrite Hns.
    + simp_st. eapply (run_upd _ q Q _ Hq); [reflexivity|]. intros tt. rewrite Hns. discriminate.
  - (* PEnq *)
    destruct (nth_error (st_qs s) q) as [Q|] eqn:Hq; [|exact C].
    assert (Hov : InvC (set_ppc (add_log (set_q s q (q_set_over Q (q_over Q ++ [i]) true)) (EAccept k i)) i k (PRel q))).
    { apply (C_accept s _ q Q (q_set_over Q (q_over Q ++ [i]) true) i k I C Hq Hp); try reflexivity.
      simp_q. change (chan s (q_ch Q) ++ q_over Q ++ [i] = (chan s (q_ch Q) ++ q_over Q) ++ [i]). apply app_assoc. }
    destruct (q_mode Q) eqn:Em; [exact Hov|]. destruct (length (chan s (q_ch Q)) <? cap); [|exact Hov].
    assert (Ha : active (q_pc Q) = true).
    { apply (holder_active s q Q i k (PEnq q) I Hq Hp). unfold holds; cbn [snd]. apply Nat.eqb_refl. }
    destruct (own_active s q Q I Hq (active_live _ Ha)) as (Hlt & _).
    apply (C_accept s _ q Q Q i k I C Hq Hp); try reflexivity.
    + simp_st. symmetry. now apply upd_same.
    + change (chan (set_chan s (q_ch Q) (chan s (q_ch Q) ++ [i])) (q_ch Q) ++ q_over Q = (chan s (q_ch Q) ++ q_over Q) ++ [i]).
      rewrite (chan_set_chan_same s _ _ Hlt), (b_mode s B q Q Hq Em), !app_nil_r. reflexivity.
    + intros c0 N. apply (chan_set_chan_other s (q_ch Q) _ c0 N).
  - destruct (nth_error (st_qs s) q) as [Q|] eqn:Hq; [|exact C].
    c_frame_p s C Hp ltac:(buf_refs_t s q Q Hq) ltac:(run_refs_t q Q Hq).
  - exact C.
Qed.

Lemma C_init keys : InvC (init keys).
Proof.
  constructor; cbn; try reflexivity; try constructor; try (intros; contradiction).
Qed.

(* ------------------------------------------------------------------------------------------ *)
(* the invariant along race-free schedules, and the theorem                                    *)
(* ------------------------------------------------------------------------------------------ *)
Record Inv (s : state) : Prop := mkI { i_a : InvA s; i_b : InvB s; i_c : InvC s }.

Lemma Inv_init keys : Inv (init keys).
Proof. constructor; [apply A_init|apply B_init|apply C_init]. Qed.

Lemma Inv_step cap s l : Inv s -> claim_hit s l = false -> pop_hit s l = false -> Inv (step cap s l).
Proof.
  intros [IA IB IC] CH PH. destruct l as [i g|q c]; cbn [step].
  - constructor; [apply A_step_prod|apply B_step_prod|apply C_step_prod]; assumption.
  - constructor; [apply A_step_conv|apply B_step_conv|apply C_step_conv]; assumption.
Qed.

Lemma Inv_run_from cap sched : forall s, Inv s -> race_free_from cap s sched = true -> Inv (fold_left (step cap) sched s).
Proof.
  induction sched as [|l r IH]; intros s I RF; cbn in *; [exact I|].
  apply andb_true_iff in RF. destruct RF as [RF R2]. apply andb_true_iff in RF. destruct RF as [R0 R1].
  apply negb_true_iff in R0. apply negb_true_iff in R1.
  apply IH; [apply Inv_step; assumption|exact R2].
Qed.

Lemma C13_in_order_invariant cap keys sched : race_free cap keys sched = true -> Inv (run cap keys sched).
Proof. intros RF. apply Inv_run_from; [apply Inv_init|exact RF]. Qed.

Lemma C13_in_order_partial_proof :
  forall cap keys sched,
    race_free cap keys sched = true ->
    let s := run cap keys sched in
    spec_safe (st_log s) = true /\ (quiescent s = true -> spec_complete (st_log s) = true).
Proof.
  intros cap keys sched RF s. destruct (C13_in_order_invariant cap keys sched RF) as [IA IB IC]. fold s in IA, IB, IC.
  split.
  - unfold spec_safe. pose proof (c_errs s IC) as E. unfold SC in E. now rewrite E.
  - intros Hquiet. unfold quiescent in Hquiet. apply andb_true_iff in Hquiet. destruct Hquiet as [_ HQ].
    rewrite forallb_forall in HQ.
    assert (Hex : forall q Q, nth_error (st_qs s) q = Some Q -> q_pc Q = CExit).
    { intros q Q H. apply nth_error_In in H. specialize (HQ Q H). unfold conv_idle in HQ.
      destruct (q_pc Q); try discriminate. reflexivity. }
    assert (P : sc_pend (scan_log (st_log s)) = []).
    { apply pendk_all_nil. intros k. pose proof (c_pend s IC k) as E. unfold SC in E. rewrite E.
      unfold buf. destruct (st_map s k) as [q|]; [|reflexivity].
      destruct (nth_error (st_qs s) q) as [Q|] eqn:Hq; [|reflexivity]. now rewrite (Hex q Q Hq). }
    assert (R : sc_run (scan_log (st_log s)) = []).
    { destruct (sc_run (scan_log (st_log s))) as [|[k t] r] eqn:E; [reflexivity|exfalso].
      destruct (c_run s IC k t) as (q & Q & Hq & _ & Hpc); [unfold SC; rewrite E; now left|].
      rewrite (Hex q Q Hq) in Hpc. discriminate. }
    unfold spec_complete. now rewrite P, R.
Qed.

Print Assumptions C13_in_order_partial_proof.
