(* C13 — ordered exactly-once handling of the task pool under the race-free side condition
   (no step inside the claim window F7 or the overflow-pop window F14). *)
From Coq Require Import List Arith Bool ZArith Lia Permutation.
From Dae Require Import C13_Spec C13_Model C13_Race.
From Dae.gen Require Import C13_Consts.
Import ListNotations.

(* ------------------------------------------------------------------------------------------ *)
(* generic list facts                                                                          *)
(* ------------------------------------------------------------------------------------------ *)
Definition b2n (b : bool) : nat := if b then 1 else 0.
Definition count {A} (f : A -> bool) (l : list A) : nat := length (filter f l).
Arguments count : simpl never.

Lemma nth_error_upd {A} (l : list A) i j x :
  nth_error (upd l i x) j = if j =? i then (match nth_error l i with Some _ => Some x | None => None end)
                            else nth_error l j.
Proof.
  revert i j; induction l as [|y r IH]; intros i j.
  - destruct i, j; cbn; try reflexivity; destruct (j =? i); reflexivity.
  - destruct i, j; cbn; try reflexivity. apply IH.
Qed.

Lemma nth_nth_error {A} (l : list A) i d x : nth_error l i = Some x -> nth i l d = x.
Proof. revert i; induction l; intros [|i] H; cbn in *; try discriminate; [now inversion H|auto]. Qed.

Lemma nth_error_nth_some {A} (l : list A) i d : i < length l -> nth_error l i = Some (nth i l d).
Proof. revert i; induction l; intros [|i] H; cbn in *; try lia; [reflexivity|apply IHl; lia]. Qed.

Lemma upd_overflow {A} (l : list A) i x : length l <= i -> upd l i x = l.
Proof.
  revert i; induction l as [|y r IH]; intros i H; destruct i; cbn in *; try reflexivity; try lia.
  f_equal. apply IH. lia.
Qed.

Lemma count_nil {A} (f : A -> bool) : count f [] = 0.
Proof. reflexivity. Qed.

Lemma count_cons {A} (f : A -> bool) x l : count f (x :: l) = b2n (f x) + count f l.
Proof. unfold count; cbn. destruct (f x); reflexivity. Qed.

Lemma count_app {A} (f : A -> bool) l1 l2 : count f (l1 ++ l2) = count f l1 + count f l2.
Proof. unfold count. rewrite filter_app, app_length. reflexivity. Qed.

Lemma count_upd {A} (f : A -> bool) l i x y :
  nth_error l i = Some y -> count f (upd l i x) + b2n (f y) = count f l + b2n (f x).
Proof.
  revert i; induction l as [|z r IH]; intros i H; destruct i; cbn in *; try discriminate.
  - inversion H; subst. rewrite !count_cons. lia.
  - specialize (IH i H). rewrite !count_cons. lia.
Qed.

Lemma count_upd' {A} (f : A -> bool) l i x y bx by_ :
  nth_error l i = Some y -> f x = bx -> f y = by_ -> count f (upd l i x) + b2n by_ = count f l + b2n bx.
Proof. intros H <- <-. now apply count_upd. Qed.

Lemma count_upd_eq {A} (f : A -> bool) l i x y :
  nth_error l i = Some y -> f x = f y -> count f (upd l i x) = count f l.
Proof. intros H E. pose proof (count_upd f l i x y H). rewrite E in *. lia. Qed.

Lemma count_ge1 {A} (f : A -> bool) l i x : nth_error l i = Some x -> f x = true -> 1 <= count f l.
Proof.
  revert i; induction l as [|z r IH]; intros i H E; destruct i; cbn in *; try discriminate.
  - inversion H; subst. rewrite count_cons, E. cbn. lia.
  - rewrite count_cons. specialize (IH i H E). lia.
Qed.

Lemma count_ge2 {A} (f : A -> bool) l i j x y :
  nth_error l i = Some x -> nth_error l j = Some y -> i <> j -> f x = true -> f y = true -> 2 <= count f l.
Proof.
  revert i j; induction l as [|z r IH]; intros i j Hi Hj N Ex Ey; destruct i, j; cbn in *; try discriminate; try lia.
  - inversion Hi; subst. rewrite count_cons, Ex. pose proof (count_ge1 f r j y Hj Ey). cbn. lia.
  - inversion Hj; subst. rewrite count_cons, Ey. pose proof (count_ge1 f r i x Hi Ex). cbn. lia.
  - rewrite count_cons. assert (i <> j) by lia. specialize (IH i j Hi Hj H Ex Ey). lia.
Qed.

Lemma count_zero {A} (f : A -> bool) l : (forall i x, nth_error l i = Some x -> f x = false) -> count f l = 0.
Proof.
  induction l as [|z r IH]; intros H; [reflexivity|].
  rewrite count_cons, (H 0 z eq_refl). cbn. apply IH. intros i x Hx. apply (H (S i) x Hx).
Qed.

Lemma count_zero_inv {A} (f : A -> bool) l i x : count f l = 0 -> nth_error l i = Some x -> f x = false.
Proof.
  intros C H. destruct (f x) eqn:E; [|reflexivity]. pose proof (count_ge1 f l i x H E). lia.
Qed.

Lemma count_ext_map {A B} (v : A -> B) (g : A -> bool) l l' :
  map v l' = map v l -> (forall x y, v x = v y -> g x = g y) -> count g l' = count g l.
Proof.
  revert l'; induction l as [|z r IH]; intros [|z' r'] H E; cbn in H; try discriminate; [reflexivity|].
  inversion H. rewrite !count_cons, (E z' z), (IH r'); auto.
Qed.

Lemma nth_error_map_eq {A B} (v : A -> B) l l' i x' :
  map v l' = map v l -> nth_error l' i = Some x' -> exists x, nth_error l i = Some x /\ v x = v x'.
Proof.
  revert l' i; induction l as [|z r IH]; intros [|z' r'] i H Hx; cbn in H; try discriminate.
  - destruct i; discriminate.
  - inversion H. destruct i; cbn in *.
    + inversion Hx; subst. eauto.
    + eapply IH; eauto.
Qed.

Lemma map_upd_same {A B} (v : A -> B) l i x y :
  nth_error l i = Some y -> v x = v y -> map v (upd l i x) = map v l.
Proof.
  revert i; induction l as [|z r IH]; intros i H E; destruct i; cbn in *; try discriminate.
  - inversion H; subst. now rewrite E.
  - f_equal. now apply IH.
Qed.

Lemma upd_same {A} (l : list A) i x : nth_error l i = Some x -> upd l i x = l.
Proof.
  revert i; induction l as [|z r IH]; intros i H; destruct i; cbn in *; try discriminate.
  - now inversion H.
  - f_equal. now apply IH.
Qed.

Lemma upd_length {A} (l : list A) i x : length (upd l i x) = length l.
Proof. revert i; induction l; intros [|i]; cbn; auto. Qed.

Lemma nth_error_app_l {A} (l l' : list A) i x : nth_error l i = Some x -> nth_error (l ++ l') i = Some x.
Proof. intros H. rewrite nth_error_app1; auto. apply nth_error_Some. congruence. Qed.

Lemma nth_error_snoc {A} (l : list A) y i x :
  nth_error (l ++ [y]) i = Some x -> nth_error l i = Some x \/ (i = length l /\ x = y).
Proof.
  intros H. destruct (Nat.lt_ge_cases i (length l)).
  - rewrite nth_error_app1 in H by auto. now left.
  - rewrite nth_error_app2 in H by auto. destruct (i - length l) as [|n] eqn:E; cbn in H.
    + inversion H. right. split; [lia|reflexivity].
    + destruct n; discriminate.
Qed.

Lemma nth_error_lt {A} (l : list A) i x : nth_error l i = Some x -> i < length l.
Proof. intros H. apply nth_error_Some. congruence. Qed.

Lemma count_mem c l : mem c l = true -> 1 <= count (Nat.eqb c) l.
Proof.
  induction l as [|z r IH]; cbn; [discriminate|]. intros H. rewrite count_cons.
  destruct (c =? z); cbn in *; [lia|]. specialize (IH H). lia.
Qed.

Lemma count_in c l : In c l -> 1 <= count (Nat.eqb c) l.
Proof.
  induction l as [|z r IH]; cbn; [tauto|]. intros [H|H]; rewrite count_cons.
  - subst. rewrite Nat.eqb_refl. cbn. lia.
  - specialize (IH H). lia.
Qed.

Lemma count_remove1 c c' l :
  mem c l = true -> count (Nat.eqb c') (remove1 c l) + b2n (c' =? c) = count (Nat.eqb c') l.
Proof.
  induction l as [|z r IH]; cbn; [discriminate|]. intros H.
  destruct (Nat.eqb_spec c z).
  - subst z. rewrite Nat.eqb_refl. rewrite count_cons. lia.
  - rewrite (proj2 (Nat.eqb_neq z c)) by auto. cbn in H. rewrite !count_cons. specialize (IH H). lia.
Qed.

(* ------------------------------------------------------------------------------------------ *)
(* part A: map / reference counts / channel ownership                                          *)
(* ------------------------------------------------------------------------------------------ *)
Definition active (pc : cpc) : bool :=
  match pc with CNotStarted | CTop | CPopOver | CRun _ | CWait | CChecked => true | _ => false end.
Definition live (pc : cpc) : bool := match pc with CExit => false | _ => true end.
Definition is_ns (pc : cpc) : bool := match pc with CNotStarted => true | _ => false end.
Definition gone (pc : cpc) : bool := match pc with CDelFailed | CDeleted | CExit => true | _ => false end.

Definition holds (q : nat) (p : nat * ppc) : bool :=
  match snd p with PEnq q' | PRel q' | PSpawn q' => q =? q' | _ => false end.
Definition creator (q : nat) (p : nat * ppc) : bool :=
  match snd p with PStored q' | PSpawn q' => q =? q' | _ => false end.
Definition having (c : nat) (p : nat * ppc) : bool :=
  match snd p with PHave c' => c =? c' | _ => false end.
Definition qowns (c : nat) (Q : queue) : bool := live (q_pc Q) && (c =? q_ch Q).
Definition chown (s : state) (c : nat) : nat :=
  count (qowns c) (st_qs s) + count (Nat.eqb c) (st_pool s) + count (having c) (st_prods s).

Definition pc_ok (s : state) (k : nat) (pc : ppc) : Prop :=
  match pc with
  | PLoaded q | PLoaded2 q | PStored q | PSpawn q | PEnq q | PRel q =>
      exists Q, nth_error (st_qs s) q = Some Q /\ q_key Q = k
  | PCad q => exists Q, nth_error (st_qs s) q = Some Q /\ q_key Q = k /\ active (q_pc Q) = false
  | _ => True
  end.

Record InvA (s : state) : Prop := mkA {
  a_map : forall k q, st_map s k = Some q -> exists Q, nth_error (st_qs s) q = Some Q /\ q_key Q = k;
  a_act : forall q Q, nth_error (st_qs s) q = Some Q -> active (q_pc Q) = true -> st_map s (q_key Q) = Some q;
  a_gone : forall q Q, nth_error (st_qs s) q = Some Q -> gone (q_pc Q) = true -> st_map s (q_key Q) <> Some q;
  a_refs : forall q Q, nth_error (st_qs s) q = Some Q ->
      if active (q_pc Q) then q_refs Q = Z.of_nat (count (holds q) (st_prods s))
      else (q_refs Q < 0)%Z /\ count (holds q) (st_prods s) = 0;
  a_creat : forall q Q, nth_error (st_qs s) q = Some Q -> count (creator q) (st_prods s) = b2n (is_ns (q_pc Q));
  a_prod : forall i k pc, nth_error (st_prods s) i = Some (k, pc) -> pc_ok s k pc;
  a_own : forall c, chown s c = b2n (c <? length (st_chans s)) }.

Definition qv (Q : queue) :=
  (q_key Q, q_ch Q, q_refs Q, (active (q_pc Q), gone (q_pc Q), is_ns (q_pc Q), live (q_pc Q))).

Lemma qv_inv Q Q' : qv Q = qv Q' ->
  q_key Q = q_key Q' /\ q_ch Q = q_ch Q' /\ q_refs Q = q_refs Q' /\ active (q_pc Q) = active (q_pc Q')
  /\ gone (q_pc Q) = gone (q_pc Q') /\ is_ns (q_pc Q) = is_ns (q_pc Q') /\ live (q_pc Q) = live (q_pc Q').
Proof. unfold qv. intros H. inversion H. repeat split; assumption. Qed.

Lemma pc_ok_mono s s' k pc :
  (forall q Q, nth_error (st_qs s) q = Some Q ->
     exists Q', nth_error (st_qs s') q = Some Q' /\ q_key Q' = q_key Q /\ (active (q_pc Q) = false -> active (q_pc Q') = false)) ->
  pc_ok s k pc -> pc_ok s' k pc.
Proof.
  intros M H. destruct pc; cbn in *; auto;
    destruct H as (Q & Hq & Hk); destruct (M _ _ Hq) as (Q' & Hq' & Hk' & Ha); exists Q'.
  all: try (split; [assumption|congruence]).
  destruct Hk as [Hk Hi]. repeat split; [assumption|congruence|auto].
Qed.

(* frame: nothing that part A looks at changes *)
Lemma A_frame s s' :
  InvA s ->
  map qv (st_qs s') = map qv (st_qs s) ->
  st_map s' = st_map s -> st_pool s' = st_pool s -> length (st_chans s') = length (st_chans s) ->
  (forall q, count (holds q) (st_prods s') = count (holds q) (st_prods s)) ->
  (forall q, count (creator q) (st_prods s') = count (creator q) (st_prods s)) ->
  (forall c, count (having c) (st_prods s') = count (having c) (st_prods s)) ->
  (forall i k pc, nth_error (st_prods s') i = Some (k, pc) -> pc_ok s k pc) ->
  InvA s'.
Proof.
  intros I HQ HM HP HC Hh Hc Hv Hok.
  assert (F : forall q Q', nth_error (st_qs s') q = Some Q' -> exists Q, nth_error (st_qs s) q = Some Q /\ qv Q = qv Q').
  { intros q Q' H. eapply nth_error_map_eq; eauto. }
  assert (B : forall q Q, nth_error (st_qs s) q = Some Q -> exists Q', nth_error (st_qs s') q = Some Q' /\ qv Q' = qv Q).
  { intros q Q H. eapply nth_error_map_eq; [symmetry; exact HQ|exact H]. }
  constructor.
  - intros k q H. rewrite HM in H. destruct (a_map s I k q H) as (Q & Hq & Hk).
    destruct (B q Q Hq) as (Q' & Hq' & E). apply qv_inv in E. exists Q'. split; [assumption|]. destruct E as (E & _). congruence.
  - intros q Q' H Ha. destruct (F q Q' H) as (Q & Hq & E). apply qv_inv in E. destruct E as (E1 & _ & _ & E4 & _).
    rewrite HM, <- E1. apply (a_act s I q Q Hq). congruence.
  - intros q Q' H Ha. destruct (F q Q' H) as (Q & Hq & E). apply qv_inv in E. destruct E as (E1 & _ & _ & _ & E5 & _).
    rewrite HM, <- E1. apply (a_gone s I q Q Hq). congruence.
  - intros q Q' H. destruct (F q Q' H) as (Q & Hq & E). apply qv_inv in E. destruct E as (_ & _ & E3 & E4 & _).
    rewrite Hh, <- E3, <- E4. apply (a_refs s I q Q Hq).
  - intros q Q' H. destruct (F q Q' H) as (Q & Hq & E). apply qv_inv in E. destruct E as (_ & _ & _ & _ & _ & E6 & _).
    rewrite Hc, <- E6. apply (a_creat s I q Q Hq).
  - intros i k pc H. eapply pc_ok_mono; [|apply (Hok i k pc H)].
    intros q Q Hq. destruct (B q Q Hq) as (Q' & Hq' & E). apply qv_inv in E. exists Q'.
    destruct E as (E1 & _ & _ & E4 & _). repeat split; [assumption|assumption|congruence].
  - intros c. unfold chown. rewrite HP, HC, Hv, <- (a_own s I c). unfold chown. f_equal. f_equal.
    apply (count_ext_map qv); [assumption|].
    intros x y E. apply qv_inv in E. destruct E as (_ & E2 & _ & _ & _ & _ & E7). unfold qowns. congruence.
Qed.

Lemma nth_upd_cases {A} (l : list A) i x j y :
  nth_error (upd l i x) j = Some y -> (j = i /\ y = x) \/ (j <> i /\ nth_error l j = Some y).
Proof.
  rewrite nth_error_upd. destruct (Nat.eqb_spec j i).
  - subst. destruct (nth_error l i); [|discriminate]. intros H; inversion H. now left.
  - intros H. now right.
Qed.

Lemma nth_upd_same {A} (l : list A) i x y : nth_error l i = Some y -> nth_error (upd l i x) i = Some x.
Proof. intros H. rewrite nth_error_upd, Nat.eqb_refl, H. reflexivity. Qed.

Lemma nth_upd_other {A} (l : list A) i x j : j <> i -> nth_error (upd l i x) j = nth_error l j.
Proof. intros H. rewrite nth_error_upd. now rewrite (proj2 (Nat.eqb_neq j i)). Qed.

Lemma nth_error_snoc_new {A} (l : list A) y : nth_error (l ++ [y]) (length l) = Some y.
Proof. rewrite nth_error_app2, Nat.sub_diag; auto. Qed.

Lemma opt_is_true o q : opt_is o q = true <-> o = Some q.
Proof.
  destruct o as [x|]; cbn; [|split; discriminate]. rewrite Nat.eqb_eq. split; [intros ->; reflexivity|intros H; now inversion H].
Qed.

Lemma opt_is_false o q : opt_is o q = false <-> o <> Some q.
Proof.
  rewrite <- opt_is_true. destruct (opt_is o q); split; auto; try discriminate. intros H; exfalso; now apply H.
Qed.

Lemma map_set_same m k v : map_set m k v k = v.
Proof. unfold map_set. now rewrite Nat.eqb_refl. Qed.
Lemma map_set_other m k v k' : k' <> k -> map_set m k v k' = m k'.
Proof. intros H. unfold map_set. now rewrite (proj2 (Nat.eqb_neq k' k)). Qed.

Lemma mono_upd (qs : list queue) q Q Q' :
  nth_error qs q = Some Q -> q_key Q' = q_key Q -> (active (q_pc Q) = false -> active (q_pc Q') = false) ->
  forall q0 Q0, nth_error qs q0 = Some Q0 ->
    exists Q0', nth_error (upd qs q Q') q0 = Some Q0' /\ q_key Q0' = q_key Q0 /\ (active (q_pc Q0) = false -> active (q_pc Q0') = false).
Proof.
  intros Hq Hk Ha q0 Q0 H0. destruct (Nat.eq_dec q0 q).
  - subst. exists Q'. rewrite (nth_upd_same _ _ _ _ Hq). assert (Q0 = Q) by congruence. subst. auto.
  - exists Q0. rewrite nth_upd_other by auto. auto.
Qed.

Lemma mono_app (qs : list queue) Qn :
  forall q0 Q0, nth_error qs q0 = Some Q0 ->
    exists Q0', nth_error (qs ++ [Qn]) q0 = Some Q0' /\ q_key Q0' = q_key Q0 /\ (active (q_pc Q0) = false -> active (q_pc Q0') = false).
Proof. intros q0 Q0 H. exists Q0. split; [now apply nth_error_app_l|auto]. Qed.

Lemma mono_refl (qs : list queue) :
  forall q0 Q0, nth_error qs q0 = Some Q0 ->
    exists Q0', nth_error qs q0 = Some Q0' /\ q_key Q0' = q_key Q0 /\ (active (q_pc Q0) = false -> active (q_pc Q0') = false).
Proof. intros q0 Q0 H. exists Q0. auto. Qed.

Lemma ok_upd s i k pc pc' :
  InvA s -> nth_error (st_prods s) i = Some (k, pc) -> pc_ok s k pc' ->
  forall i1 k1 pc1, nth_error (upd (st_prods s) i (k, pc')) i1 = Some (k1, pc1) -> pc_ok s k1 pc1.
Proof.
  intros I Hp Hok i1 k1 pc1 H. apply nth_upd_cases in H. destruct H as [[-> E]|[N H]].
  - inversion E; subst. exact Hok.
  - apply (a_prod s I _ _ _ H).
Qed.

Lemma holds_fresh s : InvA s -> count (holds (length (st_qs s))) (st_prods s) = 0.
Proof.
  intros I. apply count_zero. intros i [k pc] H. pose proof (a_prod s I i k pc H) as O.
  unfold holds; cbn [snd]. destruct pc; try reflexivity; cbn in O; destruct O as (Q & Hq & _);
    apply nth_error_lt in Hq; apply Nat.eqb_neq; lia.
Qed.

Lemma creator_fresh s : InvA s -> count (creator (length (st_qs s))) (st_prods s) = 0.
Proof.
  intros I. apply count_zero. intros i [k pc] H. pose proof (a_prod s I i k pc H) as O.
  unfold creator; cbn [snd]. destruct pc; try reflexivity; cbn in O; destruct O as (Q & Hq & _);
    apply nth_error_lt in Hq; apply Nat.eqb_neq; lia.
Qed.

Ltac simp_st :=
  cbn [st_map st_qs st_chans st_pool st_prods st_log set_map set_qs set_chans set_pool set_prods add_log
       set_q set_ppc set_chan start_task].
Ltac simp_q := cbn [q_key q_ch q_over q_mode q_refs q_pc q_set_refs q_set_pc q_set_over].
Ltac simp_q_in H := cbn [q_key q_ch q_over q_mode q_refs q_pc q_set_refs q_set_pc q_set_over] in H.
Ltac updc H := apply nth_upd_cases in H; destruct H as [[-> ->]|[? H]].

Lemma active_not_gone pc : active pc = true -> gone pc = false.
Proof. destruct pc; cbn; congruence. Qed.

(* one producer moves and changes the reference count of an active queue *)
Lemma A_refs_step s q Q i k pc pc' r' :
  InvA s -> nth_error (st_qs s) q = Some Q -> nth_error (st_prods s) i = Some (k, pc) ->
  active (q_pc Q) = true ->
  (forall q1, q1 <> q -> holds q1 (k, pc') = holds q1 (k, pc)) ->
  (r' + Z.of_nat (b2n (holds q (k, pc))) = q_refs Q + Z.of_nat (b2n (holds q (k, pc'))))%Z ->
  (forall q1, creator q1 (k, pc') = creator q1 (k, pc)) ->
  (forall c, having c (k, pc') = having c (k, pc)) ->
  pc_ok s k pc' ->
  InvA (set_ppc (set_q s q (q_set_refs Q r')) i k pc').
Proof.
  intros I Hq Hp Ha Hh Hr Hc Hv Hok. constructor; simp_st.
  - intros k0 q0 H. destruct (a_map s I _ _ H) as (Q0 & Hq0 & Hk0).
    destruct (mono_upd _ q Q (q_set_refs Q r') Hq eq_refl (fun x => x) q0 Q0 Hq0) as (Q0' & H0 & E & _).
    exists Q0'. split; [assumption|congruence].
  - intros q0 Q0 H A0. updc H; [apply (a_act s I q Q Hq Ha)|apply (a_act s I q0 Q0 H A0)].
  - intros q0 Q0 H A0. updc H; [|apply (a_gone s I q0 Q0 H A0)].
    simp_q_in A0. rewrite (active_not_gone _ Ha) in A0. discriminate.
  - intros q0 Q0 H. updc H.
    + simp_q. rewrite Ha. pose proof (a_refs s I q Q Hq) as R. rewrite Ha in R.
      pose proof (count_upd (holds q) _ i (k, pc') _ Hp) as C. lia.
    + rewrite (count_upd_eq (holds q0) _ i (k, pc') (k, pc) Hp (Hh q0 H0)). apply (a_refs s I q0 Q0 H).
  - intros q0 Q0 H. rewrite (count_upd_eq (creator q0) _ i (k, pc') (k, pc) Hp (Hc q0)).
    updc H; [apply (a_creat s I q Q Hq)|apply (a_creat s I q0 Q0 H)].
  - intros i0 k0 pc0 H. eapply pc_ok_mono; [|eapply (ok_upd s i k pc pc'); eauto].
    simp_st. apply (mono_upd _ q Q); auto.
  - intros c. unfold chown; simp_st.
    rewrite (count_upd_eq (having c) _ i (k, pc') (k, pc) Hp (Hv c)).
    rewrite (count_upd_eq (qowns c) _ q (q_set_refs Q r') Q Hq eq_refl). apply (a_own s I c).
Qed.

(* one convoy moves: only its queue record (not key / channel), the map and the pool may change *)
Lemma A_qstep s s' q Q Q' :
  InvA s -> nth_error (st_qs s) q = Some Q ->
  st_qs s' = upd (st_qs s) q Q' -> st_prods s' = st_prods s -> length (st_chans s') = length (st_chans s) ->
  q_key Q' = q_key Q -> is_ns (q_pc Q') = is_ns (q_pc Q) ->
  (active (q_pc Q) = false -> active (q_pc Q') = false) ->
  (forall k0 q0, st_map s' k0 = Some q0 -> st_map s k0 = Some q0) ->
  (forall q0 Q0, q0 <> q -> nth_error (st_qs s) q0 = Some Q0 -> active (q_pc Q0) = true -> st_map s' (q_key Q0) = Some q0) ->
  (active (q_pc Q') = true -> st_map s' (q_key Q) = Some q) ->
  (gone (q_pc Q') = true -> st_map s' (q_key Q) <> Some q) ->
  (if active (q_pc Q') then q_refs Q' = Z.of_nat (count (holds q) (st_prods s))
   else (q_refs Q' < 0)%Z /\ count (holds q) (st_prods s) = 0) ->
  (forall c, count (qowns c) (upd (st_qs s) q Q') + count (Nat.eqb c) (st_pool s')
             = count (qowns c) (st_qs s) + count (Nat.eqb c) (st_pool s)) ->
  InvA s'.
Proof.
  intros I Hq EQ EP EC Hk Hns Hin HM1 HM2 HM3 HM4 HR HO. constructor; rewrite ?EQ, ?EP, ?EC.
  - intros k0 q0 H. apply HM1 in H. destruct (a_map s I _ _ H) as (Q0 & Hq0 & Hk0).
    destruct (mono_upd _ q Q Q' Hq Hk Hin q0 Q0 Hq0) as (Q0' & H0 & E & _).
    exists Q0'. split; [assumption|congruence].
  - intros q0 Q0 H A0. updc H; [rewrite Hk; auto|apply (HM2 q0 Q0); auto].
  - intros q0 Q0 H A0. updc H; [rewrite Hk; auto|].
    intros C. apply HM1 in C. revert C. apply (a_gone s I q0 Q0 H A0).
  - intros q0 Q0 H. updc H; [exact HR|apply (a_refs s I q0 Q0 H)].
  - intros q0 Q0 H. updc H; [rewrite Hns; apply (a_creat s I q Q Hq)|apply (a_creat s I q0 Q0 H)].
  - intros i0 k0 pc0 H. eapply pc_ok_mono; [|apply (a_prod s I _ _ _ H)].
    rewrite EQ. apply (mono_upd _ q Q); auto.
  - intros c. unfold chown. rewrite ?EQ, ?EP, ?EC. rewrite (HO c). apply (a_own s I c).
Qed.

Lemma qowns_upd_same qs q Q Q' c :
  nth_error qs q = Some Q -> q_ch Q' = q_ch Q -> live (q_pc Q') = live (q_pc Q) ->
  count (qowns c) (upd qs q Q') = count (qowns c) qs.
Proof. intros H E1 E2. apply (count_upd_eq _ _ _ _ Q H). unfold qowns. congruence. Qed.

Ltac conv_frame s I Hq Hpc :=
  apply (A_frame s);
  [exact I
  |simp_st; apply (map_upd_same qv _ _ _ _ Hq); unfold qv; simp_q; rewrite Hpc; reflexivity
  |reflexivity|reflexivity|simp_st; rewrite ?upd_length; reflexivity
  |reflexivity|reflexivity|reflexivity|exact (a_prod s I)].

Ltac qstep_auto s I Hq Hpc :=
  simp_st; simp_q; rewrite ?Hpc; try reflexivity; try discriminate; auto;
  try (intros q0 Q0 N H0 A0; apply (a_act s I q0 Q0 H0 A0));
  try (intros c0; rewrite (qowns_upd_same _ _ _ _ _ Hq); [reflexivity|reflexivity|simp_q; rewrite Hpc; reflexivity]).

Lemma A_step_conv s q c : InvA s -> InvA (step_conv s q c).
Proof.
  intros I. unfold step_conv.
  destruct (nth_error (st_qs s) q) as [Q|] eqn:Hq; [|exact I].
  destruct (q_pc Q) eqn:Hpc; try exact I.
  - (* CTop *)
    destruct (chan s (q_ch Q)) as [|t r]; conv_frame s I Hq Hpc.
  - (* CPopOver *)
    destruct (if pop_overflow_rechecks_channel then chan s (q_ch Q) else []) as [|t0 r0];
      [destruct (q_over Q) as [|t r]|]; conv_frame s I Hq Hpc.
  - (* CRun *) conv_frame s I Hq Hpc.
  - (* CWait *)
    destruct c; try exact I.
    + destruct (chan s (q_ch Q)) as [|t r]; [exact I|conv_frame s I Hq Hpc].
    + destruct (_ || _ || _); [exact I|conv_frame s I Hq Hpc].
    + conv_frame s I Hq Hpc.
  - (* CChecked *)
    destruct (q_refs Q =? 0)%Z eqn:Er; [|conv_frame s I Hq Hpc].
    apply Z.eqb_eq in Er. pose proof (a_refs s I q Q Hq) as R. rewrite Hpc in R. cbn in R.
    apply (A_qstep s _ q Q (q_set_pc (q_set_refs Q refs_sentinel) CClaimed) I Hq); qstep_auto s I Hq Hpc.
    cbn. split; [reflexivity|lia].
  - (* CClaimed *)
    pose proof (a_refs s I q Q Hq) as R. rewrite Hpc in R. cbn in R.
    destruct (opt_is (st_map s (q_key Q)) q) eqn:Eo.
    + apply opt_is_true in Eo.
      apply (A_qstep s _ q Q (q_set_pc Q CDeleted) I Hq); qstep_auto s I Hq Hpc.
      * intros k0 q0. unfold map_set. destruct (k0 =? q_key Q); [discriminate|auto].
      * intros q0 Q0 N H0 A0. pose proof (a_act s I q0 Q0 H0 A0) as M.
        rewrite map_set_other; [assumption|]. intros E. rewrite E in M. congruence.
      * intros _. rewrite map_set_same. discriminate.
    + apply opt_is_false in Eo.
      apply (A_qstep s _ q Q (q_set_pc Q CDelFailed) I Hq); qstep_auto s I Hq Hpc.
  - (* CDeleted *)
    pose proof (a_refs s I q Q Hq) as R. rewrite Hpc in R. cbn in R.
    assert (G : st_map s (q_key Q) <> Some q) by (apply (a_gone s I q Q Hq); now rewrite Hpc).
    apply (A_qstep s _ q Q (q_set_pc Q CExit) I Hq); qstep_auto s I Hq Hpc.
    intros c0. pose proof (count_upd (qowns c0) _ q (q_set_pc Q CExit) Q Hq) as C.
    assert (E1 : qowns c0 Q = (c0 =? q_ch Q)) by (unfold qowns; rewrite Hpc; reflexivity).
    assert (E2 : qowns c0 (q_set_pc Q CExit) = false) by reflexivity.
    rewrite E1, E2 in C. rewrite count_cons. cbn [b2n] in C. lia.
  - (* CDelFailed *)
    pose proof (a_refs s I q Q Hq) as R. rewrite Hpc in R. cbn in R.
    assert (G : st_map s (q_key Q) <> Some q) by (apply (a_gone s I q Q Hq); now rewrite Hpc).
    destruct (opt_is (st_map s (q_key Q)) q) eqn:Eo; [apply opt_is_true in Eo; contradiction|].
    apply (A_qstep s _ q Q (q_set_pc Q CExit) I Hq); qstep_auto s I Hq Hpc.
    intros c0. pose proof (count_upd (qowns c0) _ q (q_set_pc Q CExit) Q Hq) as C.
    assert (E1 : qowns c0 Q = (c0 =? q_ch Q)) by (unfold qowns; rewrite Hpc; reflexivity).
    assert (E2 : qowns c0 (q_set_pc Q CExit) = false) by reflexivity.
    rewrite E1, E2 in C. rewrite count_cons. cbn [b2n] in C. lia.
Qed.

(* one producer moves; queue records unchanged; the map may shrink, pool / channels may change *)
Lemma A_pstep s s' i k pc pc' :
  InvA s -> nth_error (st_prods s) i = Some (k, pc) ->
  st_prods s' = upd (st_prods s) i (k, pc') -> st_qs s' = st_qs s ->
  (forall q1, holds q1 (k, pc') = holds q1 (k, pc)) ->
  (forall q1, creator q1 (k, pc') = creator q1 (k, pc)) ->
  pc_ok s k pc' ->
  (forall k0 q0, st_map s' k0 = Some q0 -> st_map s k0 = Some q0) ->
  (forall q0 Q0, nth_error (st_qs s) q0 = Some Q0 -> active (q_pc Q0) = true -> st_map s' (q_key Q0) = Some q0) ->
  (forall c, count (qowns c) (st_qs s) + count (Nat.eqb c) (st_pool s') + count (having c) (upd (st_prods s) i (k, pc'))
             = b2n (c <? length (st_chans s'))) ->
  InvA s'.
Proof.
  intros I Hp EP EQ Hh Hc Hok HM1 HM2 HO. constructor; rewrite ?EQ, ?EP.
  - intros k0 q0 H. apply HM1 in H. apply (a_map s I _ _ H).
  - intros q0 Q0 H A0. apply (HM2 q0 Q0 H A0).
  - intros q0 Q0 H A0 C. apply HM1 in C. revert C. apply (a_gone s I q0 Q0 H A0).
  - intros q0 Q0 H. rewrite (count_upd_eq (holds q0) _ i (k, pc') (k, pc) Hp (Hh q0)). apply (a_refs s I q0 Q0 H).
  - intros q0 Q0 H. rewrite (count_upd_eq (creator q0) _ i (k, pc') (k, pc) Hp (Hc q0)). apply (a_creat s I q0 Q0 H).
  - intros i0 k0 pc0 H. eapply pc_ok_mono; [|eapply (ok_upd s i k pc pc'); eauto].
    rewrite EQ. apply mono_refl.
  - intros c. unfold chown. rewrite ?EQ, ?EP. apply HO.
Qed.

Lemma ltb_succ_b2n c n : b2n (c <? n + 1) = b2n (c <? n) + b2n (c =? n).
Proof. destruct (Nat.ltb_spec c (n + 1)), (Nat.ltb_spec c n), (Nat.eqb_spec c n); cbn; lia. Qed.

Lemma A_create s i k c :
  InvA s -> nth_error (st_prods s) i = Some (k, PHave c) -> st_map s k = None ->
  InvA (set_ppc (set_map (set_qs s (st_qs s ++ [mkQ k c [] false 0%Z CNotStarted]))
                         (map_set (st_map s) k (Some (length (st_qs s))))) i k (PStored (length (st_qs s)))).
Proof.
  intros I Hp Em. set (n := length (st_qs s)). set (Qn := mkQ k c [] false 0%Z CNotStarted).
  assert (Hn : nth_error (st_qs s ++ [Qn]) n = Some Qn) by apply nth_error_snoc_new.
  constructor; simp_st.
  - intros k0 q0 H. unfold map_set in H. destruct (Nat.eqb_spec k0 k).
    + inversion H; subst. exists Qn. split; [assumption|reflexivity].
    + destruct (a_map s I _ _ H) as (Q0 & Hq0 & Hk0). exists Q0. split; [now apply nth_error_app_l|assumption].
  - intros q0 Q0 H A0. apply nth_error_snoc in H. destruct H as [H|[-> ->]].
    + pose proof (a_act s I q0 Q0 H A0) as M. rewrite map_set_other; [assumption|]. intros E. rewrite E in M. congruence.
    + cbn [q_key Qn]. apply map_set_same.
  - intros q0 Q0 H A0. apply nth_error_snoc in H. destruct H as [H|[-> ->]]; [|discriminate].
    unfold map_set. destruct (q_key Q0 =? k).
    + intros C. inversion C. apply nth_error_lt in H. fold n in H. lia.
    + apply (a_gone s I q0 Q0 H A0).
  - intros q0 Q0 H. rewrite (count_upd_eq (holds q0) _ i (k, PStored n) (k, PHave c) Hp eq_refl).
    apply nth_error_snoc in H. destruct H as [H|[-> ->]]; [apply (a_refs s I q0 Q0 H)|].
    cbn [active q_pc q_refs Qn]. fold n. unfold n. rewrite (holds_fresh s I). reflexivity.
  - intros q0 Q0 H. pose proof (count_upd' (creator q0) _ i (k, PStored n) _ (q0 =? n) false Hp eq_refl eq_refl) as C.
    apply nth_error_snoc in H. destruct H as [H|[-> ->]].
    + rewrite <- (a_creat s I q0 Q0 H). apply nth_error_lt in H. fold n in H.
      rewrite (proj2 (Nat.eqb_neq q0 n)) in C by lia. cbn [b2n] in C. lia.
    + fold n in C. rewrite Nat.eqb_refl in C. pose proof (creator_fresh s I) as F. unfold n in *. cbn in *. lia.
  - intros i0 k0 pc0 H. apply nth_upd_cases in H. destruct H as [[-> E]|[N H]].
    + inversion E; subst. cbn. exists Qn. split; [assumption|reflexivity].
    + eapply pc_ok_mono; [|apply (a_prod s I _ _ _ H)]. simp_st. apply mono_app.
  - intros c0. unfold chown; simp_st. rewrite count_app.
    pose proof (count_upd' (having c0) _ i (k, PStored n) _ false (c0 =? c) Hp eq_refl eq_refl) as C. cbn [b2n] in C.
    pose proof (a_own s I c0) as O. unfold chown in O.
    rewrite count_cons, count_nil. assert (E : qowns c0 Qn = (c0 =? c)) by reflexivity. rewrite E. lia.
Qed.

Lemma A_spawn s q Q i k :
  InvA s -> nth_error (st_qs s) q = Some Q -> nth_error (st_prods s) i = Some (k, PSpawn q) ->
  InvA (set_ppc (set_q s q (q_set_pc Q CTop)) i k (PEnq q)).
Proof.
  intros I Hq Hp.
  assert (Hns : q_pc Q = CNotStarted).
  { pose proof (a_creat s I q Q Hq) as C. pose proof (count_ge1 (creator q) _ i _ Hp) as G.
    unfold creator in G at 1. cbn [snd] in G. rewrite Nat.eqb_refl in G. specialize (G eq_refl).
    destruct (q_pc Q); cbn in C; try lia. reflexivity. }
  assert (Hin : active (q_pc Q) = false -> active (q_pc (q_set_pc Q CTop)) = false) by (rewrite Hns; discriminate).
  constructor; simp_st.
  - intros k0 q0 H. destruct (a_map s I _ _ H) as (Q0 & Hq0 & Hk0).
    destruct (mono_upd _ q Q (q_set_pc Q CTop) Hq eq_refl Hin q0 Q0 Hq0) as (Q0' & H0 & E & _).
    exists Q0'. split; [assumption|congruence].
  - intros q0 Q0 H A0. updc H; [apply (a_act s I q Q Hq); now rewrite Hns|apply (a_act s I q0 Q0 H A0)].
  - intros q0 Q0 H A0. updc H; [discriminate|apply (a_gone s I q0 Q0 H A0)].
  - intros q0 Q0 H. rewrite (count_upd_eq (holds q0) _ i (k, PEnq q) (k, PSpawn q) Hp eq_refl).
    updc H; [|apply (a_refs s I q0 Q0 H)]. pose proof (a_refs s I q Q Hq) as R. rewrite Hns in R. exact R.
  - intros q0 Q0 H. pose proof (count_upd' (creator q0) _ i (k, PEnq q) _ false (q0 =? q) Hp eq_refl eq_refl) as C.
    cbn [b2n] in C. updc H.
    + pose proof (a_creat s I q Q Hq) as R. rewrite Hns in R. rewrite Nat.eqb_refl in C. cbn in *. lia.
    + rewrite <- (a_creat s I q0 Q0 H). rewrite (proj2 (Nat.eqb_neq q0 q)) in C by auto. cbn in C. lia.
  - intros i0 k0 pc0 H. eapply pc_ok_mono; [|eapply (ok_upd s i k (PSpawn q) (PEnq q)); eauto].
    + simp_st. apply (mono_upd _ q Q); auto.
    + apply (a_prod s I _ _ _ Hp).
  - intros c. unfold chown; simp_st.
    rewrite (count_upd_eq (having c) _ i (k, PEnq q) (k, PSpawn q) Hp eq_refl).
    rewrite (qowns_upd_same _ _ Q); auto; [apply (a_own s I c)|]. simp_q. now rewrite Hns.
Qed.

Ltac prod_frame s I Hp :=
  apply (A_frame s);
  [exact I | simp_st; try reflexivity | reflexivity | reflexivity | simp_st; rewrite ?upd_length; reflexivity
  | intros x; simp_st; apply (count_upd_eq _ _ _ _ _ Hp); reflexivity
  | intros x; simp_st; apply (count_upd_eq _ _ _ _ _ Hp); reflexivity
  | intros x; simp_st; apply (count_upd_eq _ _ _ _ _ Hp); reflexivity
  | simp_st; apply (ok_upd s _ _ _ _ I Hp) ].

Lemma refs_nonneg_active s q Q : InvA s -> nth_error (st_qs s) q = Some Q -> (q_refs Q <? 0)%Z = false -> active (q_pc Q) = true.
Proof.
  intros I Hq E. pose proof (a_refs s I q Q Hq) as R. destruct (active (q_pc Q)); [reflexivity|].
  apply Z.ltb_ge in E. lia.
Qed.

Lemma refs_neg_inactive s q Q : InvA s -> nth_error (st_qs s) q = Some Q -> (q_refs Q <? 0)%Z = true -> active (q_pc Q) = false.
Proof.
  intros I Hq E. pose proof (a_refs s I q Q Hq) as R. destruct (active (q_pc Q)); [|reflexivity].
  apply Z.ltb_lt in E. lia.
Qed.

Lemma holder_active s q Q i k pc :
  InvA s -> nth_error (st_qs s) q = Some Q -> nth_error (st_prods s) i = Some (k, pc) -> holds q (k, pc) = true ->
  active (q_pc Q) = true.
Proof.
  intros I Hq Hp H. pose proof (a_refs s I q Q Hq) as R. destruct (active (q_pc Q)); [reflexivity|].
  pose proof (count_ge1 (holds q) _ i _ Hp H). lia.
Qed.

Lemma A_step_prod cap s i g : InvA s -> InvA (step_prod cap s i g).
Proof.
  intros I. unfold step_prod.
  destruct (nth_error (st_prods s) i) as [[k pc]|] eqn:Hp; [|exact I].
  pose proof (a_prod s I i k pc Hp) as Ok.
  destruct pc; cbn [pc_ok] in Ok.
  - (* PStart *)
    destruct (st_map s k) as [q|] eqn:Em; prod_frame s I Hp; [|exact Logic.I].
    cbn. apply (a_map s I k q Em).
  - (* PLoaded *)
    destruct (nth_error (st_qs s) q) as [Q|] eqn:Hq; [|exact I].
    destruct (q_refs Q <? 0)%Z eqn:Er.
    + prod_frame s I Hp. exact Logic.I.
    + apply (A_refs_step s q Q i k (PLoaded q) (PEnq q)); auto.
      * apply (refs_nonneg_active s q Q I Hq Er).
      * intros q1 N. unfold holds; cbn [snd]. now apply Nat.eqb_neq.
      * unfold holds; cbn [snd]. rewrite Nat.eqb_refl. cbn. lia.
  - (* PGet *)
    destruct g as [c|].
    + destruct (mem c (st_pool s)) eqn:Ec; [|exact I].
      apply (A_pstep s _ i k PGet (PHave c) I Hp); simp_st; try reflexivity; auto.
      * exact Logic.I.
      * intros q0 Q0. apply (a_act s I).
      * intros c0. pose proof (a_own s I c0) as O. unfold chown in O.
        pose proof (count_remove1 c c0 _ Ec) as R.
        pose proof (count_upd' (having c0) _ i (k, PHave c) _ (c0 =? c) false Hp eq_refl eq_refl) as C.
        cbn [b2n] in C. lia.
    + apply (A_pstep s _ i k PGet (PHave (length (st_chans s))) I Hp); simp_st; try reflexivity; auto.
      * exact Logic.I.
      * intros q0 Q0. apply (a_act s I).
      * intros c0. pose proof (a_own s I c0) as O. unfold chown in O.
        pose proof (count_upd' (having c0) _ i (k, PHave (length (st_chans s))) _ (c0 =? length (st_chans s)) false Hp eq_refl eq_refl) as C.
        cbn [b2n] in C. rewrite app_length. cbn [length]. rewrite ltb_succ_b2n. lia.
  - (* PHave *)
    destruct (st_map s k) as [q|] eqn:Em.
    + apply (A_pstep s _ i k (PHave c) (PLoaded2 q) I Hp); simp_st; try reflexivity; auto.
      * cbn. apply (a_map s I k q Em).
      * intros q0 Q0. apply (a_act s I).
      * intros c0. pose proof (a_own s I c0) as O. unfold chown in O.
        pose proof (count_upd' (having c0) _ i (k, PLoaded2 q) _ false (c0 =? c) Hp eq_refl eq_refl) as C.
        cbn [b2n] in C. rewrite count_cons. lia.
    + apply (A_create s i k c I Hp Em).
  - (* PLoaded2 *)
    destruct (nth_error (st_qs s) q) as [Q|] eqn:Hq; [|exact I].
    destruct (q_refs Q <? 0)%Z eqn:Er.
    + prod_frame s I Hp. cbn. exists Q. destruct Ok as (Q' & Hq' & Hk'). assert (Q' = Q) by congruence. subst.
      repeat split; auto. apply (refs_neg_inactive s q Q I Hq Er).
    + apply (A_refs_step s q Q i k (PLoaded2 q) (PEnq q)); auto.
      * apply (refs_nonneg_active s q Q I Hq Er).
      * intros q1 N. unfold holds; cbn [snd]. now apply Nat.eqb_neq.
      * unfold holds; cbn [snd]. rewrite Nat.eqb_refl. cbn. lia.
  - (* PCad *)
    destruct Ok as (Q & Hq & Hk & Hi).
    destruct (opt_is (st_map s k) q) eqn:Eo.
    + apply opt_is_true in Eo.
      apply (A_pstep s _ i k (PCad q) PGet I Hp); simp_st; try reflexivity; auto.
      * exact Logic.I.
      * intros k0 q0. unfold map_set. destruct (k0 =? k); [discriminate|auto].
      * intros q0 Q0 H0 A0. pose proof (a_act s I q0 Q0 H0 A0) as M.
        rewrite map_set_other; [assumption|]. intros E. rewrite E in M.
        assert (q0 = q) by congruence. subst. assert (Q0 = Q) by congruence. subst. congruence.
      * intros c0. pose proof (a_own s I c0) as O. unfold chown in O.
        rewrite (count_upd_eq (having c0) _ i (k, PGet) (k, PCad q) Hp eq_refl). exact O.
    + prod_frame s I Hp. exact Logic.I.
  - (* PStored *)
    destruct (nth_error (st_qs s) q) as [Q|] eqn:Hq; [|exact I].
    apply (A_refs_step s q Q i k (PStored q) (PSpawn q)); auto.
    + pose proof (a_creat s I q Q Hq) as C.
      assert (G : 1 <= count (creator q) (st_prods s)).
      { apply (count_ge1 _ _ i _ Hp). unfold creator; cbn [snd]. apply Nat.eqb_refl. }
      destruct (q_pc Q); cbn in C; try lia. reflexivity.
    + intros q1 N. unfold holds; cbn [snd]. now apply Nat.eqb_neq.
    + unfold holds; cbn [snd]. rewrite Nat.eqb_refl. cbn. lia.
  - (* PSpawn *)
    destruct (nth_error (st_qs s) q) as [Q|] eqn:Hq; [|exact I].
    apply (A_spawn s q Q i k I Hq Hp).
  - (* PEnq *)
    destruct (nth_error (st_qs s) q) as [Q|] eqn:Hq; [|exact I].
    destruct (q_mode Q); [|destruct (length (chan s (q_ch Q)) <? cap)]; prod_frame s I Hp;
      try (apply (map_upd_same qv _ _ _ _ Hq); reflexivity); exact Ok.
  - (* PRel *)
    destruct (nth_error (st_qs s) q) as [Q|] eqn:Hq; [|exact I].
    apply (A_refs_step s q Q i k (PRel q) PDone); auto.
    + apply (holder_active s q Q i k (PRel q) I Hq Hp). unfold holds; cbn [snd]. apply Nat.eqb_refl.
    + intros q1 N. unfold holds; cbn [snd]. symmetry. now apply Nat.eqb_neq.
    + unfold holds; cbn [snd]. rewrite Nat.eqb_refl. cbn. lia.
    + exact Logic.I.
  - exact I.
Qed.

Lemma A_step cap s l : InvA s -> InvA (step cap s l).
Proof. destruct l; [apply A_step_prod|apply A_step_conv]. Qed.

Lemma A_init keys : InvA (init keys).
Proof.
  constructor; cbn.
  - discriminate.
  - intros [|q] Q H; discriminate.
  - intros [|q] Q H; discriminate.
  - intros [|q] Q H; discriminate.
  - intros [|q] Q H; discriminate.
  - intros i k pc H. rewrite nth_error_map in H. destruct (nth_error keys i); cbn in H; [|discriminate].
    inversion H. exact Logic.I.
  - intros c. unfold chown; cbn. rewrite !count_nil. cbn.
    apply count_zero. intros i x H. rewrite nth_error_map in H. destruct (nth_error keys i); cbn in H; [|discriminate].
    inversion H. reflexivity.
Qed.
