(* C17 — the size of a lowered rule program (no proofs).
   component/routing/matcher_builder.go lowers every condition ('&&' operand) of every rule to one match set
   per DISTINCT parameter key, in order of first appearance (groupParamValuesByKey / keyOrder), and the
   fallback to one last match set.  BuildUserspace (and the DNS request/response matcher builders) compare
   len(b.rules) - the number of LOWERED match sets - with MaxMatchSetLen before anything is indexed. *)
From Coq Require Import List NArith Bool.
From Dae Require Import C17_Spec C17_Model.
From Dae.gen Require Import Extracted_C17.
Import ListNotations.
Open Scope N_scope.

Record cond := Cond { c_domain : bool; c_keys : list N }.     (* keys of the parameters, as written (numbered) *)
Definition rule := list cond.
Definition program := list rule.

Fixpoint distinct (seen : list N) (ks : list N) : list N :=
  match ks with
  | [] => []
  | k :: r => if existsb (N.eqb k) seen then distinct seen r else k :: distinct (k :: seen) r
  end.
(* the match sets of one condition: one per distinct key; each is a domain set iff the condition is *)
Definition lower_cond (c : cond) : list bool := map (fun _ => c_domain c) (distinct [] (c_keys c)).
Definition lower (p : program) : list bool := flat_map (fun r => flat_map lower_cond r) p ++ [false].

Fixpoint indices_from (i : N) (l : list bool) : list N :=
  match l with
  | [] => []
  | b :: r => if b then i :: indices_from (i + 1) r else indices_from (i + 1) r
  end.
Definition n_conditions (p : program) : N := N.of_nat (List.length (concat p)).
Definition n_match_sets (p : program) : N := N.of_nat (List.length (lower p)).

(* the builders: guard on the lowered length, then index per match set *)
Definition compile (p : program) : wres unit :=
  build_userspace (n_match_sets p) (indices_from 0 (lower p)).

(* a guard that counts conditions instead (1 + number of '&&' operands): what must NOT be done *)
Definition compile_condition_guard (p : program) : wres unit :=
  if max_match_set_len <? 1 + n_conditions p then WErr
  else if existsb (fun i => max_match_set_len <=? i) (indices_from 0 (lower p)) then WCrashed
  else WOk tt.
