(* C12 — lemmas. *)
From Coq Require Import List NArith ZArith Bool Lia ZifyBool ZifyN ZifyNat.
From Dae Require Import C12_Spec C12_Model.
Import ListNotations.
Open Scope N_scope.

(* ------------------------------------------------------------------ bit strings *)

Lemma bits_be_length : forall n a, length (bits_be n a) = n.
Proof. induction n; intros; cbn [bits_be length]; auto. Qed.

Lemma byte_bit_spec : forall b j, (N.land (N.shiftr b j) 1 =? 1) = N.testbit b j.
Proof.
  intros b j.
  replace (N.testbit b j) with (N.testbit (N.shiftr b j) 0) by (rewrite N.shiftr_spec'; f_equal; lia).
  rewrite N.bit0_eqb. change 1 with (N.ones 1) at 1. rewrite N.land_ones. reflexivity.
Qed.

Lemma byte_bits_spec : forall b, byte_bits b = bits_be 8 b.
Proof.
  intros b. unfold byte_bits. cbn [map]. rewrite !byte_bit_spec. reflexivity.
Qed.

Lemma bits_be_app : forall m n a,
  bits_be (m + n) a = bits_be m (N.shiftr a (N.of_nat n)) ++ bits_be n a.
Proof.
  induction m; intros n a.
  - reflexivity.
  - cbn [plus bits_be app]. rewrite IHm. f_equal.
    rewrite N.shiftr_spec'. f_equal. lia.
Qed.

Lemma bits_be_land_255 : forall x, bits_be 8 (N.land x 255) = bits_be 8 x.
Proof.
  intros x. cbn [bits_be]. rewrite !N.land_spec.
  cbn [N.of_nat Pos.of_succ_nat Pos.succ].
  repeat match goal with |- context [N.testbit 255 ?k] =>
    change (N.testbit 255 k) with true end.
  rewrite !andb_true_r. reflexivity.
Qed.

Lemma flat_bytes_be : forall k a, flat_map byte_bits (bytes_be k a) = bits_be (8 * k) a.
Proof.
  induction k; intros a.
  - reflexivity.
  - cbn [bytes_be flat_map]. rewrite IHk, byte_bits_spec, bits_be_land_255.
    replace (8 * S k)%nat with (8 + 8 * k)%nat by lia.
    rewrite (bits_be_app 8 (8 * k) a). do 3 f_equal. lia.
Qed.

Lemma firstn_app_exact : forall A (l1 l2 : list A), firstn (length l1) (l1 ++ l2) = l1.
Proof. induction l1; intros; cbn; [reflexivity | now rewrite IHl1]. Qed.

Lemma firstn_bits_top : forall n a, (n <= 128)%nat ->
  firstn n (bits_be 128 a) = bits_be n (N.shiftr a (N.of_nat (128 - n))).
Proof.
  intros n a H.
  replace 128%nat with (n + (128 - n))%nat at 1 by lia.
  rewrite bits_be_app.
  rewrite <- (bits_be_length n (N.shiftr a (N.of_nat (128 - n)))) at 1.
  apply firstn_app_exact.
Qed.

Lemma testbit_high : forall x m k, x < 2 ^ m -> m <= k -> N.testbit x k = false.
Proof.
  intros x m k Hx Hk. destruct (N.eq_dec x 0) as [->|Hz]; [apply N.bits_0|].
  apply N.bits_above_log2. apply N.log2_lt_pow2 in Hx; lia.
Qed.

Lemma bits_be_testbit : forall n x y, bits_be n x = bits_be n y ->
  forall i, (i < n)%nat -> N.testbit x (N.of_nat i) = N.testbit y (N.of_nat i).
Proof.
  induction n; intros x y H i Hi; [lia|].
  cbn [bits_be] in H. injection H as H0 H1.
  destruct (Nat.eq_dec i n) as [->|]; [assumption|]. apply IHn; [assumption|lia].
Qed.

Lemma bits_be_inj : forall n x y, x < 2 ^ N.of_nat n -> y < 2 ^ N.of_nat n ->
  bits_be n x = bits_be n y -> x = y.
Proof.
  intros n x y Hx Hy H. apply N.bits_inj. intros k.
  destruct (N.lt_ge_cases k (N.of_nat n)) as [Hk|Hk].
  - replace k with (N.of_nat (N.to_nat k)) by lia. apply (bits_be_testbit n); [assumption|lia].
  - rewrite (testbit_high x _ k Hx Hk), (testbit_high y _ k Hy Hk). reflexivity.
Qed.

Lemma top_lt : forall n a, a < 2 ^ 128 -> n <= 128 -> top n a < 2 ^ n.
Proof.
  intros n a Ha Hn. unfold top. rewrite N.shiftr_div_pow2.
  apply N.div_lt_upper_bound; [apply N.pow_nonzero; lia|].
  rewrite <- N.pow_add_r. replace (128 - n + n) with 128 by lia. assumption.
Qed.

Lemma firstn_bits128 : forall n a, n <= 128 ->
  firstn (N.to_nat n) (bits128 a) = bits_be (N.to_nat n) (top n a).
Proof.
  intros n a Hn. unfold bits128, top. rewrite firstn_bits_top by lia. do 2 f_equal. lia.
Qed.

Lemma firstn_bits128_eq_iff : forall n a b, n <= 128 -> a < 2 ^ 128 -> b < 2 ^ 128 ->
  (firstn (N.to_nat n) (bits128 a) = firstn (N.to_nat n) (bits128 b) <-> top n a = top n b).
Proof.
  intros n a b Hn Ha Hb. rewrite !firstn_bits128 by assumption. split.
  - apply bits_be_inj; rewrite N2Nat.id; apply top_lt; assumption.
  - intros ->. reflexivity.
Qed.

(* ------------------------------------------------------------------ Prefix2bin128 *)

Lemma p2b_loop_spec : forall bs n, (0 <= n)%Z -> p2b_loop bs n = firstn (Z.to_nat n) bs.
Proof.
  induction bs as [|b rest IH]; intros n Hn.
  - now rewrite firstn_nil.
  - cbn [p2b_loop]. destruct (n =? 0)%Z eqn:E.
    + replace n with 0%Z by lia. reflexivity.
    + rewrite IH by lia. replace (Z.to_nat n) with (S (Z.to_nat (n - 1))) by lia. reflexivity.
Qed.

Lemma as16_bits : forall p, flat_map byte_bits (as16 p) = bits128 (addr128 p).
Proof. intros p. unfold as16. now rewrite flat_bytes_be. Qed.

Lemma p2b_count : forall p,
  (Z.of_N (p_bits p) + (if p_is4 p then 96 else 0))%Z = Z.of_N (len128 p).
Proof. intros p. unfold len128. destruct (p_is4 p); lia. Qed.

Lemma prefix2bin128_spec : forall p, prefix2bin128 p = prefix_bits p.
Proof.
  intros p. unfold prefix2bin128, prefix_bits. cbv zeta. rewrite as16_bits, p2b_count.
  rewrite p2b_loop_spec by lia.
  replace (Z.to_nat (Z.of_N (len128 p))) with (N.to_nat (len128 p)) by lia. reflexivity.
Qed.

Lemma firstn_128_bits128 : forall a, firstn 128 (bits128 a) = bits128 a.
Proof. intros a. apply firstn_all2. unfold bits128. now rewrite bits_be_length. Qed.

Lemma probe_bin_spec : forall a, probe_bin a = bits128 a.
Proof.
  intros a. unfold probe_bin. rewrite prefix2bin128_spec.
  unfold prefix_bits. cbn [len128 addr128 p_is4 p_addr p_bits].
  change (N.to_nat 128) with 128%nat. apply firstn_128_bits128.
Qed.


(* ------------------------------------------------------------------ trie *)

Lemma is_prefix_iff : forall k w, is_prefix k w = true <-> firstn (length k) w = k.
Proof.
  induction k as [|a k IH]; intros w.
  - cbn. tauto.
  - destruct w as [|b w]; cbn [is_prefix length firstn].
    + split; discriminate.
    + rewrite andb_true_iff, eqb_true_iff, IH. split.
      * intros [-> ->]. reflexivity.
      * intros H. injection H as -> H. auto.
Qed.

Lemma wf_prefix_bounds : forall p, wf_prefix p = true -> addr128 p < 2 ^ 128 /\ len128 p <= 128.
Proof.
  intros p H. unfold wf_prefix in H. unfold addr128, len128, v4_mapped.
  destruct (p_is4 p); apply andb_true_iff in H as [H1 H2];
    apply N.ltb_lt in H1; apply N.leb_le in H2.
  - change (2 ^ 32) with 4294967296 in H1. change (2 ^ 128) with 340282366920938463463374607431768211456. lia.
  - lia.
Qed.

Lemma is_prefix_contains : forall p a, wf_prefix p = true -> wf_addr a = true ->
  is_prefix (prefix_bits p) (bits128 a) = contains p a.
Proof.
  intros p a Hp Ha. apply wf_prefix_bounds in Hp as [HA HL]. apply N.ltb_lt in Ha.
  apply eq_true_iff_eq. rewrite is_prefix_iff. unfold contains. rewrite N.eqb_eq.
  assert (HLen : length (prefix_bits p) = N.to_nat (len128 p)).
  { unfold prefix_bits, bits128. rewrite firstn_length, bits_be_length. lia. }
  rewrite HLen. unfold prefix_bits. rewrite firstn_bits128_eq_iff by assumption. split; congruence.
Qed.

Lemma trie_contains_proof : forall ps a,
  forallb wf_prefix ps = true -> wf_addr a = true ->
  trie_match ps a = set_contains ps a.
Proof.
  intros ps a Hps Ha. unfold trie_match, has_prefix, new_trie_from_prefixes, set_contains.
  rewrite probe_bin_spec. induction ps as [|p ps IH]; [reflexivity|].
  cbn [forallb] in Hps. apply andb_true_iff in Hps as [Hp Hps].
  cbn [map existsb]. rewrite IH by assumption. f_equal.
  rewrite prefix2bin128_spec. now apply is_prefix_contains.
Qed.

(* the loop as it was before commit 1e92e18 (test after the write): an IPv6 /0 prefix came out as all 128 bits *)
Fixpoint p2b_loop_before_fix (bs : list bool) (n : Z) : list bool :=
  match bs with
  | [] => []
  | b :: rest => b :: (if (n - 1 =? 0)%Z then [] else p2b_loop_before_fix rest (n - 1))
  end.
Lemma before_fix_len0 : forall bs, p2b_loop_before_fix bs 0 = bs.
Proof.
  assert (H : forall bs n, (n <= 0)%Z -> p2b_loop_before_fix bs n = bs).
  { induction bs as [|b rest IH]; intros n Hn; [reflexivity|].
    cbn [p2b_loop_before_fix]. destruct (n - 1 =? 0)%Z eqn:E; [lia|]. now rewrite IH by lia. }
  intros bs. apply H. lia.
Qed.

(* ------------------------------------------------------------------ LPM keys *)

Ltac Zify.zify_post_hook ::= Z.to_euclidean_division_equations.

Lemma land_255_mod : forall x, N.land x 255 = x mod 256.
Proof. intros x. change 255 with (N.ones 8). now rewrite N.land_ones. Qed.

Lemma word_bytes_roundtrip : forall big b0 b1 b2 b3,
  b0 < 256 -> b1 < 256 -> b2 < 256 -> b3 < 256 ->
  bytes_of_word big (word_of_bytes big b0 b1 b2 b3) = [b0; b1; b2; b3].
Proof.
  intros big b0 b1 b2 b3 H0 H1 H2 H3. unfold bytes_of_word, word_of_bytes.
  rewrite !land_255_mod, !N.shiftr_div_pow2, !N.shiftl_mul_pow2.
  change (2 ^ (8 * 0)) with 1. change (2 ^ (8 * 1)) with 256. change (2 ^ (8 * 2)) with 65536.
  change (2 ^ (8 * 3)) with 16777216. change (2 ^ 8) with 256. change (2 ^ 16) with 65536.
  change (2 ^ 24) with 16777216.
  destruct big; repeat f_equal; lia.
Qed.

Lemma bytes_be_lt : forall k a, Forall (fun b => b < 256) (bytes_be k a).
Proof.
  induction k; intros a; cbn [bytes_be]; constructor; [|apply IHk].
  rewrite land_255_mod. apply N.mod_lt. lia.
Qed.

Lemma key_bytes_words : forall big bs n, Forall (fun b => b < 256) bs -> length bs = 16%nat ->
  key_bytes big {| lk_prefixlen := n; lk_data := words_of_bytes big bs |} = bs.
Proof.
  intros big bs n HF HL. unfold key_bytes. cbn [lk_data].
  do 16 (destruct bs as [|? bs]; [discriminate|]). destruct bs; [|discriminate].
  repeat match goal with H : Forall _ (_ :: _) |- _ => inversion H; clear H; subst end.
  cbn [words_of_bytes flat_map]. rewrite !word_bytes_roundtrip by assumption. reflexivity.
Qed.

Lemma bytes_be_length : forall k a, length (bytes_be k a) = k.
Proof. induction k; intros; cbn [bytes_be length]; auto. Qed.

Lemma node_of_prefix : forall big p,
  lpm_node_of_key big (cidr_to_lpm_key big p) = {| ln_prefixlen := len128 p; ln_data := bytes_be 16 (addr128 p) |}.
Proof.
  intros big p. unfold lpm_node_of_key, cidr_to_lpm_key. cbn [lk_prefixlen]. f_equal.
  - unfold len128. destruct (p_is4 p); lia.
  - unfold as16. apply key_bytes_words; [apply bytes_be_lt | apply bytes_be_length].
Qed.

Lemma node_of_probe : forall big a,
  lpm_node_of_key big (probe_key big a) = {| ln_prefixlen := 128; ln_data := bytes_be 16 a |}.
Proof.
  intros big a. unfold lpm_node_of_key, probe_key. cbn [lk_prefixlen]. f_equal.
  apply key_bytes_words; [apply bytes_be_lt | apply bytes_be_length].
Qed.

(* longest common prefix of two bit strings *)
Fixpoint lcp (l1 l2 : list bool) : nat :=
  match l1, l2 with
  | a :: l1', b :: l2' => if Bool.eqb a b then S (lcp l1' l2') else O
  | _, _ => O
  end.

Lemma lcp_app_same : forall b r1 r2, lcp (b ++ r1) (b ++ r2) = (length b + lcp r1 r2)%nat.
Proof. induction b; intros; cbn; [reflexivity|]. rewrite eqb_reflx. now rewrite IHb. Qed.

Lemma lcp_refl : forall b, lcp b b = length b.
Proof. induction b; cbn; [reflexivity|]. rewrite eqb_reflx. now rewrite IHb. Qed.

Lemma lcp_app_diff : forall b1 b2 r1 r2, length b1 = length b2 -> b1 <> b2 ->
  lcp (b1 ++ r1) (b2 ++ r2) = lcp b1 b2.
Proof.
  induction b1 as [|x b1 IH]; intros [|y b2] r1 r2 HL HN; try discriminate.
  - congruence.
  - cbn. destruct (Bool.eqb x y) eqn:E; [|reflexivity].
    apply eqb_prop in E. subst y. f_equal. apply IH; [now injection HL | congruence].
Qed.

Lemma lcp_firstn : forall n l1 l2, (n <= length l1)%nat -> (n <= length l2)%nat ->
  ((n <= lcp l1 l2)%nat <-> firstn n l1 = firstn n l2).
Proof.
  induction n; intros l1 l2 H1 H2.
  - cbn. split; [reflexivity | lia].
  - destruct l1 as [|a l1]; [cbn in H1; lia|]. destruct l2 as [|b l2]; [cbn in H2; lia|].
    cbn [lcp firstn length] in *. destruct (Bool.eqb a b) eqn:E.
    + apply eqb_prop in E. subst b. rewrite <- Nat.succ_le_mono, (IHn l1 l2) by lia.
      split; [intros ->; reflexivity | intros H; now injection H].
    + split; [lia|]. intros H. injection H as -> _. now rewrite eqb_reflx in E.
Qed.

Definition range256 : list N := map N.of_nat (seq 0 256).
Lemma in_range256 : forall x, x < 256 -> In x range256.
Proof.
  intros x H. unfold range256. replace x with (N.of_nat (N.to_nat x)) by lia.
  apply in_map, in_seq. lia.
Qed.

Lemma byte_fls_table :
  forallb (fun x => forallb (fun y =>
     8 - N.size (N.lxor x y) =? N.of_nat (lcp (bits_be 8 x) (bits_be 8 y))) range256) range256 = true.
Proof. vm_compute. reflexivity. Qed.

Lemma byte_fls : forall x y, x < 256 -> y < 256 ->
  8 - N.size (N.lxor x y) = N.of_nat (lcp (bits_be 8 x) (bits_be 8 y)).
Proof.
  intros x y Hx Hy. pose proof byte_fls_table as T.
  rewrite forallb_forall in T. specialize (T x (in_range256 x Hx)).
  rewrite forallb_forall in T. specialize (T y (in_range256 y Hy)). now apply N.eqb_eq in T.
Qed.

Lemma bits_be_8_inj : forall x y, x < 256 -> y < 256 -> bits_be 8 x = bits_be 8 y -> x = y.
Proof. intros x y Hx Hy. apply bits_be_inj; assumption. Qed.

Lemma lpm_common_spec : forall xs ys limit acc,
  Forall (fun b => b < 256) xs -> Forall (fun b => b < 256) ys -> length xs = length ys -> acc <= limit ->
  lpm_common xs ys limit acc
  = N.min limit (acc + N.of_nat (lcp (flat_map (bits_be 8) xs) (flat_map (bits_be 8) ys))).
Proof.
  induction xs as [|x xs IH]; intros ys limit acc HX HY HL Hacc.
  - destruct ys; [|discriminate]. cbn. lia.
  - destruct ys as [|y ys]; [discriminate|].
    inversion HX as [|? ? Hx HX']; subst. inversion HY as [|? ? Hy HY']; subst.
    cbn [lpm_common flat_map]. rewrite byte_fls by assumption.
    destruct (N.eq_dec x y) as [->|Hne].
    + rewrite N.lxor_nilpotent. cbn [N.eqb negb]. rewrite lcp_app_same, bits_be_length.
      rewrite lcp_refl, bits_be_length.
      destruct (limit <=? acc + N.of_nat 8) eqn:E.
      * lia.
      * rewrite IH; [lia | assumption | assumption | now injection HL | lia].
    + assert (HB : bits_be 8 x <> bits_be 8 y) by (intros E; apply Hne; now apply bits_be_8_inj).
      rewrite lcp_app_diff by (rewrite ?bits_be_length; auto).
      assert (HD : (N.lxor x y =? 0) = false).
      { apply N.eqb_neq. intros E. apply N.lxor_eq in E. contradiction. }
      rewrite HD. cbn [negb].
      rewrite <- (app_nil_r (bits_be 8 x)) at 1. rewrite <- (app_nil_r (bits_be 8 y)) at 1.
      rewrite lcp_app_diff by (rewrite ?bits_be_length; auto).
      destruct (limit <=? acc + N.of_nat (lcp (bits_be 8 x) (bits_be 8 y))) eqn:E; lia.
Qed.

Lemma flat_bits_bytes_be : forall a, flat_map (bits_be 8) (bytes_be 16 a) = bits128 a.
Proof.
  intros a. unfold bits128. change 128%nat with (8 * 16)%nat.
  rewrite <- (flat_bytes_be 16 a). apply flat_map_ext. intros b. symmetry. apply byte_bits_spec.
Qed.

Lemma lpm_node_matches : forall big p a, wf_prefix p = true -> wf_addr a = true ->
  (lpm_matchlen (lpm_node_of_key big (cidr_to_lpm_key big p)) (lpm_node_of_key big (probe_key big a))
   =? ln_prefixlen (lpm_node_of_key big (cidr_to_lpm_key big p))) = contains p a.
Proof.
  intros big p a Hp Ha. rewrite node_of_prefix, node_of_probe.
  apply wf_prefix_bounds in Hp as [HA HL]. apply N.ltb_lt in Ha.
  unfold lpm_matchlen. cbn [ln_prefixlen ln_data].
  rewrite lpm_common_spec; [| apply bytes_be_lt | apply bytes_be_lt | now rewrite !bytes_be_length | lia].
  rewrite !flat_bits_bytes_be. replace (N.min (len128 p) 128) with (len128 p) by lia.
  apply eq_true_iff_eq. unfold contains. rewrite !N.eqb_eq.
  rewrite <- (firstn_bits128_eq_iff (len128 p)) by assumption.
  rewrite <- lcp_firstn by (unfold bits128; rewrite bits_be_length; lia). lia.
Qed.

Lemma lpm_lookup_some : forall nodes key best,
  is_some (fold_left (fun best node =>
               if lpm_matchlen node key =? ln_prefixlen node then
                 match best with
                 | Some l => if l <? ln_prefixlen node then Some (ln_prefixlen node) else best
                 | None => Some (ln_prefixlen node)
                 end
               else best) nodes best)
  = is_some best || existsb (fun node => lpm_matchlen node key =? ln_prefixlen node) nodes.
Proof.
  induction nodes as [|n nodes IH]; intros key best.
  - cbn. now rewrite orb_false_r.
  - cbn [fold_left existsb]. rewrite IH.
    destruct (lpm_matchlen n key =? ln_prefixlen n).
    + destruct best as [l|]; [destruct (l <? ln_prefixlen n)|]; reflexivity.
    + reflexivity.
Qed.

Lemma lpm_key_contains_proof : forall big ps a,
  forallb wf_prefix ps = true -> wf_addr a = true ->
  kernel_match big ps a = set_contains ps a.
Proof.
  intros big ps a Hps Ha. unfold kernel_match, kernel_lookup, lpm_lookup. rewrite lpm_lookup_some.
  cbn [is_some orb]. unfold lpm_map_of, set_contains.
  induction ps as [|p ps IH]; [reflexivity|].
  cbn [forallb] in Hps. apply andb_true_iff in Hps as [Hp Hps].
  cbn [map existsb]. rewrite IH by assumption. f_equal. now apply lpm_node_matches.
Qed.

(* the lookup returns the length of the longest containing member *)
Lemma lpm_lookup_longest : forall nodes key best r,
  fold_left (fun best node =>
               if lpm_matchlen node key =? ln_prefixlen node then
                 match best with
                 | Some l => if l <? ln_prefixlen node then Some (ln_prefixlen node) else best
                 | None => Some (ln_prefixlen node)
                 end
               else best) nodes best = Some r ->
  (forall n, In n nodes -> (lpm_matchlen n key =? ln_prefixlen n) = true -> ln_prefixlen n <= r)
  /\ (forall l, best = Some l -> l <= r).
Proof.
  induction nodes as [|n nodes IH]; intros key best r H.
  - cbn in H. subst best. split; [intros ? []|]. intros l E. injection E as ->. lia.
  - cbn [fold_left] in H. apply IH in H as [H1 H2]. split.
    + intros m [->|Hin] Hm; [|now apply H1].
      rewrite Hm in H2. destruct best as [l|].
      * destruct (l <? ln_prefixlen m) eqn:E; [now apply H2|].
        specialize (H2 l eq_refl). lia.
      * now apply H2.
    + intros l ->. destruct (lpm_matchlen n key =? ln_prefixlen n); [|now apply H2].
      destruct (l <? ln_prefixlen n) eqn:E; [|now apply H2].
      specialize (H2 _ eq_refl). lia.
Qed.

Lemma kernel_lookup_longest_proof : forall big ps a r,
  forallb wf_prefix ps = true -> wf_addr a = true ->
  kernel_lookup big ps a = Some r ->
  forall p, In p ps -> contains p a = true -> len128 p <= r.
Proof.
  intros big ps a r Hps Ha H p Hin Hc. unfold kernel_lookup, lpm_lookup in H.
  apply lpm_lookup_longest in H as [H _].
  specialize (H (lpm_node_of_key big (cidr_to_lpm_key big p))).
  rewrite forallb_forall in Hps.
  rewrite lpm_node_matches in H by auto. rewrite node_of_prefix in H. cbn [ln_prefixlen] in H.
  apply H; [|assumption]. unfold lpm_map_of. rewrite <- node_of_prefix with (big := big).
  apply (in_map (fun p => lpm_node_of_key big (cidr_to_lpm_key big p))). assumption.
Qed.

(* ------------------------------------------------------------------ canonicalisation, sharing *)

Lemma prefix_eqb_eq : forall p q, prefix_eqb p q = true -> p = q.
Proof.
  intros [a b c] [a' b' c'] H. unfold prefix_eqb in H. cbn in H.
  apply andb_true_iff in H as [H H3]. apply andb_true_iff in H as [H1 H2].
  apply eqb_prop in H1. apply N.eqb_eq in H2. apply N.eqb_eq in H3. now subst.
Qed.

Lemma prefix_eqb_refl : forall p, prefix_eqb p p = true.
Proof. intros p. unfold prefix_eqb. now rewrite eqb_reflx, !N.eqb_refl. Qed.

Lemma prefixes_equal_eq : forall a b, prefixes_equal a b = true -> a = b.
Proof.
  induction a as [|x a IH]; intros [|y b] H; try discriminate; [reflexivity|].
  cbn in H. apply andb_true_iff in H as [H1 H2]. apply prefix_eqb_eq in H1. subst. f_equal. now apply IH.
Qed.

Lemma insert_sorted_in : forall p l x, In x (insert_sorted p l) <-> x = p \/ In x l.
Proof.
  induction l as [|q l IH]; intros x; cbn [insert_sorted].
  - cbn. intuition.
  - destruct (prefix_less q p); cbn [In]; [rewrite IH|]; intuition.
Qed.

Lemma sort_prefixes_in : forall l x, In x (sort_prefixes l) <-> In x l.
Proof.
  induction l as [|p l IH]; intros x; [reflexivity|].
  unfold sort_prefixes in *. cbn [fold_right]. rewrite insert_sorted_in, IH. cbn. intuition.
Qed.

Lemma dedup_adjacent_in : forall l x, In x (dedup_adjacent l) <-> In x l.
Proof.
  induction l as [|p l IH]; intros x; [reflexivity|].
  cbn [dedup_adjacent]. destruct l as [|q l']; [reflexivity|].
  destruct (prefix_eqb p q) eqn:E.
  - apply prefix_eqb_eq in E. subst q. rewrite IH. cbn. intuition.
  - cbn [In]. rewrite IH. reflexivity.
Qed.

Lemma canonicalize_in : forall l x, In x (canonicalize l) <-> In x l.
Proof. intros. unfold canonicalize. now rewrite dedup_adjacent_in, sort_prefixes_in. Qed.

Lemma set_contains_members : forall s t a, (forall p, In p s <-> In p t) ->
  set_contains s a = set_contains t a.
Proof.
  intros s t a H. apply eq_true_iff_eq. unfold set_contains. rewrite !existsb_exists.
  split; intros [p [Hin Hc]]; exists p; (split; [now apply H | assumption]).
Qed.

Lemma canonicalize_denotes_proof : forall l a, set_contains (canonicalize l) a = set_contains l a.
Proof. intros. apply set_contains_members. intros p. apply canonicalize_in. Qed.

Section Share.
  Variable hash : list prefix -> N.

  (* the stored set a rule points to has exactly the members the rule was given *)
  Definition builder_inv (b : builder) : Prop :=
    (forall h i ps, dedup_get (b_dedup b) h = Some (i, ps) -> nth_error (b_tries b) (N.to_nat i) = Some ps)
    /\ (forall r, In r (b_rules b) ->
          exists s, nth_error (b_tries b) (N.to_nat (r_index r)) = Some s /\ (forall p, In p s <-> In p (r_values r))).

  Lemma nth_error_snoc_old : forall A (l : list A) x i v, nth_error l i = Some v -> nth_error (l ++ [x]) i = Some v.
  Proof.
    intros A l x i v H. rewrite nth_error_app1; [assumption|]. apply nth_error_Some. congruence.
  Qed.

  Lemma nth_error_snoc_new : forall A (l : list A) x, nth_error (l ++ [x]) (N.to_nat (N.of_nat (length l))) = Some x.
  Proof. intros. rewrite Nat2N.id, nth_error_app2, Nat.sub_diag by lia. reflexivity. Qed.

  Lemma dedup_get_cons : forall d h e h',
    dedup_get ((h, e) :: d) h' = if h =? h' then Some e else dedup_get d h'.
  Proof. intros. unfold dedup_get. cbn [find fst snd]. destruct (h =? h'); reflexivity. Qed.

  Lemma inv_new : builder_inv new_builder.
  Proof. split; [intros h i ps H; discriminate | intros r []]. Qed.

  Lemma inv_fresh : forall b role not values raw,
    builder_inv b -> (forall p, In p values <-> In p raw) ->
    forall d', (forall h i ps, dedup_get d' h = Some (i, ps) ->
                  dedup_get (b_dedup b) h = Some (i, ps) \/ (i = N.of_nat (length (b_tries b)) /\ ps = values)) ->
    builder_inv {| b_tries := b_tries b ++ [values]; b_dedup := d';
                   b_rules := b_rules b ++ [{| r_role := role; r_not := not;
                                               r_index := N.of_nat (length (b_tries b)); r_values := raw |}] |}.
  Proof.
    intros b role not values raw [I1 I2] Hv d' Hd. split; cbn [b_tries b_dedup b_rules].
    - intros h i ps H. apply Hd in H as [H|[-> ->]].
      + apply nth_error_snoc_old. now apply I1 in H.
      + apply nth_error_snoc_new.
    - intros r Hr. apply in_app_or in Hr as [Hr|[<-|[]]].
      + destruct (I2 r Hr) as [s [Hs Hm]]. exists s. split; [now apply nth_error_snoc_old | assumption].
      + exists values. cbn [r_index r_values]. split; [apply nth_error_snoc_new | assumption].
  Qed.

  Lemma inv_step : forall b o, builder_inv b -> builder_inv (step hash b o).
  Proof.
    intros b [src not raw | not macs] I; cbn [step].
    - unfold add_ip. cbv zeta.
      set (values := canonicalize raw). set (h := hash values).
      assert (Hv : forall p, In p values <-> In p raw) by (intros p; apply canonicalize_in).
      destruct (dedup_get (b_dedup b) h) as [[i ps]|] eqn:G.
      + destruct (prefixes_equal ps values) eqn:E.
        * apply prefixes_equal_eq in E. subst ps. destruct I as [I1 I2]. split; cbn [b_tries b_dedup b_rules].
          -- assumption.
          -- intros r Hr. apply in_app_or in Hr as [Hr|[<-|[]]]; [now apply I2|].
             exists values. cbn [r_index r_values]. split; [now apply I1 in G | assumption].
        * apply inv_fresh; [assumption | assumption |].
          intros h' i' ps' H. rewrite dedup_get_cons in H. destruct (h =? h'); [|now left].
          injection H as <- <-. right. split; reflexivity.
      + apply inv_fresh; [assumption | assumption |].
        intros h' i' ps' H. rewrite dedup_get_cons in H. destruct (h =? h'); [|now left].
        injection H as <- <-. right. split; reflexivity.
    - unfold add_source_mac. cbv zeta.
      apply inv_fresh; [assumption | reflexivity | intros h i ps H; now left].
  Qed.

  Lemma inv_run : forall ops, builder_inv (run hash ops).
  Proof.
    intros ops. unfold run. generalize inv_new. generalize new_builder.
    induction ops as [|o ops IH]; intros b I; [assumption|]. cbn [fold_left]. apply IH. now apply inv_step.
  Qed.

  Lemma share_only_identical_proof : forall ops r1 r2,
    In r1 (b_rules (run hash ops)) -> In r2 (b_rules (run hash ops)) ->
    r_index r1 = r_index r2 -> identical (r_values r1) (r_values r2).
  Proof.
    intros ops r1 r2 H1 H2 E. destruct (inv_run ops) as [_ I].
    destruct (I r1 H1) as [s1 [N1 M1]]. destruct (I r2 H2) as [s2 [N2 M2]].
    rewrite E in N1. rewrite N1 in N2. injection N2 as <-.
    intros p. rewrite <- M1, <- M2. reflexivity.
  Qed.

  Lemma stored_set_denotes_proof : forall ops r a,
    In r (b_rules (run hash ops)) ->
    exists s, nth_error (b_tries (run hash ops)) (N.to_nat (r_index r)) = Some s
              /\ set_contains s a = set_contains (r_values r) a.
  Proof.
    intros ops r a H. destruct (inv_run ops) as [_ I]. destruct (I r H) as [s [Hs Hm]].
    exists s. split; [assumption | now apply set_contains_members].
  Qed.
End Share.

(* ------------------------------------------------------------------ MAC sets *)

Lemma top_128 : forall a, top 128 a = a.
Proof. intros a. unfold top. change (128 - 128) with 0. apply N.shiftr_0_r. Qed.

Lemma mac_contains : forall m1 m2, contains (mac_prefix m1) m2 = (m2 =? m1).
Proof.
  intros. unfold contains. cbn [mac_prefix len128 addr128 p_is4 p_addr p_bits].
  rewrite !top_128. apply N.eqb_sym.
Qed.

Lemma mac_set_spec : forall ms m, set_contains (map mac_prefix ms) m = mac_set_contains ms m.
Proof.
  intros ms m. unfold set_contains, mac_set_contains.
  induction ms as [|x ms IH]; [reflexivity|]. cbn [map existsb]. now rewrite IH, mac_contains.
Qed.

Lemma mac_wf : forall ms, forallb wf_mac ms = true -> forallb wf_prefix (map mac_prefix ms) = true.
Proof.
  intros ms H. rewrite forallb_forall in *. intros p Hp. apply in_map_iff in Hp as [m [<- Hm]].
  apply H in Hm. unfold wf_mac in Hm. apply N.ltb_lt in Hm. unfold wf_prefix. cbn.
  apply andb_true_iff. split; [|reflexivity]. apply N.ltb_lt.
  change (2 ^ 48) with 281474976710656 in Hm. change (2 ^ 128) with 340282366920938463463374607431768211456. lia.
Qed.

Lemma mac_as_prefix_proof : forall big ms m,
  forallb wf_mac ms = true -> wf_mac m = true ->
  trie_match (map mac_prefix ms) m = mac_set_contains ms m
  /\ kernel_match big (map mac_prefix ms) m = mac_set_contains ms m.
Proof.
  intros big ms m Hms Hm.
  assert (Ha : wf_addr m = true).
  { unfold wf_mac in Hm. unfold wf_addr. apply N.ltb_lt in Hm. apply N.ltb_lt.
    change (2 ^ 48) with 281474976710656 in Hm. change (2 ^ 128) with 340282366920938463463374607431768211456. lia. }
  split.
  - rewrite trie_contains_proof; [apply mac_set_spec | now apply mac_wf | assumption].
  - rewrite lpm_key_contains_proof; [apply mac_set_spec | now apply mac_wf | assumption].
Qed.

(* ------------------------------------------------------------------ rules over the stored sets *)


Definition op_all (P : prefix -> bool) (o : op) : bool :=
  match o with
  | OpIp _ _ vs => forallb P vs
  | OpMac _ ms => forallb (fun m => P (mac_prefix m)) ms && P (mac_prefix 0)
  end.

Section Rules.
  Variable hash : list prefix -> N.
  Variable P : prefix -> bool.

  Definition all_P (b : builder) : Prop := forall s, In s (b_tries b) -> forall p, In p s -> P p = true.

  Lemma all_P_step : forall b o, op_all P o = true -> all_P b -> all_P (step hash b o).
  Proof.
    intros b [src not raw | not macs] Ho I; cbn [step op_all] in *.
    - assert (Hc : forall p, In p (canonicalize raw) -> P p = true).
      { intros p Hp. rewrite canonicalize_in in Hp. rewrite forallb_forall in Ho. now apply Ho. }
      assert (Hfresh : all_P {| b_tries := b_tries b ++ [canonicalize raw]; b_dedup := b_dedup b; b_rules := [] |}).
      { intros s Hs p Hp. cbn [b_tries] in Hs.
        apply in_app_or in Hs as [Hs|[<-|[]]]; [now apply (I s Hs p Hp) | now apply Hc]. }
      unfold add_ip. cbv zeta.
      destruct (dedup_get (b_dedup b) (hash (canonicalize raw))) as [[i ps]|];
        [destruct (prefixes_equal ps (canonicalize raw))|]; intros s Hs p Hp; cbn [b_tries] in Hs.
      + now apply (I s Hs p Hp).
      + now apply (Hfresh s Hs p Hp).
      + now apply (Hfresh s Hs p Hp).
    - apply andb_true_iff in Ho as [Hm H0]. rewrite forallb_forall in Hm.
      unfold add_source_mac. cbv zeta. intros s Hs p Hp. cbn [b_tries] in Hs.
      apply in_app_or in Hs as [Hs|[<-|[]]]; [now apply (I s Hs p Hp)|].
      apply in_map_iff in Hp as [m [<- Hin]]. destruct not; [|now apply Hm].
      apply in_app_or in Hin as [Hin|[<-|[]]]; [now apply Hm | assumption].
  Qed.

  Lemma all_P_run : forall ops, forallb (op_all P) ops = true -> all_P (run hash ops).
  Proof.
    intros ops. unfold run.
    assert (I0 : all_P new_builder) by (intros s []).
    revert I0. generalize new_builder.
    induction ops as [|o ops IH]; intros b I H; [assumption|].
    cbn [forallb] in H. apply andb_true_iff in H as [Ho H]. cbn [fold_left].
    apply IH; [now apply all_P_step | assumption].
  Qed.
End Rules.

Lemma wf_op_all : forall o, wf_op o = true -> op_all wf_prefix o = true.
Proof.
  intros [src not vs | not ms] H; cbn [wf_op op_all] in *; [assumption|].
  apply andb_true_iff. split; [|reflexivity].
  pose proof (mac_wf ms H) as W. rewrite forallb_forall in *. intros m Hm. apply W. now apply in_map.
Qed.

Lemma forallb_impl : forall A (f g : A -> bool) l, (forall x, f x = true -> g x = true) ->
  forallb f l = true -> forallb g l = true.
Proof. intros A f g l H. rewrite !forallb_forall. auto. Qed.

Lemma target_wf : forall r k, wf_packet k = true -> wf_addr (target r k) = true.
Proof.
  intros r k H. unfold wf_packet in H. apply andb_true_iff in H as [H H3]. apply andb_true_iff in H as [H1 H2].
  destruct r; assumption.
Qed.

Lemma packet_bin_spec : forall k r, packet_bin k r = probe_bin (target r k).
Proof. intros k []; reflexivity. Qed.

Lemma match_loop_kernel_spec : forall big tries rs k key i,
  wf_packet k = true ->
  (forall r, key r = lpm_node_of_key big (probe_key big (target r k))) ->
  (forall r, In r rs -> exists s, nth_error tries (N.to_nat (r_index r)) = Some s
                                  /\ (forall p, In p s <-> In p (r_values r)) /\ forallb wf_prefix s = true) ->
  match_loop_kernel (map (lpm_map_of big) tries) rs key i = Some (first_hit (map spec_rule_of rs) k i).
Proof.
  intros big tries rs k key. induction rs as [|r rs IH]; intros i Hk Hkey H; [reflexivity|].
  cbn [match_loop_kernel map first_hit]. destruct (H r (or_introl eq_refl)) as [s [Hs [Hm Hw]]].
  rewrite nth_error_map, Hs. cbn [option_map]. rewrite Hkey.
  change (is_some (lpm_lookup (lpm_map_of big s) (lpm_node_of_key big (probe_key big (target (r_role r) k)))))
    with (kernel_match big s (target (r_role r) k)).
  rewrite lpm_key_contains_proof by (auto using target_wf).
  rewrite (set_contains_members s (r_values r)) by assumption.
  unfold rule_hits. cbn [spec_rule_of sr_set sr_role sr_not].
  rewrite IH by (auto; intros; apply H; now right).
  destruct (set_contains (r_values r) (target (r_role r) k)), (r_not r); reflexivity.
Qed.

Lemma match_loop_spec : forall tries rs k bin i,
  wf_packet k = true ->
  (forall r, bin r = probe_bin (target r k)) ->
  (forall r, In r rs -> exists s, nth_error tries (N.to_nat (r_index r)) = Some s
                                  /\ (forall p, In p s <-> In p (r_values r)) /\ forallb wf_prefix s = true) ->
  match_loop (build_userspace tries) rs bin i = Some (first_hit (map spec_rule_of rs) k i).
Proof.
  intros tries rs k bin. induction rs as [|r rs IH]; intros i Hk Hbin H; [reflexivity|].
  cbn [match_loop map first_hit]. destruct (H r (or_introl eq_refl)) as [s [Hs [Hm Hw]]].
  unfold build_userspace at 1. rewrite nth_error_map, Hs. cbn [option_map]. rewrite Hbin.
  change (has_prefix (new_trie_from_prefixes s) (probe_bin (target (r_role r) k)))
    with (trie_match s (target (r_role r) k)).
  rewrite trie_contains_proof by (auto using target_wf).
  rewrite (set_contains_members s (r_values r)) by assumption.
  unfold rule_hits. cbn [spec_rule_of sr_set sr_role sr_not].
  rewrite IH by (auto; intros; apply H; now right).
  destruct (set_contains (r_values r) (target (r_role r) k)), (r_not r); reflexivity.
Qed.

Lemma match_rules_kernel_spec : forall big tries rs k,
  wf_packet k = true ->
  (forall r, In r rs -> exists s, nth_error tries (N.to_nat (r_index r)) = Some s
                                  /\ (forall p, In p s <-> In p (r_values r)) /\ forallb wf_prefix s = true) ->
  match_rules_kernel big tries rs k = Some (first_hit (map spec_rule_of rs) k 0).
Proof.
  intros big tries rs k Hk H. unfold match_rules_kernel. cbv zeta.
  apply match_loop_kernel_spec; [assumption | intros []; reflexivity | assumption].
Qed.

Lemma match_rules_spec : forall tries rs k,
  wf_packet k = true ->
  (forall r, In r rs -> exists s, nth_error tries (N.to_nat (r_index r)) = Some s
                                  /\ (forall p, In p s <-> In p (r_values r)) /\ forallb wf_prefix s = true) ->
  match_rules tries rs k = Some (first_hit (map spec_rule_of rs) k 0).
Proof.
  intros tries rs k Hk H. unfold match_rules. cbv zeta.
  apply match_loop_spec; [assumption | intros []; reflexivity | assumption].
Qed.

Lemma rules_kernel_proof : forall hash big ops k,
  forallb wf_op ops = true -> wf_packet k = true ->
  let b := run hash ops in
  match_rules_kernel big (b_tries b) (b_rules b) k = Some (first_hit (map spec_rule_of (b_rules b)) k 0).
Proof.
  intros hash big ops k Hops Hk b. apply match_rules_kernel_spec; [assumption|].
  intros r Hr. destruct (inv_run hash ops) as [_ I]. destruct (I r Hr) as [s [Hs Hm]].
  exists s. repeat split; try assumption; try (now apply Hm).
  apply forallb_forall. intros p Hp.
  apply (all_P_run hash wf_prefix ops (forallb_impl _ _ _ _ wf_op_all Hops) s); [|assumption].
  eapply nth_error_In; eassumption.
Qed.

Lemma rules_userspace_proof : forall hash ops k,
  forallb wf_op ops = true -> wf_packet k = true ->
  let b := run hash ops in
  match_rules (b_tries b) (b_rules b) k = Some (first_hit (map spec_rule_of (b_rules b)) k 0).
Proof.
  intros hash ops k Hops Hk b. apply match_rules_spec; [assumption|].
  intros r Hr. destruct (inv_run hash ops) as [_ I]. destruct (I r Hr) as [s [Hs Hm]].
  exists s. repeat split; try assumption; try (now apply Hm).
  apply forallb_forall. intros p Hp.
  apply (all_P_run hash wf_prefix ops (forallb_impl _ _ _ _ wf_op_all Hops) s); [|assumption].
  eapply nth_error_In; eassumption.
Qed.

(* ------------------------------------------------------------------ DNS response routing *)

Lemma response_loop_spec : forall rs ips i,
  forallb wf_resp_rule rs = true -> forallb wf_addr ips = true ->
  response_loop (map (fun r => new_trie_from_prefixes (rr_values r)) rs) rs (map probe_bin ips) i
  = response_first_hit (resp_spec_rules rs) ips i.
Proof.
  induction rs as [|r rs IH]; intros ips i Hw Hi; [reflexivity|].
  cbn [forallb] in Hw. apply andb_true_iff in Hw as [Hw Hws].
  cbn [map response_loop resp_spec_rules response_first_hit].
  assert (E : existsb (has_prefix (new_trie_from_prefixes (rr_values r))) (map probe_bin ips)
              = existsb (set_contains (rr_values r)) ips).
  { clear IH. induction ips as [|a ips IHa]; [reflexivity|].
    cbn [forallb] in Hi. apply andb_true_iff in Hi as [Ha Hi].
    cbn [map existsb]. rewrite IHa by assumption. f_equal.
    change (has_prefix (new_trie_from_prefixes (rr_values r)) (probe_bin a)) with (trie_match (rr_values r) a).
    now apply trie_contains_proof. }
  rewrite E. fold (resp_spec_rules rs). rewrite IH by assumption.
  destruct (existsb (set_contains (rr_values r)) ips), (rr_not r); reflexivity.
Qed.

Lemma response_proof : forall rs ips,
  forallb wf_resp_rule rs = true -> forallb wf_addr ips = true ->
  response_match rs ips = response_first_hit (resp_spec_rules rs) ips 0.
Proof. intros. now apply response_loop_spec. Qed.

(* ------------------------------------------------------------------ the stored form of a rule's set *)

Definition stored_inv (b : builder) : Prop :=
  forall r, In r (b_rules b) -> nth_error (b_tries b) (N.to_nat (r_index r)) = Some (stored_form r).

Lemma stored_inv_step : forall hash b o, builder_inv b -> stored_inv b -> stored_inv (step hash b o).
Proof.
  intros hash b [src not raw | not macs] [I1 _] S; cbn [step].
  - unfold add_ip. cbv zeta.
    set (values := canonicalize raw). set (h := hash values).
    assert (Hnew : forall i, stored_form {| r_role := if src then RSrc else RDst; r_not := not; r_index := i; r_values := raw |} = values).
    { intros i. unfold stored_form. cbn [r_role r_values]. destruct src; reflexivity. }
    destruct (dedup_get (b_dedup b) h) as [[i ps]|] eqn:G; [destruct (prefixes_equal ps values) eqn:E|];
      intros r Hr; cbn [b_rules b_tries] in *; apply in_app_or in Hr as [Hr|[<-|[]]].
    + now apply S.
    + apply prefixes_equal_eq in E. subst ps. rewrite Hnew. cbn [r_index]. now apply I1 in G.
    + apply nth_error_snoc_old. now apply S.
    + rewrite Hnew. cbn [r_index]. apply nth_error_snoc_new.
    + apply nth_error_snoc_old. now apply S.
    + rewrite Hnew. cbn [r_index]. apply nth_error_snoc_new.
  - unfold add_source_mac. cbv zeta. intros r Hr. cbn [b_rules b_tries] in *.
    apply in_app_or in Hr as [Hr|[<-|[]]].
    + apply nth_error_snoc_old. now apply S.
    + unfold stored_form. cbn [r_role r_values r_index]. apply nth_error_snoc_new.
Qed.

Lemma stored_inv_run : forall hash ops, stored_inv (run hash ops).
Proof.
  intros hash ops. unfold run.
  assert (H : forall b, builder_inv b -> stored_inv b ->
                        builder_inv (fold_left (step hash) ops b) /\ stored_inv (fold_left (step hash) ops b)).
  { induction ops as [|o ops IH]; intros b I S; [now split|]. cbn [fold_left].
    apply IH; [now apply inv_step | now apply stored_inv_step]. }
  apply H; [apply inv_new | intros r []].
Qed.

(* ------------------------------------------------------------------ snapshot / userspace / install orders *)

Definition order_inv (big : bool) (tries : list (list prefix)) (m : mem) : Prop :=
  m_array m = tries
  /\ (forall inst, In inst (m_installs m) -> inst = kernel_keys_of big tries)
  /\ (forall l, m_lpm m = Some l -> l = build_userspace tries).

Lemma order_inv_step : forall big tries m s m',
  order_inv big tries m -> bstep_run false big m s = Some m' -> order_inv big tries m'.
Proof.
  intros big tries m s m' [IA [II IL]] H. destruct s; cbn [bstep_run] in H.
  - injection H as <-. repeat split; assumption.
  - destruct (m_snap m) as [[|]|]; try discriminate. injection H as <-.
    repeat split; cbn [m_array m_installs m_lpm]; try assumption.
    intros inst Hin. apply in_app_or in Hin as [Hin|[<-|[]]]; [now apply II | now rewrite IA].
  - destruct (m_builder m); [|discriminate]. injection H as <-.
    repeat split; cbn [m_array m_installs m_lpm]; try assumption.
    intros l E. injection E as <-. now rewrite IA.
Qed.

Lemma order_inv_run : forall big tries order m m',
  order_inv big tries m -> order_run false big m order = Some m' -> order_inv big tries m'.
Proof.
  intros big tries order. induction order as [|s rest IH]; intros m m' I H; cbn [order_run] in H.
  - now injection H as <-.
  - destruct (bstep_run false big m s) as [m1|] eqn:E; [|discriminate].
    eapply IH; [eapply order_inv_step; eassumption | assumption].
Qed.

Lemma order_inv_init : forall big tries, order_inv big tries (mem_init tries).
Proof. intros. repeat split; cbn; [intros ? [] | discriminate]. Qed.

Lemma keys_match_of_set : forall big s a,
  keys_match big (map (cidr_to_lpm_key big) s) a = kernel_match big s a.
Proof. intros. unfold keys_match, kernel_match, kernel_lookup, lpm_map_of. now rewrite map_map. Qed.

Lemma same_set_any_order_proof : forall (hash : list prefix -> N) big ops order m,
  forallb wf_op ops = true ->
  order_run false big (mem_init (b_tries (run hash ops))) order = Some m ->
  (forall inst, In inst (m_installs m) -> inst = kernel_keys_of big (canonical_tries hash ops))
  /\ (forall inst l r keys t a,
        In inst (m_installs m) -> m_lpm m = Some l -> In r (b_rules (run hash ops)) -> wf_addr a = true ->
        nth_error inst (N.to_nat (r_index r)) = Some keys -> nth_error l (N.to_nat (r_index r)) = Some t ->
        keys = map (cidr_to_lpm_key big) (stored_form r)
        /\ keys_match big keys a = has_prefix t (probe_bin a)
        /\ has_prefix t (probe_bin a) = set_contains (r_values r) a).
Proof.
  intros hash big ops order m Hops H.
  pose proof (order_inv_run big _ order _ m (order_inv_init big _) H) as [_ [II IL]].
  split; [exact II|].
  intros inst l r keys t a Hin Hl Hr Ha Hk Ht.
  rewrite (II inst Hin) in Hk. rewrite (IL l Hl) in Ht.
  unfold kernel_keys_of in Hk. unfold build_userspace in Ht. rewrite nth_error_map in Hk, Ht.
  destruct (inv_run hash ops) as [_ I]. destruct (I r Hr) as [s [Hs Hm]].
  pose proof (stored_inv_run hash ops r Hr) as Hst. rewrite Hs in Hst. injection Hst as Hst.
  unfold canonical_tries in Hk. rewrite Hs in Hk, Ht. cbn [option_map] in Hk, Ht.
  injection Hk as <-. injection Ht as <-.
  split; [now rewrite Hst|].
  assert (Hw : forallb wf_prefix s = true).
  { apply forallb_forall. intros p Hp.
    apply (all_P_run hash wf_prefix ops (forallb_impl _ _ _ _ wf_op_all Hops) s); [|assumption].
    eapply nth_error_In; eassumption. }
  rewrite keys_match_of_set.
  change (has_prefix (new_trie_from_prefixes s) (probe_bin a)) with (trie_match s a).
  rewrite lpm_key_contains_proof, trie_contains_proof by assumption.
  split; [reflexivity | now apply set_contains_members].
Qed.

Lemma same_set_aliased_clear_refuted_proof :
  exists ops order m inst l keys t a,
    forallb wf_op ops = true /\ wf_addr a = true /\
    order_run true false (mem_init (b_tries (run hash_lpm_set ops))) order = Some m /\
    In inst (m_installs m) /\ m_lpm m = Some l /\
    nth_error inst 0 = Some keys /\ nth_error l 0 = Some t /\
    keys = [] /\ keys_match false keys a = false /\ has_prefix t (probe_bin a) = true.
Proof.
  set (ops := [OpIp false false [{| p_is4 := true; p_addr := 0x0a000000; p_bits := 8 |}]]).
  set (order := [SSnapshot; SUserspace; SInstall]).
  destruct (order_run true false (mem_init (b_tries (run hash_lpm_set ops))) order) as [m|] eqn:E;
    [|vm_compute in E; discriminate].
  exists ops, order, m, [[]], (build_userspace (b_tries (run hash_lpm_set ops))), [],
         (new_trie_from_prefixes [{| p_is4 := true; p_addr := 0x0a000000; p_bits := 8 |}]), (v4_mapped 0x0a010203).
  vm_compute in E. injection E as <-.
  repeat split; try reflexivity; vm_compute; auto.
Qed.

Lemma any_order_nonvacuous_proof :
  let a := {| p_is4 := true; p_addr := 0xc6336400; p_bits := 24 |} in
  let b := {| p_is4 := false; p_addr := 0x20010db8000000000000000000000000; p_bits := 32 |} in
  let ops := [OpIp false false [b; a]; OpMac false [0x001122334455]] in
  let tries := b_tries (run hash_lpm_set ops) in
  forall order, In order [[SSnapshot; SInstall; SUserspace]; [SSnapshot; SUserspace; SInstall];
                          [SSnapshot; SInstall; SUserspace; SInstall]] ->
    exists m, order_run false true (mem_init tries) order = Some m
              /\ m_installs m <> [] /\ m_lpm m <> None
              /\ forallb (fun inst => Nat.eqb (length (concat inst)) 3) (m_installs m) = true.
Proof.
  cbv zeta. intros order [<-|[<-|[<-|[]]]]; eexists; (split; [vm_compute; reflexivity|]);
    repeat split; try discriminate; reflexivity.
Qed.

(* ------------------------------------------------------------------ statements as used by C12_Props *)

Lemma same_set_proof : forall big ps a,
  forallb wf_prefix ps = true -> wf_addr a = true ->
  trie_match ps a = kernel_match big ps a.
Proof. intros. rewrite trie_contains_proof, lpm_key_contains_proof by assumption. reflexivity. Qed.

Lemma nonvacuous_proof :
  let ps := [ {| p_is4 := true; p_addr := 0x0a010203; p_bits := 8 |};        (* 10.1.2.3/8, unmasked *)
              {| p_is4 := true; p_addr := 0x0a800000; p_bits := 9 |};        (* 10.128.0.0/9, nested *)
              {| p_is4 := false; p_addr := 0xffff01020304; p_bits := 128 |}; (* ::ffff:1.2.3.4/128 *)
              {| p_is4 := true; p_addr := 0; p_bits := 0 |};                 (* 0.0.0.0/0 *)
              {| p_is4 := false; p_addr := 0x20010db8000000000000000000000000; p_bits := 32 |} ] in
  let probes := [ v4_mapped 0x0a000000; v4_mapped 0x0affffff; v4_mapped 0x09ffffff; v4_mapped 0x0b000000;
                  0xfffeffffffff; 0x1000000000000; 0x20010db8ffffffffffffffffffffffff;
                  0x20010db9000000000000000000000000; 0 ] in
  forallb wf_prefix ps = true /\ forallb wf_addr probes = true
  /\ map (set_contains (firstn 3 ps)) probes = [true; true; false; false; false; false; false; false; false]
  /\ map (set_contains ps) probes = [true; true; true; true; false; false; true; false; false]
  /\ map (trie_match ps) probes = map (set_contains ps) probes
  /\ map (kernel_lookup false ps) probes
     = [Some 104; Some 105; Some 96; Some 96; None; None; Some 32; None; None]
  /\ (let any6 := [ {| p_is4 := false; p_addr := 0; p_bits := 0 |} ] in           (* ::/0 *)
      forallb (trie_match any6) probes = true /\ map (kernel_lookup true any6) probes = map (fun _ => Some 0) probes).
Proof. cbv zeta. repeat split; vm_compute; reflexivity. Qed.

Lemma share_nonvacuous_proof :
  let a := {| p_is4 := true; p_addr := 0xc6336400; p_bits := 24 |} in
  let b := {| p_is4 := true; p_addr := 0xcb007100; p_bits := 24 |} in
  let c := {| p_is4 := false; p_addr := 0xffffcb007100; p_bits := 120 |} in
  let ops := [OpIp false false [a; b]; OpIp true false [b; a; a]; OpIp false true [a; c]; OpMac true [0x001122334455]] in
  map r_index (b_rules (run hash_lpm_set ops)) = [0; 0; 1; 2]
  /\ map r_index (b_rules (run (fun _ => 7) ops)) = [0; 0; 1; 2]
  /\ length (b_tries (run (fun _ => 7) ops)) = 3%nat
  /\ forallb wf_op ops = true.
Proof. cbv zeta. repeat split; vm_compute; reflexivity. Qed.

