(* C12 — lemmas. *)
From Coq Require Import List NArith ZArith Bool Lia ZifyBool ZifyN ZifyNat.
From Dae Require Import C12_Spec C12_Model.
Import ListNotations.
Open Scope N_scope.

Lemma C12_prefix2bin_refuted_proof :
  exists p, wf_prefix p = true /\ prefix2bin128 p <> prefix_bits p.
Proof.
  exists {| p_is4 := false; p_addr := 0; p_bits := 0 |}. split; [reflexivity|].
  vm_compute. discriminate.
Qed.
