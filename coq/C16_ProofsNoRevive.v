(* C16 — a failure report never makes a dead node alive (any history, any node and type, any counter). *)
From Coq Require Import List NArith ZArith Bool Lia.
From Dae Require Import C16_Spec C16_Model C16_Proofs C16_ProofsGroups.
From Dae.gen Require Import C16_Consts.
Import ListNotations.
Open Scope N_scope.

Lemma fl_inform : forall cfg m n d alive l x d', fl (inform cfg m n d alive l) x d' = fl m x d'.
Proof. intros. unfold fl. destruct (inform_health cfg m n d alive l) as (-> & _). reflexivity. Qed.

Lemma mark_unavail_fl_false : forall cfg m n d t l x d',
  fl m x d' = false -> fl (mark_unavail cfg m n d t l) x d' = false.
Proof.
  intros cfg m n d t l x d' H. unfold mark_unavail. destruct (m_suppressed m); [exact H|].
  set (cur := md_alive (m_d m n) (canon (index_of d))).
  assert (Hcur : cur = fl m n d) by reflexivity.
  destruct t; cbv beta iota zeta; rewrite fl_inform.
  - set (alive := if md_traffic (m_d m n) (index_of d) + 1 <? threshold d true then cur else false).
    match goal with |- fl (if _ then notify_failure cfg ?M2 n l else ?M2) x d' = false =>
      assert (F2 : fl M2 x d' = false) end.
    { destruct (xorb cur alive);
        (match goal with |- fl ?M x d' = false =>
           replace (fl M x d') with (if (x =? n) && dom_eqb d' d then alive else fl m x d') by (symmetry; apply fl_point) end);
        (destruct ((x =? n) && dom_eqb d' d) eqn:E; [|exact H]);
        apply andb_true_iff in E; destruct E as (E1 & E2); apply N.eqb_eq in E1; apply dom_eqb_eq in E2; subst x d';
        subst alive; rewrite Hcur, H; destruct (_ <? _); reflexivity. }
    destruct (cur && negb alive); [apply notify_failure_fl_false|]; exact F2.
  - set (alive := if md_fail (m_d m n) (index_of d) + 1 <? threshold d false then cur else false).
    match goal with |- fl (if _ then notify_failure cfg ?M2 n l else ?M2) x d' = false =>
      assert (F2 : fl M2 x d' = false) end.
    { destruct (xorb cur alive);
        (match goal with |- fl ?M x d' = false =>
           replace (fl M x d') with (if (x =? n) && dom_eqb d' d then alive else fl m x d') by (symmetry; apply fl_point) end);
        (destruct ((x =? n) && dom_eqb d' d) eqn:E; [|exact H]);
        apply andb_true_iff in E; destruct E as (E1 & E2); apply N.eqb_eq in E1; apply dom_eqb_eq in E2; subst x d';
        subst alive; rewrite Hcur, H; destruct (_ <? _); reflexivity. }
    destruct (cur && negb alive); [apply notify_failure_fl_false|]; exact F2.
Qed.

Lemma C16_failure_never_revives_proof : forall cfg h n d k ign l n' d',
  model_alive cfg h n' d' = false -> model_alive cfg (h ++ [EFail n d k ign l]) n' d' = false.
Proof.
  intros cfg h n d k ign l n' d' H. unfold model_alive. rewrite m_run_snoc.
  change (fl (m_step cfg (m_run cfg h) (EFail n d k ign l)) n' d' = false).
  assert (Hc : fl (clear_logs (m_run cfg h)) n' d' = false) by exact H.
  unfold m_step. destruct k; try (destruct ign; [exact Hc|apply mark_unavail_fl_false; exact Hc]).
  rewrite mark_forced_fl. destruct ((n' =? n) && dom_eqb d' d); [reflexivity|exact Hc].
Qed.

(* the variant "alive := streak < threshold" (collection.Alive.Swap(streak < threshold)) does revive:
   a TCP type killed by one failed probe is alive again after one traffic failure (streak 1 of 10) *)
Definition mark_unavail_swap (cfg : config) (m : mstate) (n : N) (d : dom) (isTraffic : bool) (l : latmap) : mstate :=
  if m_suppressed m then m else
  let idx := index_of d in
  let thr := threshold d isTraffic in
  let x := m_d m n in
  let cur := md_alive x (canon idx) in
  let '(x1, alive) :=
    if isTraffic then
      let c := md_traffic x idx + 1 in
      ({| md_alive := md_alive x; md_fail := md_fail x; md_traffic := upd (md_traffic x) idx c |}, c <? thr)
    else
      let c := md_fail x idx + 1 in
      ({| md_alive := md_alive x; md_fail := upd (md_fail x) idx c; md_traffic := md_traffic x |}, c <? thr) in
  let x2 := {| md_alive := upd (md_alive x1) (canon idx) alive; md_fail := md_fail x1; md_traffic := md_traffic x1 |} in
  let m1 := set_dialer m n x2 in
  let m2 := if xorb cur alive then log_transition m1 n d alive else m1 in
  let m3 := if cur && negb alive then notify_failure cfg m2 n l else m2 in
  inform cfg m3 n d alive l.

Lemma C16_failure_never_revives_swap_refuted_proof :
  let h := [EFail 0 Tcp4 KCheck false []] in
  model_alive wit_cfg1 h 0 Tcp4 = false
  /\ d_alive (m_d (mark_unavail_swap wit_cfg1 (clear_logs (m_run wit_cfg1 h)) 0 Tcp4 true []) 0) Tcp4 = true
  /\ m_tlog (mark_unavail_swap wit_cfg1 (clear_logs (m_run wit_cfg1 h)) 0 Tcp4 true []) = [(0, Tcp4, true)]
  /\ m_bits (mark_unavail_swap wit_cfg1 (clear_logs (m_run wit_cfg1 h)) 0 Tcp4 true []) 0 Tcp4 = true.
Proof. vm_compute. repeat split. Qed.

Print Assumptions C16_failure_never_revives_proof.
Print Assumptions C16_failure_never_revives_swap_refuted_proof.

(* ---------- successful traffic ---------- *)
Lemma mark_avail_tlog_dead : forall cfg m n d l,
  md_alive (m_d m n) (canon (index_of d)) = false ->
  m_tlog (mark_avail cfg m n d l) = m_tlog m ++ [(n, d, true)].
Proof.
  intros cfg m n d l H. unfold mark_avail. cbv zeta. rewrite H.
  match goal with |- m_tlog (inform cfg ?M n d true l) = _ =>
    destruct (inform_health cfg M n d true l) as (_ & _ & _ & _ & ->) end.
  destruct (c_addr cfg n =? 0); reflexivity.
Qed.

(* a dead data-UDP type comes back on successful traffic whatever the counters are (in particular with a
   traffic streak of 0): alive, both counts cleared, the address's death count cleared, exactly one alive edge *)
Lemma C16_data_udp_traffic_revives_dead_proof : forall cfg h n d l,
  is_data d = true -> model_alive cfg h n d = false ->
  let m := m_run cfg (h ++ [ETrafficOk n d l]) in
  d_alive (m_d m n) d = true /\ md_fail (m_d m n) (index_of d) = 0 /\ md_traffic (m_d m n) (index_of d) = 0
  /\ (c_addr cfg n <> 0 -> m_tracker m (c_addr cfg n) = 0) /\ m_tlog m = [(n, d, true)].
Proof.
  intros cfg h n d l Hd Ha m. subst m. rewrite m_run_snoc. cbn [m_step]. unfold traffic_ok. cbv zeta. rewrite Hd. cbn [andb].
  set (m0 := clear_logs (m_run cfg h)).
  set (x' := if md_traffic (m_d m0 n) (index_of d) =? 0 then m_d m0 n else _).
  assert (Hal : md_alive x' (canon (index_of d)) = false).
  { subst x'. destruct (md_traffic (m_d m0 n) (index_of d) =? 0); exact Ha. }
  rewrite Hal. cbn [negb].
  destruct (mark_avail_point cfg (set_dialer m0 n x') n d l) as (A & B & C & D).
  split; [exact A|]. split; [exact B|]. split; [exact C|]. split; [exact D|].
  rewrite mark_avail_tlog_dead; [reflexivity|]. cbn [set_dialer m_d]. rewrite upd_same. exact Hal.
Qed.

(* for the other types successful traffic revives nothing: no flag changes, no callback *)
Lemma C16_traffic_success_other_types_proof : forall cfg h n d l,
  is_data d = false ->
  (forall n' d', model_alive cfg (h ++ [ETrafficOk n d l]) n' d' = model_alive cfg h n' d')
  /\ m_tlog (m_run cfg (h ++ [ETrafficOk n d l])) = [].
Proof.
  intros cfg h n d l Hd. split.
  - intros n' d'. unfold model_alive. rewrite m_run_snoc. cbn [m_step]. unfold traffic_ok. cbv zeta. rewrite Hd. cbn [andb].
    set (m0 := clear_logs (m_run cfg h)). cbn [set_dialer m_d]. unfold upd. destruct (n' =? n) eqn:E; [|reflexivity].
    apply N.eqb_eq in E; subst n'. destruct (md_traffic (m_d m0 n) (index_of d) =? 0); reflexivity.
  - rewrite m_run_snoc. cbn [m_step]. unfold traffic_ok. cbv zeta. rewrite Hd. reflexivity.
Qed.

(* the variant with the early return "traffic streak = 0 -> nothing to do" placed before the revival check does not
   revive a data-UDP type that died through the probe counter *)
Definition traffic_ok_early_return (cfg : config) (m : mstate) (n : N) (d : dom) (l : latmap) : mstate :=
  let idx := index_of d in
  let x := m_d m n in
  if md_traffic x idx =? 0 then m
  else let x' := {| md_alive := md_alive x; md_fail := md_fail x; md_traffic := upd (md_traffic x) idx 0 |} in
       let m1 := set_dialer m n x' in
       if is_data d && negb (md_alive x' (canon idx)) then mark_avail cfg m1 n d l else m1.

Lemma C16_data_udp_traffic_revives_early_return_refuted_proof :
  let h := repeat (EFail 0 DataUdp4 KTrans false []) 3 in
  model_alive wit_cfg1 h 0 DataUdp4 = false
  /\ md_traffic (m_d (m_run wit_cfg1 h) 0) (index_of DataUdp4) = 0
  /\ d_alive (m_d (traffic_ok_early_return wit_cfg1 (clear_logs (m_run wit_cfg1 h)) 0 DataUdp4 []) 0) DataUdp4 = false
  /\ model_alive wit_cfg1 (h ++ [ETrafficOk 0 DataUdp4 []]) 0 DataUdp4 = true.
Proof. vm_compute. repeat split. Qed.

Print Assumptions C16_data_udp_traffic_revives_dead_proof.
Print Assumptions C16_traffic_success_other_types_proof.
Print Assumptions C16_data_udp_traffic_revives_early_return_refuted_proof.
