(* C16 — node health follows the documented thresholds and is reported on edges only.
   Spec: the property in its own terms.  A history is a list of health events about nodes (numbered) and
   the six health domains.  Per (node, domain) the spec keeps what the documentation talks about: whether
   the node is alive, and how many counted failures of each source (probe / traffic) have been seen with no
   success in between; per proxy address, how many death transitions have accumulated with no success in
   between.  Nothing here knows about collection indices, aliasing, forced counter values, alive sets. *)
From Coq Require Import List NArith ZArith Bool.
Import ListNotations.
Open Scope N_scope.

Inductive dom := Tcp4 | Tcp6 | DnsUdp4 | DnsUdp6 | DataUdp4 | DataUdp6.

Definition dom_code (d : dom) : N :=
  match d with Tcp4 => 0 | Tcp6 => 1 | DnsUdp4 => 2 | DnsUdp6 => 3 | DataUdp4 => 4 | DataUdp6 => 5 end.
Definition dom_eqb (a b : dom) : bool := dom_code a =? dom_code b.
Definition all_doms : list dom := [Tcp4; Tcp6; DnsUdp4; DnsUdp6; DataUdp4; DataUdp6].
Definition is_udp (d : dom) : bool := match d with Tcp4 | Tcp6 => false | _ => true end.
Definition is_data (d : dom) : bool := match d with DataUdp4 | DataUdp6 => true | _ => false end.

(* how a failure was reported: a probe (health check), a transactional report (DNS request), a traffic
   report, or a forced report *)
Inductive fkind := KCheck | KTrans | KTraffic | KForced.
Definition is_traffic (k : fkind) : bool := match k with KTraffic => true | _ => false end.

Inductive policy := PMin | PRandom | PFixed.
Record group := { g_policy : policy; g_members : list (N * Z) (* node, latency offset *) }.
(* c_addr n = 0: the node has no proxy address *)
Record config := { c_addr : N -> N; c_groups : list group; c_tol : Z }.

(* latencies the alive sets read while handling an event: (node, group, domain, policy latency if any).
   Only the code-shaped model uses them. *)
Definition latmap := list (N * N * dom * option Z).

Inductive ev :=
| EFail (n : N) (d : dom) (k : fkind) (ign : bool) (l : latmap)  (* ign: the error is cancellation / teardown *)
| EProbeOk (n : N) (d : dom) (l : latmap)
| EProbeSkip (n : N) (d : dom)                                    (* probe not applicable: no result *)
| ETrafficOk (n : N) (d : dom) (l : latmap)
| ESuppBegin | ESuppEnd | EQuiesce                                (* reload suppression scope / end of quiesce window *)
| EResetGlobal
| EReload (l : latmap).

(* documented numbers *)
Definition k_probe (d : dom) : N := if is_udp d then 3 else 1.
Definition k_traffic (d : dom) : N := if is_udp d then 50 else 10.
Definition k_deaths : N := 3.

Record sdom := { sa : bool; sp : N; st : N }.
Definition sfresh : sdom := {| sa := true; sp := 0; st := 0 |}.

Record sstate := { s_dom : N -> dom -> sdom; s_deaths : N -> N; s_supp : N; s_window : bool }.
Definition s_init : sstate :=
  {| s_dom := fun _ _ => sfresh; s_deaths := fun _ => 0; s_supp := 0; s_window := false |}.

Definition tlog := list (N * dom * bool).   (* alive transitions: node, domain, new state *)

Definition s_set (s : sstate) (n : N) (d : dom) (x : sdom) : sstate :=
  {| s_dom := fun n' d' => if (n' =? n) && dom_eqb d' d then x else s_dom s n' d';
     s_deaths := s_deaths s; s_supp := s_supp s; s_window := s_window s |}.
Definition s_set_deaths (s : sstate) (a c : N) : sstate :=
  {| s_dom := s_dom s; s_deaths := fun a' => if a' =? a then c else s_deaths s a';
     s_supp := s_supp s; s_window := s_window s |}.

Definition suppressed (s : sstate) : bool := (0 <? s_supp s) || s_window s.

(* immediate death of one domain *)
Definition s_kill (s : sstate) (n : N) (d : dom) : sstate * tlog :=
  let x := s_dom s n d in
  (s_set s n d {| sa := false; sp := sp x; st := st x |}, if sa x then [(n, d, false)] else []).

(* the documented escalation: every network type of the proxy goes down *)
Definition s_escalate (s : sstate) (n : N) : sstate * tlog :=
  fold_left (fun acc d => let '(s', l') := s_kill (fst acc) n d in (s', snd acc ++ l')) all_doms (s, []).

(* one more death transition for the node's address *)
Definition s_death_transition (cfg : config) (s : sstate) (n : N) : sstate * tlog :=
  let a := c_addr cfg n in
  if a =? 0 then (s, []) else
  let c := s_deaths s a + 1 in
  if k_deaths <=? c then s_escalate (s_set_deaths s a 0) n else (s_set_deaths s a c, []).

Definition s_counted_failure (cfg : config) (s : sstate) (n : N) (d : dom) (traffic : bool) : sstate * tlog :=
  let x := s_dom s n d in
  let x' := if traffic then {| sa := sa x; sp := sp x; st := st x + 1 |}
            else {| sa := sa x; sp := sp x + 1; st := st x |} in
  let reached := if traffic then k_traffic d <=? st x' else k_probe d <=? sp x' in
  if sa x && reached then
    let '(s2, l) := s_death_transition cfg (s_set s n d {| sa := false; sp := sp x'; st := st x' |}) n in
    (s2, (n, d, false) :: l)
  else (s_set s n d x', []).

(* a success: alive again, counts cleared, the address's death count cleared *)
Definition s_success (cfg : config) (s : sstate) (n : N) (d : dom) : sstate * tlog :=
  let x := s_dom s n d in
  (s_set_deaths (s_set s n d sfresh) (c_addr cfg n) 0, if sa x then [] else [(n, d, true)]).

(* reload: the new generation inherits the alive flags (counts cleared) of every node that belongs to a
   group; then every group that keeps alive sets and would be left without an alive member for a type
   gets its first member back *)
Definition in_some_group (cfg : config) (n : N) : bool :=
  existsb (fun g => existsb (fun m => fst m =? n) (g_members g)) (c_groups cfg).
Definition floor_order : list dom := [DnsUdp4; DnsUdp6; Tcp4; Tcp6; DataUdp4; DataUdp6].
Definition members_alive (s : sstate) (g : group) (d : dom) : list N :=
  filter (fun m => sa (s_dom s m d)) (map fst (g_members g)).
Definition s_floor_group (s : sstate) (g : group) : sstate :=
  match g_policy g, g_members g with
  | PFixed, _ => s
  | _, [] => s
  | _, (m0, _) :: _ =>
      fold_left (fun s d => match members_alive s g d with [] => s_set s m0 d sfresh | _ => s end) floor_order s
  end.
Definition s_reload (cfg : config) (s : sstate) : sstate :=
  let s1 := {| s_dom := fun n d => if in_some_group cfg n then {| sa := sa (s_dom s n d); sp := 0; st := 0 |} else sfresh;
               s_deaths := s_deaths s; s_supp := s_supp s; s_window := s_window s |} in
  fold_left s_floor_group (c_groups cfg) s1.

Definition s_step (cfg : config) (s : sstate) (e : ev) : sstate * tlog :=
  match e with
  | EFail n d KForced _ _ => s_kill s n d
  | EFail n d k ign _ => if ign || suppressed s then (s, []) else s_counted_failure cfg s n d (is_traffic k)
  | EProbeOk n d _ => s_success cfg s n d
  | EProbeSkip _ _ => (s, [])
  | ETrafficOk n d _ =>
      let x := s_dom s n d in
      if is_data d && negb (sa x) then s_success cfg s n d
      else (s_set s n d {| sa := sa x; sp := sp x; st := 0 |}, [])
  | ESuppBegin => ({| s_dom := s_dom s; s_deaths := s_deaths s; s_supp := s_supp s + 1; s_window := s_window s |}, [])
  | ESuppEnd =>
      if s_supp s =? 0 then (s, [])
      else ({| s_dom := s_dom s; s_deaths := s_deaths s; s_supp := s_supp s - 1;
               s_window := if s_supp s =? 1 then true else s_window s |}, [])
  | EQuiesce => ({| s_dom := s_dom s; s_deaths := s_deaths s; s_supp := s_supp s; s_window := false |}, [])
  | EResetGlobal => ({| s_dom := s_dom s; s_deaths := fun _ => 0; s_supp := s_supp s; s_window := s_window s |}, [])
  | EReload _ => (s_reload cfg s, [])   (* the transitions of the fresh generation's objects are not specified *)
  end.

Definition s_run (cfg : config) (h : list ev) : sstate :=
  fold_left (fun s e => fst (s_step cfg s e)) h s_init.

(* what the property talks about *)
Definition spec_alive (cfg : config) (h : list ev) (n : N) (d : dom) : bool := sa (s_dom (s_run cfg h) n d).
(* transitions reported while handling the last event of h ++ [e] *)
Definition spec_transitions (cfg : config) (h : list ev) (e : ev) : tlog := snd (s_step cfg (s_run cfg h) e).
(* group view: the members a group believes alive for a type; connectivity bit of a latency-policy group *)
Definition spec_members (cfg : config) (h : list ev) (g : group) (d : dom) : list N := members_alive (s_run cfg h) g d.
(* a group without nodes never has a "last alive node": its slot keeps the initial 1 *)
Definition bit_of (s : sstate) (g : group) (d : dom) : bool :=
  Nat.eqb (length (g_members g)) 0 || negb (Nat.eqb (length (members_alive s g d)) 0).
Definition spec_bit (cfg : config) (h : list ev) (g : group) (d : dom) : bool := bit_of (s_run cfg h) g d.
(* reload floor *)
Definition keeps_sets (g : group) : bool := match g_policy g with PFixed => false | _ => true end.
Definition floor_ok (s : sstate) (cfg : config) : bool :=
  forallb (fun g => negb (keeps_sets g) || Nat.eqb (length (g_members g)) 0
                    || forallb (fun d => negb (Nat.eqb (length (members_alive s g d)) 0)) all_doms) (c_groups cfg).

(* the slot of the kernel's connectivity array that carries the bit of (outbound, type): the layout the
   kernel reads (tproxy.c wan_outbound_is_alive): outbound_id * 6 + domain * 2 + ipversion,
   domain 0 = TCP, 1 = DNS UDP, 2 = data UDP; ipversion 0 = IPv4, 1 = IPv6 *)
Definition spec_slot (outbound : N) (d : dom) : N :=
  outbound * 6
  + (match d with Tcp4 | Tcp6 => 0 | DnsUdp4 | DnsUdp6 => 1 | DataUdp4 | DataUdp6 => 2 end) * 2
  + (match d with Tcp4 | DnsUdp4 | DataUdp4 => 0 | _ => 1 end).

(* A reload, as the property states it (no particular choice of the revived node is prescribed): given the
   alive flags of the new generation (post), the hand-over is admissible iff
   - every flag that was alive is still alive, and nodes outside all groups start alive;
   - a flag that is alive now but was not is justified by the selection floor: the node belongs to a
     set-keeping group none of whose members was alive for that type;
   - every non-empty set-keeping group has an alive member for every type. *)
Definition s_adopt (cfg : config) (old : sstate) (post : N -> dom -> bool) : sstate :=
  {| s_dom := fun n d => {| sa := post n d; sp := 0; st := 0 |};
     s_deaths := s_deaths old; s_supp := s_supp old; s_window := s_window old |}.
Definition floor_justified (cfg : config) (old : sstate) (n : N) (d : dom) : bool :=
  existsb (fun g => keeps_sets g && existsb (fun m => fst m =? n) (g_members g)
                    && forallb (fun m => negb (sa (s_dom old (fst m) d))) (g_members g)) (c_groups cfg).
Definition reload_ok (cfg : config) (nd : nat) (old : sstate) (post : N -> dom -> bool) : bool :=
  forallb (fun n => forallb (fun d =>
             let o := sa (s_dom old n d) in
             let p := post n d in
             if in_some_group cfg n then implb o p && implb (p && negb o) (floor_justified cfg old n d) else p)
           all_doms) (map N.of_nat (seq 0 nd))
  && floor_ok (s_adopt cfg old post) cfg.

(* ---- a probe is up to two attempts; teardown may cancel the node's context at any point ---------------- *)
Inductive attempt := AOk | AErr | ASkip.          (* what an attempt yields when it runs to completion: success,
                                                     a genuine error, "not applicable" (no address of that family) *)
Inductive cancel_at := CNone | CBefore1 | CBetween | CDuring2 | CAfter.   (* CBefore1: before or during attempt 1 *)
Inductive verdict := VSuccess | VFailure | VIgnore | VSkip.
(* the property: success when an attempt succeeded; a failure only when both attempts genuinely failed; whenever the
   context is cancelled before a second attempt completed the outcome is a cancellation and never counts *)
Definition spec_probe_verdict (a1 a2 : attempt) (c : cancel_at) : verdict :=
  match c with
  | CBefore1 => VIgnore
  | _ => match a1 with
         | AOk => VSuccess
         | ASkip => VSkip
         | AErr => match c with
                   | CBetween | CDuring2 => VIgnore
                   | _ => match a2 with AOk => VSuccess | AErr => VFailure | ASkip => VSkip end
                   end
         end
  end.
Definition verdict_event (v : verdict) (n : N) (d : dom) (l : latmap) : ev :=
  match v with
  | VSuccess => EProbeOk n d l
  | VFailure => EFail n d KCheck false l
  | VIgnore => EFail n d KCheck true l
  | VSkip => EProbeSkip n d
  end.
Definition verdict_is_ignore (v : verdict) : bool := match v with VIgnore => true | _ => false end.
