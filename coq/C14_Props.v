(* C14 — property theorems only.  Each is closed by `exact` of a lemma of C14_Proofs.v.
   Every statement quantifies over ALL regex semantics (re_ok, re_match) and ALL duration syntaxes
   (dur), all pools (any names/tags, duplicates, empty strings, any length) and all definitions. *)
From Coq Require Import List String Ascii ZArith Bool.
From Dae Require Import C14_Spec C14_Model C14_Proofs.
Import ListNotations.
Open Scope string_scope.

(* A valid definition yields, without error, exactly the group of the spec: the nodes satisfying at
   least one line, once each, in pool order, with the offset of the first line satisfied.  (The reading
   arguments rp rf ra are irrelevant for valid definitions: the statement holds for every one.) *)
Theorem C14_members_exact :
  forall re_ok re_match dur pool lines annos,
    def_valid re_ok dur lines annos = true ->
    forall rp rf ra,
      filter_and_annotate re_ok re_match dur pool lines annos
      = Ok (spec_group re_ok re_match dur rp rf ra pool lines annos).
Proof. exact members_exact_proof. Qed.
Print Assumptions C14_members_exact.

(* The same in declarative terms (Spec.is_group): for a valid definition with at least one filter line the
   answer g lists pool positions in strictly increasing order (pool order, each position at most once), a
   position is listed iff its node satisfies at least one line (every function of the line holds: some
   alternative matches iff the function is not negated), and each member carries the offset of the
   annotation of the FIRST line it satisfies. *)
Theorem C14_group_characterisation :
  forall re_ok re_match dur rp rf ra pool lines annos,
    def_valid re_ok dur lines annos = true -> lines <> [] ->
    exists g, filter_and_annotate re_ok re_match dur pool lines annos = Ok g
              /\ is_group re_ok re_match dur rp rf ra pool lines annos g.
Proof. exact group_characterisation_proof. Qed.
Print Assumptions C14_group_characterisation.

(* A group without filters contains every node, with a zero offset. *)
Theorem C14_no_filters_all :
  forall re_ok re_match dur pool,
    filter_and_annotate re_ok re_match dur pool [] [] = Ok (map (fun n => (n, 0%Z)) pool)
    /\ spec_group re_ok re_match dur rd_lo_p rd_lo_f rd_lo_a pool [] [] = map (fun n => (n, 0%Z)) pool.
Proof. exact no_filters_all_proof. Qed.
Print Assumptions C14_no_filters_all.

(* For ANY definition (valid or not) the answer is a configuration error - and then the definition
   really is invalid - or it is the group under every reading of the invalid fragments: an invalid
   fragment is never given a meaning that influences the selection. *)
Theorem C14_invalid_never_silent :
  forall re_ok re_match dur pool lines annos,
    spec_allows re_ok re_match dur pool lines annos
                (to_outcome (filter_and_annotate re_ok re_match dur pool lines annos)).
Proof. exact never_silent_proof. Qed.
Print Assumptions C14_invalid_never_silent.

(* A reported error names a fragment that really occurs in the definition (the error class is right):
   bad regex / unknown key inside a name() or subtag() function, unknown input, malformed or unknown
   annotation, annotation count mismatch.  No other error class is ever produced. *)
Theorem C14_error_genuine :
  forall re_ok re_match dur pool lines annos e,
    filter_and_annotate re_ok re_match dur pool lines annos = Err e ->
    error_genuine re_ok dur lines annos e.
Proof. exact error_genuine_proof. Qed.
Print Assumptions C14_error_genuine.

(* The stricter reading "every invalid definition is rejected" is FALSE of the code: validation is lazy
   (only fragments actually consulted are validated; with an empty pool nothing is). *)
Definition C14_invalid_always_reported_full : Prop :=
  forall re_ok re_match dur pool lines annos,
    def_valid re_ok dur lines annos = false ->
    exists e, filter_and_annotate re_ok re_match dur pool lines annos = Err e.

Theorem C14_invalid_always_reported_refuted : ~ C14_invalid_always_reported_full.
Proof. exact invalid_always_reported_refuted_proof. Qed.
Print Assumptions C14_invalid_always_reported_refuted.

(* Policy: accepted iff exactly one function naming one of the five policies, and for fixed: not
   negated and exactly one unkeyed parameter that is a 64-bit decimal integer; the index is carried. *)
Theorem C14_policy_validation :
  forall r, result_to_option (new_policy r) = spec_policy_raw r.
Proof. exact policy_validation_proof. Qed.
Print Assumptions C14_policy_validation.

(* fixed(i) picks the i-th member of the group, and is an error exactly when there is no such member
   (negative, beyond the end, empty group) - checked when a connection selects, not at load time. *)
Theorem C14_fixed_ith :
  forall (A : Type) (g : list A) (i : Z), result_to_option (select_fixed g i) = fixed_choice g i.
Proof. exact fixed_ith_proof. Qed.
Print Assumptions C14_fixed_ith.

(* Annotation of one line: accepted iff every setting is add_latency with a well-formed duration; its
   offset is the first NON-ZERO setting. *)
Theorem C14_annotation_value :
  forall dur a z,
    new_annotation dur a = Ok z <-> (anno_valid dur a = true /\ z = first_nonzero (anno_settings dur a)).
Proof. exact anno_value_proof. Qed.
Print Assumptions C14_annotation_value.

(* The Go comment "Only the first setting is valid" read literally is false of the code. *)
Definition C14_anno_first_setting_full : Prop :=
  forall dur a z, new_annotation dur a = Ok z -> z = hd 0%Z (anno_settings dur a).
Theorem C14_anno_first_setting_refuted : ~ C14_anno_first_setting_full.
Proof. exact anno_first_setting_refuted_proof. Qed.
Print Assumptions C14_anno_first_setting_refuted.

(* keyword really is "substring" *)
Theorem C14_keyword_is_substring :
  forall s kw, containsb s kw = true <-> is_substring kw s.
Proof. exact containsb_spec. Qed.
Print Assumptions C14_keyword_is_substring.

(* Non-vacuity: a pool with duplicate and empty names, two lines, negation, annotation. *)
Example C14_nonvacuous : nonvacuous_statement.
Proof. exact nonvacuous_proof. Qed.

(* The constants read from the Go sources on this run are the ones the spec uses. *)
Example C14_consts_tied : consts_tied_statement.
Proof. exact consts_tied_proof. Qed.

(* The pool: for every link oracle and every tagged link list in every iteration order (the same link
   under several tags, several times under one tag, rejected links), the dialer set built has exactly
   one node per usable (tag, link) occurrence - same count, and tag by tag the names delivered under
   that tag in order. *)
Theorem C14_pool_one_per_occurrence :
  forall link_name m, pool_faithful link_name m (new_dialer_set link_name m).
Proof. exact pool_one_per_occurrence_proof. Qed.
Print Assumptions C14_pool_one_per_occurrence.

(* A group without filters contains every occurrence, each with a zero offset. *)
Theorem C14_no_filters_all_occurrences :
  forall link_name re_ok re_match dur m,
    exists g, filter_and_annotate re_ok re_match dur (new_dialer_set link_name m) [] [] = Ok g
              /\ map snd g = map (fun _ => 0%Z) g
              /\ pool_faithful link_name m (map fst g).
Proof. exact no_filters_all_occurrences_proof. Qed.
Print Assumptions C14_no_filters_all_occurrences.

(* C14_members_exact over occurrences: the pool the filters run on is the faithful one. *)
Theorem C14_members_exact_occurrences :
  forall link_name re_ok re_match dur m lines annos,
    def_valid re_ok dur lines annos = true ->
    forall rp rf ra,
      pool_faithful link_name m (new_dialer_set link_name m)
      /\ filter_and_annotate re_ok re_match dur (new_dialer_set link_name m) lines annos
         = Ok (spec_group re_ok re_match dur rp rf ra (new_dialer_set link_name m) lines annos).
Proof. exact members_exact_occurrences_proof. Qed.
Print Assumptions C14_members_exact_occurrences.

(* Building every distinct link string only once (de-duplication by link across tags) is NOT faithful. *)
Definition C14_dedup_by_link_full : Prop :=
  forall link_name m, pool_faithful link_name m (new_dialer_set_dedup link_name m).
Theorem C14_dedup_by_link_refuted : ~ C14_dedup_by_link_full.
Proof. exact dedup_by_link_refuted_proof. Qed.
Print Assumptions C14_dedup_by_link_refuted.

(* Several groups in one configuration: the decoded list has one group per declared group and group i
   is what decoding group i ALONE gives - its own filter lines in order, its own annotations (one per
   line), its last policy setting - whatever the other groups contain and in whatever order. *)
Theorem C14_groups_decoded_independently :
  forall sections,
    List.length (decode_groups sections) = List.length sections
    /\ forall i s, nth_error sections i = Some s ->
                   nth_error (decode_groups sections) i = nth_error (decode_groups [s]) 0
                   /\ nth_error (decode_groups sections) i = Some (spec_group_decl s).
Proof. exact groups_decoded_independently_proof. Qed.
Print Assumptions C14_groups_decoded_independently.

(* annotation j belongs to line j: the two decoded lists always have the same length *)
Theorem C14_group_annotations_aligned :
  forall items, List.length (filters_of items) = List.length (annos_of items).
Proof. exact filters_annos_aligned. Qed.
Print Assumptions C14_group_annotations_aligned.

(* Decoding every group into one shared scratch element is NOT independent (a filter-less group keeps
   the filters of the nearest earlier filtered group). *)
Definition C14_shared_scratch_full : Prop :=
  forall sections i s, nth_error sections i = Some s ->
                       nth_error (decode_groups_shared sections) i = nth_error (decode_groups_shared [s]) 0.
Theorem C14_shared_scratch_refuted : ~ C14_shared_scratch_full.
Proof. exact shared_scratch_refuted_proof. Qed.
Print Assumptions C14_shared_scratch_refuted.
