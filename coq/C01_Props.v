(* C01 — property theorems only.  Each is closed by `exact` of a lemma of C01_Proofs.v. *)
From Coq Require Import List NArith Bool String.
From Dae Require Import C01_Spec C01_Model C01_Proofs.
From Dae.gen Require C01_Patch.
Import ListNotations.
Open Scope N_scope.

(* The interface to C11 (domain matching), spelled out: for every domain set the builder registered — array index i,
   key (1 full, 2 suffix, 3 keyword, 4 regex), patterns — bit i of the bitmap the domain matcher returns for the
   packet's domain AS IT ARRIVES (no lookup and no bit when that raw name is empty, exactly as Match tests
   `domain != ""` before calling MatchDomainBitmap; bit read as `i/32 < len && word>>(i%32)&1`) says whether one of
   the patterns holds for the NORMALISED name (lower case, one trailing dot stripped: MatchDomainBitmap normalises
   inside).  A name that normalises to the empty name ("." ) satisfies no domain pattern in the spec. *)
Definition C01_domain_oracle_agrees (p : program) (dm : string -> list N) (pk : packet) : Prop :=
  forall b, lower_program p = Ok b ->
  forall i key vals, In (i, (key, vals)) (b_domsets b) ->
    match (if String.eqb (p_domain pk) "" then None else Some (dm (p_domain pk))) with
    | Some w => bm_bit w i
    | None => false
    end
    = existsb (fun s => domain_holds (dkind_of_key key) s (normalise (p_domain pk)) (p_regex_hits pk)) vals.

(* REFINEMENT.  For every well-formed routing program (any number of rules, &&-conditions, key groups, values,
   negations, must_ prefixes, (must)/(mark) parameters, must_rules, any fallback) and every packet description, the
   code path  patchMustOutbound -> RulesBuilder.Apply + add* callbacks -> BuildUserspace -> RoutingMatcher.Match
   returns exactly the decision of the first-matching-rule reading of the program. *)
Theorem C01_scan_lower :
  forall (p : program) (pk : packet) (dm : string -> list N),
    wf_program p = true -> C01_domain_oracle_agrees p dm pk ->
    model_route p dm pk = Ok (decide p pk).
Proof. exact C01_scan_lower_proof. Qed.
Print Assumptions C01_scan_lower.

(* TOTALITY of the lowering: a well-formed program is never rejected by the builder, and the fallback match-set is
   the last one (BuildUserspace accepts). *)
Theorem C01_lower_total :
  forall p : program, wf_program p = true ->
    exists b mt, lower_program p = Ok b /\ build_userspace b = Ok mt.
Proof. exact C01_lower_total_proof. Qed.
Print Assumptions C01_lower_total.

(* GLUE.  ControlPlane.Route hands Match exactly the packet's fields, with the IP version taken from the destination
   (IPv4 or IPv4-mapped = 4) and the MAC in the low six bytes. *)
Theorem C01_glue :
  forall (mt : matcher) (dm : string -> list N) (pk : packet) (is4 : bool),
    (is4 = true -> N.shiftr (p_dst pk) 32 = 0xffff) ->
    p_ipver pk = (if N.shiftr (p_dst pk) 32 =? 0xffff then V4 else V6) ->
    route_glue mt dm {| ri_src := p_src pk; ri_dst_is4 := is4; ri_dst := p_dst pk; ri_sport := p_sport pk;
                        ri_dport := p_dport pk; ri_l4 := a_l4 (args_of_packet pk); ri_domain := p_domain pk;
                        ri_mac := p_mac pk; ri_pname := p_pname pk; ri_dscp := p_dscp pk |}
    = match_sets mt dm (args_of_packet pk).
Proof. exact C01_glue_proof. Qed.
Print Assumptions C01_glue.

(* MUST_ PREFIX.  The patch of config/patch.go on outbound names, with the strip operation extracted from the source
   (gen/C01_Patch.v: strings.TrimPrefix with the literal "must_", tested by strings.HasPrefix with the same literal):
   for EVERY group name n, `must_n` becomes exactly n with the must flag — whatever letters n begins with — and a name
   without the prefix is left alone; the fallback's strip is the same operation. *)
Theorem C01_must_patch_exact :
  (forall n : string, patch_name (String.append "must_" n) = (n, true)) /\
  (forall s : string, prefix "must_" s = false -> patch_name s = (s, false)) /\
  C01_Patch.patch_has_prefix_arg = "must_"%string /\
  (forall n : string, apply_strip C01_Patch.patch_fallback_strip_op C01_Patch.patch_fallback_strip_arg (String.append "must_" n) = n).
Proof. exact C01_must_patch_exact_proof. Qed.
Print Assumptions C01_must_patch_exact.

(* The same statement is FALSE of strings.TrimLeft(name, "must_") (a cutset, not a prefix): witness us_proxy. *)
Theorem C01_must_patch_trimleft_refuted :
  (exists n : string, patch_name_with C01_Patch.StripTrimLeft "must_" (String.append "must_" n) <> (n, true)) /\
  patch_name_with C01_Patch.StripTrimLeft "must_" "must_us_proxy" = ("proxy"%string, true) /\
  patch_name_with C01_Patch.StripTrimLeft "must_" "must_steam" = ("eam"%string, true).
Proof. exact C01_must_patch_trimleft_refuted_proof. Qed.
Print Assumptions C01_must_patch_trimleft_refuted.

(* The named boundary clauses of the property, restated on the spec so that a weakening of `decide` is visible. *)
Theorem C01_negated_mac_zero :
  forall (c : cond) (pk : packet), c_kind c = FMac -> c_neg c = true -> p_mac pk = 0 -> cond_holds c pk = false.
Proof. exact C01_negated_mac_zero_proof. Qed.
Print Assumptions C01_negated_mac_zero.

Theorem C01_pname_needs_name :
  forall (v : value) (pk : packet), nth 0 (p_pname pk) 0 = 0 -> value_holds FPname v pk = false.
Proof. exact C01_pname_needs_name_proof. Qed.
Print Assumptions C01_pname_needs_name.

Theorem C01_port_bounds :
  forall (lo hi : N) (pk : packet), value_holds FPort (VRange lo hi) pk = true <-> lo <= p_dport pk <= hi.
Proof. exact C01_port_bounds_proof. Qed.
Print Assumptions C01_port_bounds.

Theorem C01_must_sticky :
  forall (gs : list (string * N)) (fb : outbound) (pk : packet) (rs : list rule),
    snd (decide_rules gs rs fb pk true) = true.
Proof. exact C01_must_sticky_proof. Qed.
Print Assumptions C01_must_sticky.

(* Non-vacuity: a three-rule program using all ten functions, negation, must_rules, a must_ prefix and a mark is well
   formed, lowers to 13 match-sets, and is decided at rule 2 (with the must flag carried from rule 1; the name arrives
   in mixed case with a trailing dot), at rule 3 and
   at the fallback by three packets. *)
Example C01_nonvacuous :
  wf_program ex_program = true /\
  decide ex_program (ex_pk 53 "WWW.Example.COM." 1 0xffff01020304 (repeat 0 16) 0) = (2, 16, true) /\
  decide ex_program (ex_pk 53 "www.example.com" 0 0xffff0a010203 ([99; 117; 114; 108] ++ repeat 0 12) 8) = (1, 0, true) /\
  decide ex_program (ex_pk 80 "" 0 0xffff01020304 (repeat 0 16) 0) = (0, 0, false) /\
  (exists b, lower_program ex_program = Ok b /\ List.length (b_rules b) = 13%nat).
Proof. exact C01_nonvacuous_proof. Qed.
