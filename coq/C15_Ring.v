(* C15 — LatenciesN (component/outbound/dialer/latencies_n.go): the ring of the last N latency samples with a running
   sum behind the min_avg10 policy.  Model (code-shaped), spec (sum / average of the last min(len, N) samples fed),
   executable comparison, and lemmas. *)
From Coq Require Import List ZArith Bool Arith Lia.
From Dae Require Import C15_Model.
Import ListNotations.
Open Scope Z_scope.

Record ring := { r_n : nat; r_lats : list Z; r_head : nat; r_sum : Z }.
Definition ring0 (n : nat) : ring := {| r_n := n; r_lats := []; r_head := 0; r_sum := 0 |}.

(* AppendLatency *)
Definition ring_append (r : ring) (l : Z) : ring :=
  if Nat.leb (r_n r) (length (r_lats r)) then
    {| r_n := r_n r; r_lats := set_nth (r_head r) l (r_lats r); r_head := Nat.modulo (S (r_head r)) (r_n r);
       r_sum := r_sum r - nth (r_head r) (r_lats r) 0 + l |}
  else {| r_n := r_n r; r_lats := r_lats r ++ [l]; r_head := r_head r; r_sum := r_sum r + l |}.

(* the rejected variant: overwrite, advance head, THEN subtract latencies[head] *)
Definition ring_append_bad (r : ring) (l : Z) : ring :=
  if Nat.leb (r_n r) (length (r_lats r)) then
    let lats' := set_nth (r_head r) l (r_lats r) in
    let head' := Nat.modulo (S (r_head r)) (r_n r) in
    {| r_n := r_n r; r_lats := lats'; r_head := head'; r_sum := r_sum r - nth head' lats' 0 + l |}
  else {| r_n := r_n r; r_lats := r_lats r ++ [l]; r_head := r_head r; r_sum := r_sum r + l |}.

(* AvgLatency: time.Duration division truncates toward zero *)
Definition ring_avg (r : ring) : option Z :=
  match length (r_lats r) with O => None | S k => Some (Z.quot (r_sum r) (Z.of_nat (S k))) end.

(* LastLatency *)
Definition ring_last (r : ring) : option Z :=
  let cnt := length (r_lats r) in
  match cnt with
  | O => None
  | _ => if Nat.ltb cnt (r_n r) then Some (nth (cnt - 1) (r_lats r) 0)
         else Some (nth (Nat.modulo (r_head r + r_n r - 1) (r_n r)) (r_lats r) 0)
  end.

Definition ring_run (n : nat) (h : list Z) : ring := fold_left ring_append h (ring0 n).

(* ---- spec: in terms of the samples fed ---- *)
Definition lastn {A} (n : nat) (l : list A) : list A := skipn (length l - n) l.
Definition zsum (l : list Z) : Z := fold_right Z.add 0 l.
Definition window (n : nat) (h : list Z) : list Z := lastn (Nat.min (length h) n) h.
Definition spec_avg (n : nat) (h : list Z) : option Z :=
  match length (window n h) with O => None | S k => Some (Z.quot (zsum (window n h)) (Z.of_nat (S k))) end.
Definition spec_last (h : list Z) : option Z := match rev h with [] => None | x :: _ => Some x end.

(* ---- executable comparison: observations after 0, 1, 2, ... appends: (LastLatency, AvgLatency) ----
   codes: 1 impl<>model, 2 impl<>spec, 3 model<>spec *)
Definition oz_eqb (a b : option Z) : bool :=
  match a, b with Some x, Some y => x =? y | None, None => true | _, _ => false end.
Fixpoint ring_check_from (n : nat) (r : ring) (hist rest : list Z) (obs : list (option Z * option Z)) (k : N) : list (N * N) :=
  match obs with
  | [] => []
  | (ol, oa) :: obs' =>
      (if oz_eqb (ring_last r) ol && oz_eqb (ring_avg r) oa then [] else [(k, 1%N)])
      ++ (if oz_eqb (spec_last hist) ol && oz_eqb (spec_avg n hist) oa then [] else [(k, 2%N)])
      ++ (if oz_eqb (ring_last r) (spec_last hist) && oz_eqb (ring_avg r) (spec_avg n hist) then [] else [(k, 3%N)])
      ++ match rest with
         | [] => []
         | x :: rest' => ring_check_from n (ring_append r x) (hist ++ [x]) rest' obs' (k + 1)%N
         end
  end.
Definition ring_check (n : nat) (samples : list Z) (obs : list (option Z * option Z)) : list (N * N) :=
  ring_check_from n (ring0 n) [] samples obs 0%N.

(* ---- lemmas ---- *)
Lemma zsum_app : forall a b, zsum (a ++ b) = zsum a + zsum b.
Proof. induction a as [|x a IH]; intros b; [reflexivity|]. change (x + zsum (a ++ b) = x + zsum a + zsum b). rewrite IH. lia. Qed.

Lemma zsum_set_nth : forall l i x, (i < length l)%nat -> zsum (set_nth i x l) = zsum l - nth i l 0 + x.
Proof.
  induction l as [|y l IH]; intros i x H; [cbn in H; lia|].
  destruct i.
  - change (x + zsum l = y + zsum l - y + x). lia.
  - cbn [length] in H. change (y + zsum (set_nth i x l) = y + zsum l - nth i l 0 + x). rewrite IH by lia. lia.
Qed.

Lemma set_nth_len : forall (l : list Z) i x, length (set_nth i x l) = length l.
Proof. induction l; destruct i; cbn; auto. Qed.

(* the running sum is the sum of the ring's contents, the ring never holds more than N samples, head stays inside *)
Lemma ring_sum_inv : forall n h, (0 < n)%nat ->
  let r := ring_run n h in
  r_sum r = zsum (r_lats r) /\ r_n r = n /\ (length (r_lats r) <= n)%nat /\ (r_head r < n)%nat /\
  length (r_lats r) = Nat.min (length h) n.
Proof.
  intros n h Hn. unfold ring_run.
  assert (G : forall h r, r_sum r = zsum (r_lats r) /\ r_n r = n /\ (length (r_lats r) <= n)%nat /\ (r_head r < n)%nat ->
            forall k, length (r_lats r) = Nat.min k n ->
            let r' := fold_left ring_append h r in
            r_sum r' = zsum (r_lats r') /\ r_n r' = n /\ (length (r_lats r') <= n)%nat /\ (r_head r' < n)%nat /\
            length (r_lats r') = Nat.min (k + length h) n).
  { clear h. induction h as [|x h IH]; intros r (H1 & H2 & H3 & H4) k Hk; cbn.
    - rewrite Nat.add_0_r. auto.
    - replace (k + S (length h))%nat with (S k + length h)%nat by lia.
      apply IH.
      + unfold ring_append. rewrite H2. destruct (Nat.leb n (length (r_lats r))) eqn:E; cbn [r_lats r_sum r_n r_head].
        * apply Nat.leb_le in E. assert (length (r_lats r) = n) by lia.
          rewrite zsum_set_nth by lia. rewrite set_nth_len. rewrite H1. repeat split; auto; try lia.
          apply Nat.mod_upper_bound. lia.
        * apply Nat.leb_gt in E. rewrite zsum_app, app_length. cbn [length zsum fold_right]. rewrite H1. repeat split; auto; lia.
      + unfold ring_append. rewrite H2. destruct (Nat.leb n (length (r_lats r))) eqn:E; cbn [r_lats r_sum r_n r_head].
        * apply Nat.leb_le in E. rewrite set_nth_len. lia.
        * apply Nat.leb_gt in E. rewrite app_length. cbn [length]. lia. }
  specialize (G h (ring0 n)). cbn in G. apply (G ltac:(repeat split; auto; lia) 0%nat). reflexivity.
Qed.

(* the subtract-after-advance variant loses the sum: N = 2, samples 10, 20, 60 *)
Lemma ring_bad_witness :
  let r := fold_left ring_append_bad [10; 20; 60] (ring0 2) in
  r_lats r = [60; 20] /\ r_sum r = 70 /\ zsum (r_lats r) = 80 /\
  ring_avg (ring_run 2 [10; 20; 60]) = Some 40 /\ spec_avg 2 [10; 20; 60] = Some 40.
Proof. vm_compute. repeat split; reflexivity. Qed.
