(* C18 — executable models of the Go standard-library string functions the dial-target code relies on
   (net.SplitHostPort, net.JoinHostPort, strconv.Itoa on a port, strings.HasPrefix/HasSuffix on one
   byte, strings.Trim with cutset "[]", strings.TrimSuffix "."), over byte strings (list N).
   No proofs in this file.  Every function is compared with the real Go function on every case of the
   correspondence run (the harness ships Go's answers with the case). *)
From Coq Require Import List NArith Bool String Ascii.
Import ListNotations.
Open Scope N_scope.

Definition str := list N.

(* readable literals in examples: bs "example.com" *)
Definition bs (s : string) : str := map N_of_ascii (list_ascii_of_string s).

Definition c_colon : N := 58.   (* ':' *)
Definition c_lbr : N := 91.     (* '[' *)
Definition c_rbr : N := 93.     (* ']' *)
Definition c_dot : N := 46.     (* '.' *)
Definition c_pct : N := 37.     (* '%' *)

Fixpoint str_eqb (a b : str) : bool :=
  match a, b with
  | [], [] => true
  | x :: a', y :: b' => (x =? y) && str_eqb a' b'
  | _, _ => false
  end.

Definition contains (c : N) (s : str) : bool := existsb (N.eqb c) s.

(* bytealg.IndexByteString: split at the first occurrence of c (c itself dropped) *)
Fixpoint break_at (c : N) (s : str) : option (str * str) :=
  match s with
  | [] => None
  | x :: r =>
      if x =? c then Some ([], r)
      else match break_at c r with
           | Some (a, b) => Some (x :: a, b)
           | None => None
           end
  end.

(* bytealg.LastIndexByteString: split at the last occurrence of c *)
Fixpoint break_last (c : N) (s : str) : option (str * str) :=
  match s with
  | [] => None
  | x :: r =>
      match break_last c r with
      | Some (a, b) => Some (x :: a, b)
      | None => if x =? c then Some ([], r) else None
      end
  end.

(* net.SplitHostPort.  i = last ':' ; bracket form: the first ']' must sit just before i;
   then no '[' in hostport[j:], no ']' in hostport[k:]. *)
Definition split_host_port (s : str) : option (str * str) :=
  match break_last c_colon s with
  | None => None                                            (* missing port *)
  | Some (before, port) =>
      match s with
      | [] => None
      | x :: tl =>
          if x =? c_lbr then
            match break_at c_rbr tl with
            | None => None                                  (* missing ']' *)
            | Some (host, after) =>                         (* after = hostport[end+1:] *)
                match after with
                | [] => None                                (* end+1 = len: missing port *)
                | c :: p' =>
                    if (c =? c_colon) && negb (contains c_colon p')   (* end+1 = i *)
                    then if contains c_lbr host || contains c_lbr p' then None   (* '[' in hostport[1:] *)
                         else if contains c_rbr p' then None                     (* ']' in hostport[end+1:] *)
                         else Some (host, p')
                    else None                               (* too many colons / missing port *)
                end
            end
          else
            if contains c_colon before then None            (* too many colons *)
            else if contains c_lbr s then None
            else if contains c_rbr s then None
            else Some (before, port)
      end
  end.

(* net.JoinHostPort *)
Definition join_host_port (host port : str) : str :=
  if contains c_colon host then c_lbr :: host ++ [c_rbr; c_colon] ++ port
  else host ++ [c_colon] ++ port.

(* strconv.Itoa of a non-negative number *)
Fixpoint itoa_aux (fuel : nat) (n : N) (acc : str) : str :=
  match fuel with
  | O => acc
  | S f =>
      let acc' := (48 + n mod 10) :: acc in
      if n / 10 =? 0 then acc' else itoa_aux f (n / 10) acc'
  end.
Definition itoa (n : N) : str := itoa_aux 40 n [].

Definition has_prefix1 (c : N) (s : str) : bool :=
  match s with x :: _ => x =? c | [] => false end.
Definition has_suffix1 (c : N) (s : str) : bool :=
  match rev s with x :: _ => x =? c | [] => false end.

(* s[1:len(s)-1] *)
Definition drop_first_last (s : str) : str := removelast (tl s).

(* `if HasPrefix(d,"[") && HasSuffix(d,"]") { d = d[1:len(d)-1] }` — both can hold only for length >= 2,
   so the Go slice expression is always in range. *)
Definition unbracket (s : str) : str :=
  if has_prefix1 c_lbr s && has_suffix1 c_rbr s then drop_first_last s else s.

(* strings.Trim(s, "[]") *)
Definition is_bracket (c : N) : bool := (c =? c_lbr) || (c =? c_rbr).
Fixpoint trim_left_brackets (s : str) : str :=
  match s with
  | x :: r => if is_bracket x then trim_left_brackets r else s
  | [] => []
  end.
Definition trim_brackets (s : str) : str := rev (trim_left_brackets (rev (trim_left_brackets s))).

(* strings.TrimSuffix(s, ".") *)
Definition trim_suffix_dot (s : str) : str :=
  if has_suffix1 c_dot s then removelast s else s.

(* ASCII part of strings.ToLower / strings.TrimSpace (used only for all-ASCII inputs; for other inputs
   the harness supplies Go's answer) *)
Definition ascii_lower (s : str) : str :=
  map (fun c => if (65 <=? c) && (c <=? 90) then c + 32 else c) s.
Definition is_ascii_space (c : N) : bool :=
  (c =? 32) || ((9 <=? c) && (c <=? 13)).
Fixpoint trim_left_space (s : str) : str :=
  match s with
  | x :: r => if is_ascii_space x then trim_left_space r else s
  | [] => []
  end.
Definition ascii_trim_space (s : str) : str := rev (trim_left_space (rev (trim_left_space s))).
Definition is_ascii (s : str) : bool := forallb (fun c => c <? 128) s.

Definition no_brackets (s : str) : bool := negb (contains c_lbr s) && negb (contains c_rbr s).

(* ---- miekg/dns v1.1.72: IsFqdn, Fqdn, CanonicalName (bytes; exact for valid UTF-8 input) ----------- *)
Definition c_bslash : N := 92.  (* '\' *)
Definition c_pipe : N := 124.   (* '|' *)

Fixpoint count_leading (c : N) (s : str) : nat :=
  match s with
  | x :: r => if x =? c then S (count_leading c r) else O
  | [] => O
  end.

(* IsFqdn: trailing dot that is not escaped (an even number of backslashes before it) *)
Definition is_fqdn (s : str) : bool :=
  if has_suffix1 c_dot s then
    let t := removelast s in
    if has_suffix1 c_bslash t then Nat.even (count_leading c_bslash (rev t)) else true
  else false.

Definition fqdn (s : str) : str := if is_fqdn s then s else s ++ [c_dot].

(* CanonicalName: strings.Map(A-Z -> a-z, Fqdn(s)) *)
Definition canonical_name (s : str) : str := ascii_lower (fqdn s).

(* control/dns_control.go: DnsController.cacheKey(qname, qtype) = CanonicalName(qname) + itoa(qtype) *)
Definition cache_key (qname : str) (qtype : N) : str := canonical_name qname ++ itoa qtype.

(* dnsCacheBaseKey: strings.Cut(cacheKey, "|") *)
Definition base_key (k : str) : str :=
  match break_at c_pipe k with Some (a, _) => a | None => k end.
