(* C01 — traffic is routed by the first matching rule, exactly as the rules are written.
   The property in its own terms: a routing program is a list of rules; a rule is an `&&`-list of conditions
   and an outbound; a condition is a function name, an optional `!` and a list of (key, value) alternatives.
   Executable; no reference to match-sets, tries, bitmaps or scan state. *)
From Coq Require Import List NArith Bool String Ascii.
Import ListNotations.
Open Scope N_scope.

Inductive l4proto := TCP | UDP.
Inductive ipver := V4 | V6.

(* A packet description.  Addresses are 128-bit numbers, IPv4 as ::ffff:a.b.c.d.  p_domain is the learned or sniffed
   name as it arrives (any letter case, with or without a trailing dot; "" = no name).  p_regex_hits is oracle
   data: the regex patterns (among those written in the program) that match the normalised name. *)
Record packet := {
  p_src : N; p_dst : N; p_sport : N; p_dport : N;
  p_l4 : l4proto; p_ipver : ipver;
  p_domain : string; p_regex_hits : list string;
  p_pname : list N;      (* 16 bytes, zero padded; first byte 0 = no process known *)
  p_mac : N;             (* 48 bit; 0 = frame without a MAC *)
  p_dscp : N }.

Inductive fkind := FDomain | FIp | FSip | FPort | FSport | FL4 | FIpver | FMac | FPname | FDscp.
Inductive dkind := DFull | DSuffix | DKeyword | DRegex.

Inductive value :=
| VDomain (k : dkind) (s : string)
| VCidr (v4 : bool) (addr : N) (bits : N)   (* addr in 128-bit form; bits counted in its own family *)
| VRange (lo hi : N)
| VProto (p : l4proto)
| VVer (v : ipver)
| VMac (m : N)
| VName (bytes : list N)
| VDscp (d : N).

Record cond := { c_kind : fkind; c_neg : bool; c_params : list (N * value) }.  (* key id, value *)

Inductive oparam := OMark (m : N) | OMust.
Record outbound := { o_name : string; o_params : list oparam }.
Record rule := { r_conds : list cond; r_out : outbound }.
Record program := { pr_rules : list rule; pr_fallback : outbound; pr_groups : list (string * N) }.

(* ---- meaning of one value ---- *)

Definition cidr_contains (v4 : bool) (addr bits x : N) : bool :=
  let n := if v4 then bits + 96 else bits in
  N.shiftr x (128 - n) =? N.shiftr addr (128 - n).

Definition ends_with (d s : string) : bool :=
  let ld := String.length d in let ls := String.length s in
  Nat.leb ls ld && String.eqb (substring (ld - ls) ls d) s.

Definition contains (d k : string) : bool :=
  match index 0 k d with Some _ => true | None => false end.

Definition domain_holds (k : dkind) (s d : string) (hits : list string) : bool :=
  negb (String.eqb d "") &&
  match k with
  | DFull => String.eqb d s
  | DSuffix => if prefix "." s then ends_with d s
               else String.eqb d s || ends_with d (String "." s)
  | DKeyword => contains d s
  | DRegex => existsb (String.eqb s) hits
  end.

(* Names are matched in any letter case and with or without a trailing dot: the name a domain condition is read on
   is strings.ToLower(strings.TrimSuffix(name, ".")) — ASCII lower case, ONE trailing dot stripped. *)
Definition dom_lower_ascii (c : ascii) : ascii :=
  let n := N_of_ascii c in if (65 <=? n) && (n <=? 90) then ascii_of_N (n + 32) else c.
Fixpoint dom_lower (s : string) : string :=
  match s with EmptyString => EmptyString | String c r => String (dom_lower_ascii c) (dom_lower r) end.
Fixpoint dom_strip_dot (s : string) : string :=
  match s with
  | EmptyString => EmptyString
  | String c r => match r with
                  | EmptyString => if Ascii.eqb c "."%char then EmptyString else s
                  | _ => String c (dom_strip_dot r)
                  end
  end.
Definition normalise (s : string) : string := dom_lower (dom_strip_dot s).

Definition pad16 (bs : list N) : list N := firstn 16 (bs ++ repeat 0 16).

Fixpoint list_eqb (a b : list N) : bool :=
  match a, b with
  | [], [] => true
  | x :: a', y :: b' => (x =? y) && list_eqb a' b'
  | _, _ => false
  end.

Definition name_holds (bs : list N) (pn : list N) : bool :=
  negb (nth 0 pn 0 =? 0) && list_eqb (pad16 bs) pn.

Definition l4_eqb (a b : l4proto) : bool :=
  match a, b with TCP, TCP | UDP, UDP => true | _, _ => false end.
Definition ver_eqb (a b : ipver) : bool :=
  match a, b with V4, V4 | V6, V6 => true | _, _ => false end.

Definition value_holds (k : fkind) (v : value) (pk : packet) : bool :=
  match k, v with
  | FDomain, VDomain dk s => domain_holds dk s (normalise (p_domain pk)) (p_regex_hits pk)
  | FIp, VCidr v4 a b => cidr_contains v4 a b (p_dst pk)
  | FSip, VCidr v4 a b => cidr_contains v4 a b (p_src pk)
  | FPort, VRange lo hi => (lo <=? p_dport pk) && (p_dport pk <=? hi)
  | FSport, VRange lo hi => (lo <=? p_sport pk) && (p_sport pk <=? hi)
  | FL4, VProto p => l4_eqb p (p_l4 pk)
  | FIpver, VVer v => ver_eqb v (p_ipver pk)
  | FMac, VMac m => m =? p_mac pk
  | FPname, VName bs => name_holds bs (p_pname pk)
  | FDscp, VDscp d => d =? p_dscp pk
  | _, _ => false
  end.

(* ---- conditions, rules ---- *)

Definition is_mac (k : fkind) : bool := match k with FMac => true | _ => false end.

(* the values of a condition are alternatives; `!` negates the whole condition; a negated MAC condition never
   holds for a frame without a MAC *)
Definition cond_holds (c : cond) (pk : packet) : bool :=
  let any := existsb (fun kv => value_holds (c_kind c) (snd kv) pk) (c_params c) in
  if c_neg c then negb any && negb (is_mac (c_kind c) && (p_mac pk =? 0)) else any.

Definition rule_holds (r : rule) (pk : packet) : bool := forallb (fun c => cond_holds c pk) (r_conds r).

(* ---- outbounds ---- *)

Definition has_must_prefix (s : string) : bool := prefix "must_" s.
Definition strip_must (s : string) : string := substring 5 (String.length s - 5) s.
Definition is_must_rules (o : outbound) : bool := String.eqb (o_name o) "must_rules".

Definition out_group (o : outbound) : string :=
  if has_must_prefix (o_name o) then strip_must (o_name o) else o_name o.
Definition out_mark (o : outbound) : N :=
  fold_left (fun acc p => match p with OMark m => m | OMust => acc end) (o_params o) 0.
Definition out_must (o : outbound) : bool :=
  has_must_prefix (o_name o) || existsb (fun p => match p with OMust => true | _ => false end) (o_params o).

Fixpoint lookup (groups : list (string * N)) (name : string) : option N :=
  match groups with
  | [] => None
  | (n, id) :: rest => if String.eqb n name then Some id else lookup rest name
  end.
Definition gid (groups : list (string * N)) (name : string) : N :=
  match lookup groups name with Some id => id | None => 0 end.

Definition decision := (N * N * bool)%type.   (* outbound group id, fwmark, must *)

(* first matching rule, top to bottom; must_rules only sets the must flag and continues; fallback otherwise *)
Fixpoint decide_rules (groups : list (string * N)) (rules : list rule) (fb : outbound) (pk : packet)
         (must : bool) : decision :=
  match rules with
  | [] => (gid groups (out_group fb), out_mark fb, out_must fb || must)
  | r :: rest =>
    if rule_holds r pk then
      if is_must_rules (r_out r) then decide_rules groups rest fb pk true
      else (gid groups (out_group (r_out r)), out_mark (r_out r), out_must (r_out r) || must)
    else decide_rules groups rest fb pk must
  end.

Definition decide (p : program) (pk : packet) : decision :=
  decide_rules (pr_groups p) (pr_rules p) (pr_fallback p) pk false.

(* ---- well-formed programs (the property's quantifier) ---- *)

Definition value_ok (k : fkind) (key : N) (v : value) : bool :=
  match k, v with
  | FDomain, VDomain dk _ =>
      key =? match dk with DFull => 1 | DSuffix => 2 | DKeyword => 3 | DRegex => 4 end
  | FIp, VCidr v4 a b | FSip, VCidr v4 a b =>
      (a <? 2 ^ 128) && (if v4 then (b <=? 32) && (N.shiftr a 32 =? 0xffff) else b <=? 128)
  | FPort, VRange lo hi | FSport, VRange lo hi => (lo <? 65536) && (hi <? 65536)
  | FL4, VProto _ => true
  | FIpver, VVer _ => true
  | FMac, VMac m => m <? 2 ^ 48
  | FPname, VName bs => forallb (fun b => b <? 256) bs
  | FDscp, VDscp d => d <? 256
  | _, _ => false
  end.

Definition cond_ok (c : cond) : bool :=
  negb (Nat.eqb (List.length (c_params c)) 0) &&
  forallb (fun kv => value_ok (c_kind c) (fst kv) (snd kv)) (c_params c).

Definition outbound_ok (groups : list (string * N)) (is_fallback : bool) (o : outbound) : bool :=
  forallb (fun p => match p with OMark m => m <? 2 ^ 32 | OMust => true end) (o_params o) &&
  ((negb is_fallback && is_must_rules o) ||
   match lookup groups (out_group o) with Some _ => true | None => false end).

Definition rule_ok (groups : list (string * N)) (r : rule) : bool :=
  negb (Nat.eqb (List.length (r_conds r)) 0) && forallb cond_ok (r_conds r) && outbound_ok groups false (r_out r).

(* group ids are user ids, direct or block: below must_rules (0xFC); reserved words are not group names *)
Definition groups_ok (groups : list (string * N)) : bool :=
  forallb (fun g => (snd g <? 0xFC) &&
                    negb (String.eqb (fst g) "must_rules" || String.eqb (fst g) "<OR>" || String.eqb (fst g) "<AND>")) groups.

Definition wf_program (p : program) : bool :=
  groups_ok (pr_groups p) && forallb (rule_ok (pr_groups p)) (pr_rules p) && outbound_ok (pr_groups p) true (pr_fallback p).

(* the property's name alphabet: letters, digits, '-', '_', '.' (a sniffed name with other bytes, e.g. '^', is outside
   the quantifier; the check still compares implementation and model on it) *)
Definition domain_char_ok (c : ascii) : bool :=
  let n := N_of_ascii c in
  ((97 <=? n) && (n <=? 122)) || ((65 <=? n) && (n <=? 90)) || ((48 <=? n) && (n <=? 57)) ||
  (n =? 45) || (n =? 95) || (n =? 46).
Fixpoint domain_alphabet_ok (s : string) : bool :=
  match s with EmptyString => true | String c r => domain_char_ok c && domain_alphabet_ok r end.

Definition wf_packet (pk : packet) : bool :=
  domain_alphabet_ok (p_domain pk) && (p_src pk <? 2 ^ 128) && (p_dst pk <? 2 ^ 128) && (p_sport pk <? 65536) && (p_dport pk <? 65536) &&
  Nat.eqb (List.length (p_pname pk)) 16 && forallb (fun b => b <? 256) (p_pname pk) &&
  (p_mac pk <? 2 ^ 48) && (p_dscp pk <? 256).
