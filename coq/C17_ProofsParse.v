(* C17 — the parser/walker reads the tokens of a well-formed syntax tree back as the configuration it denotes. *)
From Coq Require Import List NArith Bool Lia ZifyBool ZifyN ZifyNat.
From Dae Require Import C17_Spec C17_Model C17_Toks.
Import ListNotations.
Open Scope N_scope.

Notation T := (map stok_tok).

Ltac norm := repeat (rewrite ?map_app, <- ?app_assoc; cbn [map app stok_tok]).
Ltac len H := rewrite ?app_length in H; cbn [length] in H; rewrite ?app_length in H; cbn [length] in H.

(* ------------------------------------------------------------------ first-token predicates *)
Definition lit_tok (t : tok) : Prop := match t with TId _ | TNonId _ | TQuote _ => True | _ => False end.
Definition istart (ts : list tok) : Prop :=
  match ts with (TRBrace | TNot | TId _ | TNonId _ | TQuote _) :: _ => True | _ => False end.
Definition fstart (ts : list tok) : Prop :=
  match ts with TNot :: _ => True | TId _ :: TLParen :: _ => True | _ => False end.
Definition no_colon (ts : list tok) : Prop := match ts with TColon :: _ => False | _ => True end.
Definition no_comma (ts : list tok) : Prop := match ts with TComma :: _ => False | _ => True end.
Definition no_and (ts : list tok) : Prop := match ts with TAnd :: _ => False | _ => True end.
Definition no_lbrack (ts : list tok) : Prop := match ts with TLBrack :: _ => False | _ => True end.
Definition no_lparen (ts : list tok) : Prop := match ts with TLParen :: _ => False | _ => True end.

Lemma istart_follow ts :
  istart ts -> no_colon ts /\ no_comma ts /\ no_and ts /\ no_lbrack ts /\ no_lparen ts.
Proof. destruct ts as [|[] ?]; cbn; intros H; try contradiction; repeat split. Qed.

Lemma fstart_istart ts : fstart ts -> istart ts.
Proof. destruct ts as [|[] ?]; cbn; intros H; try contradiction; exact I. Qed.

Lemma fstart_inv ts : fstart ts -> (exists r, ts = TNot :: r) \/ (exists n r, ts = TId n :: TLParen :: r).
Proof.
  destruct ts as [|[] [|[] ?]]; cbn; intros H; try contradiction;
    solve [left; eexists; reflexivity | right; eexists; eexists; reflexivity].
Qed.

(* ------------------------------------------------------------------ literals and parameters *)
Lemma lit_shape l :
  stok_tok (toks_lit l) = TId (lit_text l) \/ stok_tok (toks_lit l) = TNonId (lit_text l)
  \/ stok_tok (toks_lit l) = TQuote (lit_text l).
Proof.
  destruct l as [[] t]; unfold toks_lit, bare_tok; cbn [lit_q lit_text]; [destruct (is_id t)|..];
    cbn [stok_tok]; auto.
Qed.

Lemma bare_shape n : stok_tok (bare_tok n) = TId n \/ stok_tok (bare_tok n) = TNonId n.
Proof. unfold bare_tok. destruct (is_id n); cbn [stok_tok]; auto. Qed.

Lemma lit_is_lit_tok l : lit_tok (stok_tok (toks_lit l)).
Proof. destruct (lit_shape l) as [E|[E|E]]; rewrite E; exact I. Qed.

Lemma lit_literal l : tok_literal (stok_tok (toks_lit l)) = Some (lit_text l).
Proof. destruct (lit_shape l) as [E|[E|E]]; rewrite E; reflexivity. Qed.

Lemma parse_param_ok p rest :
  no_colon rest -> parse_param (T (toks_param p) ++ rest) = Ok (erase_param p, rest).
Proof.
  intros H. destruct p as [[k|] v]; unfold toks_param, erase_param; cbn [sp_key sp_val map app stok_tok].
  - destruct (lit_shape v) as [E|[E|E]]; rewrite E; reflexivity.
  - destruct (lit_shape v) as [E|[E|E]]; rewrite E.
    + destruct rest as [|[] [|? ?]]; cbn in H; try contradiction; reflexivity.
    + reflexivity.
    + reflexivity.
Qed.

Lemma param_len p : (1 <= length (toks_param p))%nat.
Proof. destruct p as [[k|] v]; cbn; lia. Qed.

Lemma param_head p X : exists t r, T (toks_param p) ++ X = t :: r /\ lit_tok t.
Proof.
  destruct p as [[k|] v]; unfold toks_param; cbn [sp_key sp_val map app stok_tok].
  - eexists; eexists; split; [reflexivity|exact I].
  - eexists; eexists; split; [reflexivity|apply lit_is_lit_tok].
Qed.

Lemma params_head ps X :
  ps <> [] -> exists t r, T (toks_sep TComma toks_param ps) ++ X = t :: r /\ lit_tok t.
Proof.
  destruct ps as [|x [|y r]]; intros H; [contradiction| |].
  - cbn [toks_sep]. apply param_head.
  - change (toks_sep TComma toks_param (x :: y :: r))
      with (toks_param x ++ STok TComma :: toks_sep TComma toks_param (y :: r)).
    rewrite map_app, <- app_assoc. apply param_head.
Qed.

Lemma parse_params_S f ts :
  parse_params (S f) ts =
  match parse_param ts with
  | Ok (p, TComma :: rest) => match parse_params f rest with Ok (ps, r) => Ok (p :: ps, r) | e => e end
  | Ok (p, rest) => Ok ([p], rest)
  | Err => Err | OutOfFuel => OutOfFuel
  end.
Proof. reflexivity. Qed.

Lemma parse_params_ok ps : ps <> [] -> forall fuel rest,
  (length (toks_sep TComma toks_param ps) <= fuel)%nat -> no_colon rest -> no_comma rest ->
  parse_params fuel (T (toks_sep TComma toks_param ps) ++ rest) = Ok (map erase_param ps, rest).
Proof.
  induction ps as [|x r IH]; intros Hne fuel rest Hf Hc Hm; [contradiction|].
  destruct r as [|y r].
  - cbn [toks_sep map] in *. pose proof (param_len x).
    destruct fuel as [|f]; [lia|].
    rewrite parse_params_S, parse_param_ok by assumption.
    destruct rest as [|[] ?]; cbn in Hm; try contradiction; reflexivity.
  - change (toks_sep TComma toks_param (x :: y :: r))
      with (toks_param x ++ STok TComma :: toks_sep TComma toks_param (y :: r)) in *.
    len Hf. norm. destruct fuel as [|f]; [lia|].
    rewrite parse_params_S, parse_param_ok by exact I. cbv beta iota.
    rewrite IH; [reflexivity|discriminate|lia|assumption|assumption].
Qed.

(* ------------------------------------------------------------------ functions *)
Lemma parse_func_shape (neg : bool) name t body fuel : lit_tok t ->
  parse_func fuel ((if neg then [TNot] else []) ++ TId name :: TLParen :: t :: body) =
  match parse_params fuel (t :: body) with
  | Ok (ps, TRParen :: r) => Ok (Some (GFunc name neg ps), r)
  | Ok _ => Err
  | Err => Err | OutOfFuel => OutOfFuel
  end.
Proof. intros H. destruct neg, t; cbn in H; try contradiction; reflexivity. Qed.

Lemma parse_func_ok f fuel rest :
  sf_params f <> [] -> (length (toks_func f) <= fuel)%nat ->
  parse_func fuel (T (toks_func f) ++ rest) = Ok (Some (erase_func f), rest).
Proof.
  destruct f as [neg name ps]; unfold toks_func, erase_func; cbn [sf_not sf_name sf_params].
  intros Hne Hf. len Hf. norm.
  replace (T (if neg then [STok TNot] else [])) with (if neg then [TNot] else [])
    by (destruct neg; reflexivity).
  destruct (params_head ps (TRParen :: rest) Hne) as (t & r & E & Ht).
  rewrite E, (parse_func_shape neg name t r fuel Ht), <- E.
  rewrite parse_params_ok; [reflexivity|assumption|lia|exact I|exact I].
Qed.

Lemma wf_func_ne f : wf_func f = true -> sf_params f <> [].
Proof.
  unfold wf_func. destruct (sf_params f); [|discriminate].
  rewrite andb_false_r. discriminate.
Qed.

Lemma func_start f X : fstart (T (toks_func f) ++ X).
Proof.
  destruct f as [[] name ps]; unfold toks_func; cbn [sf_not sf_name sf_params]; norm; exact I.
Qed.

Lemma func_len f : (1 <= length (toks_func f))%nat.
Proof. unfold toks_func. rewrite app_length. cbn [length]. lia. Qed.

Lemma funcs_start fs X : fs <> [] -> fstart (T (toks_sep TAnd toks_func fs) ++ X).
Proof.
  destruct fs as [|x [|y r]]; intros H; [contradiction| |].
  - cbn [toks_sep]. apply func_start.
  - change (toks_sep TAnd toks_func (x :: y :: r))
      with (toks_func x ++ STok TAnd :: toks_sep TAnd toks_func (y :: r)).
    rewrite map_app, <- app_assoc. apply func_start.
Qed.

Lemma parse_funcs_S f ts :
  parse_funcs (S f) ts =
  match parse_func (S f) ts with
  | Ok (fo, TAnd :: rest) => match parse_funcs f rest with Ok (fs, r) => Ok (fo :: fs, r) | e => e end
  | Ok (fo, rest) => Ok ([fo], rest)
  | Err => Err | OutOfFuel => OutOfFuel
  end.
Proof. reflexivity. Qed.

Lemma parse_funcs_ok fs : fs <> [] -> forall fuel rest,
  forallb wf_func fs = true -> (length (toks_sep TAnd toks_func fs) <= fuel)%nat -> no_and rest ->
  parse_funcs fuel (T (toks_sep TAnd toks_func fs) ++ rest) = Ok (map (fun f => Some (erase_func f)) fs, rest).
Proof.
  induction fs as [|x r IH]; intros Hne fuel rest Hw Hf Ha; [contradiction|].
  cbn [forallb] in Hw. apply andb_prop in Hw. destruct Hw as [Hx Hr].
  destruct r as [|y r].
  - cbn [toks_sep map] in *. pose proof (func_len x).
    destruct fuel as [|f]; [lia|].
    rewrite parse_funcs_S, parse_func_ok by (auto using wf_func_ne).
    destruct rest as [|[] ?]; cbn in Ha; try contradiction; reflexivity.
  - change (toks_sep TAnd toks_func (x :: y :: r))
      with (toks_func x ++ STok TAnd :: toks_sep TAnd toks_func (y :: r)) in *.
    len Hf. norm. destruct fuel as [|f]; [lia|].
    rewrite parse_funcs_S, parse_func_ok by (auto using wf_func_ne; lia). cbv beta iota.
    rewrite IH; [reflexivity|discriminate|assumption|lia|assumption].
Qed.

Lemma all_some_map fs : all_some (map (fun f => Some (erase_func f)) fs) = Some (map erase_func fs).
Proof. induction fs as [|f fs IH]; [reflexivity|]. cbn [map all_some]. rewrite IH. reflexivity. Qed.

(* ------------------------------------------------------------------ literal lists and annotations *)
Lemma parse_lits_S f t rest :
  parse_lits (S f) (t :: rest) =
  match tok_literal t with
  | Some v =>
      match rest with
      | TComma :: rest' => match parse_lits f rest' with Ok (vs, r) => Ok (v :: vs, r) | e => e end
      | _ => Ok ([v], rest)
      end
  | None => Err
  end.
Proof. reflexivity. Qed.

Notation lit1 := (fun l : lit => [toks_lit l]).

Lemma parse_lits_ok ls : ls <> [] -> forall fuel rest,
  (length (toks_sep TComma lit1 ls) <= fuel)%nat -> no_comma rest ->
  parse_lits fuel (T (toks_sep TComma lit1 ls) ++ rest) = Ok (map lit_text ls, rest).
Proof.
  induction ls as [|x r IH]; intros Hne fuel rest Hf Hm; [contradiction|].
  destruct r as [|y r].
  - cbn [toks_sep map app length] in *. destruct fuel as [|f]; [lia|].
    rewrite parse_lits_S, lit_literal.
    destruct rest as [|[] ?]; cbn in Hm; try contradiction; reflexivity.
  - change (toks_sep TComma lit1 (x :: y :: r))
      with ([toks_lit x] ++ STok TComma :: toks_sep TComma lit1 (y :: r)) in *.
    len Hf. norm. destruct fuel as [|f]; [lia|].
    rewrite parse_lits_S, lit_literal.
    rewrite IH; [reflexivity|discriminate|lia|assumption].
Qed.

Lemma lits_head ls X : ls <> [] -> no_lparen X ->
  exists t ts', T (toks_sep TComma lit1 ls) ++ X = t :: ts' /\ lit_tok t /\ no_lparen ts'.
Proof.
  destruct ls as [|x [|y r]]; intros H HX; [contradiction| |].
  - cbn [toks_sep map app]. eexists; eexists; split; [reflexivity|]. split; [apply lit_is_lit_tok|assumption].
  - change (toks_sep TComma lit1 (x :: y :: r))
      with ([toks_lit x] ++ STok TComma :: toks_sep TComma lit1 (y :: r)).
    norm. eexists; eexists; split; [reflexivity|]. split; [apply lit_is_lit_tok|exact I].
Qed.

Lemma parse_annot_nil fuel rest : no_lbrack rest -> parse_annot fuel rest = Ok (Some [], rest).
Proof. destruct rest as [|[] ?]; cbn; intros H; try contradiction; reflexivity. Qed.

Lemma parse_annot_shape fuel t body : lit_tok t ->
  parse_annot fuel (TLBrack :: t :: body) =
  match parse_params fuel (t :: body) with
  | Ok (ps, TRBrack :: r) => Ok (Some ps, r)
  | Ok _ => Err
  | Err => Err | OutOfFuel => OutOfFuel
  end.
Proof. intros H. destruct t; cbn in H; try contradiction; reflexivity. Qed.

Lemma parse_annot_ok a fuel rest :
  (length (toks_annot a) <= fuel)%nat -> no_lbrack rest ->
  parse_annot fuel (T (toks_annot a) ++ rest) = Ok (Some (map erase_param a), rest).
Proof.
  intros Hf Hb. destruct a as [|p a]; [apply parse_annot_nil; assumption|].
  unfold toks_annot in *. len Hf. norm.
  assert (Hne : p :: a <> []) by discriminate.
  destruct (params_head (p :: a) (TRBrack :: rest) Hne) as (t & r & E & Ht).
  rewrite E, (parse_annot_shape fuel t r Ht), <- E.
  rewrite parse_params_ok; [reflexivity|assumption|lia|exact I|exact I].
Qed.

Lemma annot_follow a rest :
  istart rest ->
  no_lparen (T (toks_annot a) ++ rest) /\ no_comma (T (toks_annot a) ++ rest)
  /\ no_and (T (toks_annot a) ++ rest).
Proof.
  intros H. destruct a as [|p a].
  - cbn [toks_annot map app]. destruct (istart_follow rest H) as (_ & ? & ? & _ & ?). auto.
  - unfold toks_annot. cbn [map app stok_tok]. repeat split.
Qed.

Definition after_value (fuel : nat) (mk : list kv -> witem) (r : list tok) : res (witem * list tok) :=
  match parse_annot fuel r with
  | Ok (Some a, r') => Ok (mk a, r')
  | Ok (None, r') => Ok (WBadStop, r')
  | Err => Err | OutOfFuel => OutOfFuel
  end.

Lemma after_value_ok fuel mk a rest :
  (length (toks_annot a) <= fuel)%nat -> no_lbrack rest ->
  after_value fuel mk (T (toks_annot a) ++ rest) = Ok (mk (map erase_param a), rest).
Proof. intros Hf Hb. unfold after_value. rewrite parse_annot_ok by assumption. reflexivity. Qed.

(* ------------------------------------------------------------------ routing rules *)
Definition mk_rule (fos : list (option gfunc)) (o : gfunc) : witem :=
  match all_some fos with Some fs => WItem (GRule fs o) | None => WBad end.

Definition rule_tail (fuel : nat) (fos : list (option gfunc)) (rest : list tok) : res (witem * list tok) :=
  match rest with
  | TNot :: _ | TId _ :: TLParen :: _ =>
      match parse_func fuel rest with
      | Ok (Some o, r) => Ok (mk_rule fos o, r)
      | Ok (None, r) => Ok (WBadStop, r)
      | Err => Err | OutOfFuel => OutOfFuel
      end
  | TId n :: r | TNonId n :: r => Ok (mk_rule fos (GFunc n false []), r)
  | _ => Err
  end.

Lemma parse_rule_unfold fuel ts :
  parse_rule fuel ts =
  match parse_funcs fuel ts with
  | Ok (fos, TArrow :: rest) => rule_tail fuel fos rest
  | Ok _ => Err
  | Err => Err | OutOfFuel => OutOfFuel
  end.
Proof. reflexivity. Qed.

Lemma rule_tail_func fuel fos rest : fstart rest ->
  rule_tail fuel fos rest =
  match parse_func fuel rest with
  | Ok (Some o, r) => Ok (mk_rule fos o, r)
  | Ok (None, r) => Ok (WBadStop, r)
  | Err => Err | OutOfFuel => OutOfFuel
  end.
Proof. destruct rest as [|[] [|[] ?]]; cbn; intros H; try contradiction; reflexivity. Qed.

Lemma rule_tail_id fuel fos n r : istart r ->
  rule_tail fuel fos (TId n :: r) = Ok (mk_rule fos (GFunc n false []), r).
Proof. destruct r as [|[] ?]; cbn; intros H; try contradiction; reflexivity. Qed.

Lemma rule_tail_nonid fuel fos n r :
  rule_tail fuel fos (TNonId n :: r) = Ok (mk_rule fos (GFunc n false []), r).
Proof. reflexivity. Qed.

Lemma parse_rule_ok conds out fuel rest :
  wf_item (IRule conds out) = true -> (length (toks_item (IRule conds out)) <= fuel)%nat -> istart rest ->
  parse_rule fuel (T (toks_item (IRule conds out)) ++ rest) = Ok (WItem (erase_item (IRule conds out)), rest).
Proof.
  cbn [wf_item toks_item erase_item]. intros Hw Hf Hs.
  apply andb_prop in Hw. destruct Hw as [Hw Ho]. apply andb_prop in Hw. destruct Hw as [Hn Hc].
  assert (Hne : conds <> []) by (destruct conds; [discriminate Hn|discriminate]).
  len Hf. norm. rewrite parse_rule_unfold.
  rewrite parse_funcs_ok; [|assumption|assumption|lia|exact I]. cbv beta iota.
  destruct out as [n|f]; cbn [toks_outbound wf_outbound] in *.
  - cbn [map app length] in *. unfold mk_rule.
    destruct (bare_shape n) as [E|E]; rewrite E.
    + rewrite rule_tail_id by assumption. unfold mk_rule. rewrite all_some_map. reflexivity.
    + rewrite rule_tail_nonid. unfold mk_rule. rewrite all_some_map. reflexivity.
  - rewrite rule_tail_func by apply func_start.
    rewrite parse_func_ok; [|apply wf_func_ne; assumption|lia].
    unfold mk_rule. rewrite all_some_map. reflexivity.
Qed.

(* ------------------------------------------------------------------ declarations *)
Definition decl_funcs_res (fuel : nat) (key : str) (fos : list (option gfunc)) (r : list tok) :=
  match fos with
  | None :: _ => after_value fuel (fun _ => WBadStop) r
  | _ => match all_some fos with
         | Some fs => after_value fuel (fun a => WItem (GParamI (GParam key [] fs a))) r
         | None => after_value fuel (fun _ => WBad) r
         end
  end.

Lemma parse_decl_funcs fuel key ts : fstart ts ->
  parse_decl fuel key ts =
  match parse_funcs fuel ts with
  | Ok (fos, r) => decl_funcs_res fuel key fos r
  | Err => Err | OutOfFuel => OutOfFuel
  end.
Proof. destruct ts as [|[] [|[] ?]]; cbn; intros H; try contradiction; reflexivity. Qed.

Lemma parse_decl_lits fuel key t ts' : lit_tok t -> no_lparen ts' ->
  parse_decl fuel key (t :: ts') =
  match parse_lits fuel (t :: ts') with
  | Ok (vs, r) => after_value fuel (fun a => WItem (GParamI (GParam key (join_comma vs) [] a))) r
  | Err => Err | OutOfFuel => OutOfFuel
  end.
Proof.
  intros Ht Hp. destruct t; cbn in Ht; try contradiction; try reflexivity.
  destruct ts' as [|[] ?]; cbn in Hp; try contradiction; reflexivity.
Qed.

Lemma decl_funcs_res_ok fuel key fs r : fs <> [] ->
  decl_funcs_res fuel key (map (fun f => Some (erase_func f)) fs) r =
  after_value fuel (fun a => WItem (GParamI (GParam key [] (map erase_func fs) a))) r.
Proof.
  intros H. destruct fs as [|f fs]; [contradiction|].
  unfold decl_funcs_res. rewrite all_some_map. reflexivity.
Qed.

Lemma parse_decl_ok k v a fuel rest :
  wf_value v = true -> (length (toks_value v ++ toks_annot a) <= fuel)%nat -> istart rest ->
  parse_decl fuel k (T (toks_value v ++ toks_annot a) ++ rest) = Ok (WItem (erase_item (IDecl k v a)), rest).
Proof.
  intros Hw Hf Hs. len Hf. norm.
  destruct (annot_follow a rest Hs) as (Hp & Hc & Ha).
  destruct (istart_follow rest Hs) as (_ & _ & _ & Hb & _).
  destruct v as [ls|fs]; cbn [wf_value toks_value erase_item] in *;
    apply andb_prop in Hw; destruct Hw as [Hn Hw].
  - assert (Hne : ls <> []) by (destruct ls; [discriminate Hn|discriminate]).
    destruct (lits_head ls _ Hne Hp) as (t & ts' & E & Ht & Hp').
    rewrite E, (parse_decl_lits fuel k t ts' Ht Hp'), <- E.
    rewrite parse_lits_ok; [|assumption|lia|assumption]. cbv beta iota.
    rewrite after_value_ok; [reflexivity|lia|assumption].
  - assert (Hne : fs <> []) by (destruct fs; [discriminate Hn|discriminate]).
    rewrite parse_decl_funcs by (apply funcs_start; assumption).
    rewrite parse_funcs_ok; [|assumption|assumption|lia|assumption]. cbv beta iota.
    rewrite decl_funcs_res_ok by assumption.
    rewrite after_value_ok; [reflexivity|lia|assumption].
Qed.

(* ------------------------------------------------------------------ items *)
Definition cont (f : nat) (x : res (witem * list tok)) : res (list witem * list tok) :=
  match x with
  | Ok (i, r) => match parse_items f r with Ok (is, r') => Ok (i :: is, r') | e => e end
  | Err => Err | OutOfFuel => OutOfFuel
  end.

Lemma parse_items_rbrace f r : parse_items (S f) (TRBrace :: r) = Ok ([], TRBrace :: r).
Proof. reflexivity. Qed.

Lemma parse_items_rule f ts : fstart ts -> parse_items (S f) ts = cont f (parse_rule (S f) ts).
Proof. destruct ts as [|[] [|[] ?]]; cbn [fstart]; intros H; try contradiction; reflexivity. Qed.

Lemma parse_items_decl f k rest :
  parse_items (S f) (TId k :: TColon :: rest) = cont f (parse_decl (S f) k rest).
Proof. reflexivity. Qed.

Lemma parse_items_sec f n rest :
  parse_items (S f) (TId n :: TLBrace :: rest) =
  match parse_items f rest with
  | Ok (is, TRBrace :: r) =>
      cont f (Ok (match walk_items is with
                  | WOk gi => WItem (GSection n gi)
                  | WErr => WBad
                  | WCrashed => WCrash
                  end, r))
  | Ok _ => Err
  | Err => Err | OutOfFuel => OutOfFuel
  end.
Proof. reflexivity. Qed.

Lemma parse_items_lit f t v rest : lit_tok t -> tok_literal t = Some v -> istart rest ->
  parse_items (S f) (t :: rest) = cont f (Ok (WItem (GParamI (GParam [] v [] [])), rest)).
Proof.
  intros Hl Hv Hs. destruct t; cbn [lit_tok] in Hl; try contradiction; cbn [tok_literal] in Hv;
    injection Hv as <-; try reflexivity.
  destruct rest as [|[] ?]; cbn [istart] in Hs; try contradiction; reflexivity.
Qed.

Lemma walk_items_ok l : walk_items (map (fun i => WItem (erase_item i)) l) = WOk (map erase_item l).
Proof. induction l as [|i l IH]; [reflexivity|]. cbn [map walk_items]. rewrite IH. reflexivity. Qed.

Lemma item_start i X : wf_item i = true -> istart (T (toks_item i) ++ X).
Proof.
  destruct i as [c o|k v a|l|n items]; cbn [wf_item toks_item]; intros H; norm; try exact I.
  - apply andb_prop in H. destruct H as [H _]. apply andb_prop in H. destruct H as [Hn _].
    apply fstart_istart, funcs_start. destruct c; [discriminate Hn|discriminate].
  - destruct (lit_shape l) as [E|[E|E]]; rewrite E; exact I.
Qed.

Lemma item_len i : (1 <= length (toks_item i))%nat.
Proof.
  destruct i as [c o|k v a|l|n items]; cbn [toks_item length]; rewrite ?app_length; cbn [length]; lia.
Qed.

Lemma items_start l X :
  forallb wf_item l = true -> istart (T (flat_map toks_item l) ++ TRBrace :: X).
Proof.
  destruct l as [|i l]; cbn [forallb flat_map]; intros H; [exact I|].
  apply andb_prop in H. destruct H as [H _]. rewrite map_app, <- app_assoc. apply item_start; assumption.
Qed.

Definition Pi (i : sitem) : Prop :=
  wf_item i = true -> forall f rest, (length (toks_item i) <= S f)%nat -> istart rest ->
  parse_items (S f) (T (toks_item i) ++ rest) = cont f (Ok (WItem (erase_item i), rest)).
Definition Ql (l : list sitem) : Prop :=
  forallb wf_item l = true -> forall fuel rest, (length (flat_map toks_item l) < fuel)%nat ->
  parse_items fuel (T (flat_map toks_item l) ++ TRBrace :: rest)
  = Ok (map (fun i => WItem (erase_item i)) l, TRBrace :: rest).

Lemma parse_item_ok : forall i, Pi i.
Proof.
  apply (sitem_rect' Pi Ql); unfold Pi, Ql.
  - intros c o Hw f rest Hf Hs.
    rewrite parse_items_rule by (apply fstart_istart || idtac; cbn [toks_item]; norm; apply funcs_start;
      cbn [wf_item] in Hw; apply andb_prop in Hw; destruct Hw as [Hw _]; apply andb_prop in Hw;
      destruct Hw as [Hn _]; destruct c; [discriminate Hn|discriminate]).
    rewrite parse_rule_ok by assumption. reflexivity.
  - intros k v a Hw f rest Hf Hs. cbn [wf_item] in Hw.
    apply andb_prop in Hw. destruct Hw as [Hw _]. apply andb_prop in Hw. destruct Hw as [_ Hv].
    cbn [toks_item map app stok_tok length] in *.
    rewrite parse_items_decl. rewrite parse_decl_ok; [reflexivity|assumption|lia|assumption].
  - intros l Hw f rest Hf Hs. cbn [toks_item map app erase_item].
    apply parse_items_lit; [apply lit_is_lit_tok|apply lit_literal|assumption].
  - intros n items IH Hw f rest Hf Hs. cbn [wf_item] in Hw.
    apply andb_prop in Hw. destruct Hw as [_ Hw].
    cbn [toks_item erase_item] in *. len Hf. norm.
    rewrite parse_items_sec, (IH Hw f rest) by lia. cbv beta iota.
    rewrite walk_items_ok. reflexivity.
  - intros _ fuel rest Hf. destruct fuel; [lia|]. reflexivity.
  - intros i r Hi Hr Hw fuel rest Hf. cbn [forallb flat_map] in *.
    apply andb_prop in Hw. destruct Hw as [Hwi Hwr]. len Hf. pose proof (item_len i).
    destruct fuel as [|f]; [lia|]. norm.
    rewrite (Hi Hwi f) by (lia || (apply items_start; assumption)).
    unfold cont. rewrite (Hr Hwr f rest) by lia. reflexivity.
Qed.

Lemma parse_items_ok l : Ql l.
Proof.
  induction l as [|i r Hr]; unfold Ql in *.
  - intros _ fuel rest Hf. destruct fuel; [lia|]. reflexivity.
  - intros Hw fuel rest Hf. cbn [forallb flat_map] in *.
    apply andb_prop in Hw. destruct Hw as [Hwi Hwr]. len Hf. pose proof (item_len i).
    destruct fuel as [|f]; [lia|]. norm.
    rewrite (parse_item_ok i Hwi f) by (lia || (apply items_start; assumption)).
    unfold cont. rewrite (Hr Hwr f rest) by lia. reflexivity.
Qed.

(* ------------------------------------------------------------------ sections *)
Lemma parse_sections_S f n rest :
  parse_sections (S f) (TId n :: TLBrace :: rest) =
  match parse_items (S f) rest with
  | Ok (is, TRBrace :: r) =>
      match parse_sections f r with Ok ss => Ok ((n, walk_items is) :: ss) | e => e end
  | Ok _ => Err
  | Err => Err | OutOfFuel => OutOfFuel
  end.
Proof. reflexivity. Qed.

Lemma parse_sections_ok c : wf_config c = true -> forall fuel, (length (toks_config c) < fuel)%nat ->
  parse_sections fuel (T (toks_config c)) = Ok (map (fun s => (fst s, WOk (map erase_item (snd s)))) c).
Proof.
  unfold wf_config, toks_config. induction c as [|s c IH]; intros Hw fuel Hf.
  - destruct fuel; [lia|]. reflexivity.
  - cbn [forallb flat_map] in *. apply andb_prop in Hw. destruct Hw as [Hs Hc].
    unfold wf_section in Hs. apply andb_prop in Hs. destruct Hs as [_ Hi].
    unfold toks_section in *. len Hf. norm.
    destruct fuel as [|f]; [lia|].
    rewrite parse_sections_S, (parse_items_ok (snd s) Hi) by lia. cbv beta iota.
    rewrite (IH Hc f) by lia. rewrite walk_items_ok. reflexivity.
Qed.

Lemma walk_sections_ok c :
  walk_sections (map (fun s => (fst s, WOk (map erase_item (snd s)))) c) = WOk (denote c).
Proof.
  unfold denote. induction c as [|s c IH]; [reflexivity|].
  cbn [map walk_sections]. rewrite IH. reflexivity.
Qed.

Lemma parse_toks : forall c : sconfig, wf_config c = true ->
  parse_tokens (map stok_tok (toks_config c)) = POk (denote c).
Proof.
  intros c Hw. unfold parse_tokens.
  rewrite (parse_sections_ok c Hw) by (rewrite map_length; lia).
  rewrite walk_sections_ok. reflexivity.
Qed.
