(* C03 — property theorems only.  Each is closed by `exact` of a lemma of C03_Proofs.v. *)
From Coq Require Import List NArith ZArith Bool.
From Dae Require Import C03_Spec C03_Model C03_Proofs C03_ParseProofs C03_BytesProofs C03_SeqProofs C03_HookProofs C03_FreshProofs C03_RecoverProofs C03_JanSpec C03_JanModel C03_JanProofs C03_RangeProofs.
From Dae.gen Require Import C03_Consts C03_Layout C03_Janitor.
Import ListNotations.
Open Scope N_scope.

(* "No verdict depends on which of the two header-parsing paths handled the frame": for every link type,
   skb protocol, frame (any list of bytes, any length) and linear length on which the direct-access path does
   not ask for the fallback, both paths agree on everything a hook reads ... *)
Theorem C03_parse_paths_agree : parse_paths_agree_stmt proj.
Proof. exact parse_paths_agree_proof. Qed.
Print Assumptions C03_parse_paths_agree.

(* ... in fact the whole parse result is the same, so every hook returns the same result and state whatever
   the linear length and whether or not bpf_skb_pull_data fails. *)
Theorem C03_verdict_path_independent :
  forall P st hk e eth proto pf lin pf' lin' f,
    run_hook P st (mk_step hk e eth proto pf lin f) = run_hook P st (mk_step hk e eth proto pf' lin' f).
Proof. exact path_independent_proof. Qed.
Print Assumptions C03_verdict_path_independent.

(* Packets sent by dae itself (its pid, its socket mark, or mark bit 0x100) are never captured again. *)
Theorem C03_no_recapture :
  forall P e st ret pk,
    e_ingress_if e = 0 -> ret = 0%Z -> pid_is_control_plane P e = true ->
    (pp_l4 pk = IPPROTO_UDP \/ (pp_l4 pk = IPPROTO_TCP /\ tcp_flags_new (pp_tcp pk) = true)) ->
    let h := wan_egress P e st (ret, Some pk) in
    h_act h = TC_ACT_OK /\ h_mark h = None /\ h_st h = st.
Proof. exact no_recapture_proof. Qed.
Print Assumptions C03_no_recapture.

(* The timeouts and enum values in the source are the documented ones. *)
Theorem C03_constants_documented :
  TCP_CONN_STATE_ESTABLISHED_TIMEOUT_NS = DOC_TCP_IDLE_NS /\ TCP_CONN_STATE_CLOSING_TIMEOUT_NS = DOC_TCP_CLOSING_NS /\
  UDP_CONN_STATE_TIMEOUT_NS = DOC_UDP_IDLE_NS /\ TCP_CONN_STATE_UPDATE_INTERVAL_NS = DOC_REFRESH_NS /\
  UDP_CONN_STATE_UPDATE_INTERVAL_NS = DOC_REFRESH_NS /\ GO_HANDOFF_TIMEOUT_NS = DOC_HANDOFF_NS /\
  OUTBOUND_DIRECT = OUT_DIRECT /\ OUTBOUND_BLOCK = OUT_BLOCK /\
  GO_SLOTS_PER_OUTBOUND = 6 /\ GO_SLOTS_PER_DOMAIN * GO_DOMAIN_DATA_UDP = 4 /\ CONNECTIVITY_ENTRIES = 1536.
Proof. exact constants_documented_proof. Qed.
Print Assumptions C03_constants_documented.

(* The record layouts reported by clang and by the Go compiler agree with each other and with the offsets
   the byte-level model uses. *)
Theorem C03_layouts_agree :
  C_LAYOUT_conn_state = GO_LAYOUT_conn_state /\ C_LAYOUT_handoff = GO_LAYOUT_handoff /\ C_LAYOUT_tuples_key = GO_LAYOUT_tuples_key /\
  C_LAYOUT_conn_state = MODEL_LAYOUT_conn_state /\ C_LAYOUT_handoff = MODEL_LAYOUT_handoff /\ C_LAYOUT_tuples_key = MODEL_LAYOUT_tuples_key.
Proof. exact layouts_agree_proof. Qed.
Print Assumptions C03_layouts_agree.

(* One-step verdicts of a tracked TCP flow at LAN ingress, for ALL states, packets and environments: a TCP
   packet that is not a pure SYN never consults the rule program; untracked (or expired) it passes; tracked
   without a decision (reply of a WAN-originated connection) it passes untouched; tracked with a decision it
   gets that decision's verdict: direct passes with the rule's mark, block drops, a group whose health bit is
   down drops (port 53 aside), any other group is redirected to dae with listener hint and a handoff record
   carrying exactly the stored outbound, mark, must, DSCP and the source MAC. *)
Theorem C03_lan_tcp_tracked_verdicts :
  forall P e st pk,
    pp_l4 pk = IPPROTO_TCP -> tcp_flags_new (pp_tcp pk) = false ->
    let tr := mark_tcp_seen (ks_conn st) (pp_key pk) false false (tcp_flags_finrst (pp_tcp pk)) no_args (e_now e) in
    let st1 := mk_ks (snd tr) (ks_hand st) in
    let h := lan_ingress P e st (0%Z, Some pk) in
    h_query h = None /\
    match fst tr with
    | None => h_act h = TC_ACT_OK /\ h_mark h = None /\ h_st h = st1
    | Some s =>
        if cs_has s =? 0 then h_act h = TC_ACT_OK /\ h_mark h = None /\ h_st h = st1
        else if cs_out s =? OUTBOUND_DIRECT then h_act h = TC_ACT_OK /\ h_mark h = Some (cs_mark s) /\ h_st h = st1
        else if cs_out s =? OUTBOUND_BLOCK then h_act h = TC_ACT_SHOT /\ h_st h = st1
        else if negb (wan_outbound_is_alive e (cs_out s) IPPROTO_TCP (k_dport (pp_key pk))) then h_act h = TC_ACT_SHOT /\ h_st h = st1
        else h_act h = TC_ACT_REDIRECT /\ h_cb h = Some (TPROXY_MARK, pp_listener pk) /\ h_peer h = P_peer P /\
             ks_conn (h_st h) = snd tr /\
             tab_get (ks_hand (h_st h)) (pp_key pk) =
               Some (mk_he (e_now e) (mk_rr (cs_mark s) (cs_must s) (pp_hsource pk) (cs_out s) 0 0 (cs_dscp s)))
    end.
Proof. exact lan_tcp_established_proof. Qed.
Print Assumptions C03_lan_tcp_tracked_verdicts.

(* The same at WAN egress (locally originated traffic): direct without mark passes, block and dead groups
   drop, everything else - including direct with a mark - goes to dae. *)
Theorem C03_wan_tcp_tracked_verdicts :
  forall P e st pk,
    e_ingress_if e = 0 -> pp_l4 pk = IPPROTO_TCP -> tcp_flags_new (pp_tcp pk) = false ->
    let tr := mark_tcp_seen (ks_conn st) (pp_key pk) false false (tcp_flags_finrst (pp_tcp pk)) no_args (e_now e) in
    let st1 := mk_ks (snd tr) (ks_hand st) in
    let h := wan_egress P e st (0%Z, Some pk) in
    h_query h = None /\
    match fst tr with
    | None => h_act h = TC_ACT_OK /\ h_st h = st1
    | Some s =>
        if cs_has s =? 0 then h_act h = TC_ACT_OK /\ h_st h = st1
        else if (cs_out s =? OUTBOUND_DIRECT) && (cs_mark s =? 0) then h_act h = TC_ACT_OK /\ h_st h = st1
        else if cs_out s =? OUTBOUND_BLOCK then h_act h = TC_ACT_SHOT /\ h_st h = st1
        else if negb (wan_outbound_is_alive e (cs_out s) IPPROTO_TCP (k_dport (pp_key pk))) then h_act h = TC_ACT_SHOT /\ h_st h = st1
        else h_act h = TC_ACT_REDIRECT /\ h_cb h = Some (TPROXY_MARK, 0) /\ h_peer h = false /\ ks_conn (h_st h) = snd tr
    end.
Proof. exact wan_tcp_established_proof. Qed.
Print Assumptions C03_wan_tcp_tracked_verdicts.

(* Sticky decision, TCP: whatever rule program is installed when a later packet of a TCP connection arrives
   (any state, any packet that is not a pure SYN), both hooks return exactly the same result and state. *)
Theorem C03_sticky_decision_tcp :
  forall P e f st pk,
    pp_l4 pk = IPPROTO_TCP -> tcp_flags_new (pp_tcp pk) = false ->
    lan_ingress P (with_route e f) st (0%Z, Some pk) = lan_ingress P e st (0%Z, Some pk) /\
    wan_egress P (with_route e f) st (0%Z, Some pk) = wan_egress P e st (0%Z, Some pk).
Proof. exact C03_sticky_decision_tcp_glue. Qed.
Print Assumptions C03_sticky_decision_tcp.

(* ... and tracking ends only by a pure SYN or the idle timeout: any other packet of the flow, seen by any of
   the four hooks, keeps an unexpired entry with its whole stored decision. *)
Theorem C03_tcp_tracking_persists :
  forall m k wan_in fin_rst now s,
    tab_get m k = Some s -> tcp_conn_state_expired s now = false ->
    exists s', fst (mark_tcp_seen m k wan_in false fin_rst no_args now) = Some s' /\
               cs_has s' = cs_has s /\ cs_out s' = cs_out s /\ cs_mark s' = cs_mark s /\ cs_must s' = cs_must s /\
               cs_mac s' = cs_mac s /\ cs_pname s' = cs_pname s /\ cs_pid s' = cs_pid s /\ cs_dscp s' = cs_dscp s.
Proof. exact tcp_tracking_persists_proof. Qed.
Print Assumptions C03_tcp_tracking_persists.

(* Sticky decision, UDP.  FULL statement for locally originated flows: after a first packet decided by the
   rules, the verdict of a second packet of the still tracked flow does not depend on the rules. *)
Definition C03_sticky_decision_udp_full : Prop := wan_udp_sticky_full.
(* False of the faithful model (and of the code): a "direct, no mark, not must" decision is not stored at WAN
   egress, so the flow is routed afresh by every packet. *)
Theorem C03_sticky_decision_udp_refuted : ~ C03_sticky_decision_udp_full.
Proof. exact wan_udp_sticky_refuted_proof. Qed.
Print Assumptions C03_sticky_decision_udp_refuted.
(* What holds: once a decision is stored for a tracked UDP flow (always at LAN ingress; at WAN egress for
   every decision other than "direct, no mark, not must"), both hooks ignore the rule program. *)
Theorem C03_sticky_decision_udp_partial :
  forall P e f st pk,
    pp_l4 pk = IPPROTO_UDP -> is_short_lived_udp_traffic (pp_key pk) = false ->
    (cs_has (fst (mark_udp_seen (ks_conn st) (pp_key pk) false (mk_args None None None (pp_dscp pk) 0) (e_now e))) =? 0 = false ->
     lan_ingress P (with_route e f) st (0%Z, Some pk) = lan_ingress P e st (0%Z, Some pk)) /\
    (cs_has (fst (mark_udp_seen (ks_conn st) (pp_key pk) false no_args (e_now e))) =? 0 = false ->
     wan_egress P (with_route e f) st (0%Z, Some pk) = wan_egress P e st (0%Z, Some pk)).
Proof. exact C03_sticky_decision_udp_partial_glue. Qed.
Print Assumptions C03_sticky_decision_udp_partial.

(* Sticky decision over packet sequences (TCP): take any state in which flow k has a stored decision d, and any
   finite sequence of packets - any hooks, any flows, interleaved in any order, any link type / parse path, the
   rule program, health bits and clock of every step arbitrary - in which no packet is a pure SYN of flow k (in
   either direction) and no packet of flow k finds its entry idle beyond the timeout (120 s, 10 s after FIN/RST).
   Then flow k still has exactly the decision d afterwards ... *)
Theorem C03_sticky_decision :
  forall P steps st k d,
    k_proto k = IPPROTO_TCP -> dec_of (ks_conn st) k = Some d -> quiet_all P st steps k ->
    dec_of (ks_conn (run_steps P st steps)) k = Some d.
Proof. exact sticky_sequence_proof. Qed.
Print Assumptions C03_sticky_decision.

(* ... the decision d is the one the rule program gave for the connection's SYN at LAN ingress ... *)
Theorem C03_sticky_decision_first_packet :
  forall P e st pk,
    pp_l4 pk = IPPROTO_TCP -> tcp_flags_new (pp_tcp pk) = true ->
    (0 <= e_route e (rquery_of e pk false 0))%Z ->
    dec_of (ks_conn (h_st (lan_ingress P e st (0%Z, Some pk)))) (pp_key pk) = Some (unpack (e_route e (rquery_of e pk false 0))).
Proof. exact lan_syn_stores_proof. Qed.
Print Assumptions C03_sticky_decision_first_packet.

(* ... and the next packet of the flow gets the verdict of d at either forward hook, without the rule program
   being consulted: direct passes (LAN: with the rule's mark), block drops, a dead group drops, any other group
   is redirected to dae (LAN: with a handoff record carrying outbound, mark, must and the source MAC). *)
Theorem C03_sticky_decision_verdict :
  forall P e st pk d,
    pp_l4 pk = IPPROTO_TCP -> tcp_flags_new (pp_tcp pk) = false ->
    dec_of (ks_conn st) (pp_key pk) = Some d -> unexpired st (pp_key pk) (e_now e) ->
    lan_follows P e pk d (lan_ingress P e st (0%Z, Some pk)) /\
    (e_ingress_if e = 0 -> wan_follows e pk d (wan_egress P e st (0%Z, Some pk))).
Proof. exact C03_sticky_decision_verdict_glue. Qed.
Print Assumptions C03_sticky_decision_verdict.

(* The per-flow record through the bytes: what C stores in struct conn_state / struct routing_handoff_entry, read
   back at the Go offsets of bpfConnState / bpfRoutingHandoffEntry, is the record itself; the Go key bytes of
   bpfTuplesKeyFromAddrPorts are the C key bytes (and distinct flows have distinct keys); hence
   RetrieveRoutingResult on the raw map bytes returns what it returns on the records. *)
Theorem C03_handoff_roundtrip :
  (forall s, wf_cstate s -> go_conn_decode (c_conn_bytes s) = s) /\
  (forall h, wf_hentry h -> go_hand_decode (c_hand_bytes h) = h) /\
  (forall k, go_key_bytes (k_sip k) (k_dip k) (k_sport k) (k_dport k) (k_proto k) = c_key_bytes k) /\
  (forall a b, wf_key a -> wf_key b -> c_key_bytes a = c_key_bytes b -> a = b) /\
  (forall st k now,
      (forall s, tab_get (ks_conn st) k = Some s -> wf_cstate s) ->
      (forall h, tab_get (ks_hand st) k = Some h -> wf_hentry h) ->
      go_retrieve_bytes st k now = go_retrieve st k now).
Proof. exact C03_handoff_roundtrip_glue. Qed.
Print Assumptions C03_handoff_roundtrip.

(* Refinement: for every state in which stateless datagrams are untracked (an invariant of the hooks), every
   environment and every frame handled by either parse path, the LAN-ingress and WAN-egress hook models return
   the verdict of the specification (spec_lan_ingress / spec_wan_egress as built) on the reference parse of the
   frame, the control plane recovers exactly the specification's per-flow record (ToDae ... r), and the table
   of tracked flows evolves as the specification says; the reverse-direction hooks only maintain the table. *)
Theorem C03_hooks_refine_spec :
  forall P e st eth proto pf lin f,
    inv st -> 0 < e_now e ->
    let r := parse_transport eth proto pf lin f in
    let p := classify (parse_slow eth proto f) in
    let t := abs_conn (ks_conn st) in
    (let h := lan_ingress P e st (parse_packet r) in
     observe h (p_key p) (e_now e) = fst (spec_lan_ingress P e t p) /\
     abs_conn (ks_conn (h_st h)) = snd (spec_lan_ingress P e t p) /\ inv (h_st h)) /\
    (let h := wan_egress P e st (parse_packet r) in
     observe h (p_key p) (e_now e) = fst (spec_wan_egress false P e t p) /\
     abs_conn (ks_conn (h_st h)) = snd (spec_wan_egress false P e t p) /\ inv (h_st h)) /\
    (forall le, let h := reverse_hook le e st r in
     abs_conn (ks_conn (h_st h)) = spec_reverse_hook e t p /\ inv (h_st h) /\ ks_hand (h_st h) = ks_hand st).
Proof. exact C03_hooks_refine_spec_glue. Qed.
Print Assumptions C03_hooks_refine_spec.

(* Freshly routed packets: the first packet (pure SYN) of a TCP connection, routed by the installed rule
   program to decision d, in any state and environment, on any frame and parse path.  [lan]/[wan] below are the
   observed verdicts at LAN ingress and (for locally originated packets not sent by dae) at WAN egress. *)
(* direct passes: forwarded traffic with the rule's mark set; local traffic without mark untouched *)
Theorem C03_direct_passes :
  forall P e st eth proto pf lin f d,
    inv st -> 0 < e_now e -> fresh_syn eth proto f ->
    let p := classify (parse_slow eth proto f) in
    d_out d = OUT_DIRECT ->
    (decide (e_route e (query e p false)) = Some d -> fresh_lan P e st eth proto pf lin f = Pass (Some (d_mark d))) /\
    (wan_local P e -> decide (e_route e (query e p true)) = Some d -> d_mark d = 0 ->
     fresh_wan P e st eth proto pf lin f = Pass (Some 0)).
Proof. exact C03_direct_passes_glue. Qed.
Print Assumptions C03_direct_passes.

(* block drops *)
Theorem C03_block_drops :
  forall P e st eth proto pf lin f d,
    inv st -> 0 < e_now e -> fresh_syn eth proto f ->
    let p := classify (parse_slow eth proto f) in
    d_out d = OUT_BLOCK ->
    (decide (e_route e (query e p false)) = Some d -> fresh_lan P e st eth proto pf lin f = Drop) /\
    (wan_local P e -> decide (e_route e (query e p true)) = Some d -> fresh_wan P e st eth proto pf lin f = Drop).
Proof. exact C03_block_drops_glue. Qed.
Print Assumptions C03_block_drops.

(* a group whose health bit for the protocol and family is down drops (port 53 is always "alive": group_alive) *)
Theorem C03_dead_group_drops :
  forall P e st eth proto pf lin f d,
    inv st -> 0 < e_now e -> fresh_syn eth proto f ->
    let p := classify (parse_slow eth proto f) in
    d_out d <> OUT_BLOCK ->
    group_alive e (d_out d) (k_proto (p_key p) =? IPPROTO_UDP) (k_dport (p_key p)) = false ->
    (d_out d <> OUT_DIRECT -> decide (e_route e (query e p false)) = Some d -> fresh_lan P e st eth proto pf lin f = Drop) /\
    (wan_local P e -> (d_out d =? OUT_DIRECT) && (d_mark d =? 0) = false ->
     decide (e_route e (query e p true)) = Some d -> fresh_wan P e st eth proto pf lin f = Drop).
Proof. exact C03_dead_group_drops_glue. Qed.
Print Assumptions C03_dead_group_drops.

(* a live proxy group (and, for local traffic, direct with a mark) is redirected to dae, and the control plane
   recovers from the kernel maps exactly the decision, DSCP, source MAC and (local traffic) process *)
Theorem C03_proxy_redirects_with_record :
  forall P e st eth proto pf lin f d,
    inv st -> 0 < e_now e -> fresh_syn eth proto f ->
    let p := classify (parse_slow eth proto f) in
    d_out d <> OUT_BLOCK ->
    group_alive e (d_out d) (k_proto (p_key p) =? IPPROTO_UDP) (k_dport (p_key p)) = true ->
    (d_out d <> OUT_DIRECT -> decide (e_route e (query e p false)) = Some d ->
     fresh_lan P e st eth proto pf lin f = ToDae (P_peer P) IPPROTO_TCP (the_record e p d false)) /\
    (wan_local P e -> (d_out d =? OUT_DIRECT) && (d_mark d =? 0) = false ->
     decide (e_route e (query e p true)) = Some d ->
     fresh_wan P e st eth proto pf lin f = ToDae false IPPROTO_TCP (the_record e p d true)).
Proof. exact C03_proxy_redirects_with_record_glue. Qed.
Print Assumptions C03_proxy_redirects_with_record.

(* dae may handle a redirected packet only after further packets of the same tuple were redirected.  Recovery
   (RetrieveRoutingResult with its effect on the maps: it only deletes a handoff entry it finds expired) is
   repeatable: after a redirect whose record is recoverable, ANY number n of recoveries of that tuple return
   that record and leave both maps unchanged. *)
Theorem C03_handoff_recover_repeatable :
  forall h k now p l r n,
    observe h k now = ToDae p l r ->
    recover_many go_recover (h_st h) (repeat k n) now = (repeat (Some r) n, h_st h).
Proof. exact redirect_recover_repeatable_proof. Qed.
Print Assumptions C03_handoff_recover_repeatable.

(* The same claim for a recovery that consumes the handoff record when it reads it is false: the second of two
   in-flight datagrams of a stateless (port 53) flow finds nothing. *)
Definition C03_consuming_recover_repeatable : Prop :=
  forall st k now r, fst (go_recover_consuming st k now) = Some r ->
                     fst (recover_many go_recover_consuming st [k; k] now) = [Some r; Some r].
Theorem C03_consuming_recover_refuted : ~ C03_consuming_recover_repeatable.
Proof. exact consuming_recover_refuted_proof. Qed.
Print Assumptions C03_consuming_recover_refuted.

(* The userspace janitor (cleanupConnStateMapBeforeLocked).  Its source computes the age of an entry as the int64
   difference of an int64 clock sample and the entry's last_seen converted to int64, compares it with `>`, and uses
   the documented timeouts (the same as the kernel's). *)
Theorem C03_janitor_source_shape :
  JAN_AGE_SIGNED = true /\ JAN_CMP_STRICT = true /\ JAN_CLOSING_STATE = TCP_STATE_CLOSING /\
  JAN_UDP_NS = DOC_UDP_IDLE_NS /\ JAN_UDP_DNS_NS = DOC_UDP_DNS_IDLE_NS /\
  JAN_TCP_EST_NS = DOC_TCP_IDLE_NS /\ JAN_TCP_CLOSING_NS = DOC_TCP_CLOSING_NS /\
  JAN_UDP_NS = UDP_CONN_STATE_TIMEOUT_NS /\ JAN_TCP_EST_NS = TCP_CONN_STATE_ESTABLISHED_TIMEOUT_NS /\
  JAN_TCP_CLOSING_NS = TCP_CONN_STATE_CLOSING_TIMEOUT_NS.
Proof. exact jan_source_shape_proof. Qed.
Print Assumptions C03_janitor_source_shape.

(* For every clock sample and every entry (any key, any state, last_seen before, at or AFTER the sample), an
   ordinary sweep selects the entry exactly when sample - last_seen > its timeout as integers ... *)
Theorem C03_janitor_selects_only_idle :
  forall sample k s,
    sample < TWO63 -> cs_last s < TWO63 ->
    jan_code_selected false 0 sample k s = spec_jan_removes sample k (cs_state s =? TCP_STATE_CLOSING) (cs_last s).
Proof. exact jan_selects_iff_idle_proof. Qed.
Print Assumptions C03_janitor_selects_only_idle.

(* ... in particular never an entry the datapath refreshed at or after the sample. *)
Theorem C03_janitor_never_selects_refreshed :
  forall sample k s,
    sample < TWO63 -> cs_last s < TWO63 -> sample <= cs_last s ->
    jan_code_selected false 0 sample k s = false.
Proof. exact jan_never_selects_refreshed_proof. Qed.
Print Assumptions C03_janitor_never_selects_refreshed.

(* With the age computed in uint64 instead, the same statement is false (an entry refreshed 1 ns after the sample
   is selected). *)
Definition C03_janitor_unsigned_selects_only_idle : Prop :=
  forall sample k s, sample < TWO63 -> cs_last s < TWO63 ->
    jan_selected false true false 0 sample k s = spec_jan_removes sample k (cs_state s =? TCP_STATE_CLOSING) (cs_last s).
Theorem C03_janitor_unsigned_refuted : ~ C03_janitor_unsigned_selects_only_idle.
Proof. exact jan_unsigned_refuted_proof. Qed.
Print Assumptions C03_janitor_unsigned_refuted.

(* Sticky decision over histories with janitor sweeps: in any interleaving of datapath packets (any hooks, flows,
   rule programs, clocks) and ordinary janitor sweeps (each with its own, possibly stale, clock sample), a TCP flow
   keeps its stored decision as long as no packet restarts it or finds it expired (as in C03_sticky_decision) and
   every sweep's sample is at most the entry's last refresh plus its timeout. *)
Theorem C03_sticky_decision_with_janitor :
  forall P evs st k d,
    k_proto k = IPPROTO_TCP -> dec_of (ks_conn st) k = Some d -> quiet_events P st evs k ->
    dec_of (ks_conn (run_events P st evs)) k = Some d.
Proof. exact sticky_history_proof. Qed.
Print Assumptions C03_sticky_decision_with_janitor.

(* Kernel-written state -> janitor timeout class: the state byte the hooks write when FIN/RST is seen is the one
   the janitor's `value.State == n` treats as closing (10 s); the byte written for a new connection is not, and
   packets without FIN/RST keep an entry out of the closing class. *)
Theorem C03_janitor_state_classes :
  (forall m k w a now s', fst (mark_tcp_seen m k w false true a now) = Some s' -> (cs_state s' =? JAN_CLOSING_STATE) = true) /\
  (forall wan now a, (cs_state (new_state wan now a) =? JAN_CLOSING_STATE) = false) /\
  (forall m k w a now s s', tab_get m k = Some s -> (cs_state s =? JAN_CLOSING_STATE) = false ->
     fst (mark_tcp_seen m k w false false a now) = Some s' -> (cs_state s' =? JAN_CLOSING_STATE) = false).
Proof. exact jan_state_classes_proof. Qed.
Print Assumptions C03_janitor_state_classes.

(* Every field a hook reads of a parsed frame fits its width (given that the frame's bytes are bytes): 16-byte
   addresses, 16-bit ports, 8-bit protocol, 6-byte MAC, 6-bit DSCP; likewise for every route() query of the
   specification and of the hook models. *)
Theorem C03_parse_field_ranges :
  forall eth proto pf lin f,
    bytes_ok f ->
    let p := classify (parse_transport eth proto pf lin f) in
    k_sip (p_key p) < 2 ^ 128 /\ k_dip (p_key p) < 2 ^ 128 /\ k_sport (p_key p) < 65536 /\ k_dport (p_key p) < 65536 /\
    k_proto (p_key p) < 256 /\ p_mac p < 2 ^ 48 /\ p_dscp p < 64.
Proof. exact parse_field_ranges_proof. Qed.
Print Assumptions C03_parse_field_ranges.

Theorem C03_query_field_ranges :
  forall eth proto pf lin f e wan,
    bytes_ok f ->
    let q := query e (classify (parse_transport eth proto pf lin f)) wan in
    q_sip q < 2 ^ 128 /\ q_dip q < 2 ^ 128 /\ q_sport q < 65536 /\ q_dport q < 65536 /\ q_mac q < 2 ^ 48 /\ q_dscp q < 256.
Proof. exact query_field_ranges_proof. Qed.
Print Assumptions C03_query_field_ranges.

Theorem C03_rquery_field_ranges :
  forall eth proto pf lin f e wan pname ret pk,
    bytes_ok f -> parse_packet (parse_transport eth proto pf lin f) = (ret, Some pk) ->
    let q := rquery_of e pk wan pname in
    q_sip q < 2 ^ 128 /\ q_dip q < 2 ^ 128 /\ q_sport q < 65536 /\ q_dport q < 65536 /\ q_mac q < 2 ^ 48 /\ q_dscp q < 256.
Proof. exact rquery_of_field_ranges_proof. Qed.
Print Assumptions C03_rquery_field_ranges.

(* Non-vacuity: an established proxied TCP flow in the table; its ACK packet is redirected with the record,
   and a WAN-originated reply flow (entry without decision) passes. *)
Example C03_nonvacuous :
  let k := mk_fkey 0xffff0a000002 0xffff01020304 40000 443 6 in
  let pk := mk_ppkt 0x0800 0x020000000002 k 46 (mk_tcp 40000 443 false true false false) 6 0 in
  let e := mk_env 5000 true 0 0 None None [(42, 1)] (fun _ => (-1)%Z) in
  let st := mk_ks [(k, mk_cs false 0 1000 3 7 1 46 1 0x020000000002 0 0)] [] in
  let st' := mk_ks [(k, mk_cs true 0 1000 0 0 0 0 0 0 0 0)] [] in
  observe (lan_ingress (mk_param 77 0 false) e st (0%Z, Some pk)) k 5000
    = ToDae false 0 (mk_frec (mk_dec 7 3 1) 46 0x020000000002 0 0) /\
  observe (lan_ingress (mk_param 77 0 false) e st' (0%Z, Some pk)) k 5000 = Pass None.
Proof. exact C03_nonvacuous_glue. Qed.
