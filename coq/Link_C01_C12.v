(* Link C01 + C12 — the userspace routing matcher of C01 with the REAL address-set lookup of C12.

   C01_Model.eval_mset answers the ip-set / source-ip-set / MAC match types by CIDR containment computed directly on
   128-bit numbers (`existsb (px_covers target) lpm`), with the comment "the succinct trie behind lpm.HasPrefix: C12".
   C12_Model models what the code does: BuildUserspace turns every stored prefix list into a trie of Prefix2bin128 bit
   strings (NewTrieFromPrefixes), Match computes the 128-character bit string of the target address
   (Prefix2bin128(PrefixFrom(AddrFrom16(addr), 128))) and asks HasPrefix.

   Here the two are composed: `model_route_trie` is C01's pipeline (patch -> builder -> BuildUserspace -> Match) in which
   BuildUserspace is C12_Model.build_userspace and the three LPM match types are answered by C12_Model.has_prefix on
   C12_Model.probe_bin; `Link_route_with_real_trie` proves that this pipeline returns the first-matching-rule decision
   of C01_Spec, using C01_scan_lower and C12_trie_contains unchanged. *)
From Coq Require Import ZArith List NArith Bool String Arith Lia ZifyBool ZifyN ZifyNat.
From Dae Require Import C01_Spec C01_Model C01_Proofs C01_Props.
From Dae Require C12_Spec C12_Model C12_Proofs C12_Props.
From Dae.gen Require Import C01_Consts.
Import ListNotations.
Open Scope N_scope.
Ltac Zify.zify_post_hook ::= Z.div_mod_to_equations.

(* ------------------------------------------------------------------------------------------------ *)
(* Part 1: adapter between the two prefix representations                                             *)
(* ------------------------------------------------------------------------------------------------ *)

(* C01: prefix128 = (v4?, address ALREADY in 128-bit form (IPv4 as ::ffff:a.b.c.d), bits counted in its own family).
   C12: prefix    = (is4?, address in its own family (IPv4: the 32-bit number), bits counted in its own family).
   The side condition under which a C01 prefix is the image of a C12 prefix is exactly C01_Spec.value_ok on VCidr: *)
Definition px_ok (p : prefix128) : bool :=
  (px_addr p <? 2 ^ 128) &&
  (if px_v4 p then (px_bits p <=? 32) && (N.shiftr (px_addr p) 32 =? 0xffff) else px_bits p <=? 128).

Definition to12 (p : prefix128) : C12_Spec.prefix :=
  if px_v4 p
  then C12_Spec.Build_prefix true (px_addr p - 0xffff00000000) (px_bits p)
  else C12_Spec.Build_prefix false (px_addr p) (px_bits p).

Lemma px_ok_facts p : px_ok p = true ->
  px_addr p < 2 ^ 128 /\
  (if px_v4 p then px_bits p <= 32 /\ px_addr p / 2 ^ 32 = 0xffff else px_bits p <= 128).
Proof.
  unfold px_ok. rewrite andb_true_iff. intros [Ha Hb]. split; [lia|].
  destruct (px_v4 p).
  - apply andb_true_iff in Hb. destruct Hb as [Hb Hs]. apply N.eqb_eq in Hs. rewrite N.shiftr_div_pow2 in Hs.
    split; [lia|exact Hs].
  - lia.
Qed.

Lemma to12_wf p : px_ok p = true -> C12_Spec.wf_prefix (to12 p) = true.
Proof.
  intros H. apply px_ok_facts in H. destruct H as [Ha Hb]. unfold to12, C12_Spec.wf_prefix.
  destruct (px_v4 p); cbn [C12_Spec.p_is4 C12_Spec.p_addr C12_Spec.p_bits].
  - destruct Hb as [Hb Hs]. change (2 ^ 32) with 4294967296 in *. lia.
  - lia.
Qed.

Lemma to12_addr128 p : px_ok p = true -> C12_Spec.addr128 (to12 p) = px_addr p.
Proof.
  intros H. apply px_ok_facts in H. destruct H as [Ha Hb]. unfold to12, C12_Spec.addr128, C12_Spec.v4_mapped.
  destruct (px_v4 p); cbn [C12_Spec.p_is4 C12_Spec.p_addr]; [|reflexivity].
  destruct Hb as [_ Hs]. change (2 ^ 32) with 4294967296 in *. lia.
Qed.

Lemma to12_len128 p : C12_Spec.len128 (to12 p) = if px_v4 p then px_bits p + 96 else px_bits p.
Proof.
  unfold to12, C12_Spec.len128. destruct (px_v4 p); cbn [C12_Spec.p_is4 C12_Spec.p_bits]; [apply N.add_comm|reflexivity].
Qed.

(* the two notions of containment coincide on px_ok prefixes, for EVERY x (no bound on x needed here) *)
Lemma to12_contains p x : px_ok p = true -> C12_Spec.contains (to12 p) x = px_covers x p.
Proof.
  intros H. unfold C12_Spec.contains, C12_Spec.top, px_covers. rewrite to12_len128, to12_addr128 by exact H.
  apply N.eqb_sym.
Qed.

Lemma to12_set_contains lpm x :
  forallb px_ok lpm = true -> C12_Spec.set_contains (map to12 lpm) x = existsb (px_covers x) lpm.
Proof.
  intros H. unfold C12_Spec.set_contains. rewrite existsb_map'.
  induction lpm as [|p l IH]; [reflexivity|]. cbn [forallb] in H. apply andb_true_iff in H. destruct H as [Hp Hl].
  cbn [existsb]. now rewrite to12_contains, IH.
Qed.

Lemma to12_all_wf lpm : forallb px_ok lpm = true -> forallb C12_Spec.wf_prefix (map to12 lpm) = true.
Proof.
  induction lpm as [|p l IH]; [reflexivity|]. cbn [forallb map]. rewrite !andb_true_iff. intros [Hp Hl].
  split; [now apply to12_wf|now apply IH].
Qed.

(* ------------------------------------------------------------------------------------------------ *)
(* Part 2: the pointwise link — C12's trie built from a C01 prefix list answers `existsb (px_covers x)` *)
(* ------------------------------------------------------------------------------------------------ *)

(* NewTrieFromPrefixes(prefixes) of one stored set, and lpm.HasPrefix(Prefix2bin128(PrefixFrom(AddrFrom16(x),128))) *)
Definition trie_of (lpm : list prefix128) : list (list bool) := C12_Model.new_trie_from_prefixes (map to12 lpm).
Definition lookup_trie (t : list (list bool)) (target : N) : bool := C12_Model.has_prefix t (C12_Model.probe_bin target).

Theorem Link_trie_is_covers :
  forall (lpm : list prefix128) (x : N),
    forallb px_ok lpm = true -> x < 2 ^ 128 ->
    lookup_trie (trie_of lpm) x = existsb (px_covers x) lpm.
Proof.
  intros lpm x Hl Hx. unfold lookup_trie, trie_of.
  change (C12_Model.has_prefix (C12_Model.new_trie_from_prefixes (map to12 lpm)) (C12_Model.probe_bin x))
    with (C12_Model.trie_match (map to12 lpm) x).
  rewrite C12_Props.C12_trie_contains.
  - now apply to12_set_contains.
  - now apply to12_all_wf.
  - unfold C12_Spec.wf_addr. lia.
Qed.

(* ------------------------------------------------------------------------------------------------ *)
(* Part 3: C01's matcher with C12's tries                                                             *)
(* ------------------------------------------------------------------------------------------------ *)

(* RoutingMatcher: the match-set array and lpmMatcher []*trie.Trie *)
Record matcher_trie := { mtt_sets : list mset; mtt_lpm : list (list (list bool)) }.

(* BuildUserspace: one trie per simulatedLpmTries entry (C12_Model.build_userspace) *)
Definition build_userspace_trie (b : builder) : res matcher_trie :=
  match last (map m_type (b_rules b)) 255 =? MatchType_Fallback with
  | true => Ok {| mtt_sets := b_rules b; mtt_lpm := C12_Model.build_userspace (map (map to12) (b_tries b)) |}
  | false => Err E_FALLBACK_LAST
  end.

(* C01_Model.eval_mset with `lpm.HasPrefix(bin128(target))` evaluated on the C12 trie *)
Definition eval_mset_trie (lpms : list (list (list bool))) (a : margs) (bm : option (list N)) (i : N) (m : mset) : res bool :=
  let t := m_type m in
  if (t =? MatchType_IpSet) || (t =? MatchType_SourceIpSet) || (t =? MatchType_Mac) then
    match nth_error lpms (N.to_nat (m_lpm m)) with
    | None => Err E_BAD_LPM
    | Some lpm =>
      let target := if t =? MatchType_IpSet then a_dst a else if t =? MatchType_SourceIpSet then a_src a else a_mac16 a in
      Ok (lookup_trie lpm target)
    end
  else if t =? MatchType_DomainSet then
    Ok (match bm with Some w => bm_bit w i | None => false end)
  else if t =? MatchType_Port then Ok ((m_ps m <=? a_dport a) && (a_dport a <=? m_pe m))
  else if t =? MatchType_SourcePort then Ok ((m_ps m <=? a_sport a) && (a_sport a <=? m_pe m))
  else if t =? MatchType_IpVersion then Ok (0 <? N.land (a_ipver a) (m_mask m))
  else if t =? MatchType_L4Proto then Ok (0 <? N.land (a_l4 a) (m_mask m))
  else if t =? MatchType_ProcessName then Ok (negb (nth 0 (a_pname a) 0 =? 0) && list_eqb (m_pname m) (a_pname a))
  else if t =? MatchType_Dscp then Ok (a_dscp a =? m_dscp m)
  else if t =? MatchType_Fallback then Ok true
  else Err E_UNKNOWN_TYPE.

Fixpoint match_loop_trie (lpms : list (list (list bool))) (a : margs) (bm : option (list N)) (ms : list mset) (i : N)
         (good bad must : bool) : res decision :=
  match ms with
  | [] => Err E_NO_HIT
  | m :: rest =>
    match (if bad || good then Ok good else eval_mset_trie lpms a bm i m) with
    | Err e => Err e
    | Ok good1 =>
      let outbound := m_out m in
      let '(good2, bad2) :=
        if negb (outbound =? OutboundLogicalOr)
        then (false, if Bool.eqb good1 (m_not m) then true else bad)
        else (good1, bad) in
      if negb (N.land outbound OutboundLogicalMask =? OutboundLogicalMask) then
        if negb bad2 then
          if outbound =? OutboundMustRules then match_loop_trie lpms a bm rest (i + 1) good2 bad2 true
          else Ok (outbound, m_mark m, m_must m || must)
        else match_loop_trie lpms a bm rest (i + 1) good2 false must
      else match_loop_trie lpms a bm rest (i + 1) good2 bad2 must
    end
  end.

Definition match_sets_trie (mt : matcher_trie) (dm : string -> list N) (a : margs) : res decision :=
  let bm := if String.eqb (a_domain a) "" then None else Some (dm (a_domain a)) in
  match mtt_sets mt with
  | [] => Err E_NO_SETS
  | ms => match_loop_trie (mtt_lpm mt) a bm ms 0 false false false
  end.

Definition model_route_trie (p : program) (dm : string -> list N) (pk : packet) : res decision :=
  match lower_program p with
  | Err e => Err e
  | Ok b => match build_userspace_trie b with
            | Err e => Err e
            | Ok mt => match_sets_trie mt dm (args_of_packet pk)
            end
  end.

(* --- the trie matcher equals C01's matcher on well-formed stored sets and 128-bit targets --- *)

Definition tries_ok (tries : list (list prefix128)) : bool := forallb (forallb px_ok) tries.
Definition args_ok (a : margs) : Prop := a_src a < 2 ^ 128 /\ a_dst a < 2 ^ 128 /\ a_mac16 a < 2 ^ 128.

Lemma build_nth tries k :
  nth_error (C12_Model.build_userspace (map (map to12) tries)) k = option_map trie_of (nth_error tries k).
Proof.
  unfold C12_Model.build_userspace. rewrite map_map. rewrite nth_error_map. reflexivity.
Qed.

Theorem Link_eval_mset_trie :
  forall tries a bm i m, tries_ok tries = true -> args_ok a ->
    eval_mset_trie (C12_Model.build_userspace (map (map to12) tries)) a bm i m = eval_mset tries a bm i m.
Proof.
  intros tries a bm i m Ht (Hs & Hd & Hm). unfold eval_mset_trie, eval_mset.
  destruct ((m_type m =? MatchType_IpSet) || (m_type m =? MatchType_SourceIpSet) || (m_type m =? MatchType_Mac)); [|reflexivity].
  rewrite build_nth. destruct (nth_error tries (N.to_nat (m_lpm m))) as [lpm|] eqn:E; cbn [option_map]; [|reflexivity].
  assert (Hl : forallb px_ok lpm = true).
  { unfold tries_ok in Ht. rewrite forallb_forall in Ht. apply Ht. eapply nth_error_In; eauto. }
  f_equal. apply Link_trie_is_covers; [exact Hl|].
  destruct (m_type m =? MatchType_IpSet); [exact Hd|]. destruct (m_type m =? MatchType_SourceIpSet); assumption.
Qed.

Lemma match_loop_trie_eq tries a bm : tries_ok tries = true -> args_ok a ->
  forall ms i good bad must,
    match_loop_trie (C12_Model.build_userspace (map (map to12) tries)) a bm ms i good bad must
    = match_loop tries a bm ms i good bad must.
Proof.
  intros Ht Ha. induction ms as [|m ms IH]; intros i good bad must; [reflexivity|].
  cbn [match_loop_trie match_loop]. rewrite Link_eval_mset_trie by assumption.
  destruct (if bad || good then Ok good else eval_mset tries a bm i m) as [g1|e]; [|reflexivity].
  destruct (negb (m_out m =? OutboundLogicalOr)); cbv zeta iota beta;
    destruct (negb (N.land (m_out m) OutboundLogicalMask =? OutboundLogicalMask)); rewrite ?IH; try reflexivity.
Qed.

Theorem Link_match_sets_trie :
  forall (b : builder) (dm : string -> list N) (a : margs),
    tries_ok (b_tries b) = true -> args_ok a ->
    match build_userspace_trie b with
    | Err e => Err e
    | Ok mt => match_sets_trie mt dm a
    end
    = match build_userspace b with
      | Err e => Err e
      | Ok mt => match_sets mt dm a
      end.
Proof.
  intros b dm a Ht Ha. unfold build_userspace_trie, build_userspace.
  destruct (last (map m_type (b_rules b)) 255 =? MatchType_Fallback); [|reflexivity].
  unfold match_sets_trie, match_sets. cbn [mtt_sets mtt_lpm mt_sets mt_tries].
  destruct (b_rules b) as [|m0 ms0]; [reflexivity|]. now apply match_loop_trie_eq.
Qed.

(* ------------------------------------------------------------------------------------------------ *)
(* Part 4: C12's side conditions follow from C01's wf_program                                         *)
(* ------------------------------------------------------------------------------------------------ *)
(* Every prefix the builder stores in simulatedLpmTries for a well-formed program is px_ok: ip / sip sets hold the
   program's VCidr values (value_ok: address < 2^128, bits <= 32 and ::ffff:0:0/96 form for IPv4, bits <= 128 for
   IPv6), canonicalised; MAC sets hold /128 prefixes of 48-bit numbers (and of 0 for a negated set). *)

Lemma forallb_as_existsb {A} (f : A -> bool) l : forallb f l = negb (existsb (fun x => negb (f x)) l).
Proof. induction l as [|x l IH]; [reflexivity|]. cbn [forallb existsb]. rewrite IH. destruct (f x); reflexivity. Qed.

Lemma forallb_canonicalize (f : prefix128 -> bool) l : forallb f (canonicalize l) = forallb f l.
Proof. now rewrite !forallb_as_existsb, existsb_canonicalize. Qed.

Lemma tries_ok_app t1 t2 : tries_ok (t1 ++ t2) = tries_ok t1 && tries_ok t2.
Proof. unfold tries_ok. apply forallb_app. Qed.

Lemma add_ipset_tries t gs b neg vals ob b' :
  add_ipset t gs b neg vals ob = Ok b' -> forallb px_ok vals = true ->
  tries_ok (b_tries b) = true -> tries_ok (b_tries b') = true.
Proof.
  unfold add_ipset. intros H Hv Hb.
  set (cv := canonicalize vals) in *. set (h := hash_lpm_set cv) in *.
  assert (Hcv : forallb px_ok cv = true) by (unfold cv; now rewrite forallb_canonicalize).
  assert (Hnew : tries_ok (b_tries (snd (new_trie b h cv))) = true).
  { unfold new_trie. cbn [snd b_tries]. rewrite tries_ok_app, Hb. unfold tries_ok. cbn [forallb]. now rewrite Hcv. }
  destruct (match dedup_get (b_dedup b) h with
            | Some (eidx, eps) => if prefixes_equal eps cv then (eidx, b) else new_trie b h cv
            | None => new_trie b h cv end) as [idx b1] eqn:E.
  assert (Hb1 : tries_ok (b_tries b1) = true).
  { destruct (dedup_get (b_dedup b) h) as [[eidx eps]|].
    - destruct (prefixes_equal eps cv).
      + inversion E; subst. exact Hb.
      + rewrite E in Hnew. exact Hnew.
    - rewrite E in Hnew. exact Hnew. }
  destruct (outbound_to_id gs (po_name ob)); [|discriminate]. inversion H; subst. exact Hb1.
Qed.

Lemma add_mac_tries gs b neg macs ob b' :
  add_mac gs b neg macs ob = Ok b' -> forallb (fun m => m <? 2 ^ 48) macs = true ->
  tries_ok (b_tries b) = true -> tries_ok (b_tries b') = true.
Proof.
  unfold add_mac. intros H Hv Hb. destruct (outbound_to_id gs (po_name ob)); [|discriminate]. inversion H; subst.
  cbn [append_rule b_tries]. rewrite tries_ok_app, Hb. unfold tries_ok. cbn [forallb andb]. rewrite andb_true_r.
  rewrite forallb_forall. intros p Hp. apply in_map_iff in Hp. destruct Hp as [m [<- Hm]].
  assert (Hm48 : m < 2 ^ 48).
  { destruct neg.
    - apply in_app_or in Hm. destruct Hm as [Hm|[<-|[]]]; [|reflexivity].
      rewrite forallb_forall in Hv. specialize (Hv m Hm). lia.
    - rewrite forallb_forall in Hv. specialize (Hv m Hm). lia. }
  unfold px_ok. cbn [px_v4 px_addr px_bits].
  assert (2 ^ 48 < 2 ^ 128) by (apply N.pow_lt_mono_r; lia). apply andb_true_iff. split; [lia|reflexivity].
Qed.

Lemma add_domain_tries gs b neg key vals ob b' : add_domain gs b neg key vals ob = Ok b' -> b_tries b' = b_tries b.
Proof.
  unfold add_domain. destruct ((1 <=? key) && (key <=? 4)); [|discriminate].
  destruct (outbound_to_id gs (po_name ob)); [|discriminate]. intros H. inversion H; subst. reflexivity.
Qed.

Lemma add_mask_tries t gs b neg mask ob b' : add_mask t gs b neg mask ob = Ok b' -> b_tries b' = b_tries b.
Proof.
  unfold add_mask. destruct (outbound_to_id gs (po_name ob)); [|discriminate]. intros H. inversion H; subst. reflexivity.
Qed.

Lemma add_ports_tries t gs neg ob : forall vals b b', add_ports t gs b neg vals ob = Ok b' -> b_tries b' = b_tries b.
Proof.
  induction vals as [|[lo hi] vals IH]; intros b b' H; cbn [add_ports] in H.
  - inversion H; subst. reflexivity.
  - destruct (outbound_to_id gs (per_value_name ob vals)); [|discriminate]. apply IH in H. exact H.
Qed.

Lemma add_pnames_tries gs neg ob : forall vals b b', add_pnames gs b neg vals ob = Ok b' -> b_tries b' = b_tries b.
Proof.
  induction vals as [|v vals IH]; intros b b' H; cbn [add_pnames] in H.
  - inversion H; subst. reflexivity.
  - destruct (outbound_to_id gs (per_value_name ob vals)); [|discriminate]. apply IH in H. exact H.
Qed.

Lemma add_dscps_tries gs neg ob : forall vals b b', add_dscps gs b neg vals ob = Ok b' -> b_tries b' = b_tries b.
Proof.
  induction vals as [|v vals IH]; intros b b' H; cbn [add_dscps] in H.
  - inversion H; subst. reflexivity.
  - destruct (outbound_to_id gs (per_value_name ob vals)); [|discriminate]. apply IH in H. exact H.
Qed.

Lemma collect_prefix_ok (k : fkind) key : (k = FIp \/ k = FSip) ->
  forall vals l, collect as_prefix vals = Some l -> Forall (fun v => value_ok k key v = true) vals ->
  forallb px_ok l = true.
Proof.
  intros Hk. induction vals as [|v vals IH]; intros l Hc Hok; cbn [collect] in Hc.
  - inversion Hc; subst. reflexivity.
  - inversion Hok as [|? ? Hv Hr]; subst.
    destruct (as_prefix v) as [x|] eqn:Ex; [|discriminate]. destruct (collect as_prefix vals) as [l'|]; [|discriminate].
    inversion Hc; subst. cbn [forallb]. rewrite (IH l' eq_refl Hr), andb_true_r.
    destruct v; try discriminate Ex. cbn in Ex. inversion Ex; subst. unfold px_ok. cbn [px_v4 px_addr px_bits].
    destruct Hk as [-> | ->]; exact Hv.
Qed.

Lemma collect_mac_ok key :
  forall vals l, collect as_mac vals = Some l -> Forall (fun v => value_ok FMac key v = true) vals ->
  forallb (fun m => m <? 2 ^ 48) l = true.
Proof.
  induction vals as [|v vals IH]; intros l Hc Hok; cbn [collect] in Hc.
  - inversion Hc; subst. reflexivity.
  - inversion Hok as [|? ? Hv Hr]; subst.
    destruct (as_mac v) as [x|] eqn:Ex; [|discriminate]. destruct (collect as_mac vals) as [l'|]; [|discriminate].
    inversion Hc; subst. cbn [forallb]. rewrite (IH l' eq_refl Hr), andb_true_r.
    destruct v; try discriminate Ex. cbn in Ex. inversion Ex; subst. exact Hv.
Qed.

Lemma parse_and_add_tries gs b k neg key vals ob b' :
  parse_and_add gs b k neg key vals ob = Ok b' -> Forall (fun v => value_ok k key v = true) vals ->
  tries_ok (b_tries b) = true -> tries_ok (b_tries b') = true.
Proof.
  intros H Hok Hb. unfold parse_and_add, with_values in H. destruct k.
  - destruct (collect as_domain vals); [|discriminate]. apply add_domain_tries in H. now rewrite H.
  - destruct (collect as_prefix vals) as [l|] eqn:E; [|discriminate].
    eapply add_ipset_tries; [exact H| |exact Hb]. eapply (collect_prefix_ok FIp); eauto.
  - destruct (collect as_prefix vals) as [l|] eqn:E; [|discriminate].
    eapply add_ipset_tries; [exact H| |exact Hb]. eapply (collect_prefix_ok FSip); eauto.
  - destruct (collect as_range vals); [|discriminate]. apply add_ports_tries in H. now rewrite H.
  - destruct (collect as_range vals); [|discriminate]. apply add_ports_tries in H. now rewrite H.
  - destruct (collect as_proto vals); [|discriminate]. apply add_mask_tries in H. now rewrite H.
  - destruct (collect as_ver vals); [|discriminate]. apply add_mask_tries in H. now rewrite H.
  - destruct (collect as_mac vals) as [l|] eqn:E; [|discriminate].
    eapply add_mac_tries; [exact H| |exact Hb]. eapply collect_mac_ok; eauto.
  - destruct (collect as_pname vals); [|discriminate]. apply add_pnames_tries in H. now rewrite H.
  - destruct (collect as_dscp vals); [|discriminate]. apply add_dscps_tries in H. now rewrite H.
Qed.

Lemma apply_groups_tries gs k neg last_func ob : forall kgs b b',
  apply_groups gs b k neg kgs last_func ob = Ok b' ->
  (forall key vals, In (key, vals) kgs -> Forall (fun v => value_ok k key v = true) vals) ->
  tries_ok (b_tries b) = true -> tries_ok (b_tries b') = true.
Proof.
  induction kgs as [|[key vals] kgs IH]; intros b b' H Hall Hb; cbn [apply_groups] in H.
  - inversion H; subst. exact Hb.
  - match type of H with match ?X with _ => _ end = _ => destruct X as [b1|] eqn:E1; [|discriminate] end.
    apply (IH b1 b' H); [intros key' vals' Hin; apply Hall; now right|].
    eapply parse_and_add_tries; [exact E1| |exact Hb]. apply Hall. now left.
Qed.

Lemma apply_funcs_tries gs ob : forall cs b b',
  apply_funcs gs b cs ob = Ok b' -> forallb cond_ok cs = true ->
  tries_ok (b_tries b) = true -> tries_ok (b_tries b') = true.
Proof.
  induction cs as [|c cs IH]; intros b b' H Hok Hb; cbn [apply_funcs] in H.
  - inversion H; subst. exact Hb.
  - cbn [forallb] in Hok. apply andb_true_iff in Hok. destruct Hok as [Hc Hcs].
    match type of H with match ?X with _ => _ end = _ => destruct X as [b1|] eqn:E1; [|discriminate] end.
    apply (IH b1 b' H Hcs). eapply apply_groups_tries; [exact E1| |exact Hb].
    intros key vals Hin. unfold cond_ok in Hc. apply andb_true_iff in Hc. destruct Hc as [_ Hvals].
    destruct (group_by_key_ok (c_params c)) as [Hs _]. destruct (Hs key vals Hin) as [_ Hsub].
    apply Forall_forall. intros v Hv. rewrite forallb_forall in Hvals. apply (Hvals (key, v)). now apply Hsub.
Qed.

Lemma apply_rules_tries gs : forall rs b b',
  apply_rules gs b rs = Ok b' -> Forall (fun r => forallb cond_ok (r_conds r) = true) rs ->
  tries_ok (b_tries b) = true -> tries_ok (b_tries b') = true.
Proof.
  induction rs as [|r rs IH]; intros b b' H Hok Hb; cbn [apply_rules] in H.
  - inversion H; subst. exact Hb.
  - inversion Hok as [|? ? Hr Hrs]; subst.
    match type of H with match ?X with _ => _ end = _ => destruct X as [b1|] eqn:E1; [|discriminate] end.
    apply (IH b1 b' H Hrs). eapply apply_funcs_tries; eauto.
Qed.

Theorem Link_lowered_tries_ok :
  forall (p : program) (b : builder), wf_program p = true -> lower_program p = Ok b -> tries_ok (b_tries b) = true.
Proof.
  intros p b Hwf Hl. unfold wf_program in Hwf. apply andb_true_iff in Hwf. destruct Hwf as [Hwf _].
  apply andb_true_iff in Hwf. destruct Hwf as [_ Hrules].
  unfold lower_program in Hl.
  match type of Hl with match ?X with _ => _ end = _ => destruct X as [b1|] eqn:E1; [|discriminate] end.
  unfold add_fallback in Hl. destruct (outbound_to_id _ _); [|discriminate]. inversion Hl; subst.
  cbn [append_rule b_tries]. eapply apply_rules_tries; [exact E1| |reflexivity].
  apply Forall_forall. intros r Hr. apply in_map_iff in Hr. destruct Hr as [r0 [<- Hr0]]. cbn [r_conds].
  rewrite forallb_forall in Hrules. specialize (Hrules r0 Hr0). unfold rule_ok in Hrules.
  apply andb_true_iff in Hrules. destruct Hrules as [Hrules _]. apply andb_true_iff in Hrules. now destruct Hrules.
Qed.

(* ------------------------------------------------------------------------------------------------ *)
(* Part 5: the composed theorem                                                                       *)
(* ------------------------------------------------------------------------------------------------ *)

Lemma wf_packet_args pk : wf_packet pk = true -> args_ok (args_of_packet pk).
Proof.
  unfold wf_packet. rewrite !andb_true_iff. intros [[[[[[[H1 H2] _] _] _] _] H7] _].
  unfold args_ok, args_of_packet. cbn [a_src a_dst a_mac16].
  assert (2 ^ 48 < 2 ^ 128) by (apply N.pow_lt_mono_r; lia). lia.
Qed.

(* The route computed with C12's tries is the route of C01's model ... *)
Theorem Link_route_trie_is_route :
  forall (p : program) (pk : packet) (dm : string -> list N),
    wf_program p = true -> wf_packet pk = true ->
    model_route_trie p dm pk = model_route p dm pk.
Proof.
  intros p pk dm Hwf Hpk. unfold model_route_trie, model_route.
  destruct (lower_program p) as [b|e] eqn:El; [|reflexivity].
  apply Link_match_sets_trie; [now apply (Link_lowered_tries_ok p)|now apply wf_packet_args].
Qed.

(* ... hence the first-matching-rule decision of the program (C01_scan_lower).  The domain-oracle hypothesis of C01 is
   kept as is (it is the interface to C11, discharged separately). *)
Theorem Link_route_with_real_trie :
  forall (p : program) (pk : packet) (dm : string -> list N),
    wf_program p = true -> wf_packet pk = true -> C01_domain_oracle_agrees p dm pk ->
    model_route_trie p dm pk = Ok (decide p pk).
Proof.
  intros p pk dm Hwf Hpk Hd. rewrite Link_route_trie_is_route by assumption. now apply C01_scan_lower.
Qed.
Print Assumptions Link_trie_is_covers.
Print Assumptions Link_eval_mset_trie.
Print Assumptions Link_lowered_tries_ok.
Print Assumptions Link_route_with_real_trie.

(* ------------------------------------------------------------------------------------------------ *)
(* Part 6: non-vacuity, and the one place where the two models differ                                 *)
(* ------------------------------------------------------------------------------------------------ *)

(* C01's example program (all ten functions) routed through the C12 tries: an IPv4 /8 set, a negated IPv6 /32 set and
   a negated MAC set are consulted; the hypotheses of the theorem hold for it. *)
Example Link_C01_C12_nonvacuous :
  let curl := ([99; 117; 114; 108] ++ repeat 0 12)%list in
  wf_program ex_program = true /\
  wf_packet (ex_pk 53 "www.example.com" 0 0xffff0a010203 curl 8) = true /\
  (exists b, lower_program ex_program = Ok b /\ List.length (b_tries b) = 3%nat /\ tries_ok (b_tries b) = true) /\
  model_route_trie ex_program (fun _ => [4]) (ex_pk 53 "www.example.com" 1 0xffff01020304 (repeat 0 16) 0) = Ok (2, 16, true) /\
  model_route_trie ex_program (fun _ => []) (ex_pk 53 "www.example.com" 0 0xffff0a010203 curl 8) = Ok (1, 0, true) /\
  model_route_trie ex_program (fun _ => []) (ex_pk 53 "www.example.com" 0 0xffff0b010203 curl 8) = Ok (0, 0, true).
Proof.
  cbv zeta. split; [vm_compute; reflexivity|]. split; [vm_compute; reflexivity|].
  split; [eexists; split; [vm_compute; reflexivity|split; vm_compute; reflexivity]|].
  repeat split; vm_compute; reflexivity.
Qed.

(* FINDING (about the models, not the code).  C01_scan_lower has no range hypothesis on the packet: C01's containment
   `px_covers` is arithmetic on unbounded N.  The real lookup reads exactly 16 address bytes (As16 / bytes_be 16), so
   for a "packet" whose address is not a 128-bit number the two disagree; wf_packet (C01_Spec's own range condition,
   which C12 calls wf_addr) cannot be dropped from Link_route_with_real_trie.  Witness: rule dip(::/1) -> block, and
   the out-of-range destination 2^128: the trie sees sixteen zero bytes (inside ::/1), px_covers compares
   2^128 >> 127 = 2 with 0. *)
Definition witness_prog : program :=
  {| pr_rules := [ {| r_conds := [ {| c_kind := FIp; c_neg := false; c_params := [(0, VCidr false 0 1)] |} ];
                      r_out := {| o_name := "block"; o_params := [] |} |} ];
     pr_fallback := {| o_name := "direct"; o_params := [] |};
     pr_groups := [("direct"%string, 0); ("block"%string, 1)] |}.

Example Link_route_with_real_trie_needs_wf_packet :
  let pk := ex_pk 80 "" 0 (2 ^ 128) (repeat 0 16) 0 in
  let dm := fun _ : string => @nil N in
  wf_program witness_prog = true /\ wf_packet pk = false /\ C01_domain_oracle_agrees witness_prog dm pk /\
  model_route witness_prog dm pk = Ok (decide witness_prog pk) /\
  decide witness_prog pk = (0, 0, false) /\
  model_route_trie witness_prog dm pk = Ok (1, 0, false).
Proof.
  cbv zeta. split; [vm_compute; reflexivity|]. split; [vm_compute; reflexivity|].
  split.
  { intros b Hb. vm_compute in Hb. inversion Hb; subst. intros i key vals []. }
  repeat split; vm_compute; reflexivity.
Qed.

(* WHAT IS DISCHARGED / WHAT REMAINS
   Discharged: C01_Model's shortcut "lpm.HasPrefix(bin128(target)) = existsb (px_covers target) lpm" for the IpSet,
     SourceIpSet and Mac match types.  model_route_trie builds the tries with C12_Model.build_userspace /
     new_trie_from_prefixes / prefix2bin128 and queries them with C12_Model.has_prefix on C12_Model.probe_bin;
     Link_trie_is_covers (from C12_Props.C12_trie_contains) + Link_eval_mset_trie + Link_lowered_tries_ok give
     Link_route_with_real_trie.  C12's side conditions are all derived:
       - forallb C12_Spec.wf_prefix on every stored set: from wf_program (value_ok of VCidr / VMac, through
         canonicalize, the dedup table, add_mac's extra zero MAC) = Link_lowered_tries_ok + to12_wf;
       - C12_Spec.wf_addr of the three targets: from wf_packet (p_src, p_dst < 2^128, p_mac < 2^48).
   Adapters: px_ok (C01 prefix is the As16 image of a C12 prefix), to12 (IPv4: subtract ::ffff:0:0), to12_contains
     (C12_Spec.contains (to12 p) x = px_covers x p for every x), trie_of / lookup_trie.
   Used as stated: C01_Props.C01_scan_lower, C12_Props.C12_trie_contains.  From C01_Proofs (helper lemmas, not
     property statements): existsb_canonicalize, existsb_map', group_by_key_ok.
   Remaining hypotheses of Link_route_with_real_trie: wf_program p, wf_packet pk (new w.r.t. C01_scan_lower, necessary:
     Link_route_with_real_trie_needs_wf_packet), C01_domain_oracle_agrees p dm pk (interface to C11, kept as is).
   Remaining modelling shortcut (inside C12, not touched here): the succinct trie is the SET of its keys
     (C12_Model.has_prefix = existsb is_prefix); the LOUDS bit-level structure is C11's. *)

Print Assumptions Link_route_trie_is_route.
Print Assumptions Link_route_with_real_trie.
