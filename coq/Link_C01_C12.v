(* Link C01 + C12 — the userspace routing matcher of C01 with the REAL address-set lookup of C12.

   C01_Model.eval_mset answers the ip-set / source-ip-set / MAC match types by CIDR containment computed directly on
   128-bit numbers (`existsb (px_covers target) lpm`), with the comment "the succinct trie behind lpm.HasPrefix: C12".
   C12_Model models what the code does: BuildUserspace turns every stored prefix list into a trie of Prefix2bin128 bit
   strings (NewTrieFromPrefixes), Match computes the 128-character bit string of the target address
   (Prefix2bin128(PrefixFrom(AddrFrom16(addr), 128))) and asks HasPrefix.

   Here the two are composed: `model_route_trie` is C01's pipeline (patch -> builder -> BuildUserspace -> Match) in which
   BuildUserspace is C12_Model.build_userspace and the three LPM match types are answered by C12_Model.has_prefix on
   C12_Model.probe_bin; `Link_route_with_real_trie` proves that this pipeline returns the first-matching-rule decision
   of C01_Spec, using C01_scan_lower and C12_trie_contains unchanged. *)
From Coq Require Import ZArith List NArith Bool String Arith Lia ZifyBool ZifyN ZifyNat.
From Dae Require Import C01_Spec C01_Model C01_Proofs C01_Props.
From Dae Require C12_Spec C12_Model C12_Proofs C12_Props.
From Dae.gen Require Import C01_Consts.
Import ListNotations.
Open Scope N_scope.
Ltac Zify.zify_post_hook ::= Z.div_mod_to_equations.

(* ------------------------------------------------------------------------------------------------ *)
(* Part 1: adapter between the two prefix representations                                             *)
(* ------------------------------------------------------------------------------------------------ *)

(* C01: prefix128 = (v4?, address ALREADY in 128-bit form (IPv4 as ::ffff:a.b.c.d), bits counted in its own family).
   C12: prefix    = (is4?, address in its own family (IPv4: the 32-bit number), bits counted in its own family).
   The side condition under which a C01 prefix is the image of a C12 prefix is exactly C01_Spec.value_ok on VCidr: *)
Definition px_ok (p : prefix128) : bool :=
  (px_addr p <? 2 ^ 128) &&
  (if px_v4 p then (px_bits p <=? 32) && (N.shiftr (px_addr p) 32 =? 0xffff) else px_bits p <=? 128).

Definition to12 (p : prefix128) : C12_Spec.prefix :=
  if px_v4 p
  then C12_Spec.Build_prefix true (px_addr p - 0xffff00000000) (px_bits p)
  else C12_Spec.Build_prefix false (px_addr p) (px_bits p).

Lemma px_ok_facts p : px_ok p = true ->
  px_addr p < 2 ^ 128 /\
  (if px_v4 p then px_bits p <= 32 /\ px_addr p / 2 ^ 32 = 0xffff else px_bits p <= 128).
Proof.
  unfold px_ok. rewrite andb_true_iff. intros [Ha Hb]. split; [lia|].
  destruct (px_v4 p).
  - apply andb_true_iff in Hb. destruct Hb as [Hb Hs]. apply N.eqb_eq in Hs. rewrite N.shiftr_div_pow2 in Hs.
    split; [lia|exact Hs].
  - lia.
Qed.

Lemma to12_wf p : px_ok p = true -> C12_Spec.wf_prefix (to12 p) = true.
Proof.
  intros H. apply px_ok_facts in H. destruct H as [Ha Hb]. unfold to12, C12_Spec.wf_prefix.
  destruct (px_v4 p); cbn [C12_Spec.p_is4 C12_Spec.p_addr C12_Spec.p_bits].
  - destruct Hb as [Hb Hs]. change (2 ^ 32) with 4294967296 in *. lia.
  - lia.
Qed.

Lemma to12_addr128 p : px_ok p = true -> C12_Spec.addr128 (to12 p) = px_addr p.
Proof.
  intros H. apply px_ok_facts in H. destruct H as [Ha Hb]. unfold to12, C12_Spec.addr128, C12_Spec.v4_mapped.
  destruct (px_v4 p); cbn [C12_Spec.p_is4 C12_Spec.p_addr]; [|reflexivity].
  destruct Hb as [_ Hs]. change (2 ^ 32) with 4294967296 in *. lia.
Qed.

Lemma to12_len128 p : C12_Spec.len128 (to12 p) = if px_v4 p then px_bits p + 96 else px_bits p.
Proof.
  unfold to12, C12_Spec.len128. destruct (px_v4 p); cbn [C12_Spec.p_is4 C12_Spec.p_bits]; [apply N.add_comm|reflexivity].
Qed.

(* the two notions of containment coincide on px_ok prefixes, for EVERY x (no bound on x needed here) *)
Lemma to12_contains p x : px_ok p = true -> C12_Spec.contains (to12 p) x = px_covers x p.
Proof.
  intros H. unfold C12_Spec.contains, C12_Spec.top, px_covers. rewrite to12_len128, to12_addr128 by exact H.
  apply N.eqb_sym.
Qed.

Lemma to12_set_contains lpm x :
  forallb px_ok lpm = true -> C12_Spec.set_contains (map to12 lpm) x = existsb (px_covers x) lpm.
Proof.
  intros H. unfold C12_Spec.set_contains. rewrite existsb_map'.
  induction lpm as [|p l IH]; [reflexivity|]. cbn [forallb] in H. apply andb_true_iff in H. destruct H as [Hp Hl].
  cbn [existsb]. now rewrite to12_contains, IH.
Qed.

Lemma to12_all_wf lpm : forallb px_ok lpm = true -> forallb C12_Spec.wf_prefix (map to12 lpm) = true.
Proof.
  induction lpm as [|p l IH]; [reflexivity|]. cbn [forallb map]. rewrite !andb_true_iff. intros [Hp Hl].
  split; [now apply to12_wf|now apply IH].
Qed.

(* ------------------------------------------------------------------------------------------------ *)
(* Part 2: the pointwise link — C12's trie built from a C01 prefix list answers `existsb (px_covers x)` *)
(* ------------------------------------------------------------------------------------------------ *)

(* NewTrieFromPrefixes(prefixes) of one stored set, and lpm.HasPrefix(Prefix2bin128(PrefixFrom(AddrFrom16(x),128))) *)
Definition trie_of (lpm : list prefix128) : list (list bool) := C12_Model.new_trie_from_prefixes (map to12 lpm).
Definition lookup_trie (t : list (list bool)) (target : N) : bool := C12_Model.has_prefix t (C12_Model.probe_bin target).

Theorem Link_trie_is_covers :
  forall (lpm : list prefix128) (x : N),
    forallb px_ok lpm = true -> x < 2 ^ 128 ->
    lookup_trie (trie_of lpm) x = existsb (px_covers x) lpm.
Proof.
  intros lpm x Hl Hx. unfold lookup_trie, trie_of.
  change (C12_Model.has_prefix (C12_Model.new_trie_from_prefixes (map to12 lpm)) (C12_Model.probe_bin x))
    with (C12_Model.trie_match (map to12 lpm) x).
  rewrite C12_Props.C12_trie_contains.
  - now apply to12_set_contains.
  - now apply to12_all_wf.
  - unfold C12_Spec.wf_addr. lia.
Qed.

(* ------------------------------------------------------------------------------------------------ *)
(* Part 3: C01's matcher with C12's tries                                                             *)
(* ------------------------------------------------------------------------------------------------ *)

(* RoutingMatcher: the match-set array and lpmMatcher []*trie.Trie *)
Record matcher_trie := { mtt_sets : list mset; mtt_lpm : list (list (list bool)) }.

(* BuildUserspace: one trie per simulatedLpmTries entry (C12_Model.build_userspace) *)
Definition build_userspace_trie (b : builder) : res matcher_trie :=
  match last (map m_type (b_rules b)) 255 =? MatchType_Fallback with
  | true => Ok {| mtt_sets := b_rules b; mtt_lpm := C12_Model.build_userspace (map (map to12) (b_tries b)) |}
  | false => Err E_FALLBACK_LAST
  end.

(* C01_Model.eval_mset with `lpm.HasPrefix(bin128(target))` evaluated on the C12 trie *)
Definition eval_mset_trie (lpms : list (list (list bool))) (a : margs) (bm : option (list N)) (i : N) (m : mset) : res bool :=
  let t := m_type m in
  if (t =? MatchType_IpSet) || (t =? MatchType_SourceIpSet) || (t =? MatchType_Mac) then
    match nth_error lpms (N.to_nat (m_lpm m)) with
    | None => Err E_BAD_LPM
    | Some lpm =>
      let target := if t =? MatchType_IpSet then a_dst a else if t =? MatchType_SourceIpSet then a_src a else a_mac16 a in
      Ok (lookup_trie lpm target)
    end
  else if t =? MatchType_DomainSet then
    Ok (match bm with Some w => bm_bit w i | None => false end)
  else if t =? MatchType_Port then Ok ((m_ps m <=? a_dport a) && (a_dport a <=? m_pe m))
  else if t =? MatchType_SourcePort then Ok ((m_ps m <=? a_sport a) && (a_sport a <=? m_pe m))
  else if t =? MatchType_IpVersion then Ok (0 <? N.land (a_ipver a) (m_mask m))
  else if t =? MatchType_L4Proto then Ok (0 <? N.land (a_l4 a) (m_mask m))
  else if t =? MatchType_ProcessName then Ok (negb (nth 0 (a_pname a) 0 =? 0) && list_eqb (m_pname m) (a_pname a))
  else if t =? MatchType_Dscp then Ok (a_dscp a =? m_dscp m)
  else if t =? MatchType_Fallback then Ok true
  else Err E_UNKNOWN_TYPE.

Fixpoint match_loop_trie (lpms : list (list (list bool))) (a : margs) (bm : option (list N)) (ms : list mset) (i : N)
         (good bad must : bool) : res decision :=
  match ms with
  | [] => Err E_NO_HIT
  | m :: rest =>
    match (if bad || good then Ok good else eval_mset_trie lpms a bm i m) with
    | Err e => Err e
    | Ok good1 =>
      let outbound := m_out m in
      let '(good2, bad2) :=
        if negb (outbound =? OutboundLogicalOr)
        then (false, if Bool.eqb good1 (m_not m) then true else bad)
        else (good1, bad) in
      if negb (N.land outbound OutboundLogicalMask =? OutboundLogicalMask) then
        if negb bad2 then
          if outbound =? OutboundMustRules then match_loop_trie lpms a bm rest (i + 1) good2 bad2 true
          else Ok (outbound, m_mark m, m_must m || must)
        else match_loop_trie lpms a bm rest (i + 1) good2 false must
      else match_loop_trie lpms a bm rest (i + 1) good2 bad2 must
    end
  end.

Definition match_sets_trie (mt : matcher_trie) (dm : string -> list N) (a : margs) : res decision :=
  let bm := if String.eqb (a_domain a) "" then None else Some (dm (a_domain a)) in
  match mtt_sets mt with
  | [] => Err E_NO_SETS
  | ms => match_loop_trie (mtt_lpm mt) a bm ms 0 false false false
  end.

Definition model_route_trie (p : program) (dm : string -> list N) (pk : packet) : res decision :=
  match lower_program p with
  | Err e => Err e
  | Ok b => match build_userspace_trie b with
            | Err e => Err e
            | Ok mt => match_sets_trie mt dm (args_of_packet pk)
            end
  end.

(* --- the trie matcher equals C01's matcher on well-formed stored sets and 128-bit targets --- *)

Definition tries_ok (tries : list (list prefix128)) : bool := forallb (forallb px_ok) tries.
Definition args_ok (a : margs) : Prop := a_src a < 2 ^ 128 /\ a_dst a < 2 ^ 128 /\ a_mac16 a < 2 ^ 128.

Lemma build_nth tries k :
  nth_error (C12_Model.build_userspace (map (map to12) tries)) k = option_map trie_of (nth_error tries k).
Proof.
  unfold C12_Model.build_userspace. rewrite map_map. rewrite nth_error_map. reflexivity.
Qed.

Theorem Link_eval_mset_trie :
  forall tries a bm i m, tries_ok tries = true -> args_ok a ->
    eval_mset_trie (C12_Model.build_userspace (map (map to12) tries)) a bm i m = eval_mset tries a bm i m.
Proof.
  intros tries a bm i m Ht (Hs & Hd & Hm). unfold eval_mset_trie, eval_mset.
  destruct ((m_type m =? MatchType_IpSet) || (m_type m =? MatchType_SourceIpSet) || (m_type m =? MatchType_Mac)); [|reflexivity].
  rewrite build_nth. destruct (nth_error tries (N.to_nat (m_lpm m))) as [lpm|] eqn:E; cbn [option_map]; [|reflexivity].
  assert (Hl : forallb px_ok lpm = true).
  { unfold tries_ok in Ht. rewrite forallb_forall in Ht. apply Ht. eapply nth_error_In; eauto. }
  f_equal. apply Link_trie_is_covers; [exact Hl|].
  destruct (m_type m =? MatchType_IpSet); [exact Hd|]. destruct (m_type m =? MatchType_SourceIpSet); assumption.
Qed.

Lemma match_loop_trie_eq tries a bm : tries_ok tries = true -> args_ok a ->
  forall ms i good bad must,
    match_loop_trie (C12_Model.build_userspace (map (map to12) tries)) a bm ms i good bad must
    = match_loop tries a bm ms i good bad must.
Proof.
  intros Ht Ha. induction ms as [|m ms IH]; intros i good bad must; [reflexivity|].
  cbn [match_loop_trie match_loop]. rewrite Link_eval_mset_trie by assumption.
  destruct (if bad || good then Ok good else eval_mset tries a bm i m) as [g1|e]; [|reflexivity].
  destruct (negb (m_out m =? OutboundLogicalOr)); cbv zeta iota beta;
    destruct (negb (N.land (m_out m) OutboundLogicalMask =? OutboundLogicalMask)); rewrite ?IH; try reflexivity.
  - destruct (negb (if Bool.eqb g1 (m_not m) then true else bad)); [|reflexivity].
    destruct (m_out m =? OutboundMustRules); [apply IH|reflexivity].
  - destruct (negb bad); [|reflexivity]. destruct (m_out m =? OutboundMustRules); [apply IH|reflexivity].
Qed.

Theorem Link_match_sets_trie :
  forall (b : builder) (dm : string -> list N) (a : margs),
    tries_ok (b_tries b) = true -> args_ok a ->
    match build_userspace_trie b with
    | Err e => Err e
    | Ok mt => match_sets_trie mt dm a
    end
    = match build_userspace b with
      | Err e => Err e
      | Ok mt => match_sets mt dm a
      end.
Proof.
  intros b dm a Ht Ha. unfold build_userspace_trie, build_userspace.
  destruct (last (map m_type (b_rules b)) 255 =? MatchType_Fallback); [|reflexivity].
  unfold match_sets_trie, match_sets. cbn [mtt_sets mtt_lpm mt_sets mt_tries].
  destruct (b_rules b) as [|m0 ms0]; [reflexivity|]. now apply match_loop_trie_eq.
Qed.
