(* C10 — the kernel's address-to-domain table mirrors the live DNS cache.
   Spec: the property in its own terms.  An owner is a DNS cache key; its snapshot is the domain-rule
   bitmap of the cache entry together with the addresses it lists.  The table the kernel consults must
   hold, for every address, the OR of the bitmaps of the live owners that list it, and no entry when
   that OR is empty.  Bitmaps are arbitrary-width bit vectors (N); addresses and owner keys are N
   (the harness numbers the 128-bit address words and the owner strings injectively). *)
From Coq Require Import List NArith Bool.
Import ListNotations.
Open Scope N_scope.

Record snapshot := { s_bitmap : N; s_ips : list N }.

(* An operation of the history: owner o is (re)placed by snapshot s.  Removal = the empty snapshot. *)
Definition op := (N * snapshot)%type.

Definition empty_snapshot : snapshot := {| s_bitmap := 0; s_ips := [] |}.

(* live owners after a history (oldest operation first): the last snapshot given for an owner wins. *)
Definition live (h : list op) (o : N) : snapshot :=
  match find (fun x => fst x =? o) (rev h) with
  | Some x => snd x
  | None => empty_snapshot
  end.

Definition contributes (s : snapshot) (ip : N) : N :=
  if existsb (N.eqb ip) (s_ips s) then s_bitmap s else 0.

(* the table the kernel must see: OR over every owner that ever appeared of what it contributes now
   (an owner named several times in the history is visited several times; OR is idempotent). *)
Definition table (h : list op) (ip : N) : N :=
  fold_right (fun o acc => N.lor (contributes (live h o) ip) acc) 0 (map fst h).

(* an absent entry reads as the empty bitmap in the kernel; the table holds no entry for such an address *)
Definition table_entry (h : list op) (ip : N) : option N :=
  let v := table h ip in if v =? 0 then None else Some v.
