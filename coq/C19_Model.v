(* C19 — executable, code-shaped models of the key constructors of both sides (no proofs in this file).

   Memory is a list of bytes; scalar loads/stores go through the host byte order `e`; every field offset
   and struct size used by a write is COMPUTED by the layout functions of C19_Lang from the declarations
   extracted into gen/C19_Decls.v (so a moved field moves the model's writes with it).

   Go side:  control/utils.go bpfTuplesKeyFromAddrPorts (+ common.ConvergeAddrPort, netip As16, common.Htons),
             control/connectivity.go outboundConnectivityMapKey,
             control/bpf_utils.go cidrToBpfLpmKey (+ common.Ipv6ByteSliceToUint32Array),
             control/domain_routing_tracker.go key expression, routing_matcher_builder.go value encoders.
   C side:   tproxy.c get_tuples, wan_outbound_is_alive, route() lpm_key filling, route_match_domain_set key,
             route_eval_match reads of the match_set union. *)
From Coq Require Import List NArith Bool String Ascii.
From Dae Require Import C19_Spec C19_Lang.
From Dae.gen Require Import C19_Decls.
Import ListNotations.
Open Scope N_scope.

(* ---- offsets from the extracted declarations ---- *)
Definition foff_dyn (ly : layout) (n : string) : nat := off_or0 (field_off ly n).
Definition lsize_dyn (ly : layout) : nat := N.to_nat (ly_size ly).

(* The offsets and sizes the key models use, computed HERE from the extracted declarations when this file is
   compiled (it is recompiled whenever gen/C19_Decls.v changes). *)
Inductive lyid := Lc_tk | Lgo_tk | Lc_lk | Lgo_lk | Lc_ms.
Definition ly_of (i : lyid) : layout :=
  match i with
  | Lc_tk => layout_of LC true c_struct_tuples_key
  | Lgo_tk => go_layout go_stub_bpfTuplesKey
  | Lc_lk => layout_of LC true c_struct_lpm_key
  | Lgo_lk => go_layout go_real__bpfLpmKey
  | Lc_ms => layout_of LC true c_struct_match_set
  end.
Definition off_tk_c_sip32 : nat := Eval vm_compute in foff_dyn (ly_of Lc_tk) "sip.u6addr32".
Definition off_tk_c_dip32 : nat := Eval vm_compute in foff_dyn (ly_of Lc_tk) "dip.u6addr32".
Definition off_tk_c_sip8 : nat := Eval vm_compute in foff_dyn (ly_of Lc_tk) "sip.u6addr8".
Definition off_tk_c_dip8 : nat := Eval vm_compute in foff_dyn (ly_of Lc_tk) "dip.u6addr8".
Definition off_tk_c_sport : nat := Eval vm_compute in foff_dyn (ly_of Lc_tk) "sport".
Definition off_tk_c_dport : nat := Eval vm_compute in foff_dyn (ly_of Lc_tk) "dport".
Definition off_tk_c_l4proto : nat := Eval vm_compute in foff_dyn (ly_of Lc_tk) "l4proto".
Definition size_tk_c : nat := Eval vm_compute in lsize_dyn (ly_of Lc_tk).
Definition off_tk_go_sip : nat := Eval vm_compute in foff_dyn (ly_of Lgo_tk) "sip.u6addr8".
Definition off_tk_go_dip : nat := Eval vm_compute in foff_dyn (ly_of Lgo_tk) "dip.u6addr8".
Definition off_tk_go_sport : nat := Eval vm_compute in foff_dyn (ly_of Lgo_tk) "sport".
Definition off_tk_go_dport : nat := Eval vm_compute in foff_dyn (ly_of Lgo_tk) "dport".
Definition off_tk_go_l4proto : nat := Eval vm_compute in foff_dyn (ly_of Lgo_tk) "l4proto".
Definition size_tk_go : nat := Eval vm_compute in lsize_dyn (ly_of Lgo_tk).
Definition off_lk_c_prefixlen : nat := Eval vm_compute in foff_dyn (ly_of Lc_lk) "prefixlen".
Definition off_lk_c_data : nat := Eval vm_compute in foff_dyn (ly_of Lc_lk) "data".
Definition size_lk_c : nat := Eval vm_compute in lsize_dyn (ly_of Lc_lk).
Definition off_lk_go_prefixlen : nat := Eval vm_compute in foff_dyn (ly_of Lgo_lk) "prefixlen".
Definition off_lk_go_data : nat := Eval vm_compute in foff_dyn (ly_of Lgo_lk) "data".
Definition size_lk_go : nat := Eval vm_compute in lsize_dyn (ly_of Lgo_lk).
Definition off_ms_c_index : nat := Eval vm_compute in foff_dyn (ly_of Lc_ms) "index".
Definition off_ms_c_portstart : nat := Eval vm_compute in foff_dyn (ly_of Lc_ms) "portrange.portstart".
Definition off_ms_c_portend : nat := Eval vm_compute in foff_dyn (ly_of Lc_ms) "portrange.portend".
Definition off_ms_c_l4prototype : nat := Eval vm_compute in foff_dyn (ly_of Lc_ms) "l4prototype".
Definition off_ms_c_ipversion : nat := Eval vm_compute in foff_dyn (ly_of Lc_ms) "ipversion".
Definition off_ms_c_dscp : nat := Eval vm_compute in foff_dyn (ly_of Lc_ms) "dscp".
Definition off_ms_c_pname : nat := Eval vm_compute in foff_dyn (ly_of Lc_ms) "pname".
(* every name above exists in the extracted declarations (a renamed field would silently read offset 0) *)
Definition key_fields_present : bool :=
  forallb (fun '(i, n) => match field_off (ly_of i) n with Some _ => true | None => false end)
    [(Lc_tk, "sip.u6addr32"); (Lc_tk, "dip.u6addr32"); (Lc_tk, "sip.u6addr8"); (Lc_tk, "dip.u6addr8"); (Lc_tk, "sport"); (Lc_tk, "dport");
     (Lc_tk, "l4proto"); (Lgo_tk, "sip.u6addr8"); (Lgo_tk, "dip.u6addr8"); (Lgo_tk, "sport"); (Lgo_tk, "dport"); (Lgo_tk, "l4proto");
     (Lc_lk, "prefixlen"); (Lc_lk, "data"); (Lgo_lk, "prefixlen"); (Lgo_lk, "data"); (Lc_ms, "index"); (Lc_ms, "portrange.portstart");
     (Lc_ms, "portrange.portend"); (Lc_ms, "l4prototype"); (Lc_ms, "ipversion"); (Lc_ms, "dscp"); (Lc_ms, "pname")]%string.

(* ------------------------------------------------------------------------------------------ *)
(* Go: netip.Addr as far as the key constructors look at it                                     *)
(* ------------------------------------------------------------------------------------------ *)
Inductive goaddr := G4 (a : N) | G6 (a : N).   (* G6 may hold a 4-in-6 address *)

Definition go_is4in6 (g : goaddr) : bool :=
  match g with G6 a => a / 2 ^ 32 =? 0xffff | G4 _ => false end.
(* common.ConvergeAddrPort: 4-in-6 -> 4 *)
Definition go_converge (g : goaddr) : goaddr :=
  match g with
  | G6 a => if go_is4in6 g then G4 (a mod 2 ^ 32) else g
  | G4 _ => g
  end.
(* netip.Addr.As16 *)
Definition go_as16 (g : goaddr) : list N :=
  match g with
  | G4 a => zeros 10 ++ [255; 255] ++ be_bytes 4 a
  | G6 a => be_bytes 16 a
  end.
(* common.Htons: big-endian bytes reinterpreted as a native uint16 *)
Definition go_htons (e : endian) (p : N) : N := hton e 2 p.

(* bpfTuplesKeyFromAddrPorts; the result is the in-memory image of the returned struct *)
Definition go_tuples_key (e : endian) (src dst : goaddr) (sport dport l4 : N) : list N :=
  let src' := go_converge src in
  let dst' := go_converge dst in
  let m := zeros size_tk_go in                                     (* var key bpfTuplesKey *)
  let m := write off_tk_go_sip (go_as16 src') m in
  let m := write off_tk_go_dip (go_as16 dst') m in
  let m := write off_tk_go_sport (store e 2 (go_htons e sport)) m in
  let m := write off_tk_go_dport (store e 2 (go_htons e dport)) m in
  write off_tk_go_l4proto [l4] m.

(* ------------------------------------------------------------------------------------------ *)
(* C: get_tuples                                                                                *)
(* ------------------------------------------------------------------------------------------ *)
(* what the parsed headers hold: address bytes as on the wire, port bytes as on the wire *)
Inductive pkt_addrs := PV4 (s d : list N) | PV6 (s d : list N).

Definition c_get_tuples (e : endian) (a : pkt_addrs) (sport_b dport_b : list N) (l4 : N) : list N :=
  let m := zeros size_tk_c in                                      (* __builtin_memset *)
  let m := write off_tk_c_l4proto [l4] m in
  let m := match a with
           | PV4 s d =>
               let m := write (off_tk_c_sip32 + 8) (store e 4 (hton e 4 0xffff)) m in
               let m := write (off_tk_c_sip32 + 12) (store e 4 (load e s)) m in
               let m := write (off_tk_c_dip32 + 8) (store e 4 (hton e 4 0xffff)) m in
               write (off_tk_c_dip32 + 12) (store e 4 (load e d)) m
           | PV6 s d =>
               let m := write off_tk_c_dip8 d m in        (* __builtin_memcpy *)
               write off_tk_c_sip8 s m
           end in
  let m := write off_tk_c_sport (store e 2 (load e sport_b)) m in
  write off_tk_c_dport (store e 2 (load e dport_b)) m.

(* copy_reversed_tuples(key, dst): the reversed conn_state_map key built from a reply-direction packet.
   `prior` is whatever the destination (an uninitialised stack slot at every call site) held before; whether
   the function clears it first is read from the source on every run (gen: c_reversed_memset). *)
Definition seg (off len : nat) (m : list N) : list N := firstn len (skipn off m).
Definition c_copy_reversed (prior key : list N) : list N :=
  let m := if c_reversed_memset then zeros size_tk_c else prior in          (* memset dst to 0, whole struct *)
  let m := write off_tk_c_dip8 (seg off_tk_c_sip8 16 key) m in                 (* dst->dip = key->sip *)
  let m := write off_tk_c_sip8 (seg off_tk_c_dip8 16 key) m in                 (* dst->sip = key->dip *)
  let m := write off_tk_c_sport (seg off_tk_c_dport 2 key) m in                (* dst->sport = key->dport *)
  let m := write off_tk_c_dport (seg off_tk_c_sport 2 key) m in                (* dst->dport = key->sport *)
  write off_tk_c_l4proto (seg off_tk_c_l4proto 1 key) m.                       (* dst->l4proto = key->l4proto *)

(* fill_redirect_tuple_from_forward_packet: memset, then the two mapped addresses of the tuple *)
Definition c_redirect_tuple (key : list N) : list N := (seg off_tk_c_sip8 16 key ++ seg off_tk_c_dip8 16 key)%list.

(* the packet a flow travels in (both addresses of one family) *)
Definition pkt_of (src dst : ipaddr) : option pkt_addrs :=
  match src, dst with
  | IP4 s, IP4 d => Some (PV4 (be_bytes 4 s) (be_bytes 4 d))
  | IP6 s, IP6 d => Some (PV6 (be_bytes 16 s) (be_bytes 16 d))
  | _, _ => None
  end.

Definition c_flow_key (e : endian) (f : flow) : option (list N) :=
  match pkt_of (f_src f) (f_dst f) with
  | Some a => Some (c_get_tuples e a (be_bytes 2 (f_sport f)) (be_bytes 2 (f_dport f)) (f_proto f))
  | None => None
  end.

Definition reverse_flow (f : flow) : flow := mkflow (f_dst f) (f_src f) (f_dport f) (f_sport f) (f_proto f).
Definition c_reversed_flow_key (e : endian) (prior : list N) (f : flow) : option (list N) :=
  match c_flow_key e f with Some k => Some (c_copy_reversed prior k) | None => None end.

(* a Go address value denotes a packet address: IPv4 peers show up as 4 or as 4-in-6 *)
Definition go_repr (g : goaddr) (ip : ipaddr) : Prop :=
  match ip, g with
  | IP4 a, G4 b => b = a
  | IP4 a, G6 b => b = 0xffff * 2 ^ 32 + a
  | IP6 a, G6 b => b = a
  | IP6 _, G4 _ => False
  end.

(* ------------------------------------------------------------------------------------------ *)
(* limits derived from the one build option MAX_MATCH_SET_LEN = N (Makefile: -D for C, -X for Go) *)
(* ------------------------------------------------------------------------------------------ *)
(* C: routing_map max_entries / route() loop bound, bitmap words of struct domain_routing, lpm_array_map slots *)
Definition c_rule_limit (n : N) : N := n.
Definition c_bitmap_words (n : N) : N := n / c_limit_bitmap_div.
Definition c_lpm_slots (n : N) : N := n + c_limit_lpm_add.
(* Go: consts.MaxMatchSetLen after init(); words the domain matchers allocate (len / 32); LPM ring modulus *)
Definition go_rule_limit (n : N) : option N := run_init go_init_steps n.
Definition go_bitmap_words (m : N) : N := m / go_limit_bitmap_div.
Definition limits_agree (n m : N) : Prop :=
  m = c_rule_limit n                                   (* same rule-count limit *)
  /\ go_bitmap_words m = c_bitmap_words n              (* same number of bitmap words *)
  /\ c_bitmap_words n * 32 = c_rule_limit n            (* and the words cover every rule index exactly *)
  /\ m <= c_lpm_slots n.                               (* every LPM ring index (mod m) is a kernel slot *)
Definition limits_agreeb (n m : N) : bool :=
  (m =? c_rule_limit n) && (go_bitmap_words m =? c_bitmap_words n) && (c_bitmap_words n * 32 =? c_rule_limit n) && (m <=? c_lpm_slots n).

(* ------------------------------------------------------------------------------------------ *)
(* conn_state.state: kernel writer (__mark_tcp_seen) vs the control plane's janitor              *)
(* ------------------------------------------------------------------------------------------ *)
(* what the kernel stores: SYN creates the entry with TCP_STATE_ACTIVE; a later FIN/RST stores TCP_STATE_CLOSING *)
Definition c_state_after (fin_seen : bool) : N := if fin_seen then c_tcp_state_closing else c_tcp_state_active.
(* cleanupConnStateMapBeforeLocked, TCP branch, normal mode: `if value.State == <literal>` selects the closing timeout *)
Definition go_janitor_is_closing (state : N) : bool := state =? go_janitor_closing_literal.
Definition go_janitor_deletes (state age_ns : N) : bool :=
  if go_janitor_is_closing state then go_tcp_timeout_closing_ns <? age_ns else go_tcp_timeout_established_ns <? age_ns.
(* the property's reading: an entry is in the closing class exactly when the kernel saw FIN/RST on it *)
Definition spec_janitor_deletes (fin_seen : bool) (age_ns : N) : bool :=
  if fin_seen then go_tcp_timeout_closing_ns <? age_ns else go_tcp_timeout_established_ns <? age_ns.

(* ------------------------------------------------------------------------------------------ *)
(* connectivity slot                                                                            *)
(* ------------------------------------------------------------------------------------------ *)
Inductive go_udp_domain := UdUnset | UdDns | UdData.
(* dialer.NetworkType as far as outboundConnectivityMapKey reads it *)
Record go_nettype := mknt { nt_udp : bool; nt_v6 : bool; nt_dom : go_udp_domain }.

Definition go_effective_domain (t : go_nettype) : go_udp_domain :=
  if negb (nt_udp t) then UdUnset
  else match nt_dom t with UdUnset => UdData | d => d end.

Definition go_conn_domain_index (t : go_nettype) : N :=
  if negb (nt_udp t) then go_conn_dom_tcp
  else match go_effective_domain t with UdDns => go_conn_dom_dns | _ => go_conn_dom_data end.

Definition go_conn_key (outbound : N) (t : go_nettype) : N :=
  ((outbound mod 256) * go_conn_slots_per_outbound + go_conn_domain_index t * go_conn_slots_per_domain
   + (if nt_v6 t then 1 else 0)) mod 2 ^ 32.

(* wan_outbound_is_alive: None = returns before computing a key (DNS port) *)
Definition c_conn_key (outbound l4proto : N) (dport53 is_ip4 : bool) : option N :=
  if c_conn_dns_early_return && dport53 then None
  else
    let dom := if l4proto =? 17 then (if dport53 then c_conn_dom_dns else c_conn_dom_data) else c_conn_dom_tcp in
    let ipi := if is_ip4 then c_conn_ip4 else c_conn_ip6 in
    Some (((outbound mod 256) * c_conn_mul_outbound + dom * c_conn_mul_domain + ipi) mod 2 ^ 32).

(* the entity a Go network type names *)
Definition go_nt_domain (t : go_nettype) : conn_domain :=
  if negb (nt_udp t) then DomTCP
  else match nt_dom t with UdDns => DomDnsUDP | _ => DomDataUDP end.
(* the entity a packet class names in the kernel (non-DNS traffic) *)
Definition c_pkt_domain (l4proto : N) : conn_domain := if l4proto =? 17 then DomDataUDP else DomTCP.

(* ------------------------------------------------------------------------------------------ *)
(* LPM keys                                                                                     *)
(* ------------------------------------------------------------------------------------------ *)
Definition word (bs : list N) (j : nat) : list N := firstn 4 (skipn (4 * j) bs).

(* common.Ipv6ByteSliceToUint32Array: NativeEndian.Uint32 of each 4-byte group *)
Definition go_u32x4 (e : endian) (ip : list N) : list N := map (fun j => load e (word ip j)) [0; 1; 2; 3]%nat.
(* in-memory image of a [4]uint32 *)
Definition store_u32s (e : endian) (ws : list N) : list N := flat_map (store e 4) ws.

(* cidrToBpfLpmKey (real build) *)
Definition go_lpm_key (e : endian) (addr : goaddr) (bits : N) : list N :=
  let bits' := match addr with G4 _ => bits + 96 | G6 _ => bits end in
  let ip := go_as16 addr in
  let m := zeros size_lk_go in
  let m := write off_lk_go_prefixlen (store e 4 (bits' mod 2 ^ 32)) m in
  write off_lk_go_data (store_u32s e (go_u32x4 e ip)) m.

(* route(): lpm_key.prefixlen = 128; memcpy(lpm_key.data, addr, 16) where addr points into the tuple *)
Definition c_lpm_lookup_key (e : endian) (addr16 : list N) : list N :=
  let m := zeros size_lk_c in
  let m := write off_lk_c_prefixlen (store e 4 128) m in
  write off_lk_c_data addr16 m.

Definition tuple_sip (t : list N) : list N := firstn 16 (skipn off_tk_c_sip32 t).
Definition tuple_dip (t : list N) : list N := firstn 16 (skipn off_tk_c_dip32 t).

(* packet -> get_tuples -> route(): the daddr / saddr lookup keys *)
Definition c_route_daddr_key (e : endian) (f : flow) : option (list N) :=
  match c_flow_key e f with Some t => Some (c_lpm_lookup_key e (tuple_dip t)) | None => None end.
Definition c_route_saddr_key (e : endian) (f : flow) : option (list N) :=
  match c_flow_key e f with Some t => Some (c_lpm_lookup_key e (tuple_sip t)) | None => None end.

(* kernel LPM trie semantics on raw keys (as in kernel/bpf/lpm_trie.c: prefixlen is a host-order u32, data is
   compared bytewise from the first byte, most significant bit first) *)
Fixpoint bits_of_byte (n : nat) (b : N) : list bool :=   (* n most significant bits of b *)
  match n with
  | O => []
  | S n' => N.testbit b 7 :: bits_of_byte n' ((b * 2) mod 256)
  end.
Definition bits_of_bytes (bs : list N) : list bool := flat_map (bits_of_byte 8) bs.
Fixpoint list_beq (a b : list bool) : bool :=
  match a, b with
  | [], [] => true
  | x :: a', y :: b' => Bool.eqb x y && list_beq a' b'
  | _, _ => false
  end.
Definition lpm_entry_matches (e : endian) (entry key : list N) : bool :=
  let plen := load e (firstn 4 entry) in
  let klen := load e (firstn 4 key) in
  (plen <=? klen) && (plen <=? 128)
  && list_beq (firstn (N.to_nat plen) (bits_of_bytes (skipn 4 entry)))
              (firstn (N.to_nat plen) (bits_of_bytes (skipn 4 key))).

(* source MAC keys.  Go (addSourceMac): copy(addr16[10:], mac); prefix /128 -> cidrToBpfLpmKey.
   C (do_tproxy_lan_ingress / wan egress): mac_be = {0, 0, htonl(h0<<8 | h1), htonl(h2<<24 | h3<<16 | h4<<8 | h5)}
   passed to route(), which memcpy's it into lpm_key_mac.data *)
Definition nth0 (l : list N) (i : nat) : N := nth i l 0.
Definition go_mac_key (e : endian) (mac : list N) : list N :=
  let ip := write 10 mac (zeros 16) in
  let m := zeros size_lk_go in
  let m := write off_lk_go_prefixlen (store e 4 128) m in
  write off_lk_go_data (store_u32s e (go_u32x4 e ip)) m.
Definition c_mac_key (e : endian) (mac : list N) : list N :=
  let w2 := hton e 4 (nth0 mac 0 * 256 + nth0 mac 1) in
  let w3 := hton e 4 (nth0 mac 2 * 2 ^ 24 + nth0 mac 3 * 2 ^ 16 + nth0 mac 4 * 256 + nth0 mac 5) in
  c_lpm_lookup_key e (store e 4 0 ++ store e 4 0 ++ store e 4 w2 ++ store e 4 w3).

(* ------------------------------------------------------------------------------------------ *)
(* domain_routing_map key                                                                       *)
(* ------------------------------------------------------------------------------------------ *)
(* Go: common.Ipv6ByteSliceToUint32Array(ip.As16()) used as a [4]uint32 map key *)
Definition go_domain_key (e : endian) (g : goaddr) : list N := store_u32s e (go_u32x4 e (go_as16 g)).
(* C: memcpy(daddr, ctx->lpm_key_daddr.data, 16) *)
Definition c_domain_key (e : endian) (f : flow) : option (list N) :=
  match c_route_daddr_key e f with
  | Some k => Some (firstn 16 (skipn off_lk_c_data k))
  | None => None
  end.

(* ------------------------------------------------------------------------------------------ *)
(* match_set value union                                                                        *)
(* ------------------------------------------------------------------------------------------ *)
(* Go writers (routing_matcher_builder.go; bpfPortRange.Encode of the real build): explicit little endian *)
Definition go_ms_value (v : ms_value) : list N :=
  match v with
  | MSIndex i => write 0 (le_bytes 4 i) (zeros 16)                        (* binary.LittleEndian.PutUint32(set.Value[:], i) *)
  | MSPortRange lo hi => write 2 (le_bytes 2 hi) (write 0 (le_bytes 2 lo) (zeros 16))
  | MSMask m => m :: zeros 15                                             (* [16]byte{byte(values)} *)
  | MSDscp d => write 0 [d] (zeros 16)
  | MSPname bs => write 0 bs (zeros 16)                                   (* copy(matchSet.Value[:], value[:]) *)
  end.

(* C readers (route_eval_match / route_match_lpm): native loads of the union members at the offsets of the
   extracted declaration *)
Definition c_ms_field (e : endian) (val : list N) (off : nat) (w : nat) : N :=
  load e (firstn w (skipn off val)).
Definition c_ms_read (e : endian) (val : list N) (shape : ms_value) : ms_value :=
  match shape with
  | MSIndex _ => MSIndex (c_ms_field e val off_ms_c_index 4)
  | MSPortRange _ _ => MSPortRange (c_ms_field e val off_ms_c_portstart 2) (c_ms_field e val off_ms_c_portend 2)
  | MSMask _ => MSMask (c_ms_field e val off_ms_c_l4prototype 4 mod 256)          (* __u8 mask = match_set->l4proto_type *)
  | MSDscp _ => MSDscp (c_ms_field e val off_ms_c_dscp 1)
  | MSPname _ => MSPname (firstn 16 (skipn off_ms_c_pname val))
  end.

Definition ms_value_ok (v : ms_value) : Prop :=
  match v with
  | MSIndex i => i < 2 ^ 32
  | MSPortRange lo hi => lo < 65536 /\ hi < 65536
  | MSMask m => m < 256
  | MSDscp d => d < 256
  | MSPname bs => List.length bs = 16%nat /\ Forall (fun b => b < 256) bs
  end.
