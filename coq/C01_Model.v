(* C01 — code-shaped executable model (no proofs) of
     config/patch.go                         patchMustOutbound
     component/routing/matcher_builder.go    RulesBuilder.Apply, groupParamValuesByKey, ParseOutbound
     component/routing/function_parser.go    the parser factories (typed values arrive already split into fields)
     control/routing_matcher_builder.go      add* callbacks, outboundToId, canonicalizePrefixes, hashLpmSet,
                                             the LPM-set dedup table, addFallback, BuildUserspace
     control/routing_matcher_userspace.go    RoutingMatcher.Match
     control/utils.go                        ControlPlane.Route
   Not modelled (other properties): the succinct trie behind lpm.HasPrefix (C12; containment is computed
   directly on the 128-bit values) and the domain matcher (C11; its bitmap is a parameter `dm`). *)
From Coq Require Import List NArith Bool String Ascii.
From Dae Require Import C01_Spec.
From Dae.gen Require Import C01_Consts C01_Patch.
Import ListNotations.
Open Scope N_scope.

Inductive res (A : Type) := Ok (a : A) | Err (e : N).
Arguments Ok {A} a.
Arguments Err {A} e.

(* error classes *)
Definition E_OUTBOUND : N := 1.      (* outbound (group) not found *)
Definition E_DOMAIN_KEY : N := 2.    (* addDomain: unsupported key *)
Definition E_VALUE : N := 3.         (* a value the function's parser rejects *)
Definition E_FALLBACK_LAST : N := 4. (* fallback rule MUST be the last *)
Definition E_NO_SETS : N := 10.      (* no compiled routing match set *)
Definition E_BAD_LPM : N := 11.      (* bad lpm index *)
Definition E_UNKNOWN_TYPE : N := 12. (* unknown match type *)
Definition E_NO_HIT : N := 13.       (* no match set hit *)

(* ---------- config/patch.go ---------- *)

(* The strip operation on the outbound name is EXTRACTED from config/patch.go (gen/C01_Patch.v): which function of
   package strings is applied and with which literal.  strings.TrimPrefix(s, p) removes p once if s starts with it;
   strings.TrimLeft(s, cutset) removes every leading character that occurs in cutset. *)
Fixpoint skip (n : nat) (s : string) : string :=
  match n, s with
  | O, _ => s
  | S n', String _ r => skip n' r
  | S _, EmptyString => EmptyString
  end.
Fixpoint in_cutset (c : ascii) (cut : string) : bool :=
  match cut with EmptyString => false | String d r => Ascii.eqb c d || in_cutset c r end.
Fixpoint trim_left (cut s : string) : string :=
  match s with
  | EmptyString => EmptyString
  | String c r => if in_cutset c cut then trim_left cut r else s
  end.
Definition apply_strip (op : strip_op) (arg s : string) : string :=
  match op with
  | StripTrimPrefix => if prefix arg s then skip (String.length arg) s else s
  | StripTrimLeft => trim_left arg s
  | StripUnknown => s
  end.

(* the must_ patch as a function on outbound names: (new name, must) *)
Definition patch_name_with (op : strip_op) (arg s : string) : string * bool :=
  if prefix "must_" s then (apply_strip op arg s, true) else (s, false).
Definition patch_name : string -> string * bool := patch_name_with patch_rule_strip_op patch_rule_strip_arg.

Definition patch_rule_outbound (o : outbound) : outbound :=
  if prefix "must_" (o_name o) then
    if String.eqb (o_name o) "must_rules" then o   (* Reserve must_rules. *)
    else {| o_name := apply_strip patch_rule_strip_op patch_rule_strip_arg (o_name o); o_params := o_params o ++ [OMust] |}
  else o.

Definition patch_fallback (o : outbound) : outbound :=
  if prefix "must_" (o_name o)
  then {| o_name := apply_strip patch_fallback_strip_op patch_fallback_strip_arg (o_name o); o_params := o_params o ++ [OMust] |}
  else o.

(* ---------- ParseOutbound ---------- *)

Record pout := { po_name : string; po_mark : N; po_must : bool }.

Fixpoint parse_outbound_params (ps : list oparam) (mark : N) (must : bool) : N * bool :=
  match ps with
  | [] => (mark, must)
  | OMark m :: r => parse_outbound_params r m must
  | OMust :: r => parse_outbound_params r mark true
  end.

Definition parse_outbound (o : outbound) : pout :=
  let '(mk, mu) := parse_outbound_params (o_params o) 0 false in
  {| po_name := o_name o; po_mark := mk; po_must := mu |}.

(* ---------- groupParamValuesByKey ---------- *)

Fixpoint add_to_group (key : N) (v : value) (gs : list (N * list value)) : list (N * list value) :=
  match gs with
  | [] => [(key, [v])]
  | (k, vs) :: rest => if k =? key then (k, vs ++ [v]) :: rest else (k, vs) :: add_to_group key v rest
  end.

Definition group_by_key (params : list (N * value)) : list (N * list value) :=
  fold_left (fun gs kv => add_to_group (fst kv) (snd kv) gs) params [].

(* ---------- the builder ---------- *)

Record prefix128 := { px_v4 : bool; px_addr : N; px_bits : N }.

Record mset := {
  m_type : N; m_not : bool; m_out : N; m_mark : N; m_must : bool;
  m_lpm : N; m_ps : N; m_pe : N; m_mask : N; m_pname : list N; m_dscp : N }.

Record builder := {
  b_rules : list mset;                              (* compiledRules (= rules header fields) *)
  b_tries : list (list prefix128);                  (* simulatedLpmTries *)
  b_domsets : list (N * (N * list string));         (* simulatedDomainSet: RuleIndex, key, domains *)
  b_dedup : list (N * (N * list prefix128)) }.      (* lpmDedup: hash -> index, prefixes *)

Definition empty_builder : builder := {| b_rules := []; b_tries := []; b_domsets := []; b_dedup := [] |}.

Definition base_mset (t : N) (neg : bool) (oid : N) (ob : pout) : mset :=
  {| m_type := t; m_not := neg; m_out := oid; m_mark := po_mark ob; m_must := po_must ob;
     m_lpm := 0; m_ps := 0; m_pe := 0; m_mask := 0; m_pname := repeat 0 16; m_dscp := 0 |}.

Definition append_rule (b : builder) (m : mset) : builder :=
  {| b_rules := b_rules b ++ [m]; b_tries := b_tries b; b_domsets := b_domsets b; b_dedup := b_dedup b |}.

Definition outbound_to_id (groups : list (string * N)) (name : string) : res N :=
  if String.eqb name "<OR>" then Ok OutboundLogicalOr
  else if String.eqb name "<AND>" then Ok OutboundLogicalAnd
  else if String.eqb name "must_rules" then Ok OutboundMustRules
  else match lookup groups name with Some id => Ok id | None => Err E_OUTBOUND end.

(* canonicalizePrefixes: sort by (Bits, Addr.Less), drop adjacent duplicates *)
Definition addr_less (a b : prefix128) : bool :=
  if Bool.eqb (px_v4 a) (px_v4 b) then px_addr a <? px_addr b else px_v4 a.
Definition px_less (a b : prefix128) : bool :=
  if negb (px_bits a =? px_bits b) then px_bits a <? px_bits b else addr_less a b.
Definition px_eqb (a b : prefix128) : bool :=
  Bool.eqb (px_v4 a) (px_v4 b) && (px_addr a =? px_addr b) && (px_bits a =? px_bits b).
Fixpoint insert_sorted (p : prefix128) (l : list prefix128) : list prefix128 :=
  match l with
  | [] => [p]
  | q :: r => if px_less p q then p :: q :: r else q :: insert_sorted p r
  end.
Fixpoint dedup_adj (l : list prefix128) : list prefix128 :=
  match l with
  | [] => []
  | p :: r => match r with
              | [] => [p]
              | q :: _ => if px_eqb p q then dedup_adj r else p :: dedup_adj r
              end
  end.
Definition canonicalize (ps : list prefix128) : list prefix128 :=
  dedup_adj (fold_right insert_sorted [] ps).

(* hashLpmSet: FNV-1a over the prefix length and the address bytes (4 for IPv4, 16 for IPv6) *)
Definition fnv_offset : N := 0xcbf29ce484222325.
Definition fnv_prime : N := 0x100000001b3.
Definition fnv_mix (h x : N) : N := N.land (N.lxor h x * fnv_prime) 0xffffffffffffffff.
Definition byte_at (a : N) (k : N) : N := N.land (N.shiftr a (8 * (15 - k))) 255.
Definition addr_bytes (p : prefix128) : list N :=
  map (byte_at (px_addr p)) (if px_v4 p then [12; 13; 14; 15] else [0; 1; 2; 3; 4; 5; 6; 7; 8; 9; 10; 11; 12; 13; 14; 15]).
Definition hash_lpm_set (ps : list prefix128) : N :=
  fold_left (fun h p => fold_left fnv_mix (addr_bytes p) (fnv_mix h (px_bits p))) ps fnv_offset.

Fixpoint prefixes_equal (a b : list prefix128) : bool :=
  match a, b with
  | [], [] => true
  | x :: a', y :: b' => px_eqb x y && prefixes_equal a' b'
  | _, _ => false
  end.

Fixpoint dedup_get (d : list (N * (N * list prefix128))) (h : N) : option (N * list prefix128) :=
  match d with
  | [] => None
  | (k, e) :: rest => if k =? h then Some e else dedup_get rest h
  end.
Fixpoint dedup_set (d : list (N * (N * list prefix128))) (h : N) (e : N * list prefix128) :=
  match d with
  | [] => [(h, e)]
  | (k, e0) :: rest => if k =? h then (k, e) :: rest else (k, e0) :: dedup_set rest h e
  end.

Definition new_trie (b : builder) (h : N) (vals : list prefix128) : N * builder :=
  let idx := N.of_nat (List.length (b_tries b)) in
  (idx, {| b_rules := b_rules b; b_tries := b_tries b ++ [vals]; b_domsets := b_domsets b;
           b_dedup := dedup_set (b_dedup b) h (idx, vals) |}).

(* addIp / addSourceIp *)
Definition add_ipset (t : N) (groups : list (string * N)) (b : builder) (neg : bool) (vals : list prefix128)
           (ob : pout) : res builder :=
  let vals := canonicalize vals in
  let h := hash_lpm_set vals in
  let '(idx, b1) :=
    match dedup_get (b_dedup b) h with
    | Some (eidx, eps) => if prefixes_equal eps vals then (eidx, b) else new_trie b h vals
    | None => new_trie b h vals
    end in
  match outbound_to_id groups (po_name ob) with
  | Err e => Err e
  | Ok oid =>
    let m := base_mset t neg oid ob in
    Ok (append_rule b1 {| m_type := m_type m; m_not := m_not m; m_out := m_out m; m_mark := m_mark m; m_must := m_must m;
                          m_lpm := idx; m_ps := 0; m_pe := 0; m_mask := 0; m_pname := m_pname m; m_dscp := 0 |})
  end.

(* addSourceMac: MACs become /128 prefixes with the MAC in bytes 10..15; a negated set also gets the zero MAC *)
Definition add_mac (groups : list (string * N)) (b : builder) (neg : bool) (macs : list N) (ob : pout) : res builder :=
  let macs := if neg then macs ++ [0] else macs in
  let vals := map (fun m => {| px_v4 := false; px_addr := m; px_bits := 128 |}) macs in
  let idx := N.of_nat (List.length (b_tries b)) in
  let b1 := {| b_rules := b_rules b; b_tries := b_tries b ++ [vals]; b_domsets := b_domsets b; b_dedup := b_dedup b |} in
  match outbound_to_id groups (po_name ob) with
  | Err e => Err e
  | Ok oid =>
    let m := base_mset MatchType_Mac neg oid ob in
    Ok (append_rule b1 {| m_type := m_type m; m_not := m_not m; m_out := m_out m; m_mark := m_mark m; m_must := m_must m;
                          m_lpm := idx; m_ps := 0; m_pe := 0; m_mask := 0; m_pname := m_pname m; m_dscp := 0 |})
  end.

(* addDomain *)
Definition add_domain (groups : list (string * N)) (b : builder) (neg : bool) (key : N) (vals : list string)
           (ob : pout) : res builder :=
  if (1 <=? key) && (key <=? 4) then
    let b1 := {| b_rules := b_rules b; b_tries := b_tries b;
                 b_domsets := b_domsets b ++ [(N.of_nat (List.length (b_rules b)), (key, vals))];
                 b_dedup := b_dedup b |} in
    match outbound_to_id groups (po_name ob) with
    | Err e => Err e
    | Ok oid => Ok (append_rule b1 (base_mset MatchType_DomainSet neg oid ob))
    end
  else Err E_DOMAIN_KEY.

(* addL4Proto / addIpVersion: one mask *)
Definition add_mask (t : N) (groups : list (string * N)) (b : builder) (neg : bool) (mask : N) (ob : pout) : res builder :=
  match outbound_to_id groups (po_name ob) with
  | Err e => Err e
  | Ok oid =>
    let m := base_mset t neg oid ob in
    Ok (append_rule b {| m_type := m_type m; m_not := m_not m; m_out := m_out m; m_mark := m_mark m; m_must := m_must m;
                         m_lpm := 0; m_ps := 0; m_pe := 0; m_mask := mask; m_pname := m_pname m; m_dscp := 0 |})
  end.

(* addPort / addSourcePort / addProcessName / addDscp: one match-set per value, all but the last forced to OR *)
Definition per_value_name (ob : pout) {A} (rest : list A) : string :=
  match rest with [] => po_name ob | _ => "<OR>"%string end.

Fixpoint add_ports (t : N) (groups : list (string * N)) (b : builder) (neg : bool) (vals : list (N * N)) (ob : pout)
  : res builder :=
  match vals with
  | [] => Ok b
  | (lo, hi) :: rest =>
    match outbound_to_id groups (per_value_name ob rest) with
    | Err e => Err e
    | Ok oid =>
      let m := base_mset t neg oid ob in
      add_ports t groups
        (append_rule b {| m_type := m_type m; m_not := m_not m; m_out := m_out m; m_mark := m_mark m; m_must := m_must m;
                          m_lpm := 0; m_ps := lo; m_pe := hi; m_mask := 0; m_pname := m_pname m; m_dscp := 0 |})
        neg rest ob
    end
  end.

Fixpoint add_pnames (groups : list (string * N)) (b : builder) (neg : bool) (vals : list (list N)) (ob : pout)
  : res builder :=
  match vals with
  | [] => Ok b
  | v :: rest =>
    match outbound_to_id groups (per_value_name ob rest) with
    | Err e => Err e
    | Ok oid =>
      let m := base_mset MatchType_ProcessName neg oid ob in
      add_pnames groups
        (append_rule b {| m_type := m_type m; m_not := m_not m; m_out := m_out m; m_mark := m_mark m; m_must := m_must m;
                          m_lpm := 0; m_ps := 0; m_pe := 0; m_mask := 0; m_pname := v; m_dscp := 0 |})
        neg rest ob
    end
  end.

Fixpoint add_dscps (groups : list (string * N)) (b : builder) (neg : bool) (vals : list N) (ob : pout) : res builder :=
  match vals with
  | [] => Ok b
  | v :: rest =>
    match outbound_to_id groups (per_value_name ob rest) with
    | Err e => Err e
    | Ok oid =>
      let m := base_mset MatchType_Dscp neg oid ob in
      add_dscps groups
        (append_rule b {| m_type := m_type m; m_not := m_not m; m_out := m_out m; m_mark := m_mark m; m_must := m_must m;
                          m_lpm := 0; m_ps := 0; m_pe := 0; m_mask := 0; m_pname := m_pname m; m_dscp := v |})
        neg rest ob
    end
  end.

(* ---------- function_parser.go: typed values of one key group ---------- *)

Fixpoint collect {A} (f : value -> option A) (vs : list value) : option (list A) :=
  match vs with
  | [] => Some []
  | v :: r => match f v, collect f r with Some a, Some l => Some (a :: l) | _, _ => None end
  end.

Definition as_prefix (v : value) : option prefix128 :=
  match v with VCidr v4 a b => Some {| px_v4 := v4; px_addr := a; px_bits := b |} | _ => None end.
Definition as_range (v : value) : option (N * N) := match v with VRange lo hi => Some (lo, hi) | _ => None end.
Definition as_mac (v : value) : option N := match v with VMac m => Some m | _ => None end.
Definition as_dscp (v : value) : option N := match v with VDscp d => Some d | _ => None end.
Definition as_domain (v : value) : option string := match v with VDomain _ s => Some s | _ => None end.
(* toProcessName: copy into a zeroed [16]byte *)
Definition to_process_name (bs : list N) : list N := firstn 16 (bs ++ repeat 0 16).
Definition as_pname (v : value) : option (list N) := match v with VName bs => Some (to_process_name bs) | _ => None end.
Definition as_proto (v : value) : option N :=
  match v with VProto TCP => Some L4ProtoType_TCP | VProto UDP => Some L4ProtoType_UDP | _ => None end.
Definition as_ver (v : value) : option N :=
  match v with VVer V4 => Some IpVersion_4 | VVer V6 => Some IpVersion_6 | _ => None end.

Definition or_all (l : list N) : N := fold_left N.lor l 0.

Definition with_values {A} (o : option (list A)) (k : list A -> res builder) : res builder :=
  match o with Some l => k l | None => Err E_VALUE end.

(* one call of a registered FunctionParser: (function, key, values of the key group, override outbound) *)
Definition parse_and_add (groups : list (string * N)) (b : builder) (k : fkind) (neg : bool) (key : N)
           (vals : list value) (ob : pout) : res builder :=
  match k with
  | FDomain => with_values (collect as_domain vals) (fun l => add_domain groups b neg key l ob)
  | FIp => with_values (collect as_prefix vals) (fun l => add_ipset MatchType_IpSet groups b neg l ob)
  | FSip => with_values (collect as_prefix vals) (fun l => add_ipset MatchType_SourceIpSet groups b neg l ob)
  | FPort => with_values (collect as_range vals) (fun l => add_ports MatchType_Port groups b neg l ob)
  | FSport => with_values (collect as_range vals) (fun l => add_ports MatchType_SourcePort groups b neg l ob)
  | FL4 => with_values (collect as_proto vals) (fun l => add_mask MatchType_L4Proto groups b neg (or_all l) ob)
  | FIpver => with_values (collect as_ver vals) (fun l => add_mask MatchType_IpVersion groups b neg (or_all l) ob)
  | FMac => with_values (collect as_mac vals) (fun l => add_mac groups b neg l ob)
  | FPname => with_values (collect as_pname vals) (fun l => add_pnames groups b neg l ob)
  | FDscp => with_values (collect as_dscp vals) (fun l => add_dscps groups b neg l ob)
  end.

(* ---------- RulesBuilder.Apply ---------- *)

Fixpoint apply_groups (groups : list (string * N)) (b : builder) (k : fkind) (neg : bool)
         (kgs : list (N * list value)) (last_func : bool) (ob : pout) : res builder :=
  match kgs with
  | [] => Ok b
  | (key, vals) :: rest =>
    let name := match rest with
                | [] => if last_func then po_name ob else "<AND>"%string
                | _ => "<OR>"%string
                end in
    match parse_and_add groups b k neg key vals {| po_name := name; po_mark := po_mark ob; po_must := po_must ob |} with
    | Err e => Err e
    | Ok b' => apply_groups groups b' k neg rest last_func ob
    end
  end.

Fixpoint apply_funcs (groups : list (string * N)) (b : builder) (cs : list cond) (ob : pout) : res builder :=
  match cs with
  | [] => Ok b
  | c :: rest =>
    match apply_groups groups b (c_kind c) (c_neg c) (group_by_key (c_params c))
                       (match rest with [] => true | _ => false end) ob with
    | Err e => Err e
    | Ok b' => apply_funcs groups b' rest ob
    end
  end.

Fixpoint apply_rules (groups : list (string * N)) (b : builder) (rs : list rule) : res builder :=
  match rs with
  | [] => Ok b
  | r :: rest =>
    match apply_funcs groups b (r_conds r) (parse_outbound (r_out r)) with
    | Err e => Err e
    | Ok b' => apply_rules groups b' rest
    end
  end.

Definition add_fallback (groups : list (string * N)) (b : builder) (fb : outbound) : res builder :=
  let ob := parse_outbound fb in
  match outbound_to_id groups (po_name ob) with
  | Err e => Err e
  | Ok oid => Ok (append_rule b (base_mset MatchType_Fallback false oid ob))
  end.

(* config.New (patches) + NewRoutingMatcherBuilder *)
Definition lower_program (p : program) : res builder :=
  match apply_rules (pr_groups p) empty_builder (map (fun r => {| r_conds := r_conds r; r_out := patch_rule_outbound (r_out r) |}) (pr_rules p)) with
  | Err e => Err e
  | Ok b => add_fallback (pr_groups p) b (patch_fallback (pr_fallback p))
  end.

(* ---------- BuildUserspace ---------- *)

Record matcher := { mt_sets : list mset; mt_tries : list (list prefix128) }.

Definition build_userspace (b : builder) : res matcher :=
  match last (map m_type (b_rules b)) 255 =? MatchType_Fallback with
  | true => Ok {| mt_sets := b_rules b; mt_tries := b_tries b |}
  | false => Err E_FALLBACK_LAST
  end.

(* ---------- RoutingMatcher.Match ---------- *)

Record margs := {
  a_src : N; a_dst : N; a_sport : N; a_dport : N; a_ipver : N; a_l4 : N;
  a_domain : string; a_pname : list N; a_dscp : N; a_mac16 : N }.

(* lpm.HasPrefix(bin128(target)): some stored key (the first n bits of a prefix; n counted from the 128-bit form,
   IPv4 prefixes shifted by 96) is a prefix of the target's 128 bits *)
Definition px_covers (x : N) (p : prefix128) : bool :=
  let n := if px_v4 p then px_bits p + 96 else px_bits p in
  N.shiftr x (128 - n) =? N.shiftr (px_addr p) (128 - n).

Definition bm_bit (bm : list N) (i : N) : bool :=
  match nth_error bm (N.to_nat (i / 32)) with
  | Some w => N.testbit w (i mod 32)
  | None => false
  end.

Definition eval_mset (tries : list (list prefix128)) (a : margs) (bm : option (list N)) (i : N) (m : mset) : res bool :=
  let t := m_type m in
  if (t =? MatchType_IpSet) || (t =? MatchType_SourceIpSet) || (t =? MatchType_Mac) then
    match nth_error tries (N.to_nat (m_lpm m)) with
    | None => Err E_BAD_LPM
    | Some lpm =>
      let target := if t =? MatchType_IpSet then a_dst a else if t =? MatchType_SourceIpSet then a_src a else a_mac16 a in
      Ok (existsb (px_covers target) lpm)
    end
  else if t =? MatchType_DomainSet then
    Ok (match bm with Some w => bm_bit w i | None => false end)
  else if t =? MatchType_Port then Ok ((m_ps m <=? a_dport a) && (a_dport a <=? m_pe m))
  else if t =? MatchType_SourcePort then Ok ((m_ps m <=? a_sport a) && (a_sport a <=? m_pe m))
  else if t =? MatchType_IpVersion then Ok (0 <? N.land (a_ipver a) (m_mask m))
  else if t =? MatchType_L4Proto then Ok (0 <? N.land (a_l4 a) (m_mask m))
  else if t =? MatchType_ProcessName then Ok (negb (nth 0 (a_pname a) 0 =? 0) && list_eqb (m_pname m) (a_pname a))
  else if t =? MatchType_Dscp then Ok (a_dscp a =? m_dscp m)
  else if t =? MatchType_Fallback then Ok true
  else Err E_UNKNOWN_TYPE.

Fixpoint match_loop (tries : list (list prefix128)) (a : margs) (bm : option (list N)) (ms : list mset) (i : N)
         (good bad must : bool) : res decision :=
  match ms with
  | [] => Err E_NO_HIT
  | m :: rest =>
    match (if bad || good then Ok good else eval_mset tries a bm i m) with
    | Err e => Err e
    | Ok good1 =>
      let outbound := m_out m in
      let '(good2, bad2) :=
        if negb (outbound =? OutboundLogicalOr)
        then (false, if Bool.eqb good1 (m_not m) then true else bad)
        else (good1, bad) in
      if negb (N.land outbound OutboundLogicalMask =? OutboundLogicalMask) then
        if negb bad2 then
          if outbound =? OutboundMustRules then match_loop tries a bm rest (i + 1) good2 bad2 true
          else Ok (outbound, m_mark m, m_must m || must)
        else match_loop tries a bm rest (i + 1) good2 false must
      else match_loop tries a bm rest (i + 1) good2 bad2 must
    end
  end.

Definition match_sets (mt : matcher) (dm : string -> list N) (a : margs) : res decision :=
  let bm := if String.eqb (a_domain a) "" then None else Some (dm (a_domain a)) in
  match mt_sets mt with
  | [] => Err E_NO_SETS
  | ms => match_loop (mt_tries mt) a bm ms 0 false false false
  end.

(* ---------- ControlPlane.Route ---------- *)

Record route_in := {
  ri_src : N; ri_dst_is4 : bool; ri_dst : N;   (* As16 forms; Is4 = the netip address is a plain IPv4 one *)
  ri_sport : N; ri_dport : N; ri_l4 : N; ri_domain : string;
  ri_mac : N; ri_pname : list N; ri_dscp : N }.

Definition route_glue (mt : matcher) (dm : string -> list N) (r : route_in) : res decision :=
  let ipver := if ri_dst_is4 r || (N.shiftr (ri_dst r) 32 =? 0xffff) then IpVersion_4 else IpVersion_6 in
  match_sets mt dm {| a_src := ri_src r; a_dst := ri_dst r; a_sport := ri_sport r; a_dport := ri_dport r;
                      a_ipver := ipver; a_l4 := ri_l4 r; a_domain := ri_domain r; a_pname := ri_pname r;
                      a_dscp := ri_dscp r; a_mac16 := ri_mac r |}.

(* the arguments Match receives for a packet description *)
Definition args_of_packet (pk : packet) : margs :=
  {| a_src := p_src pk; a_dst := p_dst pk; a_sport := p_sport pk; a_dport := p_dport pk;
     a_ipver := match p_ipver pk with V4 => IpVersion_4 | V6 => IpVersion_6 end;
     a_l4 := match p_l4 pk with TCP => L4ProtoType_TCP | UDP => L4ProtoType_UDP end;
     a_domain := p_domain pk; a_pname := p_pname pk; a_dscp := p_dscp pk; a_mac16 := p_mac pk |}.

(* whole pipeline: text-level program -> decision for a packet *)
Definition model_route (p : program) (dm : string -> list N) (pk : packet) : res decision :=
  match lower_program p with
  | Err e => Err e
  | Ok b => match build_userspace b with
            | Err e => Err e
            | Ok mt => match_sets mt dm (args_of_packet pk)
            end
  end.
