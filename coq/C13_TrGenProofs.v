(* C13 — proofs for C13_TrGen.v: generations sharing one udpConnStateTracker per BPF object set.
   Invariant: registry count = number of cores holding the tracker, open cores always hold it, owned
   tuples imply a registry entry (this is what [disciplined] buys), and the shared tracker entry of
   every tuple is enc(number of live owners on that BPF object set). *)
From Coq Require Import List Arith Bool Lia.
From Dae Require Import C13_Model C13_TrGen.
Import ListNotations.

(* ------------------------------------------------------------------ *)
(* list helpers                                                        *)
(* ------------------------------------------------------------------ *)
Lemma nth_upd {A} (l : list A) i j x :
  nth_error (upd l i x) j =
  if j =? i then (match nth_error l i with Some _ => Some x | None => None end) else nth_error l j.
Proof.
  revert i j; induction l as [|y r IH]; intros i j.
  - destruct i, j; cbn; auto; destruct (j =? i); reflexivity.
  - destruct i, j; cbn; auto.
Qed.

Lemma length_upd {A} (l : list A) i x : length (upd l i x) = length l.
Proof. revert i; induction l; intros [|i]; cbn; auto. Qed.

Lemma cnt_upd {A} (f : A -> bool) l c x y : nth_error l c = Some x ->
  length (filter f (upd l c y)) + (if f x then 1 else 0) = length (filter f l) + (if f y then 1 else 0).
Proof.
  revert c; induction l as [|z r IH]; intros [|c] H; cbn in *; try discriminate.
  - injection H as ->. destruct (f x), (f y); cbn; lia.
  - specialize (IH _ H). destruct (f z); cbn; lia.
Qed.

Lemma cnt_pos {A} (f : A -> bool) l c x : nth_error l c = Some x -> f x = true -> 1 <= length (filter f l).
Proof.
  intros H F. apply nth_error_In in H.
  assert (I : In x (filter f l)) by (apply filter_In; auto).
  destruct (filter f l); [destruct I | cbn; lia].
Qed.

Lemma cnt_le {A} (f g : A -> bool) l :
  (forall x, In x l -> f x = true -> g x = true) -> length (filter f l) <= length (filter g l).
Proof.
  induction l as [|z r IH]; intros H; cbn; auto.
  assert (IH' := IH (fun x I => H x (or_intror I))).
  destruct (f z) eqn:F.
  - rewrite (H z (or_introl eq_refl) F). cbn; lia.
  - destruct (g z); cbn; lia.
Qed.

Lemma cnt_zero {A} (f : A -> bool) l : (forall x, In x l -> f x = false) -> length (filter f l) = 0.
Proof.
  induction l as [|z r IH]; intros H; cbn; auto.
  rewrite (H z (or_introl eq_refl)). apply IH. intros; apply H; now right.
Qed.

Lemma cnt_remove (f : nat * nat -> bool) o l : has_owner o l = true ->
  length (filter f (remove_owner o l)) + (if f o then 1 else 0) = length (filter f l).
Proof.
  unfold has_owner. induction l as [|x r IH]; cbn; intros H; try discriminate.
  destruct ((fst x =? fst o) && (snd x =? snd o)) eqn:E.
  - apply andb_true_iff in E as [E1 E2]. apply Nat.eqb_eq in E1, E2.
    assert (x = o) as -> by (destruct x, o; cbn in *; congruence).
    destruct (f o); cbn; lia.
  - cbn in H. specialize (IH H). cbn. destruct (f x); cbn; lia.
Qed.

Lemma remove_owner_In o l x : In x (remove_owner o l) -> In x l.
Proof.
  induction l as [|y r IH]; cbn; auto.
  destruct ((fst y =? fst o) && (snd y =? snd o)); cbn; intuition.
Qed.

Lemma has_owner_In o l : has_owner o l = true -> In o l.
Proof.
  unfold has_owner. intros H. apply existsb_exists in H as [x [I E]].
  apply andb_true_iff in E as [E1 E2]. apply Nat.eqb_eq in E1, E2.
  assert (x = o) as -> by (destruct x, o; cbn in *; congruence). exact I.
Qed.

(* ------------------------------------------------------------------ *)
(* tracker helpers ("entry = enc(count)")                              *)
(* ------------------------------------------------------------------ *)
Definition enc (n : nat) : option tentry := match n with 0 => None | S _ => Some (mkT n false) end.

Lemma tr_retain_enc m k j : m k = enc j -> tr_retain m k = Some (tr_set m k (enc (S j))).
Proof. unfold tr_retain. intros ->. destruct j; reflexivity. Qed.

Lemma tr_begin_release_enc m k j : m k = enc (S j) ->
  tr_begin_release m k =
  match j with 0 => (tr_set m k (Some (mkT 0 true)), true) | S _ => (tr_set m k (enc j), false) end.
Proof. unfold tr_begin_release. intros ->. destruct j; reflexivity. Qed.

(* ------------------------------------------------------------------ *)
(* the invariant                                                       *)
(* ------------------------------------------------------------------ *)
Definition has_tr (x : gcore) : bool := match gc_tr x with Some _ => true | None => false end.
Definition holders (cs : list gcore) (b : nat) : nat :=
  length (filter (fun x => (gc_bpf x =? b) && has_tr x) cs).
Lemma holders_upd_gen cs c x y b' : nth_error cs c = Some x ->
  length (filter (fun z => (gc_bpf z =? b') && has_tr z) (upd cs c y))
    + (if (gc_bpf x =? b') && has_tr x then 1 else 0)
  = length (filter (fun z => (gc_bpf z =? b') && has_tr z) cs)
    + (if (gc_bpf y =? b') && has_tr y then 1 else 0).
Proof. intros H. apply (cnt_upd (fun z => (gc_bpf z =? b') && has_tr z) _ _ _ y H). Qed.
Definition bpf_l (cs : list gcore) (c : nat) : nat :=
  match nth_error cs c with Some x => gc_bpf x | None => 0 end.

Record InvR (cs : list gcore) (reg : nat -> option (nat * nat)) (nx : nat) : Prop := {
  R_none : forall b, reg b = None -> holders cs b = 0;
  R_some : forall b t n, reg b = Some (t, n) -> n = holders cs b /\ 1 <= n /\ t < nx;
  R_core : forall c x t, nth_error cs c = Some x -> gc_tr x = Some t -> exists n, reg (gc_bpf x) = Some (t, n);
  R_inj : forall b1 b2 t n1 n2, reg b1 = Some (t, n1) -> reg b2 = Some (t, n2) -> b1 = b2;
  R_open : forall c x, nth_error cs c = Some x -> gc_closed x = false -> has_tr x = true }.

Record Inv (s : gstate) : Prop := {
  I_R : InvR (g_cores s) (g_reg s) (g_nexttr s);
  I_fresh : forall t k, g_nexttr s <= t -> g_trk s t k = None;
  I_own : forall o, In o (g_owners s) ->
          fst o < length (g_cores s) /\ g_reg s (bpf_of s (fst o)) <> None;
  I_cnt : forall b t n k, g_reg s b = Some (t, n) -> g_trk s t k = enc (owners_on s b k);
  I_del : gen_deletes_ok s = true }.

Ltac rs b' b E :=
  unfold rset in *; destruct (b' =? b) eqn:E; [apply Nat.eqb_eq in E; subst | apply Nat.eqb_neq in E].
Ltac rs' b' b E :=
  unfold rset in *; destruct (b' =? b) eqn:E; [apply Nat.eqb_eq in E | apply Nat.eqb_neq in E].

Lemma owners_on_ext s s' b k : g_owners s' = g_owners s ->
  (forall o, In o (g_owners s) -> bpf_of s' (fst o) = bpf_of s (fst o)) ->
  owners_on s' b k = owners_on s b k.
Proof.
  intros E H. unfold owners_on. rewrite E. f_equal. apply filter_ext_in.
  intros o I. now rewrite (H o I).
Qed.

Lemma owners_zero s b : Inv s -> g_reg s b = None -> forall k, owners_on s b k = 0.
Proof.
  intros I E k. unfold owners_on. apply cnt_zero. intros o Io.
  destruct (I_own s I o Io) as [_ N].
  destruct (bpf_of s (fst o) =? b) eqn:Eb; [|apply andb_false_r].
  apply Nat.eqb_eq in Eb. congruence.
Qed.

(* ------------------------------------------------------------------ *)
(* acquiring the registry entry for a core that gains the tracker      *)
(* ------------------------------------------------------------------ *)
Definition acq (reg : nat -> option (nat * nat)) (nx b : nat) : (nat -> option (nat * nat)) * nat * nat :=
  match reg b with
  | Some (t, n) => (rset reg b (Some (t, S n)), nx, t)
  | None => (rset reg b (Some (nx, 1)), S nx, nx)
  end.

Lemma g_acquire_acq s b :
  g_acquire s b =
  (mkGS (g_cores s) (fst (fst (acq (g_reg s) (g_nexttr s) b))) (g_trk s)
        (snd (fst (acq (g_reg s) (g_nexttr s) b))) (g_kdel s) (g_owners s),
   snd (acq (g_reg s) (g_nexttr s) b)).
Proof. unfold g_acquire, acq. destruct (g_reg s b) as [[t n]|]; reflexivity. Qed.

Lemma InvR_gain cs reg nx b cs' reg' nx' t :
  InvR cs reg nx -> acq reg nx b = (reg', nx', t) ->
  (forall b', holders cs' b' = holders cs b' + (if b' =? b then 1 else 0)) ->
  (forall c y, nth_error cs' c = Some y -> nth_error cs c = Some y \/ (gc_bpf y = b /\ gc_tr y = Some t)) ->
  InvR cs' reg' nx'.
Proof.
  intros R A HH HN. unfold acq in A.
  destruct (reg b) as [[t0 n0]|] eqn:E; injection A as <- <- <-.
  - destruct (R_some _ _ _ R _ _ _ E) as [En0 [Ln0 Lt0]].
    constructor.
    + intros b' H. rewrite HH. rs b' b Eb; try discriminate.
      rewrite (R_none _ _ _ R _ H). lia.
    + intros b' t' n' H. rewrite HH. rs b' b Eb.
      * injection H as <- <-. lia.
      * destruct (R_some _ _ _ R _ _ _ H) as [? [? ?]]. lia.
    + intros c y t' Hy Ht. destruct (HN _ _ Hy) as [Ho|[Hb Hs]].
      * destruct (R_core _ _ _ R _ _ _ Ho Ht) as [n Hn].
        rs' (gc_bpf y) b Eb.
        -- rewrite Eb in Hn. rewrite E in Hn. injection Hn as <- <-. eauto.
        -- eauto.
      * rewrite Hb. rs' b b Eb; [|congruence]. rewrite Ht in Hs. injection Hs as ->. eauto.
    + intros b1 b2 t' n1 n2 H1 H2. rs b1 b Eb1; rs b2 b Eb2; auto.
      * injection H1 as <- <-. symmetry. eapply (R_inj _ _ _ R); eauto.
      * injection H2 as <- <-. eapply (R_inj _ _ _ R); eauto.
      * eapply (R_inj _ _ _ R); eauto.
    + intros c y Hy Hc. destruct (HN _ _ Hy) as [Ho|[Hb Hs]].
      * eapply (R_open _ _ _ R); eauto.
      * unfold has_tr. now rewrite Hs.
  - pose proof (R_none _ _ _ R _ E) as H0.
    constructor.
    + intros b' H. rewrite HH. rs b' b Eb; try discriminate.
      rewrite (R_none _ _ _ R _ H). lia.
    + intros b' t' n' H. rewrite HH. rs b' b Eb.
      * injection H as <- <-. lia.
      * destruct (R_some _ _ _ R _ _ _ H) as [? [? ?]]. lia.
    + intros c y t' Hy Ht. destruct (HN _ _ Hy) as [Ho|[Hb Hs]].
      * destruct (R_core _ _ _ R _ _ _ Ho Ht) as [n Hn].
        rs' (gc_bpf y) b Eb.
        -- rewrite Eb in Hn. congruence.
        -- eauto.
      * rewrite Hb. rs' b b Eb; [|congruence]. rewrite Ht in Hs. injection Hs as ->. eauto.
    + intros b1 b2 t' n1 n2 H1 H2. rs b1 b Eb1; rs b2 b Eb2; auto.
      * injection H1 as <- <-. destruct (R_some _ _ _ R _ _ _ H2) as [? [? ?]]. lia.
      * injection H2 as <- <-. destruct (R_some _ _ _ R _ _ _ H1) as [? [? ?]]. lia.
      * eapply (R_inj _ _ _ R); eauto.
    + intros c y Hy Hc. destruct (HN _ _ Hy) as [Ho|[Hb Hs]].
      * eapply (R_open _ _ _ R); eauto.
      * unfold has_tr. now rewrite Hs.
Qed.

Lemma acq_keeps reg nx b reg' nx' t :
  acq reg nx b = (reg', nx', t) ->
  nx <= nx' /\
  (exists n, reg' b = Some (t, n)) /\
  (forall b0 t0 n0, reg b0 = Some (t0, n0) -> exists n1, reg' b0 = Some (t0, n1)) /\
  (forall b0 t0 n0, reg' b0 = Some (t0, n0) ->
     (exists n1, reg b0 = Some (t0, n1)) \/ (b0 = b /\ reg b = None /\ t0 = nx)).
Proof.
  unfold acq. destruct (reg b) as [[t0 n0]|] eqn:E; intros A; injection A as <- <- <-.
  - split; [lia|]. split; [unfold rset; rewrite Nat.eqb_refl; eauto|]. split.
    + intros b0 t1 n1 H. rs b0 b Eb; eauto. rewrite E in H. injection H as <- <-. eauto.
    + intros b0 t1 n1 H. rs b0 b Eb; eauto. injection H as <- <-. eauto.
  - split; [lia|]. split; [unfold rset; rewrite Nat.eqb_refl; eauto|]. split.
    + intros b0 t1 n1 H. rs b0 b Eb; eauto. congruence.
    + intros b0 t1 n1 H. rs b0 b Eb; eauto. injection H as <- <-. auto.
Qed.

Lemma Inv_gain s b cs' reg' nx' t :
  Inv s -> acq (g_reg s) (g_nexttr s) b = (reg', nx', t) ->
  (forall b', holders cs' b' = holders (g_cores s) b' + (if b' =? b then 1 else 0)) ->
  (forall c y, nth_error cs' c = Some y ->
               nth_error (g_cores s) c = Some y \/ (gc_bpf y = b /\ gc_tr y = Some t)) ->
  (forall c, c < length (g_cores s) -> c < length cs' /\ bpf_l cs' c = bpf_l (g_cores s) c) ->
  Inv (mkGS cs' reg' (g_trk s) nx' (g_kdel s) (g_owners s)).
Proof.
  intros I A HH HN HB.
  destruct (acq_keeps _ _ _ _ _ _ A) as [Lnx [_ [Kf Kb]]].
  set (s' := mkGS cs' reg' (g_trk s) nx' (g_kdel s) (g_owners s)).
  assert (OE : forall b0 k, owners_on s' b0 k = owners_on s b0 k).
  { intros. apply owners_on_ext; auto. intros o Io.
    destruct (I_own s I o Io) as [L _]. apply (HB _ L). }
  constructor.
  - cbn. eapply InvR_gain; eauto. apply I.
  - cbn. intros t0 k L. apply (I_fresh s I). lia.
  - cbn. intros o Io. destruct (I_own s I o Io) as [L N]. destruct (HB _ L) as [L' B'].
    split; auto. unfold bpf_of; cbn. fold (bpf_l cs' (fst o)). rewrite B'.
    change (bpf_l (g_cores s) (fst o)) with (bpf_of s (fst o)).
    destruct (g_reg s (bpf_of s (fst o))) as [[t0 n0]|] eqn:E; [|congruence].
    destruct (Kf _ _ _ E) as [n1 ->]. discriminate.
  - intros b0 t0 n0 k H. rewrite OE. subst s'. cbn in H |- *.
    destruct (Kb _ _ _ H) as [[n1 H1]|[-> [H1 ->]]].
    + eapply (I_cnt s I); eauto.
    + rewrite (owners_zero s b I H1). cbn. apply (I_fresh s I). lia.
  - apply (I_del s I).
Qed.

(* ------------------------------------------------------------------ *)
(* getUdpConnStateTracker                                              *)
(* ------------------------------------------------------------------ *)
Lemma tracker_of_with_owners r s l c :
  g_tracker_of r (with_owners s l) c =
  (with_owners (fst (g_tracker_of r s c)) l, snd (g_tracker_of r s c)).
Proof.
  unfold g_tracker_of, with_owners; cbn.
  destruct (nth_error (g_cores s) c) as [x|]; [|destruct s; reflexivity].
  destruct (gc_tr x); [destruct s; reflexivity|].
  destruct r; [|destruct s; reflexivity].
  unfold g_acquire; cbn. destruct (g_reg s (gc_bpf x)) as [[t n]|]; reflexivity.
Qed.

Lemma tracker_of_spec s c : Inv s -> c < length (g_cores s) ->
  exists s1 t n, g_tracker_of true s c = (s1, Some t) /\ Inv s1 /\
    g_reg s1 (bpf_of s c) = Some (t, n) /\
    g_owners s1 = g_owners s /\ g_kdel s1 = g_kdel s /\
    (forall c', bpf_of s1 c' = bpf_of s c') /\
    length (g_cores s1) = length (g_cores s) /\
    (forall b t0 n0, g_reg s b = Some (t0, n0) -> exists n1, g_reg s1 b = Some (t0, n1)).
Proof.
  intros I L. unfold g_tracker_of, bpf_of.
  destruct (nth_error (g_cores s) c) as [x|] eqn:Ex; [|apply nth_error_None in Ex; lia].
  destruct (gc_tr x) as [t|] eqn:Et.
  - destruct (R_core _ _ _ (I_R s I) _ _ _ Ex Et) as [n Hn].
    exists s, t, n.
    refine (conj eq_refl (conj I (conj Hn (conj eq_refl (conj eq_refl (conj (fun _ => eq_refl) (conj eq_refl _))))))).
    eauto.
  - rewrite g_acquire_acq.
    destruct (acq (g_reg s) (g_nexttr s) (gc_bpf x)) as [[reg' nx'] t] eqn:A. cbn.
    destruct (acq_keeps _ _ _ _ _ _ A) as [_ [[n Hn] [Kf _]]].
    unfold set_core; cbn.
    set (y := mkGC (gc_bpf x) (gc_closed x) (Some t)).
    assert (BP : forall c', bpf_l (upd (g_cores s) c y) c' = bpf_l (g_cores s) c').
    { intros c'. unfold bpf_l. rewrite nth_upd. destruct (c' =? c) eqn:Ec; auto.
      apply Nat.eqb_eq in Ec; subst. now rewrite Ex. }
    eexists _, t, n. split; [reflexivity|]. split;
      [|split; [exact Hn|split; [reflexivity|split; [reflexivity|split; [|split]]]]]; cbn.
    + apply (Inv_gain s (gc_bpf x) _ reg' nx' t); auto.
      * intros b'. unfold holders.
        pose proof (holders_upd_gen _ _ _ y b' Ex) as C.
        assert (has_tr x = false) as Hx by (unfold has_tr; now rewrite Et).
        assert (has_tr y = true) as Hy by reflexivity.
        rewrite Hx, Hy, andb_false_r, andb_true_r in C. subst y. cbn [gc_bpf] in C.
        rewrite (Nat.eqb_sym b' (gc_bpf x)). lia.
      * intros c' z Hz. rewrite nth_upd in Hz. destruct (c' =? c) eqn:Ec; auto.
        rewrite Ex in Hz. injection Hz as <-. right. auto.
      * intros c' Lc. rewrite length_upd. split; auto.
    + intros c'. apply BP.
    + apply length_upd.
    + exact Kf.
Qed.

(* ------------------------------------------------------------------ *)
(* updates of owners / one tracker / kernel delete log                 *)
(* ------------------------------------------------------------------ *)
Lemma Inv_upd s b t n trk' l' kd :
  Inv s -> g_reg s b = Some (t, n) ->
  (forall o, In o l' -> fst o < length (g_cores s) /\ g_reg s (bpf_of s (fst o)) <> None) ->
  (forall t', t' <> t -> forall k, trk' t' k = g_trk s t' k) ->
  (forall k, trk' t k = enc (owners_on (with_owners s l') b k)) ->
  (forall b', b' <> b -> forall k, owners_on (with_owners s l') b' k = owners_on s b' k) ->
  forallb (fun d : nat * nat * nat => snd d =? 0) kd = true ->
  Inv (mkGS (g_cores s) (g_reg s) trk' (g_nexttr s) kd l').
Proof.
  intros I E HO HT HC HB HK.
  destruct (R_some _ _ _ (I_R s I) _ _ _ E) as [_ [_ Lt]].
  constructor.
  - apply I.
  - cbn. intros t0 k L. rewrite HT by lia. now apply (I_fresh s I).
  - exact HO.
  - intros b0 t0 n0 k H. cbn in H.
    change (trk' t0 k = enc (owners_on (mkGS (g_cores s) (g_reg s) trk' (g_nexttr s) kd l') b0 k)).
    change (owners_on (mkGS (g_cores s) (g_reg s) trk' (g_nexttr s) kd l') b0 k)
      with (owners_on (with_owners s l') b0 k).
    destruct (Nat.eq_dec b0 b) as [->|Nb].
    + rewrite E in H. injection H as <- <-. apply HC.
    + assert (t0 <> t) by (intros ->; apply Nb; eapply (R_inj _ _ _ (I_R s I)); eauto).
      rewrite HT, HB by auto. eapply (I_cnt s I); eauto.
  - exact HK.
Qed.

Lemma owners_on_add s c k b' k' :
  owners_on (with_owners s (g_owners s ++ [(c, k)])) b' k' =
  owners_on s b' k' + (if (k =? k') && (bpf_of s c =? b') then 1 else 0).
Proof.
  unfold owners_on, with_owners, bpf_of; cbn. rewrite filter_app, app_length. cbn.
  destruct ((k =? k') && _); reflexivity.
Qed.

Lemma owners_on_remove s c k b' k' : has_owner (c, k) (g_owners s) = true ->
  owners_on (with_owners s (remove_owner (c, k) (g_owners s))) b' k'
  + (if (k =? k') && (bpf_of s c =? b') then 1 else 0) = owners_on s b' k'.
Proof.
  intros H. unfold owners_on, with_owners, bpf_of; cbn.
  apply (cnt_remove (fun o => (snd o =? k') &&
     (match nth_error (g_cores s) (fst o) with Some x => gc_bpf x | None => 0 end =? b')) (c, k) _ H).
Qed.

Lemma owners_on_move s cto cfrom k b' k' : has_owner (cfrom, k) (g_owners s) = true ->
  bpf_of s cto = bpf_of s cfrom ->
  owners_on (with_owners s (remove_owner (cfrom, k) (g_owners s) ++ [(cto, k)])) b' k' = owners_on s b' k'.
Proof.
  intros H Eb. pose proof (owners_on_remove s cfrom k b' k' H) as R.
  unfold owners_on, with_owners, bpf_of in *; cbn in *. rewrite filter_app, app_length. cbn.
  rewrite Eb. destruct ((k =? k') && _); cbn in *; lia.
Qed.

(* ------------------------------------------------------------------ *)
(* one step                                                            *)
(* ------------------------------------------------------------------ *)
Lemma open_le_holders s b : Inv s -> open_cores_on s b <= holders (g_cores s) b.
Proof.
  intros I. unfold open_cores_on, holders. apply cnt_le. intros x Ix H.
  apply andb_true_iff in H as [H1 H2]. rewrite H1. cbn.
  apply In_nth_error in Ix as [c Hc]. eapply (R_open _ _ _ (I_R s I)); eauto.
  now apply negb_true_iff.
Qed.

Lemma step_new s b : Inv s -> Inv (gstep true s (GNew b)).
Proof.
  intros I. cbn. rewrite g_acquire_acq.
  destruct (acq (g_reg s) (g_nexttr s) b) as [[reg' nx'] t] eqn:A. cbn.
  apply (Inv_gain s b _ reg' nx' t); auto.
  - intros b'. unfold holders. rewrite filter_app, app_length. cbn.
    rewrite (Nat.eqb_sym b b'). destruct (b' =? b); reflexivity.
  - intros c y Hy. destruct (lt_dec c (length (g_cores s))) as [L|L].
    + rewrite nth_error_app1 in Hy by auto. auto.
    + rewrite nth_error_app2 in Hy by lia.
      destruct (c - length (g_cores s)) as [|[|j]]; cbn in Hy; try discriminate.
      injection Hy as <-. right; auto.
  - intros c L. rewrite app_length. cbn. split; [lia|].
    unfold bpf_l. now rewrite nth_error_app1.
Qed.

Lemma step_close s c : Inv s -> close_ok s (GClose c) = true -> Inv (gstep true s (GClose c)).
Proof.
  intros I CO. cbn -[Nat.ltb] in *.
  destruct (nth_error (g_cores s) c) as [x|] eqn:Ex; auto.
  destruct (gc_closed x) eqn:Ec; auto. cbn -[Nat.ltb] in CO.
  pose proof (R_open _ _ _ (I_R s I) _ _ Ex Ec) as HT. unfold has_tr in HT.
  destruct (gc_tr x) as [t|] eqn:Et; [|discriminate].
  destruct (R_core _ _ _ (I_R s I) _ _ _ Ex Et) as [n Hn].
  destruct (R_some _ _ _ (I_R s I) _ _ _ Hn) as [En [Ln Lt]].
  unfold g_unshare, set_core; cbn. rewrite Hn, Nat.eqb_refl.
  set (b := gc_bpf x) in *. set (y := mkGC b true None).
  assert (HH : forall b', holders (upd (g_cores s) c y) b' + (if b' =? b then 1 else 0)
                          = holders (g_cores s) b').
  { intros b'. unfold holders.
    pose proof (holders_upd_gen _ _ _ y b' Ex) as C.
    assert (has_tr x = true) as Hx by (unfold has_tr; now rewrite Et).
    assert (has_tr y = false) as Hy by reflexivity.
    rewrite Hx, Hy, andb_false_r, andb_true_r in C.
    fold b in C. rewrite (Nat.eqb_sym b b') in C. lia. }
  assert (BP : forall c', bpf_l (upd (g_cores s) c y) c' = bpf_l (g_cores s) c').
  { intros c'. unfold bpf_l. rewrite nth_upd. destruct (c' =? c) eqn:Ecc; auto.
    apply Nat.eqb_eq in Ecc; subst. now rewrite Ex. }
  set (s' := mkGS _ _ _ _ _ _).
  assert (OE : forall b0 k, owners_on s' b0 k = owners_on s b0 k).
  { intros. apply owners_on_ext; auto. intros o Io. apply BP. }
  constructor; [cbn|cbn|cbn| |cbn].
  - constructor.
    + intros b' H. specialize (HH b'). rs' b' b Eb; [subst b'|].
      * destruct (n <=? 1) eqn:E1; [|discriminate]. apply Nat.leb_le in E1. lia.
      * rewrite (R_none _ _ _ (I_R s I) _ H) in HH. lia.
    + intros b' t' n' H. specialize (HH b'). rs' b' b Eb; [subst b'|].
      * destruct (n <=? 1) eqn:E1; [discriminate|]. apply Nat.leb_gt in E1.
        injection H as <- <-. lia.
      * destruct (R_some _ _ _ (I_R s I) _ _ _ H) as [? [? ?]]. lia.
    + intros c' z t' Hz Ht. rewrite nth_upd in Hz. destruct (c' =? c) eqn:Ecc.
      * rewrite Ex in Hz. injection Hz as <-. discriminate.
      * destruct (R_core _ _ _ (I_R s I) _ _ _ Hz Ht) as [n' Hn'].
        rs' (gc_bpf z) b Eb; eauto.
        rewrite Eb in Hn'. rewrite Hn in Hn'. injection Hn' as <- <-.
        assert (Hz' : nth_error (upd (g_cores s) c y) c' = Some z)
          by (rewrite nth_upd, Ecc; auto).
        pose proof (cnt_pos (fun z => (gc_bpf z =? b) && has_tr z) _ _ _ Hz') as P.
        fold (holders (upd (g_cores s) c y) b) in P.
        specialize (HH b). rewrite Nat.eqb_refl in HH.
        assert (1 <= holders (upd (g_cores s) c y) b).
        { apply P. rewrite Eb, Nat.eqb_refl. unfold has_tr. now rewrite Ht. }
        destruct (n <=? 1) eqn:E1; [apply Nat.leb_le in E1; lia|]. eauto.
    + intros b1 b2 t' n1 n2 H1 H2.
      assert (K : forall b0 n0, (if b0 =? b then if n <=? 1 then None else Some (t, Nat.pred n)
                                 else g_reg s b0) = Some (t', n0) -> exists n1, g_reg s b0 = Some (t', n1)).
      { intros b0 n0 H. destruct (b0 =? b) eqn:Eb; eauto. apply Nat.eqb_eq in Eb; subst b0.
        destruct (n <=? 1); [discriminate|]. injection H as <- <-. eauto. }
      unfold rset in *. destruct (K _ _ H1) as [? K1]. destruct (K _ _ H2) as [? K2].
      eapply (R_inj _ _ _ (I_R s I)); eauto.
    + intros c' z Hz Hc. rewrite nth_upd in Hz. destruct (c' =? c) eqn:Ecc.
      * rewrite Ex in Hz. injection Hz as <-. discriminate.
      * eapply (R_open _ _ _ (I_R s I)); eauto.
  - apply (I_fresh s I).
  - intros o Io. destruct (I_own s I o Io) as [L N]. rewrite length_upd. split; auto.
    unfold bpf_of; cbn. fold (bpf_l (upd (g_cores s) c y) (fst o)). rewrite BP.
    change (bpf_l (g_cores s) (fst o)) with (bpf_of s (fst o)). rs' (bpf_of s (fst o)) b Eb; auto.
    destruct (n <=? 1) eqn:E1; [|discriminate]. apply Nat.leb_le in E1.
    apply orb_true_iff in CO as [CO|CO].
    + apply Nat.ltb_lt in CO. pose proof (open_le_holders s b I). lia.
    + rewrite forallb_forall in CO. specialize (CO o Io). rewrite Eb, Nat.eqb_refl in CO. discriminate.
  - intros b0 t0 n0 k H. rewrite OE. subst s'. cbn in H |- *.
    assert (exists n1, g_reg s b0 = Some (t0, n1)) as [n1 H1].
    { rs' b0 b Eb; [subst b0|]; eauto. destruct (n <=? 1); [discriminate|]. injection H as <- <-. eauto. }
    eapply (I_cnt s I); eauto.
  - apply (I_del s I).
Qed.

Lemma step_retain s c k : Inv s -> Inv (gstep true s (GRetain c k)).
Proof.
  intros I. cbn.
  destruct (nth_error (g_cores s) c) as [x|] eqn:Ex; auto.
  assert (L : c < length (g_cores s)) by (apply nth_error_Some; congruence).
  destruct (tracker_of_spec s c I L) as [s1 [t [n [ET [I1 [HR [HO [HK [HB [HL HF]]]]]]]]]].
  rewrite ET. rewrite <- (HB c) in HR.
  pose proof (I_cnt s1 I1 _ _ _ k HR) as HC.
  rewrite (tr_retain_enc _ _ _ HC).
  unfold with_owners, with_trk; cbn.
  apply (Inv_upd s1 (bpf_of s1 c) t n); auto.
  - intros o Io. apply in_app_or in Io as [Io|[<-|[]]].
    + apply (I_own s1 I1 o Io).
    + cbn. split; [lia|congruence].
  - intros t' Nt k'. unfold rset. apply Nat.eqb_neq in Nt. now rewrite Nt.
  - intros k'. unfold rset. rewrite Nat.eqb_refl. rewrite owners_on_add.
    unfold tr_set. rewrite Nat.eqb_refl, andb_true_r. rewrite (Nat.eqb_sym k k').
    destruct (k' =? k) eqn:Ek.
    + apply Nat.eqb_eq in Ek; subst. rewrite Nat.add_1_r. reflexivity.
    + rewrite Nat.add_0_r. eapply (I_cnt s1 I1); eauto.
  - intros b' Nb k'. rewrite owners_on_add.
    assert (bpf_of s1 c =? b' = false) as -> by (apply Nat.eqb_neq; congruence).
    rewrite andb_false_r. lia.
  - apply (I_del s1 I1).
Qed.

Lemma step_release s c k : Inv s -> Inv (gstep true s (GRelease c k)).
Proof.
  intros I. cbn.
  destruct (has_owner (c, k) (g_owners s)) eqn:HOW; cbn; auto.
  pose proof (has_owner_In _ _ HOW) as Io.
  destruct (I_own s I _ Io) as [L _]. cbn in L.
  destruct (tracker_of_spec s c I L) as [s1 [t [n [ET [I1 [HR [HO [HK [HB [HL HF]]]]]]]]]].
  rewrite tracker_of_with_owners, ET. cbn.
  rewrite <- (HB c) in HR. rewrite <- HO in HOW |- *.
  pose proof (I_cnt s1 I1 _ _ _ k HR) as HC.
  pose proof (owners_on_remove s1 c k (bpf_of s1 c) k HOW) as RM.
  rewrite !Nat.eqb_refl in RM. cbn [andb] in RM.
  set (l' := remove_owner (c, k) (g_owners s1)) in *.
  assert (OWN : forall o, In o l' ->
            fst o < length (g_cores s1) /\ g_reg s1 (bpf_of s1 (fst o)) <> None).
  { intros o Io'. apply (I_own s1 I1). eapply remove_owner_In; eauto. }
  assert (OTH : forall b', b' <> bpf_of s1 c -> forall k',
            owners_on (with_owners s1 l') b' k' = owners_on s1 b' k').
  { intros b' Nb k'. pose proof (owners_on_remove s1 c k b' k' HOW) as R.
    assert (bpf_of s1 c =? b' = false) as E by (apply Nat.eqb_neq; congruence).
    rewrite E, andb_false_r in R. fold l' in R. lia. }
  assert (CNT : forall k', k' <> k ->
            g_trk s1 t k' = enc (owners_on (with_owners s1 l') (bpf_of s1 c) k')).
  { intros k' Nk. pose proof (owners_on_remove s1 c k (bpf_of s1 c) k' HOW) as R.
    assert (k =? k' = false) as E by (apply Nat.eqb_neq; congruence).
    rewrite E in R. cbn [andb] in R. fold l' in R. rewrite Nat.add_0_r in R. rewrite R.
    eapply (I_cnt s1 I1); eauto. }
  destruct (owners_on s1 (bpf_of s1 c) k) as [|j] eqn:EO; [lia|].
  change (g_trk (with_owners s1 l') t) with (g_trk s1 t).
  rewrite (tr_begin_release_enc _ _ _ HC).
  assert (EJ : owners_on (with_owners s1 l') (bpf_of s1 c) k = j) by lia.
  destruct j as [|j].
  - unfold with_trk, log_del; cbn.
    apply (Inv_upd s1 (bpf_of s1 c) t n); auto.
    + intros t' Nt k'. unfold rset. apply Nat.eqb_neq in Nt. now rewrite Nt.
    + intros k'. unfold rset. rewrite Nat.eqb_refl. unfold tr_finalize, tr_set.
      destruct (k' =? k) eqn:Ek.
      * apply Nat.eqb_eq in Ek; subst. now rewrite EJ.
      * apply CNT. now apply Nat.eqb_neq.
    + rewrite forallb_app. apply andb_true_iff. split; [apply (I_del s1 I1)|].
      cbn [forallb snd].
      change (length (filter _ l')) with (owners_on (with_owners s1 l') (bpf_of s1 c) k).
      rewrite EJ. reflexivity.
  - unfold with_trk; cbn.
    apply (Inv_upd s1 (bpf_of s1 c) t n); auto.
    + intros t' Nt k'. unfold rset. apply Nat.eqb_neq in Nt. now rewrite Nt.
    + intros k'. unfold rset. rewrite Nat.eqb_refl. unfold tr_set.
      destruct (k' =? k) eqn:Ek.
      * apply Nat.eqb_eq in Ek; subst. now rewrite EJ.
      * apply CNT. now apply Nat.eqb_neq.
    + apply (I_del s1 I1).
Qed.

Lemma step_transfer s cto cfrom k : Inv s -> close_ok s (GTransfer cto cfrom k) = true ->
  Inv (gstep true s (GTransfer cto cfrom k)).
Proof.
  intros I CO. cbn in *. apply Nat.eqb_eq in CO.
  destruct (has_owner (cfrom, k) (g_owners s)) eqn:HOW; cbn; auto.
  destruct (cto =? cfrom) eqn:Ecc; auto.
  destruct (nth_error (g_cores s) cto) as [x|] eqn:Ex; auto.
  assert (L : cto < length (g_cores s)) by (apply nth_error_Some; congruence).
  pose proof (has_owner_In _ _ HOW) as Io.
  destruct (I_own s I _ Io) as [Lf _]. cbn in Lf.
  destruct (tracker_of_spec s cto I L) as [s1 [t1 [n1 [ET1 [I1 [HR1 [HO1 [HK1 [HB1 [HL1 HF1]]]]]]]]]].
  rewrite ET1. rewrite <- HL1 in Lf.
  destruct (tracker_of_spec s1 cfrom I1 Lf) as [s2 [t2 [n2 [ET2 [I2 [HR2 [HO2 [HK2 [HB2 [HL2 HF2]]]]]]]]]].
  rewrite ET2.
  destruct (HF2 _ _ _ HR1) as [n1' HR1'].
  rewrite HB1, <- CO in HR2. rewrite HR1' in HR2. injection HR2 as <- <-.
  rewrite Nat.eqb_refl.
  assert (B2 : forall c', bpf_of s2 c' = bpf_of s c') by (intros; now rewrite HB2, HB1).
  assert (HOW2 : has_owner (cfrom, k) (g_owners s2) = true) by (now rewrite HO2, HO1).
  unfold with_owners at 1.
  apply (Inv_upd s2 (bpf_of s cto) t1 n1'); auto.
  - intros o Io'. apply in_app_or in Io' as [Io'|[<-|[]]].
    + apply (I_own s2 I2). eapply remove_owner_In; eauto.
    + cbn. split; [lia|]. rewrite B2. congruence.
  - intros k'. rewrite owners_on_move; auto.
    + eapply (I_cnt s2 I2); eauto.
    + now rewrite !B2.
  - intros b' Nb k'. apply owners_on_move; auto. now rewrite !B2.
  - apply (I_del s2 I2).
Qed.

Lemma step_inv s o : Inv s -> close_ok s o = true -> Inv (gstep true s o).
Proof.
  intros I CO. destruct o.
  - now apply step_new.
  - now apply step_close.
  - now apply step_retain.
  - now apply step_release.
  - now apply step_transfer.
Qed.

Lemma Inv_g0 : Inv g0.
Proof.
  constructor; cbn; auto; try discriminate.
  - constructor; cbn; auto; try discriminate.
    + intros c x t H. destruct c; discriminate.
    + intros c x H. destruct c; discriminate.
  - intros o [].
Qed.

Lemma run_inv ops : forall s, Inv s -> disciplined_from true s ops = true ->
  Inv (fold_left (gstep true) ops s).
Proof.
  induction ops as [|o r IH]; cbn; intros s I D; auto.
  apply andb_true_iff in D as [D1 D2]. apply IH; auto. now apply step_inv.
Qed.

Lemma Inv_refs s b k : Inv s -> gen_refs_ok s b k = true.
Proof.
  intros I. unfold gen_refs_ok, shared_tracker.
  destruct (g_reg s b) as [[t n]|] eqn:E.
  - rewrite (I_cnt s I _ _ _ k E). destruct (owners_on s b k); cbn; auto.
    now rewrite Nat.eqb_refl.
  - now rewrite (owners_zero s b I E).
Qed.

Lemma C13_tuple_refcount_generations_proof :
  forall (ops : list gop), disciplined true ops = true ->
    forall b k, gen_refs_ok (grun true ops) b k = true /\ gen_deletes_ok (grun true ops) = true.
Proof.
  intros ops D b k. pose proof (run_inv ops g0 Inv_g0 D) as I. split.
  - now apply Inv_refs.
  - apply (I_del _ I).
Qed.

Lemma C13_closed_core_without_tracker_refuted_proof :
  exists ops, disciplined false ops = true /\ gen_deletes_ok (grun false ops) = false
              /\ exists b k, gen_refs_ok (grun false (removelast ops)) b k = false.
Proof.
  exists [GNew 0; GRetain 0 5; GNew 0; GRetain 1 5; GClose 0; GRelease 0 5; GRelease 1 5].
  split; [vm_compute; reflexivity|]. split; [vm_compute; reflexivity|].
  exists 0, 5. vm_compute. reflexivity.
Qed.

Print Assumptions C13_tuple_refcount_generations_proof.
Print Assumptions C13_closed_core_without_tracker_refuted_proof.
