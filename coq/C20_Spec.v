(* C20 — reload requests are serialised, answered, and never leave dae wedged.
   Spec: the property in its own terms.  dae owns one lock ("a reload or suspend is in progress").
   What an outside observer sees is a history of events: a request is accepted, a request is refused
   with a busy report, the request in progress is released (dae accepts requests again), one scope
   of muting of node-failure reports begins, one scope is lifted.  The property is a statement about
   such histories; nothing here knows about flags, channels, goroutines or counters. *)
From Coq Require Import List NArith Bool Arith.
Import ListNotations.

Inductive event :=
| EvAccept     (* a request was accepted: a reload/suspend is in progress from here on *)
| EvRefuse     (* a request was refused and reported as busy *)
| EvRelease    (* the request in progress was released *)
| EvMute       (* muting of node-failure reports: one scope opened *)
| EvUnmute.    (* one scope lifted *)

(* The lock.  [held] = a request is between acceptance and release.  A history is legal iff
   - a request is accepted only when nothing is in progress (at most one in progress),
   - a request is refused only when something is in progress (no spurious busy: dae accepts again
     as soon as the previous request has been released),
   - only a request in progress can be released (no double release). *)
Definition lock_step (held : bool) (e : event) : option bool :=
  match e with
  | EvAccept  => if held then None else Some true
  | EvRefuse  => if held then Some true else None
  | EvRelease => if held then Some false else None
  | EvMute | EvUnmute => Some held
  end.

(* history oldest first *)
Fixpoint lock_run (held : bool) (h : list event) : option bool :=
  match h with
  | [] => Some held
  | e :: h' => match lock_step held e with
               | Some held' => lock_run held' h'
               | None => None
               end
  end.

Definition serialised (h : list event) : Prop := lock_run false h <> None.
Definition serialisedb (h : list event) : bool :=
  match lock_run false h with Some _ => true | None => false end.

(* how many requests are in progress after a legal history: 0 or 1 *)
Definition in_progress (h : list event) : option nat :=
  match lock_run false h with Some true => Some 1 | Some false => Some 0 | None => None end.

Definition count_ev (f : event -> bool) (h : list event) : nat := length (filter f h).
Definition is_accept e := match e with EvAccept => true | _ => false end.
Definition is_refuse e := match e with EvRefuse => true | _ => false end.
Definition is_release e := match e with EvRelease => true | _ => false end.
Definition is_mute e := match e with EvMute => true | _ => false end.
Definition is_unmute e := match e with EvUnmute => true | _ => false end.

(* muting depth after a history: scopes opened minus scopes lifted (None: a scope lifted that was
   never opened) *)
Fixpoint mute_run (depth : nat) (h : list event) : option nat :=
  match h with
  | [] => Some depth
  | EvMute :: h' => mute_run (S depth) h'
  | EvUnmute :: h' => match depth with O => None | S d => mute_run d h' end
  | _ :: h' => mute_run depth h'
  end.

(* "always lifted again": once nothing is in progress and nobody is half-way through an operation,
   the depth is 0.  [settled] is supplied by the model (no agent in the middle of a step sequence). *)
Definition muting_lifted (h : list event) : Prop := mute_run 0 h = Some 0.

(* What a request must be told, given whether something is in progress when it arrives. *)
Inductive answer := Accepted | Busy.
Definition spec_answer (held : bool) : answer := if held then Busy else Accepted.

(* ---------------------------------------------------------------------------------------------
   The same lock at the granularity of whole operations (used by the correspondence run, where the
   real functions are called one after the other).  [phase] is what the user-visible documentation
   distinguishes. *)
Inductive phase := Free | Queued | Active | Retiring.

Inductive op_event :=
| OpRequest                 (* a reload/suspend signal arrives *)
| OpStart                   (* the worker picks the queued request up *)
| OpFail                    (* the request in progress fails (any stage) and is released *)
| OpSucceed (retiring : bool)  (* cut-over done; [retiring]: an old generation is still retiring *)
| OpRetired.                (* the old generation has retired *)

Definition phase_held (p : phase) : bool := match p with Free => false | _ => true end.

(* returns the new phase and, for a request, the answer *)
Definition phase_step (p : phase) (e : op_event) : phase * option answer :=
  match e with
  | OpRequest => if phase_held p then (p, Some Busy) else (Queued, Some Accepted)
  | OpStart => (match p with Queued => Active | _ => p end, None)
  | OpFail => (match p with Free => Free | _ => Free end, None)
  | OpSucceed r => (match p with Free => Free | _ => if r then Retiring else Free end, None)
  | OpRetired => (match p with Retiring => Free | _ => p end, None)
  end.

(* muting as the user is promised it: muted exactly while a request is in progress *)
Definition phase_muted (p : phase) : nat := if phase_held p then 1 else 0.
