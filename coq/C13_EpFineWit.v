(* C13 — closed witnesses on the finer endpoint model (C13_EpFine.v): the unchanged GetOrCreate returns the
   endpoint it just built without looking at it again. *)
From Coq Require Import List Arith Bool.
From Dae Require Import C13_Spec C13_Model C13_EpModel C13_EpFine.
Import ListNotations.

(* W1: the creator captures the dialer generation; InvalidateDialerNetworkType runs before the endpoint is
   registered in the dialer bucket (it retires nothing); the creator publishes, registers and returns the
   endpoint that was invalidated before it carried traffic *)
Definition fine_w1_thr := [(0, 0, 0, 0)].
Definition fine_w1_pre := [FThr 0; FThr 0; FThr 0; FOp (PInval 0)].
Definition fine_w1 := fine_w1_pre ++ [FThr 0; FThr 0; FThr 0].

Lemma C13_fine_handout_invalidated_proof :
  In 0 (f_inval (frun fine_w1_thr fine_w1_pre)) /\ f_hand (frun fine_w1_thr fine_w1_pre) = []
  /\ f_hand (frun fine_w1_thr fine_w1) = [(0, 0)]
  /\ (exists u, nth_error (p_eps (f_p (frun fine_w1_thr fine_w1))) 0 = Some u
                /\ u_dead u = false /\ u_closed u = false /\ gen_current (f_p (frun fine_w1_thr fine_w1)) u = false).
Proof. vm_compute. repeat split; auto. eexists. repeat split. Qed.

(* W2: the creator has published its endpoint but not yet registered it; a second caller reuses it through
   the fast path; its write fails and retires the endpoint; the creator then registers and returns it dead *)
Definition fine_w2_thr := [(0, 0, 0, 0); (0, 0, 0, 0)].
Definition fine_w2 := [FThr 0; FThr 0; FThr 0; FThr 0; FThr 0; FThr 1; FOp (PWrite 0 1); FThr 0].

Lemma C13_fine_handout_dead_proof :
  f_hand (frun fine_w2_thr fine_w2) = [(1, 0); (0, 0)]
  /\ f_hand (frun fine_w2_thr (removelast fine_w2)) = [(1, 0)]
  /\ (exists u, nth_error (p_eps (f_p (frun fine_w2_thr (removelast fine_w2)))) 0 = Some u /\ u_dead u = true /\ u_conn_closes u = 1).
Proof. vm_compute. repeat split. eexists. repeat split. Qed.
