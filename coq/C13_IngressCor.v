(* C13 — corollary of the ingress buffer ownership theorem used for the composition with the task pool. *)
From Coq Require Import List Arith Bool.
From Dae Require Import C13_Model C13_Ingress C13_IngressProofs.
Import ListNotations.

(* once every task has run, the payloads the tasks handled are, task by task in Take order, the payloads of
   the datagrams that were taken *)
Lemma C13_ingress_handled_is_received_proof :
  forall nslots ops, let s := irun true true nslots ops in
    forallb t_done (i_tasks s) = true -> map t_handled (i_tasks s) = i_taken s.
Proof.
  intros nslots ops s Hd. destruct (C13_ingress_buffer_ownership_proof nslots ops) as (_&_&_&H4&H5&_).
  fold s in H4, H5. rewrite <- H5. apply map_ext_in. intros tk Hin.
  apply H4; auto. rewrite forallb_forall in Hd. now apply Hd.
Qed.
