(* C15 — a group picks only nodes it believes alive, by the set policy and tolerance.
   Spec: the property in its own terms.  A group has n nodes (numbered from 0), a per-node latency offset
   and a tolerance.  Per network type (health domain x IP family) the group keeps a VIEW: the nodes it has
   been told are alive, each with the measurement (offset included) it was last told since the node became
   alive under the current policy.  The view is a function of the history alone (spec_run).  Selection and
   the group's standing choice ("best") are then judged against the views by boolean checkers.
   Latencies, offsets and the tolerance are Z nanoseconds. *)
From Coq Require Import List ZArith Bool Arith.
Import ListNotations.
Open Scope Z_scope.

Inductive dom := DTcp | DDnsUdp | DDataUdp.
Inductive ipv := V4 | V6.
Definition ntype := (dom * ipv)%type.

Definition dom_eqb (a b : dom) : bool :=
  match a, b with DTcp, DTcp | DDnsUdp, DDnsUdp | DDataUdp, DDataUdp => true | _, _ => false end.
Definition ipv_eqb (a b : ipv) : bool :=
  match a, b with V4, V4 | V6, V6 => true | _, _ => false end.
Definition ntype_eqb (a b : ntype) : bool := dom_eqb (fst a) (fst b) && ipv_eqb (snd a) (snd b).
Definition flip (v : ipv) : ipv := match v with V4 => V6 | V6 => V4 end.
Definition flip_t (t : ntype) : ntype := (fst t, flip (snd t)).
Definition all_types : list ntype :=
  [(DDnsUdp, V4); (DDnsUdp, V6); (DTcp, V4); (DTcp, V6); (DDataUdp, V4); (DDataUdp, V6)].

Inductive mpol := MLast | MAvg10 | MMoving.          (* the latency a min policy looks at *)
Inductive spol := SRandom | SMin (m : mpol).         (* policies that need the alive views *)
Inductive gpol := GFixed (i : Z) | GSet (p : spol).  (* policy of a group *)

Definition mpol_eqb (a b : mpol) : bool :=
  match a, b with MLast, MLast | MAvg10, MAvg10 | MMoving, MMoving => true | _, _ => false end.
Definition spol_eqb (a b : spol) : bool :=
  match a, b with SRandom, SRandom => true | SMin x, SMin y => mpol_eqb x y | _, _ => false end.

(* what a node reports for one type: last sample, average of the last ten, moving average; None = no
   measurement of that kind yet *)
Definition lat3 := (option Z * option Z * option Z)%type.
Definition lat_for (m : mpol) (l : lat3) : option Z :=
  match m with MLast => fst (fst l) | MAvg10 => snd (fst l) | MMoving => snd l end.
Definition lat_of (p : spol) (l : lat3) : option Z :=
  match p with SMin m => lat_for m l | SRandom => None end.

Record store := { st_lat : nat -> ntype -> lat3; st_alive : nat -> ntype -> bool }.
Definition store0 : store := {| st_lat := fun _ _ => (None, None, None); st_alive := fun _ _ => true |}.

Definition upd2 {V} (f : nat -> ntype -> V) (d : nat) (t : ntype) (v : V) : nat -> ntype -> V :=
  fun d' t' => if Nat.eqb d' d && ntype_eqb t' t then v else f d' t'.

(* events of a history *)
Inductive op :=
| OLat (d : nat) (t : ntype) (l : lat3)     (* node d's latency summary for type t changes (new samples) *)
| OAlive (d : nat) (t : ntype) (b : bool)   (* node d's own health flag for type t *)
| ONotify (d : nat) (t : ntype) (b : bool)  (* the group is told: d alive / not alive for t (it reads d's summary) *)
| OPolicy (p : gpol).                       (* policy switch at run time *)

Record cfg := { c_n : nat; c_off : nat -> Z; c_tol : Z }.

Definition hour : Z := 3600000000000.
Definition timeout : Z := 10000000000.

(* ---- views ---- *)
Definition view := list (nat * option Z).
Definition view_get (d : nat) (v : view) : option (option Z) :=
  match find (fun x => Nat.eqb (fst x) d) v with Some x => Some (snd x) | None => None end.
Definition view_mem (d : nat) (v : view) : bool := existsb (fun x => Nat.eqb (fst x) d) v.
Definition view_remove (d : nat) (v : view) : view := filter (fun x => negb (Nat.eqb (fst x) d)) v.
Definition view_set (d : nat) (m : option Z) (v : view) : view :=
  map (fun x => if Nat.eqb (fst x) d then (d, m) else x) v.
Definition view_drop (excl : option nat) (v : view) : view :=
  match excl with Some e => view_remove e v | None => v end.

(* the group is told about d for one type, under set policy p *)
Definition view_notify (c : cfg) (p : spol) (st : store) (t : ntype) (d : nat) (b : bool) (v : view) : view :=
  if b then
    let v1 := if view_mem d v then v else v ++ [(d, None)] in
    match lat_of p (st_lat st d t) with
    | Some raw => view_set d (Some (raw + c_off c d)) v1
    | None => v1
    end
  else view_remove d v.

(* policy switch between two set policies: every alive node is re-read under the new policy *)
Definition view_repolicy (c : cfg) (p : spol) (st : store) (t : ntype) (v : view) : view :=
  map (fun x => (fst x, match lat_of p (st_lat st (fst x) t) with
                        | Some raw => Some (raw + c_off c (fst x)) | None => None end)) v.

(* a fresh view: every node is told with its own health flag *)
Definition view_build (c : cfg) (p : spol) (st : store) (t : ntype) : view :=
  fold_left (fun v d => view_notify c p st t d (st_alive st d t) v) (seq 0 (c_n c)) [].

Record sstate := { ss_store : store; ss_policy : gpol; ss_views : ntype -> view }.

Definition spec_init (c : cfg) (p : gpol) : sstate :=
  {| ss_store := store0; ss_policy := p;
     ss_views := match p with GSet sp => fun t => view_build c sp store0 t | GFixed _ => fun _ => [] end |}.

Definition spec_step (c : cfg) (s : sstate) (o : op) : sstate :=
  match o with
  | OLat d t l => {| ss_store := {| st_lat := upd2 (st_lat (ss_store s)) d t l; st_alive := st_alive (ss_store s) |};
                     ss_policy := ss_policy s; ss_views := ss_views s |}
  | OAlive d t b => {| ss_store := {| st_lat := st_lat (ss_store s); st_alive := upd2 (st_alive (ss_store s)) d t b |};
                       ss_policy := ss_policy s; ss_views := ss_views s |}
  | ONotify d t b =>
      match ss_policy s with
      | GSet p => {| ss_store := ss_store s; ss_policy := ss_policy s;
                     ss_views := fun t' => if ntype_eqb t' t then view_notify c p (ss_store s) t d b (ss_views s t)
                                           else ss_views s t' |}
      | GFixed _ => s
      end
  | OPolicy np =>
      match ss_policy s, np with
      | GSet p, GSet p' =>
          {| ss_store := ss_store s; ss_policy := np;
             ss_views := if spol_eqb p p' then ss_views s
                         else fun t => view_repolicy c p' (ss_store s) t (ss_views s t) |}
      | GFixed _, GSet p' =>
          {| ss_store := ss_store s; ss_policy := np; ss_views := fun t => view_build c p' (ss_store s) t |}
      | _, GFixed _ => {| ss_store := ss_store s; ss_policy := np; ss_views := fun _ => [] |}
      end
  end.

Definition spec_run (c : cfg) (p0 : gpol) (h : list op) : sstate := fold_left (spec_step c) h (spec_init c p0).

(* ---- the min-policy clause ---- *)
(* a beats r by the tolerance or more: strictly better, and by at least tol (tol may be 0) *)
Definition beats (tol la lr : Z) : bool := (la <? lr) && (la + tol <=? lr).

(* r is an acceptable standing choice for view v: alive, and no alive node with a measurement beats it.
   A chosen node without a measurement has nothing to be compared against. *)
Definition within_tol (tol : Z) (v : view) (r : nat) : bool :=
  match view_get r v with
  | None => false
  | Some None => true
  | Some (Some lr) =>
      forallb (fun x => match snd x with Some la => negb (beats tol la lr) | None => true end) v
  end.

(* optimistic reading used by the switching rule: a candidate without measurement counts as 0 *)
Definition eff (m : option Z) : Z := match m with Some l => l | None => 0 end.

(* may the standing choice change from b (before) to nb (after) when the view becomes v' ?
   policy_switch: the step was a policy switch (a new epoch: the latency looked at changes). *)
Definition switch_ok (tol : Z) (v' : view) (b nb : option nat) (policy_switch : bool) : bool :=
  match b with
  | None => true
  | Some x =>
      if match nb with Some y => Nat.eqb x y | None => false end then true
      else if policy_switch then true
      else match view_get x v' with
           | None => true                                   (* stopped being alive *)
           | Some None => true                              (* has no measurement yet *)
           | Some (Some lx) =>
               match nb with
               | None => false
               | Some y =>
                   match view_get y v' with
                   | None => false
                   | Some my => (eff my + tol <=? lx)                       (* better by at least tol *)
                                || ((eff my <=? lx) && (lx <? tol))         (* merely better, current below tol *)
                   end
               end
           end
  end.

(* ---- selection ---- *)
Inductive sel_err := ENoDialer | ENoAlive | EOutOfRange.
Inductive sel_res := ROk (d : nat) (lat : Z) | RErr (e : sel_err) (lat : Z).

(* the types a selection tries, in order *)
Definition chain (t : ntype) : list ntype :=
  match fst t with
  | DDataUdp => [t; (DDnsUdp, snd t); (DTcp, snd t)]
  | _ => [t]
  end.
Definition tried (t : ntype) (strict : bool) : list ntype :=
  if strict then chain t else chain t ++ chain (flip_t t).

Definition cands (excl : option nat) (v : view) : list nat := map fst (view_drop excl v).

Definition first_nonempty (views : ntype -> view) (excl : option nat) (ts : list ntype) : option ntype :=
  find (fun t => match cands excl (views t) with [] => false | _ => true end) ts.

(* is the observed result r acceptable for query (t, strict, excl) in state s ? *)
Definition select_ok (c : cfg) (s : sstate) (t : ntype) (strict : bool) (excl : option nat) (r : sel_res) : bool :=
  match c_n c with
  | O => match r with RErr ENoDialer _ => true | _ => false end
  | _ =>
    match ss_policy s with
    | GFixed i =>
        if (0 <=? i) && (i <? Z.of_nat (c_n c))
        then match r with ROk d l => Nat.eqb d (Z.to_nat i) && (l =? 0) | _ => false end
        else match r with RErr EOutOfRange _ => true | _ => false end
    | GSet p =>
        match first_nonempty (ss_views s) excl (tried t strict) with
        | Some t' =>
            let v := view_drop excl (ss_views s t') in
            match r with
            | ROk d l =>
                view_mem d v &&
                match p with
                | SRandom => (l =? 0)
                | SMin _ => within_tol (c_tol c) v d
                            && match view_get d v with Some (Some ld) => l =? ld | _ => true end
                end
            | RErr _ _ => false
            end
        | None =>
            if Nat.eqb (c_n c) 1 && strict
            then match r with ROk d l => Nat.eqb d 0 && (l =? timeout) | _ => false end   (* last resort *)
            else match r with RErr ENoAlive _ => true | _ => false end
        end
    end
  end.
