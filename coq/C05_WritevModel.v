(* C05 - the gather write (no proofs in this file).
   control/tcp_copy_gather_linux.go relayWritevAll: inside rawConn.Write's callback, loop: writev(pending segments);
   n > 0 -> advance; EINTR -> again; EAGAIN -> leave the callback (the poller re-enters it); n == 0 -> ErrShortWrite.
   relayAdvanceSegments drops the segments that were fully sent and trims the first remaining one IN PLACE.
   What the loop hands to relayAdvanceSegments (this call's n, applied to the remaining list) is extracted from the
   source (gen: c05_writev_advance_per_call). *)
From Coq Require Import List NArith Arith Bool.
From Dae.gen Require Import C05_Extracted.
Import ListNotations.

Inductive wcall := WAccept (n : nat) | WAgain | WIntr.     (* the kernel accepts up to n bytes / EAGAIN / EINTR *)

(* relayAdvanceSegments: (what it returns, what the list it was given looks like afterwards - the first remaining
   segment is trimmed in place, so the caller's slice sees the trimmed element) *)
Fixpoint advance_mut (segs : list (list N)) (n : nat) : list (list N) * list (list N) :=
  match segs with
  | [] => ([], [])
  | s :: r =>
      match n with
      | O => (segs, segs)
      | _ => if Nat.leb (length s) n
             then let '(p, r') := advance_mut r (n - length s)%nat in (p, s :: r')
             else (skipn n s :: r, skipn n s :: r)
      end
  end.
Definition wv_advance (segs : list (list N)) (n : nat) : list (list N) := fst (advance_mut segs n).

Fixpoint nonempty_segs (segs : list (list N)) : list (list N) :=
  match segs with [] => [] | [] :: r => nonempty_segs r | s :: r => s :: nonempty_segs r end.

Inductive wend := WDone | WShort | WRunning.     (* all sent / zero-length write: ErrShortWrite / script ended *)

(* per_call = true: the code - `segments = relayAdvanceSegments(segments, n)`.
   per_call = false: the variant - `pending := relayAdvanceSegments(segments, written)` recomputed from the
   cumulative count over the (in place trimmed) original list. *)
Fixpoint writev_loop (per_call : bool) (script : list wcall) (segments : list (list N)) (written : nat) (wire : list N)
  : wend * nat * list N :=
  let '(pending, segments1) := if per_call then (segments, segments) else advance_mut segments written in
  match pending with
  | [] => (WDone, written, wire)
  | _ =>
      match script with
      | [] => (WRunning, written, wire)
      | WAgain :: rest => writev_loop per_call rest segments1 written wire
      | WIntr :: rest => writev_loop per_call rest segments1 written wire
      | WAccept n :: rest =>
          let got := firstn n (concat pending) in
          match got with
          | [] => (WShort, written, wire)
          | _ =>
              let k := length got in
              writev_loop per_call rest (if per_call then wv_advance segments1 k else segments1) (written + k)%nat (wire ++ got)
          end
      end
  end.

Definition writev_all (per_call : bool) (script : list wcall) (segs : list (list N)) : wend * nat * list N :=
  writev_loop per_call script (nonempty_segs segs) 0 [].
