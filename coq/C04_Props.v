(* C04 — property theorems only.  Each is closed by `exact` of a lemma of C04_Proofs.v.
   Every statement quantifies over ALL rule lists, ALL packets and ALL meanings of single values
   (atom_sem) and of outbounds (out_sem): nothing is bounded. *)
From Coq Require Import List String Bool.
From Dae Require Import C04_Spec C04_Model C04_Proofs.
From Dae.gen Require Import C04_Extracted.
Import ListNotations.
Open Scope string_scope.

(* AliasOptimizer: dip/dport and the domain keys ``/domain/contains are pure renamings. *)
Theorem C04_alias_sound :
  forall (packet D : Type) (atom_sem : string -> string -> string -> packet -> bool) (out_sem : func -> option D),
    alias_respecting packet atom_sem ->
    forall (rules : list rule) (pk : packet),
      decide packet D atom_sem out_sem (alias_opt rules) pk = decide packet D atom_sem out_sem rules pk.
Proof. exact C04_alias_sound_proof. Qed.
Print Assumptions C04_alias_sound.

(* ... and it does so by touching function names and keys only, exactly per the alias table: negation, outbound
   and every VALUE are carried over verbatim (no case folding, no rewriting of regular expressions). *)
Theorem C04_alias_preserves_values :
  forall rules : list rule,
    map rule_values (alias_opt rules) = map rule_values rules
    /\ forall r f, In r rules -> In f (r_funcs r) ->
         f_name (alias_func f) = canon_fname (f_name f)
         /\ map p_key (f_params (alias_func f)) = map (canon_key (canon_fname (f_name f))) (map p_key (f_params f))
         /\ map p_val (f_params (alias_func f)) = map p_val (f_params f).
Proof. exact C04_alias_preserves_values_proof. Qed.
Print Assumptions C04_alias_preserves_values.

(* DatReaderOptimizer: replacing geosite/geoip/ext references by their expansion, in place. *)
Theorem C04_dat_sound :
  forall (packet D : Type) (atom_sem : string -> string -> string -> packet -> bool) (out_sem : func -> option D)
         (db : geodb),
    geo_respecting packet atom_sem (dat_expansion db) ->
    forall (rules out : list rule) (pk : packet),
      dat_opt db rules = XOk out ->
      decide packet D atom_sem out_sem out pk = decide packet D atom_sem out_sem rules pk.
Proof. exact C04_dat_sound_proof. Qed.
Print Assumptions C04_dat_sound.

(* the two sorting passes of MergeAndSortRulesOptimizer (conditions by name, values by family/key/value) *)
Theorem C04_sort_sound :
  forall (packet D : Type) (atom_sem : string -> string -> string -> packet -> bool) (out_sem : func -> option D)
         (rules : list rule) (pk : packet),
    decide packet D atom_sem out_sem (map sort_params (map sort_funcs rules)) pk
    = decide packet D atom_sem out_sem rules pk.
Proof. exact C04_sort_sound_proof. Qed.
Print Assumptions C04_sort_sound.

(* ---- merging of neighbouring rules ----
   Since /repo ec2de34 only positive neighbours merge, so no hypothesis about negation is needed any more.
   What remains FALSE of the code as modelled is the unrestricted statement, because outbounds are compared by
   a printed form that stops after five parameters (open finding C04/outbound-print-truncated). *)
Definition C04_merge_sound_full : Prop :=
  forall (packet D : Type) (atom_sem : string -> string -> string -> packet -> bool) (out_sem : func -> option D)
         (rules : list rule) (pk : packet),
    decide packet D atom_sem out_sem (merge_sort_opt rules) pk = decide packet D atom_sem out_sem rules pk.

(* witness: outbounds that differ only after their fifth parameter are taken for equal *)
Theorem C04_merge_outbound_refuted :
  exists (rules : list rule) (pk : string),
    decide string string w_atom w_out_last (merge_sort_opt rules) pk <> decide string string w_atom w_out_last rules pk.
Proof. exact C04_merge_outbound_refuted_proof. Qed.
Print Assumptions C04_merge_outbound_refuted.

(* for ALL rule lists, negated or not: merging + sorting keeps every decision, provided the outbounds of
   neighbours that are fused mean the same (the only hypothesis) *)
Theorem C04_merge_sound_partial :
  forall (packet D : Type) (atom_sem : string -> string -> string -> packet -> bool) (out_sem : func -> option D)
         (rules : list rule),
    merge_hazard_free D out_sem rules ->
    forall pk : packet,
      decide packet D atom_sem out_sem (merge_sort_opt rules) pk = decide packet D atom_sem out_sem rules pk.
Proof. exact C04_merge_sound_partial_proof. Qed.
Print Assumptions C04_merge_sound_partial.

(* ... in particular when outbounds are told apart by their printed form (true of every outbound with at
   most five parameters that routing.ParseOutbound accepts) there is no hypothesis on the rules at all *)
Theorem C04_merge_sound :
  forall (packet D : Type) (atom_sem : string -> string -> string -> packet -> bool) (out_sem : func -> option D),
    (forall o1 o2 : func, out_print o1 = out_print o2 -> out_sem o1 = out_sem o2) ->
    forall (rules : list rule) (pk : packet),
      decide packet D atom_sem out_sem (merge_sort_opt rules) pk = decide packet D atom_sem out_sem rules pk.
Proof. exact C04_merge_sound_proof. Qed.
Print Assumptions C04_merge_sound.

(* regression of the repaired defect: !domain(full: a.com) -> proxy ; !domain(full: b.com) -> proxy stay two rules *)
Example C04_negated_neighbours_kept :
  merge_sort_opt w_neg_rules = w_neg_rules /\
  decide string string w_atom w_out (merge_sort_opt w_neg_rules) "a.com" = (Some "proxy", false) /\
  decide string string w_atom w_out w_neg_rules "a.com" = (Some "proxy", false).
Proof. exact negated_neighbours_kept. Qed.

(* ---- removal of duplicate values: duplicates are recognised by their printed form ---- *)
Definition C04_dedup_sound_full : Prop :=
  forall (packet D : Type) (atom_sem : string -> string -> string -> packet -> bool) (out_sem : func -> option D)
         (rules : list rule) (pk : packet),
    decide packet D atom_sem out_sem (dedup_opt rules) pk = decide packet D atom_sem out_sem rules pk.

(* witness: pname('a:b', a: b) — Key "" / Val "a:b" and Key "a" / Val "b" both print as a:b *)
Theorem C04_dedup_sound_refuted :
  exists (rules : list rule) (pk : string),
    decide string string w_atom_kv w_out (dedup_opt rules) pk <> decide string string w_atom_kv w_out rules pk.
Proof. exact C04_dedup_sound_refuted_proof. Qed.
Print Assumptions C04_dedup_sound_refuted.

Theorem C04_dedup_sound_partial :
  forall (packet D : Type) (atom_sem : string -> string -> string -> packet -> bool) (out_sem : func -> option D)
         (rules : list rule),
    dedup_faithful packet atom_sem rules ->
    forall pk : packet,
      decide packet D atom_sem out_sem (dedup_opt rules) pk = decide packet D atom_sem out_sem rules pk.
Proof. exact C04_dedup_sound_partial_proof. Qed.
Print Assumptions C04_dedup_sound_partial.

(* ---- the three pipelines ---- *)
Definition C04_pipeline_sound_full : Prop :=
  forall (packet D : Type) (atom_sem : string -> string -> string -> packet -> bool) (out_sem : func -> option D)
         (db : geodb) (rules out : list rule) (pk : packet),
    alias_respecting packet atom_sem -> geo_respecting packet atom_sem (dat_expansion db) ->
    (traffic_pipeline db rules = XOk out -> decide packet D atom_sem out_sem out pk = decide packet D atom_sem out_sem rules pk)
    /\ (dns_pipeline db rules = XOk out -> decide packet D atom_sem out_sem out pk = decide packet D atom_sem out_sem rules pk).

(* witness: the two rules with six-parameter outbounds, through either pipeline, no geodata, no aliases *)
Theorem C04_pipeline_sound_refuted :
  exists (rules out : list rule) (pk : string),
    alias_respecting string w_atom /\ geo_respecting string w_atom (dat_expansion db0) /\
    traffic_pipeline db0 rules = XOk out /\ dns_pipeline db0 rules = XOk out /\
    decide string string w_atom w_out_last out pk <> decide string string w_atom w_out_last rules pk.
Proof. exact C04_pipeline_sound_refuted_proof. Qed.
Print Assumptions C04_pipeline_sound_refuted.

(* traffic routing (control_plane.go): alias, dat, merge+sort, dedup *)
Theorem C04_pipeline_sound_partial :
  forall (packet D : Type) (atom_sem : string -> string -> string -> packet -> bool) (out_sem : func -> option D)
         (db : geodb) (rules mid : list rule),
    alias_respecting packet atom_sem ->
    geo_respecting packet atom_sem (dat_expansion db) ->
    dat_opt db (alias_opt rules) = XOk mid ->
    merge_hazard_free D out_sem mid ->
    dedup_faithful packet atom_sem (merge_sort_opt mid) ->
    exists out, traffic_pipeline db rules = XOk out /\
                forall pk : packet, decide packet D atom_sem out_sem out pk = decide packet D atom_sem out_sem rules pk.
Proof. exact traffic_pipeline_sound_partial. Qed.
Print Assumptions C04_pipeline_sound_partial.

(* DNS request and response routing (component/dns/dns.go, daedns/router.go): dat, merge+sort, dedup *)
Theorem C04_dns_pipeline_sound_partial :
  forall (packet D : Type) (atom_sem : string -> string -> string -> packet -> bool) (out_sem : func -> option D)
         (db : geodb) (rules mid : list rule),
    geo_respecting packet atom_sem (dat_expansion db) ->
    dat_opt db rules = XOk mid ->
    merge_hazard_free D out_sem mid ->
    dedup_faithful packet atom_sem (merge_sort_opt mid) ->
    exists out, (dns_pipeline db rules = XOk out /\ dns_response_pipeline db rules = XOk out
                 /\ daedns_pipeline db rules = XOk out) /\
                forall pk : packet, decide packet D atom_sem out_sem out pk = decide packet D atom_sem out_sem rules pk.
Proof. exact dns_pipeline_sound_partial. Qed.
Print Assumptions C04_dns_pipeline_sound_partial.

(* ---- the program that is actually compiled: lowering to match sets + the matcher scan ----
   Since /repo dd2eef7 RulesBuilder.Apply refuses a condition that has no values, so the statements need no
   hypothesis about empty conditions any more: a compiled list either fails to build (exactly when some
   condition is empty) or decides every packet as the AST says.  `rules_have_conditions` (every rule has at
   least one condition) is a guarantee of the grammar and is kept by every optimizer. *)
Theorem C04_build_error_iff_empty_condition :
  forall rules : list rule, lower rules = None <-> some_condition_empty rules.
Proof. exact C04_build_error_iff_empty_condition_proof. Qed.
Print Assumptions C04_build_error_iff_empty_condition.

Theorem C04_lower_sound :
  forall (packet D : Type) (atom_sem : string -> string -> string -> packet -> bool) (out_sem : func -> option D)
         (rules : list rule),
    rules_have_conditions rules ->
    forall pk : packet,
      (some_condition_empty rules -> compiled_decision packet D atom_sem out_sem rules pk = CBuildError) /\
      (~ some_condition_empty rules ->
       compiled_decision packet D atom_sem out_sem rules pk = CDecision (decide packet D atom_sem out_sem rules pk)).
Proof. exact C04_lower_sound_proof. Qed.
Print Assumptions C04_lower_sound.

(* regression of the repaired defect: domain(geosite: cn@nope) && port(80) -> block has no empty condition as
   written, DatReaderOptimizer leaves `domain()`, and the compiled program is a build error for every packet *)
Theorem C04_empty_expansion_is_build_error :
  exists (db : geodb) (rules out : list rule),
    rules_have_conditions rules /\ ~ some_condition_empty rules /\
    traffic_pipeline db rules = XOk out /\ some_condition_empty out /\
    forall pk : string, compiled_decision string string w_atom w_out out pk = CBuildError.
Proof. exact C04_empty_expansion_is_build_error_proof. Qed.
Print Assumptions C04_empty_expansion_is_build_error.

(* the property itself for traffic routing: the compiled program is a configuration error or decides every
   packet as the list the user wrote (remaining hypotheses = the two open findings) *)
Theorem C04_compiled_program :
  forall (packet D : Type) (atom_sem : string -> string -> string -> packet -> bool) (out_sem : func -> option D)
         (db : geodb) (rules mid : list rule),
    alias_respecting packet atom_sem ->
    geo_respecting packet atom_sem (dat_expansion db) ->
    rules_have_conditions rules ->
    dat_opt db (alias_opt rules) = XOk mid ->
    merge_hazard_free D out_sem mid ->
    dedup_faithful packet atom_sem (merge_sort_opt mid) ->
    exists out, traffic_pipeline db rules = XOk out /\
                forall pk : packet,
                  (some_condition_empty out -> compiled_decision packet D atom_sem out_sem out pk = CBuildError) /\
                  (~ some_condition_empty out ->
                   compiled_decision packet D atom_sem out_sem out pk = CDecision (decide packet D atom_sem out_sem rules pk)).
Proof. exact C04_compiled_program_proof. Qed.
Print Assumptions C04_compiled_program.

(* the same for DNS request / response routing *)
Theorem C04_compiled_dns_program :
  forall (packet D : Type) (atom_sem : string -> string -> string -> packet -> bool) (out_sem : func -> option D)
         (db : geodb) (rules mid : list rule),
    geo_respecting packet atom_sem (dat_expansion db) ->
    rules_have_conditions rules ->
    dat_opt db rules = XOk mid ->
    merge_hazard_free D out_sem mid ->
    dedup_faithful packet atom_sem (merge_sort_opt mid) ->
    exists out, (dns_pipeline db rules = XOk out /\ dns_response_pipeline db rules = XOk out /\ daedns_pipeline db rules = XOk out) /\
                forall pk : packet,
                  (some_condition_empty out -> compiled_decision packet D atom_sem out_sem out pk = CBuildError) /\
                  (~ some_condition_empty out ->
                   compiled_decision packet D atom_sem out_sem out pk = CDecision (decide packet D atom_sem out_sem rules pk)).
Proof. exact C04_compiled_dns_program_proof. Qed.
Print Assumptions C04_compiled_dns_program.

Example C04_compiled_nonvacuous :
  compiled_decision string string w_atom w_out (dedup_opt (merge_sort_opt nonvacuous_rules)) "a.com"
  = CDecision (Some "proxy", false)
  /\ rules_have_conditions nonvacuous_rules /\ ~ some_condition_empty (dedup_opt (merge_sort_opt nonvacuous_rules)).
Proof. exact compiled_nonvacuous. Qed.

(* The data the model takes from the source (coq/gen/C04_Extracted.v, regenerated on every run) is what the
   theorems above were proved for: alias tables, print formats used by merge and dedup, pipeline composition. *)
Example C04_source_as_modelled :
  alias_fnames_src = [("dport", "port"); ("dip", "ip")]
  /\ alias_key_function_src = "domain"
  /\ alias_domain_keys_src = [("", "suffix"); ("domain", "suffix"); ("contains", "keyword")]
  /\ function_print_limit_src = 5 /\ function_print_ellipsis_src = "..." /\ param_print_separator_src = ":"
  /\ ip_sorted_functions_src = ["ip"; "sip"]
  /\ merge_outbound_string_args_src = ["true"; "false"; "true"; "true"; "false"; "true"]
  /\ dedup_param_string_args_src = ["true"; "false"]
  /\ traffic_pipeline_src = ["AliasOptimizer"; "DatReaderOptimizer"; "MergeAndSortRulesOptimizer"; "DeduplicateParamsOptimizer"]
  /\ dns_request_pipeline_src = ["DatReaderOptimizer"; "MergeAndSortRulesOptimizer"; "DeduplicateParamsOptimizer"]
  /\ dns_response_pipeline_src = dns_request_pipeline_src /\ daedns_request_pipeline_src = dns_request_pipeline_src.
Proof. repeat split; reflexivity. Qed.

(* Non-vacuity: a list whose positive neighbours really merge (3 rules become 2, values get sorted and a
   duplicate disappears), which satisfies the hypotheses of the partial theorems, and on which a packet
   is routed by the merged rule. *)
Example C04_nonvacuous :
  let rules := [mk_rule false "domain" "full" "b.com" "proxy"; mk_rule false "domain" "full" "a.com" "proxy";
                mk_rule false "domain" "full" "b.com" "proxy"; mk_rule true "domain" "full" "c.com" "direct"] in
  merge_hazard_free string w_out rules
  /\ dedup_faithful string w_atom (merge_sort_opt rules)
  /\ List.length (dedup_opt (merge_sort_opt rules)) = 2
  /\ map (fun r => map (fun f => map p_val (f_params f)) (r_funcs r)) (dedup_opt (merge_sort_opt rules))
     = [[["a.com"; "b.com"]]; [["c.com"]]]
  /\ decide string string w_atom w_out (dedup_opt (merge_sort_opt rules)) "a.com" = (Some "proxy", false).
Proof. exact C04_nonvacuous_proof. Qed.
