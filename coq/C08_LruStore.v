(* C08 — evictLRUIfFull at store level, for every iteration order of the map (lemmas). *)
From Coq Require Import List ZArith NArith Bool Lia Arith Permutation.
From Dae Require Import C08_Spec C08_Model C08_Proofs C08_Lru.
Import ListNotations.

Lemma beqb_neq : forall a b, a <> b -> bytes_eqb a b = false.
Proof. intros a b H. destruct (bytes_eqb a b) eqn:E; [apply bytes_eqb_eq in E; contradiction|reflexivity]. Qed.

Lemma keys_cons : forall k e t, keys_of ((k, e) :: t) = k :: keys_of t.
Proof. reflexivity. Qed.

Lemma In_keys : forall st k, In k (keys_of st) <-> exists e, In (k, e) st.
Proof.
  intros. unfold keys_of. rewrite in_map_iff. split.
  - intros [[k' e] [E H]]. cbn in E. subst. eauto.
  - intros [e H]. exists (k, e). auto.
Qed.

Lemma mfind_unique : forall st k e, NoDup (keys_of st) -> In (k, e) st -> mfind k st = Some e.
Proof.
  induction st as [|[k0 e0] t IH]; intros k e ND Hin; [contradiction|].
  rewrite keys_cons in ND. inversion ND as [|x l Hnot ND']; subst.
  unfold mfind. cbn [find fst]. destruct Hin as [E|Hin].
  - inversion E; subst. rewrite bytes_eqb_refl. reflexivity.
  - destruct (bytes_eqb k0 k) eqn:Ek.
    + apply bytes_eqb_eq in Ek. subst. exfalso. apply Hnot. apply In_keys. eauto.
    + apply (IH k e ND' Hin).
Qed.

Lemma entry_unique : forall st k e e', NoDup (keys_of st) -> In (k, e) st -> In (k, e') st -> e = e'.
Proof.
  intros st k e e' ND H1 H2. pose proof (mfind_unique st k e ND H1) as A. pose proof (mfind_unique st k e' ND H2) as B.
  rewrite A in B. inversion B. reflexivity.
Qed.

Lemma mfind_none : forall st k, ~ In k (keys_of st) -> mfind k st = None.
Proof.
  intros st k H. unfold mfind. destruct (find _ st) eqn:F; [|reflexivity]. exfalso.
  apply find_some in F. destruct F as [Hin Hk]. destruct p as [k' e]. cbn in Hk. apply bytes_eqb_eq in Hk. subst.
  apply H. apply In_keys. eauto.
Qed.

(* ------------------------------------------------------------------ removal *)
Lemma In_mremove : forall st k p, In p (mremove k st) <-> In p st /\ bytes_eqb (fst p) k = false.
Proof. intros. unfold mremove. rewrite filter_In. destruct (bytes_eqb (fst p) k); cbn; intuition discriminate. Qed.

Lemma NoDup_keys_filter : forall f st, NoDup (keys_of st) -> NoDup (keys_of (filter f st)).
Proof.
  induction st as [|[k e] t IH]; intros ND; [constructor|]. rewrite keys_cons in ND. inversion ND; subst.
  cbn [filter]. destruct (f (k, e)); [|auto]. rewrite keys_cons. constructor; [|auto].
  intros Hin. apply In_keys in Hin. destruct Hin as [e' Hin]. apply filter_In in Hin. apply H1. apply In_keys. exists e'. tauto.
Qed.

Lemma mremove_notin : forall st k, ~ In k (keys_of st) -> mremove k st = st.
Proof.
  induction st as [|[k0 e0] t IH]; intros k H; [reflexivity|]. unfold mremove in *. cbn [filter fst].
  rewrite keys_cons in H. destruct (bytes_eqb k0 k) eqn:E.
  - apply bytes_eqb_eq in E. subst. exfalso. apply H. left. reflexivity.
  - cbn [negb]. f_equal. apply IH. intros Hin. apply H. right. assumption.
Qed.

Lemma length_mremove_in : forall st k, NoDup (keys_of st) -> In k (keys_of st) -> S (length (mremove k st)) = length st.
Proof.
  induction st as [|[k0 e0] t IH]; intros k ND Hin; [contradiction|].
  rewrite keys_cons in ND, Hin. inversion ND; subst. unfold mremove. cbn [filter fst].
  destruct (bytes_eqb k0 k) eqn:E; cbn [negb].
  - apply bytes_eqb_eq in E. subst. fold (mremove k t). rewrite mremove_notin by assumption. reflexivity.
  - cbn [length]. f_equal. apply IH; [assumption|]. destruct Hin as [->|Hin]; [rewrite bytes_eqb_refl in E; discriminate|assumption].
Qed.

Lemma In_fold_mremove : forall (vs : list cent) st p,
    In p (fold_left (fun acc v => mremove (fst v) acc) vs st)
    <-> In p st /\ forall v, In v vs -> bytes_eqb (fst p) (fst v) = false.
Proof.
  induction vs as [|v vs IH]; intros st p; cbn [fold_left].
  - split; [intros H; split; [assumption|intros v []] | tauto].
  - rewrite IH, In_mremove. split.
    + intros [[H1 H2] H3]. split; [assumption|]. intros v' [<-|Hv]; auto.
    + intros [H1 H2]. repeat split; auto. apply H2. left. reflexivity. intros v' Hv. apply H2. right. assumption.
Qed.

Lemma length_fold_mremove : forall (vs : list cent) st,
    NoDup (keys_of st) -> NoDup (map fst vs) -> incl (map fst vs) (keys_of st) ->
    (length (fold_left (fun acc v => mremove (fst v) acc) vs st) + length vs = length st)%nat.
Proof.
  induction vs as [|v vs IH]; intros st ND NDv Hincl; cbn [fold_left length]; [lia|].
  cbn [map] in NDv, Hincl. inversion NDv; subst.
  assert (Hv : In (fst v) (keys_of st)) by (apply Hincl; left; reflexivity).
  rewrite Nat.add_succ_r, IH.
  - apply length_mremove_in; assumption.
  - apply NoDup_keys_filter. assumption.
  - assumption.
  - intros k Hk. apply In_keys. assert (Hk' : In k (keys_of st)) by (apply Hincl; right; assumption).
    apply In_keys in Hk'. destruct Hk' as [e He]. exists e. apply In_mremove. split; [assumption|]. cbn [fst].
    apply beqb_neq. intros ->. contradiction.
Qed.

(* ------------------------------------------------------------------ the entry list built from an iteration order *)
Definition ent_of (st : store) (key : bytes) : list cent :=
  match mfind key st with Some e => [(key, e_last e)] | None => [] end.
Definition present (st : store) (key : bytes) : bool := match mfind key st with Some _ => true | None => false end.

Lemma flat_map_present : forall st order, flat_map (ent_of st) order = flat_map (ent_of st) (filter (present st) order).
Proof.
  induction order as [|k t IH]; [reflexivity|]. cbn [flat_map filter]. unfold present at 1, ent_of at 1.
  destruct (mfind k st) eqn:F.
  - cbn [flat_map]. unfold ent_of at 2. rewrite F. rewrite IH. reflexivity.
  - cbn [app]. exact IH.
Qed.

Lemma entries_ok : forall st order,
    NoDup (keys_of st) -> (forall k, In k order -> In k (keys_of st)) ->
    map fst (flat_map (ent_of st) order) = order
    /\ Forall (fun c => exists e, In (fst c, e) st /\ snd c = e_last e) (flat_map (ent_of st) order).
Proof.
  intros st order ND. induction order as [|k t IH]; intros Hin; [split; [reflexivity|constructor]|].
  destruct IH as [I1 I2]; [intros k' Hk'; apply Hin; right; assumption|].
  assert (Hk : In k (keys_of st)) by (apply Hin; left; reflexivity). apply In_keys in Hk. destruct Hk as [e He].
  cbn [flat_map]. unfold ent_of at 1 3. rewrite (mfind_unique st k e ND He). cbn [app map fst]. split; [f_equal; assumption|].
  constructor; [exists e; auto | assumption].
Qed.

(* ------------------------------------------------------------------ positions *)
Lemma In_skipn_pos : forall (m : nat) (l : list cent) x, In x (skipn m l) -> exists b, (m <= b < length l)%nat /\ nth b l cdefault = x.
Proof.
  induction m as [|m IH]; intros l x Hin.
  - cbn in Hin. destruct (In_nth l x cdefault Hin) as [b [Hb E]]. exists b. split; [lia|assumption].
  - destruct l as [|a t]; [contradiction|]. cbn [skipn] in Hin. destruct (IH t x Hin) as [b [Hb E]].
    exists (S b). cbn [length nth]. split; [lia|assumption].
Qed.

Lemma nth_In_skipn : forall (m : nat) (l : list cent) b, (m <= b < length l)%nat -> In (nth b l cdefault) (skipn m l).
Proof.
  induction m as [|m IH]; intros l b Hb.
  - cbn. apply nth_In. lia.
  - destruct l as [|a t]; [cbn in Hb; lia|]. destruct b as [|b]; [lia|]. cbn [skipn nth]. apply IH. cbn [length] in Hb. lia.
Qed.

Lemma NoDup_app_r : forall (a b : list bytes), NoDup (a ++ b) -> NoDup b.
Proof. induction a; cbn; intros b H; [assumption|]. inversion H; subst. auto. Qed.

(* ------------------------------------------------------------------ the theorem *)
Lemma evict_lru_exact : forall (st : store) (order : list bytes) (n : Z),
    NoDup (keys_of st) -> Permutation (keys_of st) order -> (0 < n)%Z -> (n < Z.of_nat (length st))%Z ->
    let st' := evict_lru n st order in
    Z.of_nat (length st') = n /\ (forall p, In p st' -> In p st)
    /\ (forall ke e ks s, In (ke, e) st -> ~ In (ke, e) st' -> In (ks, s) st' -> (e_last e <= e_last s)%Z).
Proof.
  intros st order n ND P Hn0 Hn. cbv zeta. unfold evict_lru.
  assert (Hc : (Z.of_nat (length st) <=? n)%Z = false) by lia. rewrite Hc.
  set (k := Z.to_nat (Z.of_nat (length st) - n)).
  change (fun key : bytes => match mfind key st with Some e => [(key, e_last e)] | None => [] end) with (ent_of st).
  set (entries := flat_map (ent_of st) order).
  destruct (entries_ok st order ND) as [E1 E2]; [intros k' Hk'; eapply Permutation_in; [apply Permutation_sym; exact P|exact Hk']|].
  fold entries in E1, E2.
  assert (Hlen : length entries = length st).
  { pose proof (map_length fst entries) as ML. rewrite E1 in ML. pose proof (Permutation_length P) as PL.
    unfold keys_of in PL. rewrite map_length in PL. transitivity (length order); [symmetry; exact ML | symmetry; exact PL]. }
  assert (Hk : (k < length entries)%nat) by (unfold k; lia).
  destruct (select_oldest_proof entries k Hk) as (S1 & S2 & S3 & S4).
  set (h := extract k 0 (build_min_heap entries)) in *. set (m := (length entries - k)%nat) in *.
  set (victims := select_oldest entries k) in *.
  assert (Hvl : length victims = k).
  { rewrite S1, skipn_length. unfold m. lia. }
  rewrite firstn_all2 by (apply Nat.eq_le_incl; exact Hvl).
  assert (Hkeys_h : Permutation (keys_of st) (map fst h)).
  { eapply Permutation_trans; [exact P|]. rewrite <- E1. apply Permutation_map. exact S2. }
  assert (NDh : NoDup (map fst h)) by (eapply Permutation_NoDup; eassumption).
  assert (Hh : Forall (fun c => exists e, In (fst c, e) st /\ snd c = e_last e) h).
  { apply Forall_forall. intros c Hc'. rewrite Forall_forall in E2. apply E2. eapply Permutation_in; [apply Permutation_sym; exact S2|exact Hc']. }
  assert (NDv : NoDup (map fst victims)).
  { rewrite S1. rewrite <- (firstn_skipn m h), map_app in NDh. eapply NoDup_app_r. exact NDh. }
  assert (Hiv : incl (map fst victims) (keys_of st)).
  { intros x Hx. eapply Permutation_in; [apply Permutation_sym; exact Hkeys_h|]. rewrite S1 in Hx.
    apply in_map_iff in Hx. destruct Hx as [c [Ec Hc']]. apply in_map_iff. exists c. split; [assumption|].
    rewrite <- (firstn_skipn m h). apply in_or_app. right. assumption. }
  split; [|split].
  - pose proof (length_fold_mremove victims st ND NDv Hiv) as HL.
    assert (HL' : (length (fold_left (fun acc v => mremove (fst v) acc) victims st) + k = length st)%nat) by (rewrite <- Hvl; exact HL).
    unfold victims, entries in HL'. unfold cent in *.
    match goal with |- Z.of_nat (length ?t) = _ => generalize dependent (length t) end. intros L HL'. unfold k in HL'. lia.
  - intros p Hp. apply In_fold_mremove in Hp. tauto.
  - intros ke e ks s He Hne Hs.
    (* the evicted entry sits at a position >= m of h *)
    destruct (existsb (fun v => bytes_eqb ke (fst v)) victims) eqn:Ex.
    2:{ exfalso. apply Hne. apply In_fold_mremove. split; [assumption|]. intros v Hv. cbn [fst].
        destruct (bytes_eqb ke (fst v)) eqn:Ev; [|reflexivity].
        assert (existsb (fun v => bytes_eqb ke (fst v)) victims = true) by (apply existsb_exists; exists v; auto). congruence. }
    apply existsb_exists in Ex. destruct Ex as [v [Hv Ev]]. apply bytes_eqb_eq in Ev.
    rewrite S1 in Hv. destruct (In_skipn_pos m h v Hv) as [b [Hb Eb]].
    assert (Hvh : In v h) by (rewrite <- (firstn_skipn m h); apply in_or_app; right; assumption).
    rewrite Forall_forall in Hh. destruct (Hh v Hvh) as [e' [He' Ev']]. rewrite <- Ev in He'.
    rewrite (entry_unique st ke e' e ND He' He) in Ev'.
    (* the survivor sits at a position < m *)
    apply In_fold_mremove in Hs. destruct Hs as [Hs1 Hs2]. cbn [fst] in Hs2.
    assert (Hks : In ks (map fst h)).
    { eapply Permutation_in; [exact Hkeys_h|]. apply In_keys. eauto. }
    apply in_map_iff in Hks. destruct Hks as [c [Ec Hc']].
    destruct (In_nth h c cdefault Hc') as [a [Ha Ea]].
    assert (Ham : (a < m)%nat).
    { destruct (lt_dec a m) as [|Hge]; [assumption|]. exfalso.
      assert (Hcv : In c victims) by (rewrite S1, <- Ea; apply nth_In_skipn; lia).
      specialize (Hs2 c Hcv). rewrite Ec, bytes_eqb_refl in Hs2. discriminate. }
    destruct (Hh c Hc') as [s' [Hs' Ec']]. rewrite Ec in Hs'.
    rewrite (entry_unique st ks s' s ND Hs' Hs1) in Ec'.
    specialize (S4 a b Ham ltac:(rewrite S3 in Hb; lia)).
    unfold la in S4. rewrite Ea, Eb, Ec', Ev' in S4. exact S4.
Qed.

(* any iteration order that lists every key of the store once (possibly among keys no longer present) *)
Lemma evict_lru_store_proof : forall (st : store) (order : list bytes) (n : Z),
    NoDup (keys_of st) -> NoDup order -> incl (keys_of st) order -> (0 < n)%Z ->
    let st' := evict_lru n st order in
    ((Z.of_nat (length st) <= n)%Z -> st' = st)
    /\ ((n < Z.of_nat (length st))%Z ->
        Z.of_nat (length st') = n /\ (forall p, In p st' -> In p st)
        /\ (forall ke e ks s, In (ke, e) st -> ~ In (ke, e) st' -> In (ks, s) st' -> (e_last e <= e_last s)%Z)).
Proof.
  intros st order n ND NDo Hincl Hn0. cbv zeta. split.
  - intros Hle. unfold evict_lru. assert ((Z.of_nat (length st) <=? n)%Z = true) as -> by lia. reflexivity.
  - intros Hn.
    assert (Heq : evict_lru n st order = evict_lru n st (filter (present st) order)).
    { unfold evict_lru. change (fun key : bytes => match mfind key st with Some e => [(key, e_last e)] | None => [] end) with (ent_of st).
      rewrite <- flat_map_present. reflexivity. }
    rewrite Heq. apply evict_lru_exact; try assumption.
    apply NoDup_Permutation; [assumption | apply NoDup_filter; assumption|].
    intros x. rewrite filter_In. split.
    + intros Hx. split; [apply Hincl; assumption|]. unfold present. apply In_keys in Hx. destruct Hx as [e He].
      rewrite (mfind_unique st x e ND He). reflexivity.
    + intros [_ Hp]. unfold present in Hp. destruct (mfind x st) eqn:F; [|discriminate].
      apply mfind_In in F. destruct F as [k' [Hin Hk']]. apply bytes_eqb_eq in Hk'. subst. apply In_keys. eauto.
Qed.

(* ------------------------------------------------------------------ reachable stores have one entry per key *)
Lemma NoDup_mput : forall k e st, NoDup (keys_of st) -> NoDup (keys_of (mput k e st)).
Proof.
  intros k e st ND. unfold mput. rewrite keys_cons. constructor; [|apply NoDup_keys_filter; assumption].
  intros Hin. apply In_keys in Hin. destruct Hin as [e' Hin]. apply In_mremove in Hin. cbn [fst] in Hin.
  rewrite bytes_eqb_refl in Hin. destruct Hin; discriminate.
Qed.

Lemma NoDup_fold_mremove : forall (vs : list cent) st, NoDup (keys_of st) -> NoDup (keys_of (fold_left (fun acc v => mremove (fst v) acc) vs st)).
Proof. induction vs; cbn; intros; [assumption|]. apply IHvs. apply NoDup_keys_filter. assumption. Qed.

Lemma NoDup_janitor : forall s now order, NoDup (keys_of (m_store s)) -> NoDup (keys_of (m_store (m_janitor s now order))).
Proof.
  intros s now order ND. unfold m_janitor. cbn [m_store].
  assert (H1 : NoDup (keys_of (evict_expired (m_cfg s) (m_store s) now))).
  { unfold evict_expired. destruct (_ || _); [apply NoDup_keys_filter|]; assumption. }
  destruct (c_max (m_cfg s) >? 0)%Z; [|assumption].
  unfold evict_lru. destruct (_ <=? _)%Z; [assumption|]. apply NoDup_fold_mremove. assumption.
Qed.

Lemma NoDup_step : forall u s now o, NoDup (keys_of (m_store s)) -> NoDup (keys_of (m_store (fst (m_step u s now o)))).
Proof.
  intros u s now o ND. destruct o; cbn [m_step fst].
  - unfold m_insert. destruct (_ && _); [cbn [m_store]; apply NoDup_mput|]; assumption.
  - destruct (m_lookup_shape s now (key_of name qt sc)) as [E _ | _ E | e e' _ _ _ E]; rewrite E;
      [assumption | apply NoDup_keys_filter; assumption | apply NoDup_mput; assumption].
  - apply NoDup_janitor. assumption.
  - cbn [m_store]. unfold keys_of in *. rewrite map_map. cbn [fst]. assumption.
  - assumption.
  - unfold m_refresh_done. destruct (mfind _ _); [|assumption]. destruct (e_refreshing e); [cbn [m_store]; apply NoDup_mput|]; assumption.
  - assumption.
Qed.

Lemma keys_unique_proof : forall c h, NoDup (keys_of (m_store (fst (m_run c h)))).
Proof.
  intros c h. unfold m_run. generalize (universe h). intros u.
  assert (G : forall h s, NoDup (keys_of (m_store s)) -> NoDup (keys_of (m_store (fst (m_run_from u s h))))).
  { induction h0 as [|[now o] rest IH]; intros s ND; [assumption|]. rewrite run_from_cons_fst. apply IH. apply NoDup_step. assumption. }
  apply G. constructor.
Qed.

(* the janitor of a reachable cache, for every iteration order of the map before the run *)
Lemma janitor_lru_proof : forall c h now (order : list bytes),
    let s := fst (m_run c h) in
    NoDup order -> incl (keys_of (m_store s)) order -> (0 < c_max (m_cfg s))%Z ->
    let st1 := evict_expired (m_cfg s) (m_store s) now in
    let st' := m_store (m_janitor s now order) in
    ((Z.of_nat (length st1) <= c_max (m_cfg s))%Z -> st' = st1)
    /\ ((c_max (m_cfg s) < Z.of_nat (length st1))%Z ->
        Z.of_nat (length st') = c_max (m_cfg s) /\ (forall p, In p st' -> In p st1)
        /\ (forall ke e ks s0, In (ke, e) st1 -> ~ In (ke, e) st' -> In (ks, s0) st' -> (e_last e <= e_last s0)%Z)).
Proof.
  intros c h now order s NDo Hincl Hmax st1 st'.
  assert (ND1 : NoDup (keys_of st1)).
  { unfold st1, evict_expired. destruct (_ || _); [apply NoDup_keys_filter|]; apply keys_unique_proof. }
  assert (Hincl1 : incl (keys_of st1) order).
  { intros k Hk. apply Hincl. unfold st1, evict_expired in Hk. destruct (_ || _); [|assumption].
    apply In_keys in Hk. destruct Hk as [e He]. apply filter_In in He. apply In_keys. exists e. tauto. }
  assert (Est : st' = evict_lru (c_max (m_cfg s)) st1 order).
  { unfold st', m_janitor. cbn [m_store]. fold st1. assert ((c_max (m_cfg s) >? 0)%Z = true) as -> by lia. reflexivity. }
  rewrite Est. apply evict_lru_store_proof; assumption.
Qed.
