(* Link C02 + C10 + C11 — the kernel's decision over the tracker's table, with the bitmaps of the REAL domain
   matcher.  Link_C02_C10_own_domain keeps `bitmap_ok (dm (p_domain pk))` (C02's premise on the userspace bitmap);
   for C11's matcher (Link_DomainAdapter.c11_bitmap: 32 words of 32 bits) it is a theorem. *)
From Coq Require Import List Arith NArith Bool String Lia ZifyBool ZifyN ZifyNat.
From Dae Require Import C11_Spec C11_Model C11_Louds C11_Proofs C11_Layer3 C11_Props.
From Dae Require Import Link_DomainAdapter.
From Dae Require Import C01_Spec C01_Model C02_Spec C02_Model C02_Props C10_Cache C10_CacheProps.
From Dae Require Import Link_C01_C11 Link_C02_C10.
Import ListNotations.
Open Scope N_scope.

Lemma high_bits_zero_lt : forall w, (forall j, 32 <= j -> N.testbit w j = false) -> w < 2 ^ 32.
Proof.
  intros w H. destruct (N.lt_ge_cases w (2 ^ 32)) as [Hlt|Hge]; [exact Hlt|]. exfalso.
  assert (Hw : w <> 0) by (intro E; subst; cbn in Hge; lia).
  pose proof (N.bit_log2 w Hw) as Hb.
  assert (Hl : 32 <= N.log2 w) by (apply N.log2_le_pow2; [lia | exact Hge]).
  rewrite (H _ Hl) in Hb. discriminate.
Qed.

Lemma word_of_lt : forall f w, word_of f w < 2 ^ 32.
Proof.
  intros f w. apply high_bits_zero_lt. intros j Hj. rewrite word_of_testbit.
  replace (j <? 32) with false; [reflexivity|]. symmetry. apply N.ltb_ge. exact Hj.
Qed.

(* what MatchDomainBitmap returns has the shape C02 expects of a userspace bitmap *)
Lemma c11_bitmap_ok : forall rx m raw, bitmap_ok (c11_bitmap rx m raw) = true.
Proof.
  intros rx m raw. unfold bitmap_ok, c11_bitmap, bitmap_words. rewrite map_length, seq_length. cbn [Nat.eqb c11_nwords andb].
  apply forallb_forall. intros x Hx. apply in_map_iff in Hx as [k [<- _]]. apply N.ltb_lt. apply word_of_lt.
Qed.

(* The kernel over the table C10's tracker maintains, the userspace matcher with C11's bitmap: if some live cache
   entry lists the destination and every live entry listing it carries the real matcher's bitmap of the packet's
   domain (its own entry, or other names with the same bitmap), the kernel answers dns_adjust of what
   RoutingMatcher.Match answers with the real domain matcher.  (When names with DIFFERENT bitmaps share the address
   the kernel sees their OR: Link_C02_C10_or, witness Link_shared_address_diverges.) *)
Theorem Link_kernel_tracker_real_matcher :
  forall prev ms tries alloc (rx : str -> str -> bool) (m : C11_Model.matcher ptrie) (h : list cache_op) pk wan km,
    forallb (wf_mset (N.of_nat (List.length tries))) ms = true ->
    forallb (forallb wf_prefix) tries = true ->
    probe_ok pk wan = true ->
    p_domain pk <> ""%string ->
    (exists o e, cache_live h o = Some e /\ lists e (p_dst pk) = true) ->
    (forall o e, cache_live h o = Some e -> lists e (p_dst pk) = true ->
                 e_bitmap e = of_words (c01_dm rx m (p_domain pk))) ->
    install prev ms tries alloc = Ok km ->
    kernel_decides_table prev ms tries alloc (tracker_domain_map h) pk wan
    = Ok (expected (p_dport pk)
            (user_answer (match_sets {| mt_sets := ms; mt_tries := tries |} (c01_dm rx m) (args_of_packet pk)))).
Proof.
  intros prev ms tries alloc rx m h pk wan km Hms Htr Hp Hd Hex Hall Hin.
  apply (Link_C02_C10_own_domain prev ms tries alloc (c01_dm rx m) h pk wan km Hms Htr Hp); try assumption.
  apply c11_bitmap_ok.
Qed.
Print Assumptions Link_kernel_tracker_real_matcher.
