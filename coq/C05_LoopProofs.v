(* C05 - the buffered copy loops over read sequences: lemmas. *)
From Coq Require Import List NArith Bool.
From Dae Require Import C05_Spec C05_Model C05_LoopModel.
From Dae.gen Require Import C05_Extracted.
Import ListNotations.
Open Scope N_scope.

Lemma copy_loop_writes_all : forall reads out,
  fst (copy_loop true reads out) = out ++ returned_until_error reads.
Proof.
  induction reads as [|[data er] rest IH]; intros out; cbn [copy_loop returned_until_error].
  - now rewrite app_nil_r.
  - destruct er as [e|].
    + destruct e; cbn [fst]; now rewrite app_nil_r.
    + rewrite IH. now rewrite <- app_assoc.
Qed.

Lemma code_loops_write_first : c05_loop_write_first = true /\ c05_direct_write_first = true.
Proof. split; reflexivity. Qed.

Lemma relay_loop_intact_proof : forall reads,
  fst (copy_loop c05_loop_write_first reads []) = returned_until_error reads
  /\ fst (copy_loop c05_direct_write_first reads []) = returned_until_error reads.
Proof.
  intros reads. destruct code_loops_write_first as [H1 H2]. rewrite H1, H2.
  split; apply (copy_loop_writes_all reads []).
Qed.

Lemma error_first_refuted_proof :
  exists reads, fst (copy_loop false reads []) <> returned_until_error reads.
Proof. exists [([1;2], None); ([3;4], Some EEof)]. vm_compute. discriminate. Qed.
