(* C13 — code-shaped executable model of control/udp_task_pool.go (UdpTaskPool, UdpTaskQueue) and
   control/udp_conn_state_tracker.go.  No proofs here.

   Task pool.  Every atomic Go operation (one sync.Map call, one atomic op, one mutex-protected
   section, one channel op) is one step of one thread.  Threads: producers (one EmitTask each; the
   task id is the producer id) and one convoy per queue.  A schedule is a list of labels; a label that
   names a thread which cannot move is a stutter step.  sync.Pool is modelled as: Get returns any
   channel that was Put (chosen by the label) or a fresh one; channels keep their content. *)
From Coq Require Import List Arith Bool ZArith.
From Dae Require Import C13_Spec.
From Dae.gen Require Import C13_Consts.
Import ListNotations.

Inductive ppc :=
| PStart                 (* before p.queues.Load *)
| PLoaded (q : nat)      (* fast path: holds q, before the refs load/CAS   [yield acquire.after_load] *)
| PGet                   (* createNew: before queueChPool.Get *)
| PHave (c : nat)        (* has channel c, before LoadOrStore *)
| PLoaded2 (q : nat)     (* LoadOrStore returned existing q (channel already put back) *)
| PCad (q : nat)         (* saw refs<0 on q: before CompareAndDelete(key,q) *)
| PStored (q : nat)      (* stored new q, before refs.Add(1) *)
| PSpawn (q : nat)       (* before `go q.convoy()` *)
| PEnq (q : nat)         (* holds a ref on q, before enqueue *)
| PRel (q : nat)         (* enqueued, before refs.Add(-1)                  [yield emit.after_enqueue] *)
| PDone.

Inductive cpc :=
| CNotStarted
| CTop                   (* top of loop: channel half of popReadyTask *)
| CPopOver               (* channel was empty: popOverflowTask *)
| CRun (t : nat)         (* inside task t *)
| CWait                  (* in the select *)
| CChecked               (* idle check passed                              [yield convoy.after_idle_check] *)
| CClaimed               (* CAS 0 -> sentinel done                         [yield convoy.after_claim] *)
| CDeleted               (* tryDeleteQueue succeeded                       [yield convoy.before_recycle] *)
| CDelFailed             (* tryDeleteQueue failed, before the Load *)
| CExit.

Record queue := mkQ { q_key : nat; q_ch : nat; q_over : list nat; q_mode : bool; q_refs : Z; q_pc : cpc }.

Record state := mkSt {
  st_map : nat -> option nat;        (* p.queues : flow key -> queue id *)
  st_qs : list queue;                (* every queue ever created, by id *)
  st_chans : list (list nat);        (* every channel ever made, by id: buffered tasks, oldest first *)
  st_pool : list nat;                (* queueChPool: channel ids that were Put *)
  st_prods : list (nat * ppc);       (* producers: flow key, pc *)
  st_log : list event }.

Inductive cchoice := KStep | KRecv | KTimer | KWake.
Inductive label :=
| LProd (i : nat) (get : option nat)    (* get: at PGet, Some c = Pool.Get returns pooled c; None = new *)
| LConv (q : nat) (c : cchoice).

Fixpoint upd {A} (l : list A) (i : nat) (x : A) : list A :=
  match l, i with
  | [], _ => []
  | _ :: r, 0 => x :: r
  | y :: r, S j => y :: upd r j x
  end.

Fixpoint remove1 (c : nat) (l : list nat) : list nat :=
  match l with
  | [] => []
  | x :: r => if x =? c then r else x :: remove1 c r
  end.

Definition mem (c : nat) (l : list nat) : bool := existsb (Nat.eqb c) l.

Definition map_set (m : nat -> option nat) (k : nat) (v : option nat) : nat -> option nat :=
  fun k' => if k' =? k then v else m k'.

Definition opt_is (o : option nat) (q : nat) : bool :=
  match o with Some x => x =? q | None => false end.

Definition set_map s m := mkSt m (st_qs s) (st_chans s) (st_pool s) (st_prods s) (st_log s).
Definition set_qs s x := mkSt (st_map s) x (st_chans s) (st_pool s) (st_prods s) (st_log s).
Definition set_chans s x := mkSt (st_map s) (st_qs s) x (st_pool s) (st_prods s) (st_log s).
Definition set_pool s x := mkSt (st_map s) (st_qs s) (st_chans s) x (st_prods s) (st_log s).
Definition set_prods s x := mkSt (st_map s) (st_qs s) (st_chans s) (st_pool s) x (st_log s).
Definition add_log s e := mkSt (st_map s) (st_qs s) (st_chans s) (st_pool s) (st_prods s) (st_log s ++ [e]).

Definition set_q s q Q := set_qs s (upd (st_qs s) q Q).
Definition set_ppc s i k pc := set_prods s (upd (st_prods s) i (k, pc)).
Definition chan s c := nth c (st_chans s) [].
Definition set_chan s c l := set_chans s (upd (st_chans s) c l).

Definition q_set_refs Q r := mkQ (q_key Q) (q_ch Q) (q_over Q) (q_mode Q) r (q_pc Q).
Definition q_set_pc Q pc := mkQ (q_key Q) (q_ch Q) (q_over Q) (q_mode Q) (q_refs Q) pc.
Definition q_set_over Q o m := mkQ (q_key Q) (q_ch Q) o m (q_refs Q) (q_pc Q).

Definition task_key s t := match nth_error (st_prods s) t with Some (k, _) => k | None => 0 end.

Definition init (keys : list nat) : state :=
  mkSt (fun _ => None) [] [] [] (map (fun k => (k, PStart)) keys) [].

(* --- producer i --------------------------------------------------------------------------- *)
Definition step_prod (cap : nat) (s : state) (i : nat) (get : option nat) : state :=
  match nth_error (st_prods s) i with
  | None => s
  | Some (k, pc) =>
      match pc with
      | PStart =>
          match st_map s k with
          | Some q => set_ppc s i k (PLoaded q)
          | None => set_ppc s i k PGet
          end
      | PLoaded q | PLoaded2 q =>
          match nth_error (st_qs s) q with
          | None => s
          | Some Q =>
              if (q_refs Q <? 0)%Z
              then set_ppc s i k (match pc with PLoaded _ => PGet | _ => PCad q end)
              else set_ppc (set_q s q (q_set_refs Q (q_refs Q + 1)%Z)) i k (PEnq q)
          end
      | PGet =>
          match get with
          | Some c => if mem c (st_pool s)
                      then set_ppc (set_pool s (remove1 c (st_pool s))) i k (PHave c)
                      else s
          | None => let c := length (st_chans s) in
                    set_ppc (set_chans s (st_chans s ++ [[]])) i k (PHave c)
          end
      | PHave c =>
          match st_map s k with
          | None =>
              let q := length (st_qs s) in
              let s1 := set_qs s (st_qs s ++ [mkQ k c [] false 0%Z CNotStarted]) in
              set_ppc (set_map s1 (map_set (st_map s) k (Some q))) i k (PStored q)
          | Some q => set_ppc (set_pool s (c :: st_pool s)) i k (PLoaded2 q)
          end
      | PCad q =>
          let s1 := if opt_is (st_map s k) q then set_map s (map_set (st_map s) k None) else s in
          set_ppc s1 i k PGet
      | PStored q =>
          match nth_error (st_qs s) q with
          | None => s
          | Some Q => set_ppc (set_q s q (q_set_refs Q (q_refs Q + 1)%Z)) i k (PSpawn q)
          end
      | PSpawn q =>
          match nth_error (st_qs s) q with
          | None => s
          | Some Q => set_ppc (set_q s q (q_set_pc Q CTop)) i k (PEnq q)
          end
      | PEnq q =>
          match nth_error (st_qs s) q with
          | None => s
          | Some Q =>
              let s1 :=
                if q_mode Q then set_q s q (q_set_over Q (q_over Q ++ [i]) true)
                else if length (chan s (q_ch Q)) <? cap
                     then set_chan s (q_ch Q) (chan s (q_ch Q) ++ [i])
                     else set_q s q (q_set_over Q (q_over Q ++ [i]) true) in
              set_ppc (add_log s1 (EAccept k i)) i k (PRel q)
          end
      | PRel q =>
          match nth_error (st_qs s) q with
          | None => s
          | Some Q => set_ppc (set_q s q (q_set_refs Q (q_refs Q - 1)%Z)) i k PDone
          end
      | PDone => s
      end
  end.

(* --- convoy of queue q -------------------------------------------------------------------- *)
Definition start_task s q Q t := add_log (set_q s q (q_set_pc Q (CRun t))) (EStart (q_key Q) q (task_key s t) t).

Definition step_conv (s : state) (q : nat) (c : cchoice) : state :=
  match nth_error (st_qs s) q with
  | None => s
  | Some Q =>
      match q_pc Q with
      | CNotStarted | CExit => s
      | CTop =>
          match chan s (q_ch Q) with
          | t :: r => start_task (set_chan s (q_ch Q) r) q Q t
          | [] => set_q s q (q_set_pc Q CPopOver)
          end
      | CPopOver =>
          (* popOverflowTask, one critical section of enqueueMu.  Since the repair 0813a51 it first polls the
             channel again (tasks sent there since popReadyTask's poll are older than the overflow list);
             whether the source does so is extracted by the translator (gen/C13_Consts.v). *)
          match (if pop_overflow_rechecks_channel then chan s (q_ch Q) else []) with
          | t :: r => start_task (set_chan s (q_ch Q) r) q Q t
          | [] =>
              match q_over Q with
              | [] => set_q s q (q_set_pc (q_set_over Q [] false) CWait)
              | t :: r =>
                  let Q1 := q_set_over Q r (match r with [] => false | _ => q_mode Q end) in
                  start_task s q Q1 t
              end
          end
      | CRun t => add_log (set_q s q (q_set_pc Q CTop)) (EEnd q t)
      | CWait =>
          match c with
          | KRecv => match chan s (q_ch Q) with
                     | t :: r => start_task (set_chan s (q_ch Q) r) q Q t
                     | [] => s
                     end
          | KWake => set_q s q (q_set_pc Q CTop)
          | KTimer =>
              if (0 <? q_refs Q)%Z || negb (Nat.eqb (length (chan s (q_ch Q))) 0)
                 || negb (Nat.eqb (length (q_over Q)) 0)
              then s
              else set_q s q (q_set_pc Q CChecked)
          | KStep => s
          end
      | CChecked =>
          if (q_refs Q =? 0)%Z
          then set_q s q (q_set_pc (q_set_refs Q refs_sentinel) CClaimed)
          else set_q s q (q_set_pc Q CTop)
      | CClaimed =>
          if opt_is (st_map s (q_key Q)) q
          then set_q (set_map s (map_set (st_map s) (q_key Q) None)) q (q_set_pc Q CDeleted)
          else set_q s q (q_set_pc Q CDelFailed)
      | CDeleted => set_q (set_pool s (q_ch Q :: st_pool s)) q (q_set_pc Q CExit)
      | CDelFailed =>
          if opt_is (st_map s (q_key Q)) q
          then set_q s q (q_set_pc (q_set_refs Q 0%Z) CTop)
          else set_q (set_pool s (q_ch Q :: st_pool s)) q (q_set_pc Q CExit)
      end
  end.

Definition step (cap : nat) (s : state) (l : label) : state :=
  match l with
  | LProd i g => step_prod cap s i g
  | LConv q c => step_conv s q c
  end.

Definition run (cap : nat) (keys : list nat) (sched : list label) : state :=
  fold_left (step cap) sched (init keys).

(* at rest: every producer finished, every convoy exited or waiting with nothing to do *)
Definition prod_done (p : nat * ppc) : bool := match snd p with PDone => true | _ => false end.
Definition conv_idle (Q : queue) : bool :=
  match q_pc Q with CExit => true | _ => false end.
Definition quiescent (s : state) : bool :=
  forallb prod_done (st_prods s) && forallb conv_idle (st_qs s).

(* ------------------------------------------------------------------------------------------ *)
(* udpConnStateTracker (all methods run under t.mu; one call = one step, except that a release is  *)
(* split by the caller into BeginRelease / kernel delete / FinalizeRelease)                        *)
(* ------------------------------------------------------------------------------------------ *)
Record tentry := mkT { t_refs : nat; t_deleting : bool }.
Definition tracker := nat -> option tentry.
Definition tr_set (m : tracker) (k : nat) (v : option tentry) : tracker :=
  fun k' => if k' =? k then v else m k'.

(* retain: None = the caller blocks (entry is being deleted) *)
Definition tr_retain (m : tracker) (k : nat) : option tracker :=
  match m k with
  | None => Some (tr_set m k (Some (mkT 1 false)))
  | Some e => if t_deleting e then None else Some (tr_set m k (Some (mkT (S (t_refs e)) false)))
  end.

(* BeginRelease for one key: new tracker, and whether a kernel delete is to be issued *)
Definition tr_begin_release (m : tracker) (k : nat) : tracker * bool :=
  match m k with
  | None => (m, false)
  | Some e =>
      if t_deleting e then (m, false)
      else match t_refs e with
           | 0 => (m, false)
           | 1 => (tr_set m k (Some (mkT 0 true)), true)
           | S n => (tr_set m k (Some (mkT n false)), false)
           end
  end.

Definition tr_finalize (m : tracker) (k : nat) : tracker := tr_set m k None.

(* forget: None = blocks *)
Definition tr_forget (m : tracker) (k : nat) : option tracker :=
  match m k with
  | None => Some m
  | Some e =>
      if t_deleting e then None
      else if 1 <? t_refs e then Some (tr_set m k (Some (mkT (pred (t_refs e)) false)))
           else Some (tr_set m k None)
  end.

(* sequential composition used by the refcount theorem: trackers per generation, kernel deletes log *)
Record tstate := mkTS { ts_tr : nat -> tracker; ts_deleted : list nat }.
Definition ts0 : tstate := mkTS (fun _ _ => None) [].
Definition ts_set (f : nat -> tracker) (g : nat) (m : tracker) : nat -> tracker :=
  fun g' => if g' =? g then m else f g'.

Definition tstep (s : tstate) (o : tuple_op) : tstate * list nat :=
  match o with
  | TRetain g k =>
      match tr_retain (ts_tr s g) k with
      | Some m => (mkTS (ts_set (ts_tr s) g m) (ts_deleted s), [])
      | None => (s, [])
      end
  | TRelease g k =>
      let '(m, del) := tr_begin_release (ts_tr s g) k in
      if del then (mkTS (ts_set (ts_tr s) g (tr_finalize m k)) (ts_deleted s ++ [k]), [k])
      else (mkTS (ts_set (ts_tr s) g m) (ts_deleted s), [])
  | TForget g k =>
      match tr_forget (ts_tr s g) k with
      | Some m => (mkTS (ts_set (ts_tr s) g m) (ts_deleted s), [])
      | None => (s, [])
      end
  end.

Definition trun (h : list tuple_op) : tstate := fold_left (fun s o => fst (tstep s o)) h ts0.
