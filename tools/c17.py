"""C17 — configuration text becomes exactly the configuration it spells, or a clean error (DESIGN.md 6/C17)."""
import base64
import fnmatch
import hashlib
import json
import os
import posixpath
import re
import sys

sys.path.insert(0, os.path.dirname(os.path.abspath(__file__)))
import vlib
from vlib import clist, cpair, log

PID = "C17"
PROPS = "C17_Props.v"
TARGETS = ["C17_Props.vo", "C17_Check.vo", "C17_CheckLex.vo", "C17_CheckBuild.vo", "C17_CheckMerge.vo", "C17_CheckCap.vo"]
HARNESS = ["control/common_test.go", "control/c17_test.go", "control/c17lex_test.go", "control/c17build_test.go"]
TEST = "TestVerifC17"

EXPECT_LITERALS = ["','", "'{'", "'}'", "':'", "'['", "']'", "'!'", "'('", "')'", "'->'", "'&&'"]
EXPECT_PARSER_RULES = ["start", "bare_literal", "quote_literal", "literal", "literalExpression", "input",
                       "programStructureBlcok", "expression", "declaration", "optAnnotation", "functionPrototype",
                       "optParameterList", "nonEmptyParameterList", "parameter", "routingRule", "outboundExpr",
                       "functionPrototypeExpression", "routingRuleOrDeclarationOrLiteralOrExpressionList", "routingRuleList"]
EXPECT_PARSER_ATN_SHA = None  # filled below (digest of the grammar the model was written against)
EXPECT_LEXER_NONSET_SHA = None


# ------------------------------------------------------------------------------------------------
# translator: character sets of the lexer from the generated ATN, capacity constant
# ------------------------------------------------------------------------------------------------

class AnchorMoved(Exception):
    pass


def interp_sections(path):
    txt = open(path).read()
    secs = {}
    cur = None
    for line in txt.split("\n"):
        if line.endswith(":") and not line.startswith("["):
            cur = line[:-1]
            secs[cur] = []
        elif cur is not None and line != "":
            secs[cur].append(line)
    return secs


def parse_atn(nums, lexer):
    i = 0
    if nums[0] != 4:
        raise AnchorMoved("ATN serialization version %d" % nums[0])
    i = 3
    nstates = nums[i]; i += 1
    state_rule = []
    for _ in range(nstates):
        t = nums[i]; i += 1
        if t == 0:
            state_rule.append(-1)
            continue
        state_rule.append(nums[i]); i += 1
        if t == 12 or t in (3, 4, 5):
            i += 1
    n = nums[i]; i += 1
    nongreedy = nums[i:i + n]; i += n
    n = nums[i]; i += 1
    i += n
    nrules = nums[i]; i += 1
    rules = []
    for _ in range(nrules):
        start = nums[i]; i += 1
        tt = None
        if lexer:
            tt = nums[i]; i += 1
        rules.append((start, tt))
    nmodes = nums[i]; i += 1
    i += nmodes
    nsets = nums[i]; i += 1
    sets = []
    for _ in range(nsets):
        k = nums[i]; i += 1
        i += 1  # containsEof
        iv = []
        for _ in range(k):
            iv.append((nums[i], nums[i + 1])); i += 2
        sets.append(iv)
    nedges = nums[i]; i += 1
    edges = []
    for _ in range(nedges):
        edges.append(tuple(nums[i:i + 6])); i += 6
    return {"state_rule": state_rule, "nongreedy": nongreedy, "rules": rules, "sets": sets, "edges": edges}


def translate():
    """-> (coq text, facts dict). Raises AnchorMoved."""
    rc, so, se, _ = vlib.run(["go", "list", "-m", "-f", "{{.Dir}}", "github.com/daeuniverse/dae-config-dist/go/dae_config"],
                             cwd=vlib.REPO, env=vlib.go_env(), timeout=120)
    d = so.strip()
    if rc != 0 or not os.path.isdir(d):
        raise AnchorMoved("cannot locate the dae_config grammar module: " + (so + se)[-500:])
    lx = interp_sections(os.path.join(d, "dae_configLexer.interp"))
    ps = interp_sections(os.path.join(d, "dae_config.interp"))
    if lx["token literal names"][1:12] != EXPECT_LITERALS:
        raise AnchorMoved("token literals changed: %s" % lx["token literal names"])
    if ps["rule names"] != EXPECT_PARSER_RULES:
        raise AnchorMoved("parser rules changed: %s" % ps["rule names"])
    lnums = [int(x) for x in lx["atn"][0].strip("[]").split(",")]
    atn = parse_atn(lnums, True)
    names = lx["rule names"]

    def set_of_rule(rule):
        ri = names.index(rule)
        found = [e[3] for e in atn["edges"] if e[2] == 7 and atn["state_rule"][e[0]] == ri]
        if len(found) != 1:
            raise AnchorMoved("rule %s: expected one set transition, found %s" % (rule, found))
        return atn["sets"][found[0]]
    sets = {"id_head": set_of_rule("SAFE_ID_HEAD_CHAR"), "nonid_head": set_of_rule("SAFE_NONID_HEAD_CHAR"),
            "intermediate": set_of_rule("SAFE_INTERMEDIATE_CHAR"), "ws": set_of_rule("WHITESPACE"),
            "eol": set_of_rule("COMMENT_LINE_SHARP")}
    if len(atn["nongreedy"]) != 4:
        raise AnchorMoved("non-greedy loops of the lexer changed: %s" % atn["nongreedy"])
    # everything of the lexer ATN except the set contents, and the whole parser ATN, must be what the model was
    # written against
    lex_shape = hashlib.sha256(json.dumps([atn["state_rule"], atn["nongreedy"], atn["rules"], atn["edges"],
                                           [len(s) for s in atn["sets"]]]).encode()).hexdigest()
    par_sha = hashlib.sha256(ps["atn"][0].encode()).hexdigest()
    facts = {"grammar_dir": d, "lexer_shape_sha256": lex_shape, "parser_atn_sha256": par_sha, "sets": sets}
    # capacity constant
    src = open(os.path.join(vlib.REPO, "common/consts/ebpf.go")).read()
    m = re.search(r"^\s*MaxMatchSetLen\s*=\s*(\d+)\s*\*\s*(\d+)\s*$", src, re.M)
    if not m:
        raise AnchorMoved("MaxMatchSetLen not found in common/consts/ebpf.go")
    limit = int(m.group(1)) * int(m.group(2))
    facts["max_match_set_len"] = limit

    def cset(iv):
        return clist(["(%d, %d)" % p for p in iv])
    text = ("(* generated by tools/c17.py from the lexer ATN of dae-config-dist (as pinned by go.mod) and\n"
            "   common/consts/ebpf.go - do not edit *)\n"
            "From Coq Require Import List NArith.\nImport ListNotations.\nOpen Scope N_scope.\n"
            "Definition atn_set_id_head : list (N * N) := %s.\n"
            "Definition atn_set_nonid_head : list (N * N) := %s.\n"
            "Definition atn_set_intermediate : list (N * N) := %s.\n"
            "Definition atn_set_ws : list (N * N) := %s.\n"
            "Definition atn_set_eol : list (N * N) := %s.\n"
            "Definition max_match_set_len : N := %d.\n"
            % (cset(sets["id_head"]), cset(sets["nonid_head"]), cset(sets["intermediate"]), cset(sets["ws"]),
               cset(sets["eol"]), limit))
    return text, facts


# ---- schema of config.New from the struct tags ---------------------------------------------------
SCALAR_TYPES = {"bool": 1, "uint16": 2, "uint32": 3, "int": 4, "time.Duration": 5, "uint8": 6}
ORACLE_TYPES = dict(SCALAR_TYPES, **{"netip.AddrPort": 7, "httpmethod": 8})
STRING_VALUES = ["info", "a b", "x", "domain", "ip", "tls", "50-100", "first", "second one", "last", "debug", "warn", "v", ""]
STRUCT_NAMES = ["Global", "Group", "Routing", "Dns", "DnsRouting", "DnsRequestRouting", "DnsResponseRouting", "Config"]


def nlist(s):
    return "[" + ";".join(str(b) for b in s.encode()) + "]"


def translate_schema():
    """-> (coq text, python schema dict). Raises AnchorMoved."""
    src = open(os.path.join(vlib.REPO, "config/config.go")).read()
    structs = {}
    for name in STRUCT_NAMES:
        m = re.search(r"^type %s struct \{(.*?)^\}" % name, src, re.S | re.M)
        if not m:
            raise AnchorMoved("type %s struct not found in config/config.go" % name)
        fields = []
        has_rules = False
        for line in m.group(1).split("\n"):
            line = line.split("//")[0].rstrip() if "`" not in line.split("//")[0] else line
            mm = re.match(r"\s*(\w+)\s+(\S+)\s+`([^`]*)`", line)
            if not mm:
                if line.strip() and not line.strip().startswith("//"):
                    raise AnchorMoved("unreadable field line in %s: %s" % (name, line.strip()))
                continue
            fname, ftype, tags = mm.groups()
            tag = dict((k, v) for k, v in re.findall(r'(\w+):"([^"]*)"', tags))
            key = tag.get("mapstructure")
            if key is None:
                raise AnchorMoved("field %s.%s has no mapstructure tag" % (name, fname))
            if key == "_":
                if fname == "Rules" and ftype == "[]*config_parser.RoutingRule":
                    has_rules = True
                continue
            if key == "so_mark_from_dae_set":
                continue
            if ftype == "string":
                kind = ("KString",)
            elif ftype in SCALAR_TYPES:
                kind = ("KScalar", SCALAR_TYPES[ftype], ftype)
            elif ftype in ("[]string", "[]KeyableString"):
                kind = ("KList", 0)
            elif ftype in ("FunctionOrString", "FunctionListOrString"):
                kind = ("KIface",)
            elif ftype == "[][]*config_parser.Function" and "repeatable" in tag:
                kind = ("KFuncLists",)
            elif ftype in STRUCT_NAMES:
                kind = ("KStruct", STRUCT_NAMES.index(ftype))
            elif ftype.startswith("[]") and ftype[2:] in STRUCT_NAMES:
                kind = ("KStructList", STRUCT_NAMES.index(ftype[2:]))
            else:
                raise AnchorMoved("field %s.%s: type %s not understood" % (name, fname, ftype))
            fields.append({"key": key, "kind": kind, "default": tag.get("default"), "required": "required" in tag, "go": fname})
        structs[name] = {"sid": STRUCT_NAMES.index(name), "fields": fields, "has_rules": has_rules}
    dsrc = open(os.path.join(vlib.REPO, "config/decode.go")).read()
    m = re.search(r"var configSectionSpecs = \[\]configSectionSpec\{(.*?)\n\}", dsrc, re.S)
    if not m:
        raise AnchorMoved("configSectionSpecs not found in config/decode.go")
    tops = []
    for mm in re.finditer(r'\{name: "(\w+)",(\s*required: true,)?\s*decode: \w+\}', m.group(1)):
        f = next((f for f in structs["Config"]["fields"] if f["key"] == mm.group(1)), None)
        if f is None:
            raise AnchorMoved("section %s has no field in Config" % mm.group(1))
        tops.append({"name": mm.group(1), "kind": f["kind"], "required": bool(mm.group(2))})
    if [t["name"] for t in tops] != [f["key"] for f in structs["Config"]["fields"]]:
        raise AnchorMoved("configSectionSpecs and the Config struct disagree")

    def ckind(k):
        return "(%s %d)" % (k[0], k[1]) if len(k) > 1 else k[0]

    def cfield(f):
        return "(Field %s %s %s %s)" % (nlist(f["key"]), ckind(f["kind"]), "None" if f["default"] is None else "(Some %s)" % nlist(f["default"]), vlib.cbool(f["required"]))
    text = ("(* generated by tools/c17.py from the struct tags of config/config.go and configSectionSpecs of\n"
            "   config/decode.go - do not edit *)\nFrom Coq Require Import List NArith.\nFrom Dae Require Import C17_Schema.\n"
            "Import ListNotations.\nOpen Scope N_scope.\n")
    text += "Definition schema_structs : list sstruct := [\n" + ";\n".join(
        "  (* %s *) Struct %d [\n    %s] %s" % (n, st["sid"], ";\n    ".join(cfield(f) for f in st["fields"]), vlib.cbool(st["has_rules"]))
        for n, st in structs.items() if n != "Config") + "].\n"
    text += "Definition schema_tops : list topsec := [%s].\n" % "; ".join(
        "TopSec %s %s %s" % (nlist(t["name"]), ckind(t["kind"]), vlib.cbool(t["required"])) for t in tops)
    text += "Definition schema_routing_sid : N := %d.\nDefinition schema_global_sid : N := %d.\n" % (STRUCT_NAMES.index("Routing"), STRUCT_NAMES.index("Global"))
    text += "Definition schema_global_name : list N := %s.\n" % nlist("global")
    # shape tie: ParamParser has no success exit before its "Check required" loop
    psrc = open(os.path.join(vlib.REPO, "config/parser.go")).read()
    mm = re.search(r"^func ParamParser\(.*?^\}", psrc, re.S | re.M)
    shape_issue = None
    if not mm or "// Check required." not in mm.group(0):
        shape_issue = "ParamParser or its 'Check required' loop not found in config/parser.go"
    else:
        body = mm.group(0)
        before = body[:body.index("// Check required.")]
        early = len(re.findall(r"^\s*return nil\s*$", before, re.M))
        if early:
            shape_issue = "ParamParser has %d success return(s) before its 'Check required' loop; the model has none" % early
    return text, {"structs": structs, "tops": tops, "shape_issue": shape_issue}


GUARD_SITES = [("control/routing_matcher_builder.go", "BuildUserspace"), ("component/dns/request_routing.go", "Build"),
               ("component/dns/response_routing.go", "Build")]


def capacity_guard_shape():
    """where the size guard sits and what it counts: in each builder function, `len(b.rules) > consts.MaxMatchSetLen`
    before the first NewAhocorasickSlimtrie/AddSet; no `> consts.MaxMatchSetLen` comparison of anything else anywhere
    in these files.  -> (facts, issue or None)"""
    facts, issues = {}, []
    for rel, fn in GUARD_SITES:
        src = open(os.path.join(vlib.REPO, rel)).read()
        m = re.search(r"^func \([^)]*\) %s\(.*?^\}" % fn, src, re.S | re.M)
        if not m:
            issues.append("%s: func %s not found" % (rel, fn))
            continue
        body = m.group(0)
        g = re.search(r"if\s+(.+?)\s*>\s*consts\.MaxMatchSetLen\s*\{", body)
        first_use = re.search(r"NewAhocorasickSlimtrie|\.AddSet\(", body)
        facts["%s:%s" % (rel, fn)] = g.group(1) if g else None
        if not g:
            issues.append("%s: %s has no size guard" % (rel, fn))
        elif g.group(1).strip() != "len(b.rules)":
            issues.append("%s: %s guards on %s, not on the lowered len(b.rules)" % (rel, fn, g.group(1)))
        elif first_use and g.start() > first_use.start():
            issues.append("%s: %s indexes match sets before its size guard" % (rel, fn))
        for mm in re.finditer(r"if\s+([^\n{]+?)\s*>\s*consts\.MaxMatchSetLen\s*\{", src):
            lhs = mm.group(1).split(";")[-1].strip()
            if lhs != "len(b.rules)":
                issues.append("%s: a size guard counts `%s` instead of the lowered len(b.rules)" % (rel, lhs))
    return facts, ("; ".join(issues) if issues else None)


LEXER_SHAPE_SHA = "0f7da07ac2435828817fbca435ae8119c05e60db8470bd49cf805c1e9ac25c28"
PARSER_ATN_SHA = "15763008ec2e3542965fa7aba4b932ef42831e1df9ef60c84363f5a9878032a7"

# ------------------------------------------------------------------------------------------------
# syntax trees (python mirror of C17_Spec.sconfig), printers, Coq terms
# ------------------------------------------------------------------------------------------------
ID_HEAD = "abcdefghijklmnopqrstuvwxyzABCDEFGHIJKLMNOPQRSTUVWXYZ_"
NONID_HEAD = "*+-./0123456789\\^"
INTER = "!#$%=@"
SAFE = ID_HEAD + NONID_HEAD + INTER

KEYWORDS = ["global", "routing", "dns", "group", "node", "subscription", "include", "domain", "dip", "sip", "dport",
            "sport", "l4proto", "ipversion", "mac", "pname", "qname", "qtype", "upstream", "fallback", "policy",
            "filter", "name", "geosite", "geoip", "suffix", "full", "keyword", "regex", "direct", "block", "must_rules",
            "tcp_check_url", "log_level", "request", "response", "ip", "min", "fixed"]


def gen_id(rng):
    r = rng.random()
    if r < 0.55:
        return rng.choice(KEYWORDS)
    n = rng.choice([1, 1, 2, 3, 5, 9])
    return rng.choice(ID_HEAD) + "".join(rng.choice(SAFE) for _ in range(n - 1))


def gen_nonid(rng):
    r = rng.random()
    if r < 0.5:
        return rng.choice(["1.2.3.4/24", "0", "53", "80-443", "*.example.com", "-1", "+x", "\\d+", "^foo$", "/etc/x",
                           "2001:db8::1".replace(":", "."), "127.0.0.1", "0x1f", "10s", "1h30m", "/", "//", "/x*/", "-", "--", "*",
                           "5m", ".com", "1024", "-a-"])
    n = rng.choice([1, 2, 3, 6])
    s = rng.choice(NONID_HEAD) + "".join(rng.choice(SAFE) for _ in range(n - 1))
    if s.startswith("/*"):
        s = "/+" + s[2:]
    return s


QUOTE_ALPHABET = ["a", "b", "z", "0", " ", "  ", "\t", "\n", "#", "/*", "*/", "{", "}", ":", ",", "(", ")", "[", "]", "->", "&&",
                  "!", "é", "中", "\\n", "\\\\x", "$", "=", "@", "<", ">", "|", ";", "?", "~", "`", "%", "^"]


def gen_quoted(rng, q):
    other = "'" if q == '"' else '"'
    n = rng.choice([0, 1, 1, 2, 3, 5, 8])
    parts = []
    for _ in range(n):
        r = rng.random()
        if r < 0.12:
            parts.append("\\" + q)          # escaped quote, kept verbatim
        elif r < 0.22:
            parts.append(other)
        else:
            parts.append(rng.choice(QUOTE_ALPHABET))
    s = "".join(parts)
    # well-formedness (Spec.quote_ok): every q preceded by a backslash, no trailing backslash
    out = []
    prev_bs = False
    for ch in s:
        if ch == q and not prev_bs:
            continue
        out.append(ch)
        prev_bs = (ch == "\\") if ch != q else False
    s = "".join(out)
    while s.endswith("\\"):
        s = s[:-1]
    # re-check (dropping characters can create new adjacency)
    prev_bs = False
    for ch in s:
        if ch == q and not prev_bs:
            return "x"
        prev_bs = (ch == "\\") if ch != q else False
    return s


def gen_lit(rng):
    r = rng.random()
    if r < 0.3:
        return ("b", gen_id(rng))
    if r < 0.55:
        return ("b", gen_nonid(rng))
    if r < 0.8:
        return ("s", gen_quoted(rng, "'"))
    return ("d", gen_quoted(rng, '"'))


def gen_param(rng):
    return (gen_id(rng) if rng.random() < 0.4 else None, gen_lit(rng))


def gen_func(rng):
    return (rng.random() < 0.3, gen_id(rng), [gen_param(rng) for _ in range(rng.choice([1, 1, 1, 2, 3, 6]))])


def gen_item(rng, depth):
    r = rng.random()
    if r < 0.35:
        conds = [gen_func(rng) for _ in range(rng.choice([1, 1, 1, 2, 3]))]
        o = rng.random()
        if o < 0.5:
            out = ("bare", gen_id(rng))
        elif o < 0.6:
            out = ("bare", gen_nonid(rng))
        else:
            out = ("func", gen_func(rng))
        return ("rule", conds, out)
    if r < 0.7:
        if rng.random() < 0.6:
            v = ("lits", [gen_lit(rng) for _ in range(rng.choice([1, 1, 1, 2, 3, 5]))])
        else:
            v = ("funcs", [gen_func(rng) for _ in range(rng.choice([1, 1, 2, 3]))])
        ann = [gen_param(rng) for _ in range(rng.choice([0, 0, 0, 1, 2]))]
        return ("decl", gen_id(rng), v, ann)
    if r < 0.85 or depth >= 3:
        return ("lit", gen_lit(rng))
    return ("sec", gen_id(rng), [gen_item(rng, depth + 1) for _ in range(rng.choice([0, 1, 2, 3]))])


def gen_config(rng, big=False):
    ns = rng.choice([0, 1, 1, 1, 2, 3])
    return [(gen_id(rng), [gen_item(rng, 0) for _ in range(rng.choice([0, 1, 2, 3, 5, 8] + ([20] if big else [])))]) for _ in range(ns)]


# tokens: ("w", text) word, ("q", text) quoted incl. quotes, ("p", text) punctuation
def t_lit(l):
    q, s = l
    if q == "b":
        return [("w", s)]
    qq = '"' if q == "d" else "'"
    return [("q", qq + s + qq)]


def t_param(p):
    k, l = p
    return ([("w", k), ("p", ":")] if k is not None else []) + t_lit(l)


def t_sep(sep, f, xs):
    out = []
    for i, x in enumerate(xs):
        if i:
            out.append(("p", sep))
        out += f(x)
    return out


def t_func(f):
    neg, name, ps = f
    return ([("p", "!")] if neg else []) + [("w", name), ("p", "(")] + t_sep(",", t_param, ps) + [("p", ")")]


def t_item(i):
    if i[0] == "rule":
        out = i[2]
        return t_sep("&&", t_func, i[1]) + [("p", "->")] + ([("w", out[1])] if out[0] == "bare" else t_func(out[1]))
    if i[0] == "decl":
        v = i[2]
        vt = t_sep(",", t_lit, v[1]) if v[0] == "lits" else t_sep("&&", t_func, v[1])
        at = ([("p", "[")] + t_sep(",", t_param, i[3]) + [("p", "]")]) if i[3] else []
        return [("w", i[1]), ("p", ":")] + vt + at
    if i[0] == "lit":
        return t_lit(i[1])
    return [("w", i[1]), ("p", "{")] + [t for x in i[2] for t in t_item(x)] + [("p", "}")]


def t_config(c):
    return [t for (n, items) in c for t in ([("w", n), ("p", "{")] + [t for x in items for t in t_item(x)] + [("p", "}")])]


def show_canonical(c):
    return "".join(t[1] + " " for t in t_config(c))


COMMENT_WORDS = ["note", "x", "'", '"', "{", "}", "a: b", "->", "# x", "/ *", "*", "**", "é", "f(x) -> y", "", " "]


def gen_sep(rng, must, after_word):
    """a separator; `must`: may not be empty; `after_word`: must begin with whitespace"""
    if not must and rng.random() < 0.45:
        return ""
    pieces = []
    n = rng.choice([1, 1, 1, 2, 3])
    for j in range(n):
        r = rng.random()
        if r < 0.5 or (j == 0 and after_word):
            pieces.append(rng.choice([" ", " ", "  ", "\t", "\n", "\r\n", "\n\n", " \n ", "\r"]))
        elif r < 0.75:
            pieces.append("#" + rng.choice(COMMENT_WORDS).replace("\n", " ") + rng.choice(["\n", "\r\n", "\n\r\n"]))
        else:
            body = rng.choice(COMMENT_WORDS).replace("*/", "* /")
            if rng.random() < 0.5:
                pieces.append("/* " + body + "*/")          # opener followed by a non-safe character
            else:
                b2 = "".join(ch for ch in body if ch in SAFE and ch != "/") or "c"
                if b2.endswith("*"):
                    b2 += "c"
                pieces.append("/*" + b2 + "*/ ")             # closer followed by whitespace: tie, comment wins
    return "".join(pieces)


def show_decorated(rng, c):
    toks = t_config(c)
    out = [gen_sep(rng, False, False)]
    for i, (k, s) in enumerate(toks):
        out.append(s)
        nxt = toks[i + 1] if i + 1 < len(toks) else None
        after_word = (k == "w")
        must = False
        if nxt is not None and k == "w":
            must = nxt[0] == "w" or nxt[1] in ("!", "->")
        out.append(gen_sep(rng, must, after_word))
    text = "".join(out)
    if text.rstrip(" \t\r\n").endswith("#") is False and rng.random() < 0.1:
        text += "# trailing comment without newline"
    return text


def bstr(s):
    """Coq term of type str for python str/bytes: one string literal, odd bytes escaped (Check.D)"""
    b = s.encode("utf-8") if isinstance(s, str) else s
    b = b.replace(b"@ROOT@", b"/R")
    if not b:
        return "[]"
    out = []
    for x in b:
        if 32 <= x < 127 and x not in (34, 92):
            out.append(chr(x))
        else:
            out.append("\\%02x" % x)
    return '(D "%s")' % "".join(out)


def c_lit(l):
    return "(Lit %s %s)" % ({"b": "QBare", "d": "QDouble", "s": "QSingle"}[l[0]], bstr(l[1]))


def c_param(p):
    return "(SParam %s %s)" % ("None" if p[0] is None else "(Some %s)" % bstr(p[0]), c_lit(p[1]))


def c_func(f):
    return "(SFunc %s %s %s)" % (vlib.cbool(f[0]), bstr(f[1]), clist([c_param(p) for p in f[2]]))


def c_item(i):
    if i[0] == "rule":
        o = i[2]
        return "(IRule %s %s)" % (clist([c_func(f) for f in i[1]]), "(OBare %s)" % bstr(o[1]) if o[0] == "bare" else "(OFunc %s)" % c_func(o[1]))
    if i[0] == "decl":
        v = i[2]
        vv = "(VLits %s)" % clist([c_lit(l) for l in v[1]]) if v[0] == "lits" else "(VFuncs %s)" % clist([c_func(f) for f in v[1]])
        return "(IDecl %s %s %s)" % (bstr(i[1]), vv, clist([c_param(p) for p in i[3]]))
    if i[0] == "lit":
        return "(ILit %s)" % c_lit(i[1])
    return "(ISection %s %s)" % (bstr(i[1]), clist([c_item(x) for x in i[2]]))


def c_config(c):
    return clist(["(%s, %s)" % (bstr(n), clist([c_item(x) for x in items])) for n, items in c])


# observed trees (harness JSON) -> Coq gsection terms
def g_kv(p):
    return "(KV %s %s)" % (bstr(p.get("k", "")), bstr(p.get("v", "")))


def g_func(f):
    return "(GFunc %s %s %s)" % (bstr(f.get("n", "")), vlib.cbool(f.get("not", False)), clist([g_kv(p) for p in (f.get("p") or [])]))


def g_item(i):
    if i["t"] == "p":
        return "(GParamI (GParam %s %s %s %s))" % (bstr(i.get("k", "")), bstr(i.get("v", "")), clist([g_func(f) for f in (i.get("f") or [])]),
                                                   clist([g_kv(p) for p in (i.get("a") or [])]))
    if i["t"] == "r":
        return "(GRule %s %s)" % (clist([g_func(f) for f in (i.get("f") or [])]), g_func(i["o"]))
    if i["t"] == "s":
        return "(GSection %s %s)" % (bstr(i.get("name", "")), clist([g_item(x) for x in (i.get("items") or [])]))
    raise ValueError("unknown item kind " + str(i))


def g_sections(secs):
    return clist(["(%s, %s)" % (bstr(s["name"]), clist([g_item(x) for x in (s.get("items") or [])])) for s in (secs or [])])


def has_deep(secs):
    return '"deep": true' in json.dumps(secs or [])


def b64(s):
    return base64.b64encode(s.encode("utf-8") if isinstance(s, str) else s).decode()


# ------------------------------------------------------------------------------------------------
# case streams
# ------------------------------------------------------------------------------------------------
def mutate_tokens(rng, toks):
    toks = list(toks)
    if not toks:
        return toks
    for _ in range(rng.choice([1, 1, 1, 2])):
        if not toks:
            break
        i = rng.randrange(len(toks))
        r = rng.random()
        if r < 0.4:
            del toks[i]
        elif r < 0.65:
            toks.insert(i, toks[i])
        elif r < 0.9 and len(toks) > 1:
            j = rng.randrange(len(toks))
            toks[i], toks[j] = toks[j], toks[i]
        else:
            toks[i] = ("p", rng.choice(["()", "[]", "{", "}", ")", "(", "&&", "->", ",", ":", "!", "&", ">", "'", '"', "/*", "#"]))
    return toks


def gen_edge_text(rng):
    """grammatical texts the walker refuses: empty parameter lists in every position"""
    pool = ["f() -> a", "f(x) -> g()", "f(x) && g() -> a", "g() && f(x) -> a", "k: f()", "k: f(x) && g()", "k: g() && f(x)",
            "k: v []", "k: f(x) []", "k: f() []", "!f() -> !g()", "f(x) -> !g()", "k: a, b []", "s { f(x) -> g() }",
            "s { k: f() } f(x) -> g()", "k: f() f(x) -> g()", "k: v [] f(x) -> g()", "f() -> b f(x) -> g()"]
    items = [rng.choice(pool) for _ in range(rng.choice([1, 1, 2, 3]))]
    if rng.random() < 0.3:
        items.insert(rng.randrange(len(items) + 1), "x: y")
    secs = ["%s { %s }" % (gen_id(rng), " ".join(items))]
    if rng.random() < 0.3:
        secs.append("t { %s }" % rng.choice(pool))
    return " ".join(secs)


RAW_ALPHABET = list("abfxk019_-.*/\\^!#$%=@ \t\n{}:,()[]&>'\"<;|") + ["->", "&&", "/*", "*/", "\\'", '\\"', "é", "{ ", " }", "f(", "k: "]


def gen_raw(rng):
    return "".join(rng.choice(RAW_ALPHABET) for _ in range(rng.choice([0, 1, 2, 3, 5, 8, 13, 30, 60])))


def gen_parse_cases(rng, n_grammar, n_near, n_edge, n_raw, n_bytes, big):
    cases = []
    for i in range(n_grammar):
        ast = gen_config(rng, big=big and i % 5 == 0)
        cases.append({"kind": "canon", "ast": ast, "text": show_canonical(ast)})
        cases.append({"kind": "decorated", "ast": ast, "text": show_decorated(rng, ast)})
    for _ in range(n_near):
        ast = gen_config(rng)
        toks = mutate_tokens(rng, t_config(ast))
        cases.append({"kind": "near", "text": " ".join(t[1] for t in toks)})
    for _ in range(n_edge):
        cases.append({"kind": "edge", "text": gen_edge_text(rng)})
    for _ in range(n_raw):
        cases.append({"kind": "raw", "text": gen_raw(rng)})
    for _ in range(n_bytes):
        cases.append({"kind": "bytes", "bytes": bytes(rng.randrange(256) if rng.random() < 0.5 else ord(rng.choice("{}:()' a\"#/*"))
                                                      for _ in range(rng.choice([1, 3, 8, 20, 50])))})
    return cases


def parse_case_term(case, res):
    if res.get("panic"):
        impl = "IPanic"
    elif res.get("ok"):
        impl = "(IOk %s)" % g_sections(res.get("sections"))
    else:
        impl = "IErr"
    ast = "(Some %s)" % c_config(case["ast"]) if "ast" in case else "None"
    return "(Build_parse_case %s %s %s %s)" % (bstr(case["text"]), impl, ast, vlib.cbool(case["kind"] == "canon"))


# ---- include graphs ------------------------------------------------------------------------------
ROOT = "@ROOT@"


class VTree:
    """virtual directory tree: lexical path (normalised, under @ROOT@) -> ("f", mode, text) | ("d",) | ("l", target)"""

    def __init__(self):
        self.nodes = {ROOT: ("d",)}

    def add_dir(self, p):
        p = posixpath.normpath(p)
        while p not in self.nodes and p.startswith(ROOT):
            self.nodes[p] = ("d",)
            p = posixpath.dirname(p)

    def add_file(self, p, mode, text):
        p = posixpath.normpath(p)
        self.add_dir(posixpath.dirname(p))
        self.nodes[p] = ("f", mode, text)

    def add_link(self, p, target):
        p = posixpath.normpath(p)
        self.add_dir(posixpath.dirname(p))
        self.nodes[p] = ("l", posixpath.normpath(target))

    def resolve(self, p, depth=0):
        """the node the operating system reaches for a path (symbolic links followed), or None"""
        if depth > 8:
            return None
        p = posixpath.normpath(p)
        if not p.startswith(ROOT):
            return None
        cur = ROOT
        rest = [c for c in p[len(ROOT):].split("/") if c]
        while rest:
            n = self.nodes.get(cur)
            if n is None:
                return None
            if n[0] == "l":
                return self.resolve(posixpath.join(n[1], *rest), depth + 1)
            if n[0] != "d":
                return None
            cur = cur + "/" + rest.pop(0)
        n = self.nodes.get(cur)
        if n is not None and n[0] == "l":
            return self.resolve(n[1], depth + 1)
        return (cur, n) if n is not None else None

    def children(self, real_dir):
        return sorted(posixpath.basename(p) for p in self.nodes if p != real_dir and posixpath.dirname(p) == real_dir)

    def lexical_paths(self, limit=400):
        """every lexical path that reaches something: breadth first through directories, links followed"""
        out = {}
        todo = [(ROOT, 0)]
        while todo and len(out) < limit:
            p, d = todo.pop(0)
            r = self.resolve(p)
            if r is None:
                continue
            out[p] = r
            if r[1][0] == "d" and d < 7:
                for c in self.children(r[0]):
                    todo.append((p + "/" + c, d + 1))
        return out


def go_join(*parts):
    parts = [p for p in parts if p != ""]
    return posixpath.normpath("/".join(parts)) if parts else ""


SEC_NAMES = ["global", "routing", "dns", "routing", "global", "s1"]


def gen_file_body(rng, includes, tag):
    parts = []
    if includes is not None:
        inc_items = []
        for w in includes:
            if w.startswith("RAW:"):
                inc_items.append(w[4:])
            else:
                inc_items.append("'%s'" % w if rng.random() < 0.5 or not all(ch in SAFE for ch in w) or w[0] not in ID_HEAD + NONID_HEAD or w.startswith("/*") else w)
        parts.append("include { %s }" % " ".join(inc_items))
    k = 0
    for _ in range(rng.choice([0, 1, 2, 3])):
        name = rng.choice(SEC_NAMES)
        items = []
        for _ in range(rng.choice([1, 1, 2, 3])):
            k += 1
            r = rng.random()
            if r < 0.5:
                items.append("%s_k%d: v%d" % (tag, k, k))
            elif r < 0.8:
                items.append("f(%s_%d) -> o" % (tag, k))
            else:
                items.append("%s_lit%d" % (tag, k))
        parts.append("%s { %s }" % (name, " ".join(items)))
    rng.shuffle(parts)
    return "\n".join(parts) + "\n"


def gen_merge_case(rng):
    vt = VTree()
    entry_dir = ROOT + "/etc"
    entry = entry_dir + "/" + rng.choice(["entry.dae", "config.dae", "a.dae"])
    names = ["a.dae", "b.dae", "c.dae", "sub/d.dae", "sub/e.dae", "conf.d/10.dae", "conf.d/20.dae", "sub/deep/f.dae"]
    present = [n for n in names if rng.random() < 0.6]
    files = {entry: None}
    for n in present:
        files[go_join(entry_dir, n)] = None
    extra = []
    if rng.random() < 0.3:
        extra.append((ROOT + "/out.dae", 0o600))            # outside the entry directory
    if rng.random() < 0.3:
        extra.append((entry_dir + "/notes.conf", 0o600))    # not a .dae file
    if rng.random() < 0.2:
        extra.append((entry_dir + "/conf.d/README", 0o600))
    if rng.random() < 0.15:
        vt.add_dir(entry_dir + "/dir.dae")                  # a directory with the suffix
    for p, _ in extra:
        files[p] = None
    all_files = list(files)
    cand_written = []
    for p in all_files:
        rel = posixpath.relpath(p, entry_dir)
        cand_written += [rel, "./" + rel, p, "sub/../" + rel]
    cand_written += ["*.dae", "sub/*.dae", "conf.d/*.dae", "conf.d/*", "*", "sub/*", "*/*.dae", "?.dae", "missing.dae", "../out.dae",
                     "../*.dae", "dir.dae", "sub", ROOT + "/etc/*.dae", ROOT + "/etc/./b.dae", "RAW:f(x) -> y", "RAW:k: b.dae",
                     "RAW:s { }", "conf.d/??.dae", "lnk.dae", "ldir/*.dae", "ldir/o.dae", "sub/l.dae",
                     "../etc.d/s.dae", "../etc-backup/*.dae", ROOT + "/etcetera/s.dae", "../etc_/s.dae", "../et/s.dae", "../etc*/*.dae"]
    mode_of = {}
    shape = rng.random()
    for p in all_files:
        if shape < 0.6:
            # a tree: each file includes only files "below" it
            idx = all_files.index(p)
            later = all_files[idx + 1:]
            incs = [posixpath.relpath(x, entry_dir) for x in later if rng.random() < 0.35]
            if p == entry and rng.random() < 0.5:
                incs = [rng.choice(["conf.d/*.dae", "sub/*.dae"])] + incs
            includes = incs if incs or rng.random() < 0.3 else None
        else:
            includes = [rng.choice(cand_written) for _ in range(rng.choice([0, 0, 1, 1, 2, 3]))] if (p == entry or rng.random() < 0.5) else None
        tag = re.sub(r"[^a-z0-9]", "", posixpath.basename(p))[:6] or "f"
        text = gen_file_body(rng, includes, tag)
        if rng.random() < 0.02:
            text += "broken {"
        mode = rng.choice([0o600] * 36 + [0o640] * 4 + [0o400] * 2 + [0o644, 0o660, 0o604, 0o620])
        mode_of[p] = mode
        vt.add_file(p, mode, text)
    if rng.random() < 0.3:
        sibname = rng.choice(["etc.d", "etc-backup", "etcetera", "etc_", "et"])
        vt.add_file(ROOT + "/" + sibname + "/s.dae", 0o600, "global { sib: 1 }\n")
    if rng.random() < 0.25:
        tgt = rng.choice([p for p in all_files if p != entry] or [entry])
        vt.add_link(entry_dir + "/" + rng.choice(["lnk.dae", "conf.d/30.dae", "sub/l.dae"]), tgt)
    if rng.random() < 0.15:
        vt.add_file(ROOT + "/outside/o.dae", 0o600, "global { o: 1 }\n")
        vt.add_link(entry_dir + "/ldir", ROOT + "/outside")
    return {"vt": vt, "entry": entry, "entry_dir": entry_dir}


def fixed_merge_cases():
    """the boundary shapes the quantifier names, always run"""
    E = ROOT + "/etc"
    out = []

    def mk(files, entry="entry.dae"):
        vt = VTree()
        for name, mode, text in files:
            full = name if name.startswith(ROOT) else E + "/" + name
            if mode == "link":
                vt.add_link(full, text)
            elif mode == "dir":
                vt.add_dir(full)
            else:
                vt.add_file(full, mode, text)
        out.append({"vt": vt, "entry": E + "/" + entry, "entry_dir": E})
    mk([("entry.dae", 0o600, "routing { e1: v f(e) -> o }\ninclude { a.dae b.dae }\nrouting { e2: v }\n"),
        ("a.dae", 0o600, "routing { a1: v }\ninclude { sub/c.dae }\nglobal { ga: 1 }\n"),
        ("b.dae", 0o640, "routing { b1: v }\nglobal { gb: 1 }\n"),
        ("sub/c.dae", 0o400, "routing { c1: v }\n")])                                     # chain + siblings: order
    mk([("entry.dae", 0o600, "global { g: 1 }\ninclude { 'conf.d/*.dae' }\n"),
        ("conf.d/20.dae", 0o600, "global { twenty: 1 }\n"), ("conf.d/10.dae", 0o600, "global { ten: 1 }\n"),
        ("conf.d/README", 0o600, "not a config"), ("conf.d/05.conf", 0o600, "global { five: 1 }\n")])   # glob order, non-.dae skipped
    mk([("entry.dae", 0o600, "include { entry.dae }\nglobal { }\n")])                         # self include
    mk([("entry.dae", 0o600, "include { a.dae }\n"), ("a.dae", 0o600, "include { b.dae }\n"), ("b.dae", 0o600, "include { a.dae }\n")])   # cycle below the entry
    mk([("entry.dae", 0o600, "include { a.dae b.dae }\n"), ("a.dae", 0o600, "include { c.dae }\n"), ("b.dae", 0o600, "include { c.dae }\n"),
        ("c.dae", 0o600, "global { c: 1 }\n")])                                               # diamond
    mk([("entry.dae", 0o600, "include { '../out.dae' }\nglobal { }\n"), (ROOT + "/out.dae", 0o600, "global { out: 1 }\n")])     # escapes the directory
    mk([("entry.dae", 0o600, "include { '%s/out.dae' }\nglobal { }\n" % ROOT), (ROOT + "/out.dae", 0o600, "global { out: 1 }\n")])  # absolute, outside
    mk([("entry.dae", 0o600, "include { '%s/etc/a.dae' 'sub/../b.dae' }\nglobal { e: 1 }\n" % ROOT), ("a.dae", 0o600, "global { a: 1 }\n"),
        ("b.dae", 0o600, "global { b: 1 }\n"), ("sub/x.dae", 0o600, "")])                    # absolute inside, .. inside
    mk([("entry.dae", 0o600, "include { notes.conf missing.dae }\nglobal { e: 1 }\n"), ("notes.conf", 0o600, "global { n: 1 }\n")])   # non-.dae / missing: skipped
    mk([("entry.dae", 0o600, "include { a.dae }\n"), ("a.dae", 0o644, "global { a: 1 }\n")])   # permissions too open
    mk([("entry.dae", 0o600, "include { a.dae }\n"), ("a.dae", 0o600, "global { a: 1 ")])       # included file does not parse
    mk([("entry.dae", 0o600, "include { f(x) -> y }\n")])                                      # include item is not a value
    mk([("entry.conf", 0o600, "global { }\n")], entry="entry.conf")                           # the entry itself is not .dae
    mk([("entry.dae", 0o600, "global { a: 1 }\nglobal { b: 2 }\nrouting { }\nglobal { c: 3 }\n")])   # equally named sections of one file
    # sibling directories whose NAME extends (or is extended by) the entry directory's name: containment is by
    # path components, a common text prefix is not containment
    def sib(entry_dir_name, sibling, how):
        vt = VTree()
        D = ROOT + "/" + entry_dir_name
        S = ROOT + "/" + sibling
        inc = {"rel": "'../%s/a.dae'" % sibling, "abs": "'%s/a.dae'" % S, "glob": "'../%s/*.dae'" % sibling, "absglob": "'%s/*.dae'" % S}[how]
        vt.add_file(D + "/entry.dae", 0o600, "include { %s }\nglobal { e: 1 }\n" % inc)
        vt.add_file(S + "/a.dae", 0o600, "global { sibling: 1 }\n")
        out.append({"vt": vt, "entry": D + "/entry.dae", "entry_dir": D})
    for sibling in ("d.d", "d-backup", "dd", "d_"):
        for how in ("rel", "abs", "glob"):
            sib("d", sibling, how)
    for how in ("rel", "abs", "glob", "absglob"):
        sib("d.d", "d", how)
    sib("dae", "dae.d", "rel")
    # symbolic links: the merger's directory rule is lexical, the operating system follows the link
    mk([("entry.dae", 0o600, "include { link.dae }\nglobal { e: 1 }\n"), ("link.dae", "link", ROOT + "/out.dae"),
        (ROOT + "/out.dae", 0o600, "global { out: 1 }\n")])                                   # link inside -> file outside: read (lexically inside)
    mk([("entry.dae", 0o600, "include { '../outlink.dae' }\nglobal { e: 1 }\n"), (ROOT + "/outlink.dae", "link", E + "/a.dae"),
        ("a.dae", 0o600, "global { a: 1 }\n")])                                               # link outside -> file inside: refused
    mk([("entry.dae", 0o600, "include { 'ldir/*.dae' 'ldir/../b.dae' }\nglobal { e: 1 }\n"), ("ldir", "link", ROOT + "/outside"),
        (ROOT + "/outside/z.dae", 0o600, "global { z: 1 }\n"), (ROOT + "/outside/y.dae", 0o640, "global { y: 1 }\n"),
        ("b.dae", 0o600, "global { b: 1 }\n")])                                               # linked directory, glob through it
    mk([("entry.dae", 0o600, "include { alias.dae a.dae }\n"), ("alias.dae", "link", E + "/a.dae"), ("a.dae", 0o600, "global { a: 1 }\n")])  # same file under two names: not circular
    mk([("entry.dae", 0o600, "include { open.dae }\n"), ("open.dae", "link", E + "/sub/t.dae"), ("sub/t.dae", 0o644, "global { t: 1 }\n")])  # mode of the target counts
    mk([("entry.dae", 0o600, "include { '*.dae' }\nglobal { e: 1 }\n"), ("z.dae", 0o600, "global { z: 1 }\n"), ("B.dae", 0o600, "global { B: 1 }\n"),
        ("a-b.dae", 0o600, "global { ab: 1 }\n"), ("a.dae", 0o600, "global { a: 1 }\n"), ("d.dae", "dir", "")])   # lexical (byte) order; entry itself matched: circular
    mk([("main.dae", 0o600, "include { '*/*.dae' 'x?.dae' }\nglobal { e: 1 }\n"), ("a/2.dae", 0o600, "global { a2: 1 }\n"), ("a-b/1.dae", 0o600, "global { ab1: 1 }\n"),
        ("a/1.dae", 0o600, "global { a1: 1 }\n"), ("x1.dae", 0o600, "global { x1: 1 }\n"), ("x10.dae", 0o600, "global { x10: 1 }\n")], entry="main.dae")  # nested wildcards: component-wise order
    return out


def merge_request(mc):
    vt = mc["vt"]
    files = []
    for p, n in sorted(vt.nodes.items()):
        rel = p[len(ROOT) + 1:] if p != ROOT else ""
        if not rel:
            continue
        if n[0] == "d":
            files.append({"path": rel, "dir": True})
        elif n[0] == "l":
            files.append({"path": rel, "link": n[1]})
        else:
            files.append({"path": rel, "mode": n[1], "text": b64(n[2])})
    words = set()
    for n in vt.nodes.values():
        if n[0] == "f":
            words |= set(w for w in model_parse_includes(n[2]) if len(w) < 200 and "[" not in w and "\\" not in w and "\x00" not in w)
    return {"op": "merge", "files": files, "entry": mc["entry"][len(ROOT) + 1:], "globs": sorted(words)}


def model_parse_includes(text):
    """all include-ish values written in a file, over-approximated: every quoted or bare word of the text (the
    expansion table only needs to cover the patterns the model will ask for)"""
    words = set(re.findall(r"'([^']*)'", text))
    words |= set(re.findall(r'"([^"]*)"', text))
    words |= set(w for w in re.split(r"[\s{}]+", text) if w)
    # keyed parameters are printed compactly: key:value
    for m in re.finditer(r"([A-Za-z_][\w.\-]*)\s*:\s*([^\s{}']+)", text):
        words.add(m.group(1) + ":" + m.group(2))
    return words


def merge_case_term(mc, res, rng):
    vt = mc["vt"]
    lex = vt.lexical_paths()
    os_tab, listing = [], []
    for p, (real, n) in sorted(lex.items()):
        if n[0] == "d":
            os_tab.append(cpair(bstr(p), "ODir"))
            names = vt.children(real)
            rng.shuffle(names)                      # the directory order the OS returns is arbitrary
            listing.append(cpair(bstr(p), clist([bstr(x) for x in names])))
        elif n[0] == "f":
            os_tab.append(cpair(bstr(p), "(OFile %d %s)" % (n[1], bstr(n[2]))))
    globs = clist([cpair(bstr(k), clist([bstr(x) for x in v])) for k, v in sorted((res.get("globs") or {}).items())])
    if res.get("panic"):
        impl = "MPanic"
    elif res.get("ok"):
        impl = "(MOk %s %s)" % (g_sections(res.get("sections")), clist([bstr(e) for e in (res.get("entries") or [])]))
    else:
        impl = "MErr"
    return "(Build_mcase %s %s %s %s %s %s)" % (clist(os_tab), clist(listing), bstr(mc["entry_dir"]), bstr(mc["entry"]), impl, globs)


# ---- capacity / compile cases --------------------------------------------------------------------
def cap_text(n_funcs_before, domain_positions, total_funcs, dns=False):
    """a routing section of `total_funcs` single-function rules; positions in domain_positions are domain rules"""
    rules = []
    for i in range(total_funcs):
        ob = "direct" if i % 2 == 0 else "block"
        if i in domain_positions:
            rules.append("%s(suffix: d%d.example) -> %s" % ("qname" if dns else "domain", i, "asis" if dns else ob))
        else:
            if dns:
                rules.append("qtype(%d) -> %s" % (1 + i % 250, "asis" if i % 2 == 0 else "reject"))
            else:
                rules.append("port(%d) -> %s" % (1 + i % 60000, ob))
    body = "\n".join(rules)
    if dns:
        return "global {}\nrouting { fallback: direct }\ndns { upstream { u: 'udp://1.1.1.1:53' } routing { request {\n%s\nfallback: asis } } }\n" % body
    return "global {}\nrouting {\n%s\nfallback: direct\n}\n" % body


def gen_cap_cases(rng, limit, thorough):
    cases = []
    sizes = [limit - 2, limit - 1, limit, limit + 1, limit + 6]
    if thorough:
        sizes += [limit // 2, limit + 100, 2 * limit]
    for total in sizes:
        for where in ("first", "last", "none"):
            pos = {"first": [0], "last": [total - 1], "none": []}[where]
            cases.append({"kind": "cap", "stage": "routing", "total": total, "domains": pos, "text": cap_text(0, pos, total)})
    for total in [limit - 1, limit + 6]:
        cases.append({"kind": "cap", "stage": "dns", "total": total, "domains": [total - 1], "text": cap_text(0, [total - 1], total, dns=True)})
    return cases


KEYSETS = {"d3": ["suffix", "keyword", "full"], "d2": ["suffix", "keyword"], "d2rep": ["suffix", "keyword", "suffix"], "d1": ["suffix"], "plain": [""]}


def cap2_render(stage, blocks):
    """blocks: list of (repetitions, [condition kinds]) -> (text, coq blocks term). One rule per repetition, its
    conditions joined by '&&'; outbounds alternate so that the optimizer does not merge neighbours."""
    dom, plain = ("domain", "port") if stage == "routing" else ("qname", "qtype")
    outs = {"routing": ("direct", "block"), "request": ("asis", "reject"), "response": ("accept", "reject")}[stage]
    rules, i = [], 0
    for reps, kinds in blocks:
        for _ in range(reps):
            conds = []
            for kd in kinds:
                i += 1
                if kd == "plain":
                    conds.append("%s(%d)" % (plain, 1 + i % (60000 if stage == "routing" else 250)))
                else:
                    conds.append("%s(%s)" % (dom, ", ".join("%s: %s%d.example" % (k, k[0], i * 10 + j) for j, k in enumerate(KEYSETS[kd]))))
            rules.append("%s -> %s" % (" && ".join(conds), outs[len(rules) % 2]))
    body = "\n".join(rules)
    if stage == "routing":
        text = "global {}\nrouting {\n%s\nfallback: direct\n}\n" % body
    else:
        other = "response { fallback: accept }" if stage == "request" else "request { fallback: asis }"
        text = ("global {}\nrouting { fallback: direct }\ndns { upstream { u: 'udp://1.1.1.1:53' } routing { %s {\n%s\nfallback: %s }\n%s } }\n"
                % (stage, body, outs[0], other))
    keyid = {"": 0, "suffix": 1, "keyword": 2, "full": 3}

    def ccond(kd):
        return "(Cond %s %s)" % (vlib.cbool(kd != "plain"), clist([str(keyid[k]) for k in KEYSETS[kd]]))
    term = clist(["(%d%%nat, %s)" % (reps, clist([ccond(k) for k in kinds])) for reps, kinds in blocks])
    nsets = 1 + sum(reps * sum(len(set(KEYSETS[k])) for k in kinds) for reps, kinds in blocks)
    nconds = sum(reps * len(kinds) for reps, kinds in blocks)
    return text, term, nsets, nconds


def gen_cap2_cases(limit, thorough):
    """programs whose match-set count differs from their condition count, around and beyond the limit"""
    L = limit
    a = (L - 4) // 3                       # 340 for 1024
    fams = [
        ("routing", "d3-only-at", [((L - 1) // 3, ["d3"])]),                        # 1 + 3*341 = 1024
        ("routing", "d3-only-over", [((L - 1) // 3 + 1, ["d3"])]),                  # 1027
        ("routing", "plain-then-d3-below", [(L - 2 - 3 * a, ["plain"]), (a, ["d3"])]),      # 1023
        ("routing", "plain-then-d3-at", [(L - 1 - 3 * a, ["plain"]), (a, ["d3"])]),         # 1024
        ("routing", "plain-then-d3-over1", [(L - 3 * a, ["plain"]), (a, ["d3"])]),          # 1025, last domain set at 1023
        ("routing", "plain-then-d3-over2", [(L + 1 - 3 * a, ["plain"]), (a, ["d3"])]),      # 1026, last domain set at 1024
        ("routing", "d3-wide", [(400, ["d3"])]),                                    # 401 conditions, 1201 sets
        ("routing", "d3-then-plain-tail", [(300, ["d3"]), (200, ["plain"])]),       # 1101 sets, no domain beyond the limit
        ("routing", "repeated-key-below", [((L - 2) // 2, ["d2rep"])]),             # 1 + 2*511 = 1023
        ("routing", "repeated-key-over", [((L - 2) // 2 + 1, ["d2rep"])]),          # 1025
        ("routing", "chains-below", [((L - 4) // 4, ["plain", "d3"])]),             # 1 + 4*255 = 1021
        ("routing", "chains-over", [((L - 4) // 4 + 1, ["plain", "d3"])]),          # 1025
        ("request", "d2-at", [(1, ["plain"]), ((L - 2) // 2, ["d2"])]),             # 1 + 1 + 1022 = 1024
        ("request", "d2-over", [(3, ["plain"]), ((L - 2) // 2, ["d2"])]),           # 1026, last domain set at 1024
        ("request", "d2-then-plain-tail", [(400, ["d2"]), (300, ["plain"])]),       # 1101
        ("response", "d2-at", [(1, ["plain"]), ((L - 2) // 2, ["d2"])]),
        ("response", "d2-over", [(3, ["plain"]), ((L - 2) // 2, ["d2"])]),
        ("response", "d2-then-plain-tail", [(400, ["d2"]), (300, ["plain"])]),
    ]
    if thorough:
        fams += [("routing", "d3-double", [(700, ["d3"])]), ("request", "d2-wide", [(900, ["d2"])]), ("routing", "d1-at", [(L - 1, ["d1"])]),
                 ("routing", "d1-over", [(L, ["d1"])])]
    cases = []
    for stage, name, blocks in fams:
        text, term, nsets, nconds = cap2_render(stage, blocks)
        cases.append({"kind": "cap2", "stage": "routing" if stage == "routing" else "dns", "dns_side": stage, "name": name, "blocks": blocks,
                      "text": text, "term": term, "nsets": nsets, "nconds": nconds})
    return cases


RISKY_SNIPPETS = ["domain(ext: nocolon) -> direct", "domain(ext: 'f:tag') -> direct", "domain(geosite: cn) -> direct", "dip(geoip: private) -> direct",
                  "domain(regex: '(') -> direct", "port(70000) -> direct", "pname('') -> direct", "mac('zz') -> direct",
                  "dip(1.2.3.4/33) -> direct", "l4proto(icmp) -> direct", "domain(full: 'a b') -> direct", "unknownfn(x) -> direct",
                  "domain(x) -> nosuchgroup", "dscp(64) -> direct", "sip('::/0') && !port(1-2) -> direct(mark: 0x10)",
                  "domain(suffix: x) -> direct(must)", "port(1) -> must_direct", "port(1) -> direct(mark: zz)", "ipversion(5) -> block"]


def gen_compile_cases(rng, n):
    cases = []
    for s in RISKY_SNIPPETS[:n]:
        cases.append({"kind": "risky", "stage": "routing", "text": "global {}\nrouting {\n%s\nfallback: direct\n}\n" % s, "snippet": s})
    return cases


BUILD_TEXTS = [
    ("ok-minimal", "global {} routing {}", True),
    ("missing-global", "routing {}", False),
    ("missing-routing", "global {}", False),
    ("unknown-section", "global {} routing {} bogus {}", False),
    ("unknown-key", "global { no_such_key: 1 } routing {}", False),
    ("keyless", "global { justtext } routing {}", False),
    ("bad-value", "global { tproxy_port: notanumber } routing {}", False),
    ("bad-value-range", "global { tproxy_port: 70000 } routing {}", False),
    ("rule-in-global", "global { f(x) -> y } routing {}", False),
    ("missing-required-param", "global {} routing {} group { g { filter: name(a) } }", False),
    ("dns-missing-fallback", "global {} routing {} dns { routing { request { qname(x) -> u } } }", False),
    ("section-as-param", "global { log_level { } } routing {}", False),
    ("funcs-into-string", "global { log_level: f(x) } routing {}", False),
    ("include-ignored", "global {} routing {} include { a.dae }", True),
    ("group-ok", "global {} routing {} group { g { policy: min } h { filter: name(a) [add_latency: 5ms] filter: !name(b) policy: fixed(0) } }", True),
    ("nested-unknown", "global {} routing {} dns { routing { bogus { } } }", False),
    ("dup-key-last-wins", "global { log_level: warn log_level: debug } routing { fallback: block }", True),
    ("list-value", "global { tcp_check_url: 'http://a', 'http://b' lan_interface: eth0, eth1 } routing {}", True),
    ("must-outbound", "global {} routing { port(1) -> must_proxy fallback: must_direct } group { proxy { policy: min } }", True),
    ("bool-bad", "global { allow_insecure: maybe } routing {}", False),
    ("duration-bad", "global { check_interval: soon } routing {}", False),
    ("node-list", "global {} routing {} node { n1: 'socks5://a:1' 'socks5://b:2' }", True),
    ("node-rule", "global {} routing {} node { f(x) -> y }", False),
    ("bootstrap-trimmed", "global { bootstrap_resolver: ' 8.8.8.8:53 ' } routing {}", True),
    ("bootstrap-empty", "global { bootstrap_resolver: '  ' } routing {}", True),
    ("bootstrap-no-port", "global { bootstrap_resolver: '1.1.1.1' } routing {}", False),
    ("bootstrap-name", "global { bootstrap_resolver: 'dns.google:53' } routing {}", False),
    ("http-method-unknown", "global { tcp_check_http_method: BOGUS } routing {}", True),
    ("http-method-known", "global { tcp_check_http_method: GET } routing {}", True),
]


def extract_defaults():
    """default:"..." tags of config.Global string fields, by source position"""
    src = open(os.path.join(vlib.REPO, "config/config.go")).read()
    m = re.search(r"type Global struct \{(.*?)\n\}", src, re.S)
    if not m:
        raise AnchorMoved("type Global struct not found in config/config.go")
    out = {}
    for line in m.group(1).split("\n"):
        mm = re.match(r"\s*(\w+)\s+(\S+)\s+`mapstructure:\"([^\"]+)\"(?:\s+default:\"([^\"]*)\")?", line)
        if mm:
            out[mm.group(3)] = (mm.group(2), mm.group(4))
    return out


def check_build_cases(sc, binary, out, stats):
    """contract of config.New on hand-listed classes plus the documented defaults (translator: struct tags)"""
    reqs = [{"op": "build", "text": b64(t)} for _, t, _ in BUILD_TEXTS]
    res, err = run_requests(sc, binary, reqs, "build")
    if err:
        return err
    defaults = extract_defaults()
    bad = []
    for (name, text, want_ok), r in zip(BUILD_TEXTS, res):
        stats["build_" + ("ok" if r.get("ok") else "panic" if r.get("panic") else "err")] = stats.get("build_" + ("ok" if r.get("ok") else "panic" if r.get("panic") else "err"), 0) + 1
        if r.get("panic"):
            out.violation("build_panic", {"op": "build", "text": text, "panic": r["panic"]},
                          "config.New crashed instead of answering with a configuration or an error (%s)" % name, matchers=["C17/build-panic/" + name])
            bad.append(name)
        elif bool(r.get("ok")) != want_ok:
            out.violation("build_class", {"op": "build", "text": text, "result": r},
                          "config.New: %s expected %s" % (name, "a configuration" if want_ok else "an error"), matchers=["C17/build-class/" + name])
            bad.append(name)
    r0 = res[0]
    if r0.get("ok"):
        g = r0["conf"]["global"]
        proj = {"log_level": "log_level", "dial_mode": "dial_mode", "tcp_check_http_method": "tcp_check_http_method", "tls_implementation": "tls_implementation",
                "utls_imitate": "utls_imitate", "fallback_resolver": "fallback_resolver", "bandwidth_max_tx": "bandwidth_max_tx", "tls_fragment_length": "tls_fragment_length"}
        for key, field in proj.items():
            typ, dflt = defaults.get(key, (None, None))
            if typ == "string" and (dflt or "") != g.get(field):
                out.violation("build_default", {"op": "build", "text": BUILD_TEXTS[0][1], "key": key, "documented_default": dflt, "got": g.get(field)},
                              "default of %s is not applied" % key, matchers=["C17/default/" + key])
                bad.append("default:" + key)
        if str(g.get("tproxy_port")) != (defaults.get("tproxy_port", (None, None))[1] or ""):
            out.violation("build_default", {"op": "build", "text": BUILD_TEXTS[0][1], "key": "tproxy_port", "got": g.get("tproxy_port")},
                          "default of tproxy_port is not applied", matchers=["C17/default/tproxy_port"])
        fb = r0["conf"]["routing"]["fallback"]
        if fb != {"s": "direct"}:
            out.violation("build_default", {"op": "build", "text": BUILD_TEXTS[0][1], "key": "routing.fallback", "got": fb},
                          "default routing fallback is not 'direct'", matchers=["C17/default/fallback"])
    stats["build_cases"] = len(BUILD_TEXTS)
    stats["build_failed"] = bad
    return None


# ---- config.New contract: generated configurations against the Coq model --------------------------
VALUE_PALETTE = {
    "bool": ["true", "false", "1", "0", "yes", "maybe", "TRUE", "t"],
    "uint16": ["0", "65535", "65536", "-1", "0x10", "abc", "12345", "1.5"],
    "uint32": ["0", "4294967295", "4294967296", "-1", "0x1f", "zz"],
    "int": ["-5", "10", "x", "0", "9999999999999999999"],
    "time.Duration": ["30s", "1h", "soon", "10", "0", "1h30m", "-5s", "5 s"],
    "uint8": ["0", "255", "256"],
    "netip.AddrPort": ["1.1.1.1:53", "[::1]:53", "1.1.1.1", "dns.google:53", "8.8.8.8:53", "x"] + STRING_VALUES,
    "httpmethod": ["HEAD", "GET", "CONNECT", "head", "BOGUS", "POST", "PUT"] + STRING_VALUES,
}
PROJECTED_GLOBAL_STRINGS = ["log_level", "dial_mode", "tls_implementation", "utls_imitate", "fallback_resolver", "bandwidth_max_tx", "tls_fragment_length"]
ERR_KINDS = [("parse global.bootstrap_resolver", 9), ("is required but not provided", 1), ("unknown section", 2), ("unexpected key", 3), ("unsupported text without a key", 4),
             ("but not found", 5), ("cannot be convert", 6), ("unsupported section type", 6), ("expected exactly 1 function", 6),
             ("cannot use routing rule in this context", 7), ("does not support type", 8), ("unmatched type", 8)]


def q(v):
    return "'%s'" % v


def gen_struct_items(rng, sch, sname, depth=0):
    """valid items for a struct section"""
    st = sch["structs"][sname]
    items = []
    for f in st["fields"]:
        k = f["kind"]
        must = f["required"]
        if f["key"] == "bootstrap_resolver":
            if rng.random() < 0.3:
                items.append("bootstrap_resolver: '%s'" % rng.choice(["1.1.1.1:53", "[::1]:53", "1.1.1.1", "dns.google:53", " 8.8.8.8:53 ", "", "  ", "x"]))
            continue
        if f["key"] == "tcp_check_http_method":
            if rng.random() < 0.4:
                items.append("tcp_check_http_method: %s" % rng.choice(["HEAD", "GET", "CONNECT", "head", "BOGUS", "POST", "PUT", "''"]))
            continue
        if not must and rng.random() > 0.25:
            continue
        if k[0] == "KString":
            items.append("%s: %s" % (f["key"], rng.choice(["info", "'a b'", "x", "domain", "ip", "tls", "'50-100'"])))
        elif k[0] == "KScalar":
            good = {"bool": ["true", "false"], "uint16": ["0", "12345", "65535"], "uint32": ["0", "7"], "int": ["4", "6", "0"],
                    "time.Duration": ["30s", "1h", "0"], "uint8": ["1"]}[k[2]]
            items.append("%s: %s" % (f["key"], q(rng.choice(good)) if rng.random() < 0.3 else rng.choice(good)))
        elif k[0] == "KList":
            if rng.random() < 0.2:
                items.append("%s { 'a:b' c }" % f["key"])
            else:
                items.append("%s: %s" % (f["key"], ", ".join(rng.choice(["eth0", "'http://a'", "'x:53'", "'1.1.1.1'"]) for _ in range(rng.choice([1, 2, 3])))))
        elif k[0] == "KIface":
            items.append("%s: %s" % (f["key"], rng.choice(["direct", "min", "asis", "fixed(0)", "accept", "'q'", "min_moving_avg"])))
        elif k[0] == "KFuncLists":
            for _ in range(rng.choice([1, 2])):
                items.append("%s: %s%s" % (f["key"], rng.choice(["name(a)", "!name(b) && subtag(c)", "name(keyword: x)"]), rng.choice(["", " [add_latency: 5ms]"])))
        elif k[0] == "KStruct" and depth < 3:
            items.append("%s { %s }" % (f["key"], " ".join(gen_struct_items(rng, sch, STRUCT_NAMES[k[1]], depth + 1))))
    if st["has_rules"]:
        for _ in range(rng.choice([0, 1, 2])):
            items.append(rng.choice(["dport(1) -> direct", "qname(x) -> asis", "!f(a) && g(k: v) -> o(p)", "x(y) -> must_z"]))
    rng.shuffle(items)
    return items


def gen_build_text(rng, sch):
    secs = {"global": gen_struct_items(rng, sch, "Global"), "routing": gen_struct_items(rng, sch, "Routing")}
    if rng.random() < 0.5:
        secs["dns"] = gen_struct_items(rng, sch, "Dns")
    if rng.random() < 0.4:
        secs["group"] = ["%s { %s }" % (n, " ".join(gen_struct_items(rng, sch, "Group"))) for n in rng.sample(["g1", "proxy", "my-group"], rng.choice([1, 2]))]
    if rng.random() < 0.3:
        secs["node"] = [rng.choice(["'socks5://a:1'", "n1: 'ss://x'", "tag: v"]) for _ in range(rng.choice([1, 2]))]
    if rng.random() < 0.2:
        secs["subscription"] = ["'https://s/1'", "my: 'file://x'"]
    if rng.random() < 0.2:
        secs["include"] = ["a.dae"]
    scalars = [(sn, f) for sn in ("Global", "Dns") for f in sch["structs"][sn]["fields"] if f["kind"][0] == "KScalar"]
    strings = [f for f in sch["structs"]["Global"]["fields"] if f["kind"][0] == "KString" and f["key"] != "bootstrap_resolver"]
    tag = "valid"
    for _ in range(rng.choice([0, 0, 1, 1, 1, 2])):
        m = rng.randrange(20)
        tag = "m%d" % m
        tgt = rng.choice([k for k in ("global", "routing", "dns") if k in secs])
        if m == 0:
            secs.pop(rng.choice(["global", "routing"]), None)
        elif m == 1:
            secs[rng.choice(["bogus", "globals", "Routing", "dnss"])] = rng.choice([[], ["k: v"]])
        elif m == 2:
            secs[tgt].insert(rng.randrange(len(secs[tgt]) + 1), "%s: v" % rng.choice(["no_such_key", "so_mark_from_dae_set", "_", "Rules", "name"]))
        elif m == 3:
            secs[tgt].insert(rng.randrange(len(secs[tgt]) + 1), rng.choice(["justtext", "'quoted text'", "1.2.3.4"]))
        elif m == 4:
            sn, f = rng.choice(scalars)
            sec = "global" if sn == "Global" else "dns"
            if sec in secs:
                secs[sec].insert(rng.randrange(len(secs[sec]) + 1), "%s: %s" % (f["key"], q(rng.choice(VALUE_PALETTE[f["kind"][2]]))))
        elif m == 5:
            secs["global"].insert(0, "f(x) -> y") if "global" in secs else None
        elif m == 6:
            f = rng.choice(strings)
            secs.setdefault("global", []).append("%s { }" % f["key"])
        elif m == 7:
            f = rng.choice(strings)
            secs.setdefault("global", []).append("%s: f(x)" % f["key"])
        elif m == 8 and "dns" in secs:
            secs["dns"].append("routing: x")
        elif m == 9:
            secs["group"] = ["g { filter: name(a) }"]
        elif m == 10:
            secs["dns"] = secs.get("dns", []) + ["routing { request { qname(x) -> u } }"]
        elif m == 11:
            secs["group"] = secs.get("group", []) + [rng.choice(["lit", "k: v", "f(x) -> y"])]
        elif m == 12:
            secs["node"] = secs.get("node", []) + [rng.choice(["f(x) -> y", "s { }"])]
        elif m == 13:
            secs["routing"] = secs.get("routing", []) + [rng.choice(["fallback: f(x) && g(y)", "fallback: f(x)", "fallback: block"])]
        elif m == 14:
            secs[tgt].append("%s { }" % rng.choice(["nosuch", "fallback", "ipversion_prefer"]))
        elif m == 15 and "dns" in secs:
            secs["dns"].append("routing { bogus { } }")
        elif m == 16 and "dns" in secs:
            secs["dns"].append("routing { request { fallback: asis nokey: 1 } }")
        elif m == 17:
            f = rng.choice(strings)
            secs.setdefault("global", []).append("%s: %s" % (f["key"], rng.choice(["first", "'second one'"])))
            secs["global"].append("%s: last" % f["key"])
        elif m == 18:
            secs.setdefault("global", []).append("lan_interface: a, b")
            secs["global"].append("lan_interface { c }")
    order = list(secs)
    rng.shuffle(order)
    parts = ["%s { %s }" % (n, "\n".join(secs[n])) for n in order]
    if rng.random() < 0.1 and "global" in secs:
        parts.append("global { log_level: debug }")       # a later section of the same name replaces the earlier one
        tag += "+dup"
    return "\n".join(parts) + "\n", tag


def simple_item(f):
    k = f["kind"]
    if k[0] == "KString":
        return "%s: v" % f["key"]
    if k[0] == "KScalar":
        return "%s: %s" % (f["key"], {"bool": "true", "uint16": "1", "uint32": "1", "int": "1", "time.Duration": "30s", "uint8": "1"}[k[2]])
    if k[0] == "KList":
        return "%s: a" % f["key"]
    if k[0] == "KIface":
        return "%s: x" % f["key"]
    if k[0] == "KFuncLists":
        return "%s: name(a)" % f["key"]
    return None


def struct_paths(sch):
    """for every struct reachable from a top-level section: the chain of (opening text, struct name) that nests it"""
    out = []

    def walk(chain, kind, depth):
        if depth > 5:
            return
        if kind[0] == "KStruct":
            sname = STRUCT_NAMES[kind[1]]
            out.append((list(chain), sname))
            for f in sch["structs"][sname]["fields"]:
                if f["kind"][0] in ("KStruct", "KStructList"):
                    walk(chain + [(f["key"], sname)], f["kind"], depth + 1)
        elif kind[0] == "KStructList":
            walk(chain + [("member1", None)], ("KStruct", kind[1]), depth + 1)
    for t in sch["tops"]:
        walk([(t["name"], None)], t["kind"], 0)
    return out


def required_family(sch):
    """every struct section that has required keys, nested in each allowed parent, written empty, with only
    comments/whitespace, with only unrelated optional keys, and (control) with its required keys.
    -> list of (text, tag, expected missing keys or None)"""
    cases = []
    for chain, sname in struct_paths(sch):
        st = sch["structs"][sname]
        req = [f for f in st["fields"] if f["required"]]
        if not req:
            continue
        opt = [x for x in (simple_item(f) for f in st["fields"] if not f["required"]) if x][:3]
        if st["has_rules"]:
            opt.append("qname(x) -> y")
        good = " ".join(x for x in (simple_item(f) for f in req) if x)
        bodies = [("empty", "", True), ("comments", " # nothing here\n /* nor here */ \n\t", True),
                  ("optional-only", " ".join(opt), True), ("control", good, False)]
        for bname, body, missing in bodies:
            # the enclosing sections carry their own required keys (so that only the target lacks one)
            text = body
            for i in range(len(chain) - 1, -1, -1):
                name, parent_struct = chain[i]
                extra = ""
                if parent_struct is not None:
                    pst = sch["structs"][parent_struct]
                    extra = " ".join(x for x in (simple_item(f) for f in pst["fields"] if f["required"] and f["key"] != name) if x)
                text = "%s { %s } %s" % (name, text, extra)
            top = chain[0][0]
            base = " ".join("%s { }" % t["name"] for t in sch["tops"] if t["required"] and t["name"] != top)
            cases.append((base + " " + text + "\n", "required:%s:%s:%s" % ("/".join(c[0] for c in chain), sname, bname),
                          [f["key"] for f in req] if missing else None))
    return cases


def run_build_stream(sc, binary, rng, sch, n, out, stats):
    """returns (list of model-fail texts, error)"""
    test = "TestVerifC17Build"
    # decode oracle over the palette
    oreqs, okeys = [], []
    for ty, vals in VALUE_PALETTE.items():
        for v in vals + ["true", "false", "0", "12345", "65535", "7", "4", "6", "30s", "1h", "1"]:
            if (ty, v) not in okeys:
                okeys.append((ty, v))
                oreqs.append({"op": "decode", "ty": ty, "value": b64(v)})
    ores, err = run_requests(sc, binary, oreqs, "oracle", test=test)
    if err:
        return None, err
    oracle = clist(["(%d, %s, %s)" % (ORACLE_TYPES[ty], bstr(v), vlib.cbool(r.get("ok", False))) for (ty, v), r in zip(okeys, ores)])
    cases = [gen_build_text(rng, sch) for _ in range(n)]
    fam = required_family(sch)
    fam_expect = {tag: keys for _, tag, keys in fam}
    stats["required_key_family_cases"] = len(fam)
    cases = [(t, "fixed:" + name) for name, t, _ in BUILD_TEXTS] + [(t, tag) for t, tag, _ in fam] + cases
    res, err = run_requests(sc, binary, [{"op": "build2", "text": b64(t)} for t, _ in cases], "build2", test=test)
    if err:
        return None, err
    terms, idx = [], []
    kinds = {}
    for i, ((text, tag), r) in enumerate(zip(cases, res)):
        if r.get("panic"):
            out.violation("build_panic", {"op": "build", "text": text, "panic": r["panic"]}, "config.New crashed instead of answering", matchers=["C17/build-panic"])
            continue
        p, b = r["parse"], r["build"]
        if not p.get("ok"):
            kinds["unparsable"] = kinds.get("unparsable", 0) + 1
            if tag.startswith("required:"):
                return None, "generated required-key case does not parse: " + text
            continue
        if tag in fam_expect:
            keys = fam_expect[tag]
            err_txt = b.get("err", "")
            if keys is not None and not stats.get("_req_reported") and (b.get("ok") or "but not found" not in err_txt or not any('"%s"' % k in err_txt for k in keys)):
                out.violation("build_required", {"op": "build", "text": text, "result": b, "expected": "an error naming one of the missing required keys %s" % keys,
                                                 "how": "Parse then config.New: a section that lacks a required key (here: %s) must be rejected" % tag},
                              "config.New accepts (or mis-reports) a section that lacks a required key: %s" % tag, matchers=["C17/build-required/" + tag.split(":")[2] + "/" + tag.split(":")[3]])
                stats["_req_reported"] = True
            elif keys is None and not b.get("ok"):
                out.violation("build_required_control", {"op": "build", "text": text, "result": b},
                              "config.New rejects a section that has its required keys: %s" % tag, matchers=["C17/build-required-control"])
        if b.get("panic"):
            code = 100
        elif b.get("ok"):
            code = 0
        else:
            code = next((c for pat, c in ERR_KINDS if pat in b.get("err", "")), 50)
        kinds[code] = kinds.get(code, 0) + 1
        gs = []
        hm, bs = "", ""
        if code == 0:
            g = b["conf"]["global"]
            gs = [cpair(bstr(k), bstr(g[k])) for k in PROJECTED_GLOBAL_STRINGS if k in g]
            hm, bs = g.get("tcp_check_http_method", ""), g.get("bootstrap_resolver", "")
        idx.append(i)
        terms.append("(Build_build_case %s oracle_tab %d %s %s %s)" % (g_sections(p.get("sections")), code, clist(gs), bstr(hm), bstr(bs)))
    text = (HEADER + "From Dae Require Import C17_CheckBuild.\nDefinition oracle_tab : list (N * str * bool) := %s.\n" % oracle +
            "Definition cases : list build_case := [\n%s\n].\n" % ";\n".join(terms) +
            "Definition R := Eval vm_compute in map check_build cases.\nPrint R.\n"
            "Definition S := Eval vm_compute in map build_signature cases.\nPrint S.\n")
    ok, outtxt = vlib.coq_eval("C17_cases_build", text)
    if not ok:
        return None, "coq evaluation failed: " + outtxt[-2500:]
    m = re.search(r"R\s*=\s*(.*?)\n\s*:\s*list", outtxt, re.S)
    per = parse_nested_lists(m.group(1))
    if len(per) != len(terms):
        return None, "cannot parse coq output of the build stream"
    m2 = re.search(r"S\s*=\s*(.*?)\n\s*:\s*list", outtxt, re.S)
    bsigs = re.findall(r"\((\d+),(\d+),(\d+)\)", re.sub(r"\s+|%N", "", m2.group(1))) if m2 else []
    stats["build_stream_answer_kinds"] = {str(k): v for k, v in sorted(kinds.items(), key=lambda kv: str(kv[0]))}
    stats["build_stream_cases"] = len(terms)
    stats.pop("_req_reported", None)
    model_fail = []
    for i, e in zip(idx, per):
        text, tag = cases[i]
        if 9 in e or 2 in e:
            out.violation("build_contract", {"op": "build", "text": text, "codes": e, "result": res[i]["build"],
                                             "how": "Parse then config.New: the answer violates the contract (unknown/missing section or key accepted, crash, or a documented default not applied)"},
                          "config.New violates its contract on this configuration", matchers=["C17/build-contract/" + tag])
            break
        if e:
            model_fail.append({"text": text, "codes": e, "impl": res[i]["build"].get("err", "ok")})
    return (model_fail, bsigs), None


# ------------------------------------------------------------------------------------------------
# running
# ------------------------------------------------------------------------------------------------
def run_requests(sc, binary, reqs, tag, timeout=600, test=None):
    inp = sc.path("c17_%s.in" % tag)
    outp = sc.path("c17_%s.out" % tag)
    with open(inp, "w") as f:
        for r in reqs:
            f.write(json.dumps(r) + "\n")
    if os.path.exists(outp):
        os.remove(outp)
    rc, so, se, dt = vlib.run_go_harness(binary, test or TEST, inp, outp, timeout=timeout)
    if rc != 0:
        return None, "harness process failed rc=%d: %s" % (rc, (so + se)[-1500:])
    res = [json.loads(l) for l in open(outp)]
    if len(res) != len(reqs):
        return None, "harness answered %d of %d requests" % (len(res), len(reqs))
    return res, None


def run_isolated(sc, binary, reqs, tag):
    """risky requests: whole batch in one child first; on a process crash bisect down to single requests.
    Returns list of results; a request that kills the process gets {"panic": "process died: ..."}"""
    res, err = run_requests(sc, binary, reqs, tag, timeout=300)
    if err is None:
        return res
    if len(reqs) == 1:
        return [{"ok": False, "panic": "process died: " + err[-600:], "stage": "process"}]
    mid = len(reqs) // 2
    return run_isolated(sc, binary, reqs[:mid], tag + "a") + run_isolated(sc, binary, reqs[mid:], tag + "b")


HEADER = ("From Coq Require Import List NArith Bool String Ascii.\nFrom Dae Require Import C17_Spec C17_Model C17_Paths C17_Capacity C17_Check C17_CheckLex C17_CheckMerge C17_CheckCap.\n"
          "Import ListNotations.\nOpen Scope string_scope.\nOpen Scope N_scope.\nOpen Scope list_scope.\n")


def parse_nested_lists(body):
    """'[[];[1;9];[]]' -> [[],[1,9],[]]"""
    body = re.sub(r"\s+|%N", "", body)
    inner = body[1:-1]
    return [[int(x) for x in p.split(";") if x] for p in re.findall(r"\[([0-9;]*)\]", inner)]


def eval_cases(name, ctype, terms, check, sig):
    text = (HEADER + "Definition cases : list %s := [\n%s\n].\n" % (ctype, ";\n".join(terms)) +
            "Definition R := Eval vm_compute in map %s cases.\nPrint R.\n" % check +
            ("Definition S := Eval vm_compute in map %s cases.\nPrint S.\n" % sig if sig else ""))
    ok, outtxt = vlib.coq_eval(name, text)
    if not ok:
        return None, None, "coq evaluation failed: " + outtxt[-2500:]
    m = re.search(r"R\s*=\s*(.*?)\n\s*:\s*list", outtxt, re.S)
    if not m:
        return None, None, "cannot find R in coq output: " + outtxt[-800:]
    per = parse_nested_lists(m.group(1)) if terms else []
    if len(per) != len(terms):
        return None, None, "cannot parse coq output (%d vs %d)" % (len(per), len(terms))
    sigs = []
    if sig:
        m2 = re.search(r"S\s*=\s*(.*?)\n\s*:\s*list", outtxt, re.S)
        if m2:
            sigs = re.findall(r"\((\d+),(\d+),(\d+)\)", re.sub(r"\s+|%N", "", m2.group(1)))
    return per, sigs, None


def run_parse_batch(sc, binary, cases, tag):
    reqs = [{"op": "parse", "text": b64(c["text"] if "text" in c else c["bytes"])} for c in cases]
    res, err = run_requests(sc, binary, reqs, tag)
    if err:
        return None, None, None, err
    pre = {}
    idx = []
    terms = []
    for i, (c, r) in enumerate(zip(cases, res)):
        if c["kind"] == "bytes":
            # arbitrary bytes (possibly invalid UTF-8): only "an answer, not a crash"
            pre[i] = [9] if r.get("panic") else []
            continue
        if r.get("ok") and has_deep(r.get("sections")):
            pre[i] = [2]
            continue
        idx.append(i)
        terms.append(parse_case_term(c, r))
    per, sigs, err = eval_cases("C17_cases_%s" % tag, "parse_case", terms, "check_parse", "parse_signature")
    if err:
        return None, None, None, err
    errors = dict(pre)
    for i, p in zip(idx, per):
        errors[i] = p
    return errors, sigs, res, None


def run_lex_batch(sc, binary, cases, tag):
    """token-by-token: generated ANTLR lexer against the model lexer. Returns (indices that disagree, error)"""
    idx = [i for i, c in enumerate(cases) if c["kind"] not in ("bytes", "canon")]
    res, err = run_requests(sc, binary, [{"op": "lex", "text": b64(cases[i]["text"])} for i in idx], tag, test="TestVerifC17Lex")
    if err:
        return None, err
    terms = []
    for i, r in zip(idx, res):
        if r.get("panic"):
            terms.append("(Build_lex_case %s true [] [] [])" % bstr(cases[i]["text"]))
            continue
        toks = r.get("toks") or []
        terms.append("(Build_lex_case %s %s %s [%s]%%nat %s)" % (
            bstr(cases[i]["text"]), vlib.cbool(r.get("errors", 0) > 0), clist([str(t["t"]) for t in toks]),
            ";".join(str(len(t["s"].encode("utf-8"))) for t in toks), bstr("".join(t["s"] for t in toks))))
    per, _, err = eval_cases("C17_cases_%s" % tag, "lex_case", terms, "check_lex", None)
    if err:
        return None, err
    return [i for i, e in zip(idx, per) if e], None


def shrink_text(sc, binary, text, fails_many):
    """ddmin over whitespace-separated words (chunks of decreasing size, then single words);
    fails_many(list of texts) -> list of bool (still failing); one harness call per round"""
    words = [w for w in text.split(" ") if w != ""]
    chunk = max(1, len(words) // 2)
    rounds = 0
    while rounds < 80 and len(words) > 1:
        rounds += 1
        cands = []
        for i in range(0, len(words), chunk):
            c = words[:i] + words[i + chunk:]
            if c:
                cands.append(c)
        flags = fails_many([" ".join(c) for c in cands]) if cands else []
        hit = next((i for i, f in enumerate(flags) if f), None)
        if hit is not None:
            words = cands[hit]
            chunk = max(1, min(chunk, len(words) // 2))
        elif chunk > 1:
            chunk = max(1, chunk // 2)
        else:
            break
    return " ".join(words)


def crash_class(msg):
    msg = msg or ""
    if "nil pointer dereference" in msg:
        return "nil-dereference"
    if "interface conversion" in msg:
        return "error-node-type-assertion"
    if "index out of range" in msg:
        return "index-out-of-range"
    if "slice bounds" in msg:
        return "slice-bounds"
    return "other"


def do_replay(path):
    """re-run one recorded case against the implementation, the model and the spec; print the three results"""
    d = json.load(open(path))
    rp = d.get("replay", d)
    with vlib.Scratch() as sc:
        binary, blog = vlib.build_go_test_binary(sc, "control", HARNESS)
        if binary is None:
            print("harness build failed")
            return 2
        op = rp.get("op") or ("merge" if "request" in rp else None)
        if op == "parse":
            raw = base64.b64decode(rp["text_b64"]) if rp.get("text_b64") else rp["text"].encode()
            try:
                case = {"kind": "near", "text": raw.decode("utf-8")}
            except UnicodeDecodeError:
                case = {"kind": "bytes", "bytes": raw}
            errs, _, res, err = run_parse_batch(sc, binary, [case], "replay")
            print("impl :", json.dumps(res[0])[:600] if res else err)
            print("codes (1 impl<>model, 2/9 impl<>spec, 3 model<>spec):", errs.get(0) if errs else err)
            return 1 if (errs and errs.get(0)) else 0
        if op == "compile":
            req = {"op": "compile", "stage": rp.get("stage", "routing"), "text": rp["text_b64"] if rp.get("text_b64") else b64(rp["text"])}
            res = run_isolated(sc, binary, [req], "replay")
            print("impl :", json.dumps(res[0])[:800])
            print("spec : an error message or a configuration, never a crash")
            return 1 if res[0].get("panic") else 0
        if op == "merge":
            req = rp["request"]
            res, err = run_requests(sc, binary, [req], "replay")
            print("impl :", json.dumps(res[0])[:800] if res else err)
            print("(model/spec comparison of merge replays: rerun the check with the recorded seed)")
            return 0
        if op == "build":
            res, err = run_requests(sc, binary, [{"op": "build", "text": b64(rp["text"])}], "replay")
            print("impl :", json.dumps(res[0])[:800] if res else err)
            return 1 if res and res[0].get("panic") else 0
    print("nothing to replay in", path)
    return 2


def main(argv):
    import time
    t0 = time.time()
    _log = vlib.log

    def log(*a):
        _log("[%5.1fs]" % (time.time() - t0), *a)
    args = vlib.main_args(argv)
    if args.replay:
        return do_replay(args.replay)
    out = vlib.Outcome(PID, args.tier, args.seed)
    rng = vlib.rng_for(args.seed, PID)
    thorough = args.tier == "thorough"

    # 1. translators
    tie_broken = None
    facts = {}
    schema = None
    try:
        gen_text, facts = translate()
        vlib.write_if_changed(os.path.join(vlib.COQ, "gen", "Extracted_C17.v"), gen_text)
        if facts["lexer_shape_sha256"] != LEXER_SHAPE_SHA or facts["parser_atn_sha256"] != PARSER_ATN_SHA:
            tie_broken = ("the dae_config grammar (generated ATN) is not the one the model was written against: lexer shape %s, parser %s"
                          % (facts["lexer_shape_sha256"][:12], facts["parser_atn_sha256"][:12]))
        schema_text, schema = translate_schema()
        vlib.write_if_changed(os.path.join(vlib.COQ, "gen", "Extracted_C17_Schema.v"), schema_text)
        gfacts, gissue = capacity_guard_shape()
        facts["capacity_guards"] = gfacts
        if gissue:
            tie_broken = tie_broken or ("capacity guard: " + gissue)
        if schema.get("shape_issue"):
            tie_broken = tie_broken or ("shape of config/parser.go: " + schema["shape_issue"])
    except AnchorMoved as e:
        tie_broken = "anchor moved: %s" % e
    limit = facts.get("max_match_set_len", 1024)

    log("translators done")
    # 2. proofs
    proof_ok, pinfo = vlib.proof_stage(out, PROPS, TARGETS)
    log("proof stage done")
    cov = {"obligations": pinfo["obligations"], "discharged": pinfo["discharged"],
           "checker_cmd": "cd /verif/coq && coq_makefile -f _CoqProject -o Makefile && make -j16 " + " ".join(TARGETS) + " && coqc -Q . Dae C17_Props.v (Print Assumptions captured)",
           "theorems": pinfo.get("theorems", []), "print_assumptions": pinfo.get("assumptions", []),
           "translated_from_source": {k: facts.get(k) for k in ("sets", "max_match_set_len", "lexer_shape_sha256", "parser_atn_sha256", "capacity_guards")},
           "trusted_base": vlib.TRUSTED_BASE_COMMON + [
               "the reading of ANTLR 4's lexer ATN simulator (longest match, first rule on ties, non-greedy loops) and of the 19 grammar rules as an LL(2) recursive descent; tied to the generated lexer/parser only by the correspondence run",
               "python virtual directory tree answering what the operating system answers for a path (symbolic links followed) - the os/listing tables of the merge cases; Glob, Join/Clean, EnsureFileInSubDir and readEntry's checks are Coq models (C17_Paths.v) compared with filepath.Glob's real answers and the merger's real behaviour",
               "oracle contract of directory listings: no two entries of one directory have the same name (nodup_listing)",
               "valid UTF-8 input for the structural comparison (the lexer works on runes, the model on bytes; they coincide because every special character is ASCII); arbitrary byte strings are only checked for 'an answer, not a crash'"]}
    out.coverage = cov
    out.assumptions = ["clause 'parsing never crashes whatever the input' for MALFORMED input: exploration only (generated near-miss, edge and raw streams); the theorem side says the model is total",
                       "typed decoding (config.New): modelled for its contract over the schema translated from the struct tags, with common.FuzzyDecode as an oracle answered by the harness; Go reflection itself and the bootstrap_resolver / http-method patches are not modelled",
                       "kernel-side capacity (BuildKernspace) cannot run in the stub build; the capacity clause is decided on the userspace builders",
                       "the directory rule is read lexically, as the Go code implements it: a symbolic link that lies inside the entry directory is read even when its target is outside (os.Open follows it, EnsureFileInSubDir resolves nothing); generated and modelled that way; dangling links and '..' through linked directories are not generated"]
    stats = {}

    with vlib.Scratch() as sc:
        binary, blog = vlib.build_go_test_binary(sc, "control", HARNESS)
        if binary is None:
            out.violation("build", {"broken": "harness build against the repository failed", "log": blog[-3000:]},
                          "correspondence harness no longer builds", no_failing_input=True)
            cov.update(evaluations=0, distinct_nontrivial=0, rule="", samples=[], traces_validated_against_impl=0)
            return out.finish()

        # ---- parse stream
        ng, nn, ne, nr, nb = (50, 70, 20, 50, 30) if not thorough else (800, 1200, 200, 1200, 500)
        corpus = []
        cdir = os.path.join(vlib.VERIF, "corpus", PID)
        if os.path.isdir(cdir):
            for n in sorted(os.listdir(cdir)):
                if n.endswith(".json"):
                    corpus.append(json.load(open(os.path.join(cdir, n))))
        log("harness built")
        pcases = [c for c in corpus if c.get("kind") in ("near", "edge", "raw")] + gen_parse_cases(rng, ng, nn, ne, nr, nb, thorough)
        all_err = {}
        sigs = []
        presults = {}
        lex_fail = []
        shard = 600
        for s in range(0, len(pcases), shard):
            errs, sg, rs, err = run_parse_batch(sc, binary, pcases[s:s + shard], "p%d" % s)
            if err:
                tie_broken = tie_broken or err
                break
            for j, r in enumerate(rs):
                presults[s + j] = r
            lbad, err = run_lex_batch(sc, binary, pcases[s:s + shard], "l%d" % s)
            if err:
                tie_broken = tie_broken or err
                break
            lex_fail += [s + i for i in lbad]
            for i, e in errs.items():
                if e:
                    all_err[s + i] = e
            sigs += sg
        log("parse stream evaluated")
        kinds = {}
        for c in pcases:
            kinds[c["kind"]] = kinds.get(c["kind"], 0) + 1
        stats["parse_cases_by_stream"] = kinds

        def classify(codes):
            if 9 in codes:
                return "crash"
            if 2 in codes:
                return "spec"
            if 5 in codes or 6 in codes:
                return "generator"
            if 1 in codes:
                return "model"
            if 3 in codes:
                return "theorem"
            return "other"
        by = {}
        for i, e in sorted(all_err.items()):
            by.setdefault(classify(e), []).append(i)
        stats["parse_failures"] = {k: len(v) for k, v in by.items()}

        crash_groups = {}
        for i in by.get("crash", []):
            crash_groups.setdefault(crash_class(presults[i].get("panic")), []).append(i)
        stats["parse_crash_classes"] = {k: len(v) for k, v in crash_groups.items()}
        for cls, members in sorted(crash_groups.items()):
            # the shortest crashing text of the class, grammatical streams first
            members.sort(key=lambda i: (pcases[i]["kind"] not in ("edge", "canon", "decorated"), len(pcases[i].get("text", "x" * 10000))))
            i = members[0]
            c = pcases[i]
            text = c.get("text")
            if text is not None:
                def same_class(texts, cls=cls):
                    res, err = run_requests(sc, binary, [{"op": "parse", "text": b64(t)} for t in texts], "shrink")
                    if err:
                        return [False] * len(texts)
                    return [bool(r.get("panic")) and crash_class(r.get("panic")) == cls for r in res]
                text = shrink_text(sc, binary, re.sub(r"\s+", " ", text) if same_class([re.sub(r"\s+", " ", text)])[0] else text, same_class)
            out.violation("parse_crash_" + cls, {"op": "parse", "text": text, "text_b64": b64(text if text is not None else c["bytes"]),
                                                 "stream": c["kind"], "panic": presults[i].get("panic"),
                                                 "how": "feed to config_parser.Parse (harness op 'parse'): it panics instead of returning (sections, error)",
                                                 "crashing_texts_of_this_class_in_run": len(members)},
                          "config_parser.Parse crashes (%s) on this text instead of answering with sections or an error (%d texts of this class in this run)" % (cls, len(members)),
                          matchers=["C17/parse-panic/" + cls])
        if by.get("spec"):
            i = min(by["spec"], key=lambda j: len(pcases[j].get("text", "")))
            c = pcases[i]
            out.violation("parse_wrong", {"op": "parse", "text": c.get("text"), "stream": c["kind"], "codes": all_err[i],
                                          "how": "Parse(text) differs from the configuration the text spells (or rejects a well-formed text)"},
                          "parsed configuration differs from what is written (%d texts)" % len(by["spec"]), matchers=["C17/parse-wrong"])
        parse_model_fail = by.get("model", []) + by.get("theorem", []) + by.get("generator", []) + lex_fail
        stats["lexer_token_streams_compared"] = sum(1 for c in pcases if c["kind"] not in ("bytes", "canon"))
        stats["lexer_disagreements"] = len(lex_fail)

        log("parse stream classified and shrunk")
        # ---- merge stream
        nm = 40 if not thorough else 1000
        mcases = fixed_merge_cases() + [gen_merge_case(rng) for _ in range(nm)]
        merge_fail_spec, merge_fail_model = [], []
        msigs = []
        mres, err = run_requests(sc, binary, [merge_request(m) for m in mcases], "merge")
        if err:
            tie_broken = tie_broken or err
        else:
            terms = [merge_case_term(m, r, rng) for m, r in zip(mcases, mres)]
            per, msigs, err = eval_cases("C17_cases_merge", "mcase", terms, "check_mcase", "mcase_signature")
            if err:
                tie_broken = tie_broken or err
            else:
                for i, e in enumerate(per):
                    if 2 in e or 9 in e:
                        merge_fail_spec.append(i)
                    elif e:
                        merge_fail_model.append(i)
                stats["glob_answers_compared"] = sum(len(r.get("globs") or {}) for r in mres)
                stats["glob_answers_with_matches"] = sum(1 for r in mres for v in (r.get("globs") or {}).values() if v)
                stats["merge_trees_with_symlinks"] = sum(1 for m in mcases if any(n[0] == "l" for n in m["vt"].nodes.values()))
                stats["merge_ok"] = sum(1 for r in mres if r.get("ok"))
                stats["merge_err"] = sum(1 for r in mres if not r.get("ok") and not r.get("panic"))
                errkinds = {}
                for r in mres:
                    if r.get("err"):
                        k = ("circular" if "circular" in r["err"] else "suffix" if "must has suffix" in r["err"] else "scope" if "out of scope" in r["err"] else
                             "permissions" if "too open" in r["err"] else "parse" if "failed to parse" in r["err"] else "grammar" if "unsupported include" in r["err"] else "other")
                        errkinds[k] = errkinds.get(k, 0) + 1
                stats["merge_error_kinds"] = errkinds
                if merge_fail_spec:
                    i = merge_fail_spec[0]
                    req = merge_request(mcases[i])
                    for f in req["files"]:
                        if "text" in f:
                            f["text_plain"] = base64.b64decode(f["text"]).decode()
                    out.violation("merge", {"request": req, "result": mres[i], "codes": per[i],
                                            "how": "materialise the files (harness op 'merge'): merged sections/files read differ from parent-first, listed-order merging over usable files"},
                                  "include merging differs from the specified order / file discipline (%d trees)" % len(merge_fail_spec), matchers=["C17/merge"])

        log("merge stream done")
        # ---- build contract
        err = check_build_cases(sc, binary, out, stats)
        if err:
            tie_broken = tie_broken or err
        build_model_fail, bsigs = [], []
        if schema is not None:
            r, err = run_build_stream(sc, binary, rng, schema, 60 if not thorough else 1500, out, stats)
            if err:
                tie_broken = tie_broken or err
            else:
                build_model_fail, bsigs = r

        # ---- capacity and risky programs: child processes
        log("build contract done")
        cap_cases = gen_cap_cases(rng, limit, thorough)
        risky_cases = gen_compile_cases(rng, 50)
        for c in corpus:
            if c.get("kind") == "cap":
                cap_cases.insert(0, dict(c, text=cap_text(0, c["domains"], c["total"], dns=(c["stage"] == "dns"))))
            elif c.get("kind") == "risky":
                risky_cases.insert(0, {"kind": "risky", "stage": "routing", "snippet": c["snippet"],
                                       "text": "global {}\nrouting {\n%s\nfallback: direct\n}\n" % c["snippet"]})
        ccases = cap_cases + risky_cases

        def creq(c):
            return {"op": "compile", "text": b64(c["text"]), "stage": c["stage"]}
        cres = run_isolated(sc, binary, [creq(c) for c in cap_cases], "cap")
        cap2 = gen_cap2_cases(limit, thorough)
        c2res = run_isolated(sc, binary, [creq(c) for c in cap2], "cap2")
        cap2_model_fail = []
        c2terms = []
        for c, r in zip(cap2, c2res):
            cls = 2 if r.get("panic") else 0 if r.get("ok") else 1
            c["class"], c["err"] = cls, r.get("err", "")
            names = cls == 1 and ("exceeds the limit %d" % limit) in c["err"]
            c2terms.append("(Build_cap2_case %s %d %s)" % (c["term"], cls, vlib.cbool(names)))
        per2, c2sigs, err = eval_cases("C17_cases_cap2", "cap2_case", c2terms, "check_cap2", "cap2_signature")
        if err:
            tie_broken = tie_broken or err
            per2, c2sigs = [[] for _ in cap2], []
        stats["lowered_capacity_cases"] = [{"stage": c["dns_side"], "name": c["name"], "conditions": c["nconds"], "match_sets": c["nsets"], "impl": ["ok", "error", "crash"][c["class"]]} for c in cap2]
        for (c, r), e in zip(zip(cap2, c2res), per2):
            if 9 in e or 2 in e:
                what = ("crashes" if 9 in e else "is accepted" if c["class"] == 0 else "is answered with an error that does not name the limit" if c["nsets"] > limit else "is refused as oversized although within the limit")
                out.violation("capacity_lowered_" + c["dns_side"],
                              {"op": "compile", "stage": c["stage"], "program": c["dns_side"], "family": c["name"], "blocks": c["blocks"], "conditions": c["nconds"], "lowered_match_sets": c["nsets"],
                               "limit": limit, "text_b64": b64(c["text"]), "result": r, "codes": e,
                               "text_recipe": "one rule per repetition; d3 = domain/qname(suffix:, keyword:, full:), d2 = (suffix:, keyword:), d2rep = (suffix:, keyword:, suffix:), plain = port/qtype(n); outbounds alternate",
                               "how": "Parse -> config.New -> optimizers -> builder: a program is oversized when its LOWERED match sets (one per condition per distinct key, plus the fallback) exceed the limit"},
                              "a %s program of %d conditions lowering to %d match sets (limit %d) %s" % (c["dns_side"], c["nconds"], c["nsets"], limit, what),
                              matchers=["C17/capacity-lowered/%s/%s" % (c["dns_side"], c["name"])])
                break
        cap2_model_fail = [c["name"] for c, e in zip(cap2, per2) if e and not (9 in e or 2 in e)]
        log("capacity cases done")
        # risky programs: one batch; if the process dies, every case in its own child
        rres, rerr = run_requests(sc, binary, [creq(c) for c in risky_cases], "risky", timeout=300)
        if rerr is not None:
            rres = []
            for k, c in enumerate(risky_cases):
                r1, e1 = run_requests(sc, binary, [creq(c)], "risky%d" % k, timeout=120)
                rres.append(r1[0] if e1 is None else {"ok": False, "panic": "process died: " + e1[-600:], "stage": "process"})
        cres = cres + rres
        log("risky programs done")
        cap_terms, cap_idx = [], []
        crashes = []
        for i, (c, r) in enumerate(zip(ccases, cres)):
            cls = 2 if r.get("panic") else 0 if r.get("ok") else 1
            c["class"] = cls
            if c["kind"] == "cap":
                cap_idx.append(i)
                cap_terms.append("(Build_cap_case %d %s %d)" % (c["total"] + 1, clist([str(d) for d in c["domains"]]), cls))
            if cls == 2:
                crashes.append(i)
        stats["compile_classes"] = {"ok": sum(1 for c in ccases if c["class"] == 0), "err": sum(1 for c in ccases if c["class"] == 1), "crash": len(crashes)}
        cap_model_fail = []
        if cap_terms:
            per, _, err = eval_cases("C17_cases_cap", "cap_case", cap_terms, "check_cap", None)
            if err:
                tie_broken = tie_broken or err
            else:
                cap_model_fail = [cap_idx[j] for j, e in enumerate(per) if 1 in e or 3 in e]
                for j, e in enumerate(per):
                    if 2 in e:
                        c = ccases[cap_idx[j]]
                        out.violation("capacity_accepted_" + c["stage"],
                                      {"op": "compile", "stage": c["stage"], "total_rules": c["total"], "domain_rule_positions": c["domains"], "text_b64": b64(c["text"])},
                                      "a %s program of %d match sets (limit %d) is accepted instead of being refused with an error" % (c["stage"], c["total"] + 1, limit),
                                      matchers=["C17/capacity-accepted/" + c["stage"]])
                        break
        seen = set()
        for i in crashes:
            c, r = ccases[i], cres[i]
            if c["kind"] == "cap":
                # minimal: smallest total that still crashes among the generated ones
                key = "C17/capacity-panic/" + c["stage"]
                tag = "capacity_" + c["stage"]
                desc = ("a %s program of %d match sets with a domain set at index %d crashes the userspace builder (%s) instead of being refused with an error"
                        % (c["stage"], c["total"] + 1, c["domains"][0] if c["domains"] else -1, (r.get("panic") or "")[:120]))
                payload = {"op": "compile", "stage": c["stage"], "total_rules": c["total"], "domain_rule_positions": c["domains"],
                           "text_recipe": "global{} routing{ <total> single-function rules, alternating outbounds; the listed positions are domain(suffix: ...) rules; fallback: direct }",
                           "text_b64": b64(c["text"]), "panic": r.get("panic")}
            else:
                key = "C17/compile-panic/" + re.sub(r"[^a-z0-9]+", "-", c["snippet"].lower())[:40]
                tag = "compile_" + hashlib.sha1(c["snippet"].encode()).hexdigest()[:8]
                desc = "compiling the routing rule `%s` crashes (%s) instead of answering with an error" % (c["snippet"], (r.get("panic") or "")[:160])
                payload = {"op": "compile", "stage": c["stage"], "text": c["text"], "panic": r.get("panic"),
                           "how": "config_parser.Parse -> config.New -> NewRoutingMatcherBuilder -> BuildUserspace in a child process"}
            if key in seen:
                continue
            seen.add(key)
            out.violation(tag, payload, desc, matchers=[key])

        # ---- tie classification
        n_eval = len(pcases) + len(mcases) + len(ccases) + len(cap2) + len(BUILD_TEXTS) + stats.get("build_stream_cases", 0)
        model_fail_total = len(parse_model_fail) + len(merge_fail_model) + len(cap_model_fail) + len(build_model_fail) + len(cap2_model_fail)
        if (parse_model_fail or merge_fail_model or cap_model_fail or cap2_model_fail or build_model_fail or tie_broken or not proof_ok) and not out.violations:
            what = {}
            if not proof_ok:
                what["proof"] = pinfo["failed"]
            if tie_broken:
                what["correspondence"] = tie_broken
            if parse_model_fail:
                i = parse_model_fail[0]
                what["parse_case"] = {"text": pcases[i].get("text"), "stream": pcases[i]["kind"], "codes": all_err.get(i, ["lexer token stream differs"])}
            if merge_fail_model:
                what["merge_case"] = {"request": merge_request(mcases[merge_fail_model[0]])}
            if build_model_fail:
                what["build_case"] = build_model_fail[0]
            if cap2_model_fail:
                what["lowered_capacity_case"] = cap2_model_fail[0]
            if cap_model_fail:
                what["capacity_case"] = {k: ccases[cap_model_fail[0]][k] for k in ("stage", "total", "domains", "class")}
            what["searched"] = "%d cases with no impl<>spec disagreement" % n_eval
            out.violation("tie", what, "proof obligation or model correspondence no longer checks; no failing input found", no_failing_input=True)
        elif (parse_model_fail or merge_fail_model or cap_model_fail or tie_broken or not proof_ok):
            out.notes.append({"tie_also_broken": {"proof_ok": proof_ok, "tie": tie_broken, "parse_model_fail": len(parse_model_fail),
                                                  "merge_model_fail": len(merge_fail_model), "cap_model_fail": len(cap_model_fail)}})

        nontrivial = (len(set(s for s in sigs if s[0] == "0" and int(s[2]) > 0)) + len(set(s for s in msigs if s[0] == "0" and int(s[1]) > 1))
                      + len(set(s for s in bsigs if int(s[2]) > 2)))
        sample = next((c for c in pcases if c["kind"] == "decorated" and len(c["text"]) > 40), pcases[0])
        cov.update(evaluations=n_eval, distinct_nontrivial=nontrivial,
                   distinct_signatures=len(set(sigs)) + len(set(msigs)),
                   rule="parse: texts printed from random syntax trees (canonical = Spec.show, and decorated with random whitespace/comments), near-misses (token delete/duplicate/swap/replace), "
                        "grammatical texts the walker refuses (empty lists), raw grammar-alphabet strings, arbitrary bytes; signature = (model answer class, #tokens capped, production mask of the parsed tree); "
                        "merge: random directory trees (globs, nesting, cycles, diamonds, absolute/relative/.. paths, non-.dae, directories, permissions, broken files); signature = (class, #files read, #sections); "
                        "non-trivial = accepted parse with a non-empty production mask, accepted merge reading more than one file",
                   traces_validated_against_impl=n_eval - model_fail_total,
                   comparisons="lexer: ANTLR token stream (types, texts, error or not) = model token stream; parse: impl tree = model tree, impl = denote(ast), model = denote(ast), model(show ast) = denote(ast), python printer = Spec.show; "
                               "merge: impl = model (sections, files read), impl = spec tree merge, model = spec; capacity/compile: answer class, crash = violation; build: answer class + documented defaults",
                   exploration_only=["absence of crashes of the IMPLEMENTATION on malformed input (near/edge/raw/bytes streams; the model-level statement is C17_parse_never_crashes)", "risky routing programs in child processes"],
                   statistics=stats,
                   samples=[{"stream": sample["kind"], "text": sample["text"][:600]}])
    return out.finish()


if __name__ == "__main__":
    sys.exit(main(sys.argv[1:]))
