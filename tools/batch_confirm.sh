#!/bin/bash
# usage: batch_confirm.sh Cnn_k:Cnn ...   (confirms seeds in parallel, 4 at a time, prints a summary line each)
run_one() { IFS=: read sd p <<< "$1"; git -C /repo worktree remove --force /tmp/seed/$sd/wt 2>/dev/null; /verif/tools/confirm_seed.sh /tmp/seed/$sd $p > /tmp/confirm_$sd.log 2>&1; }
export -f run_one
printf "%s\n" "$@" | xargs -P 5 -I{} bash -c 'run_one {}'
for s in "$@"; do sd=${s%%:*}; echo "=== $sd: $(grep -c '^VIOLATION' /tmp/confirm_$sd.log) violation lines; $(grep 'clean demo rc\|patched demo rc\|build rc\|check rc\|APPLY' /tmp/confirm_$sd.log | tr '\n' ' ')"; grep '^VIOLATION' /tmp/confirm_$sd.log | sed 's#replay=/var/tmp/verif-alt-[0-9a-f]*/replays/##' | cut -c1-140 | head -4; done
