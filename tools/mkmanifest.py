#!/usr/bin/env python3
"""Assemble MANIFEST.json from manifest.d/*.json fragments (one per claimed property)."""
import json, os, subprocess
here = os.path.dirname(os.path.dirname(os.path.abspath(__file__)))
props = [json.loads(l) for l in open(os.path.join(here, "properties.jsonl"))]
frags = {}
for n in sorted(os.listdir(os.path.join(here, "manifest.d"))):
    if n.endswith(".json"):
        f = json.load(open(os.path.join(here, "manifest.d", n)))
        frags[f["property_id"]] = f
ready = set(open(os.path.join(here, "manifest.d", "READY")).read().split())
frags = {k: v for k, v in frags.items() if k in ready}
na_reasons = {}
p = os.path.join(here, "manifest.d", "not_applicable.txt")
if os.path.exists(p):
    for line in open(p):
        if line.strip() and not line.startswith("#"):
            k, v = line.strip().split(" ", 1)
            na_reasons[k] = v
commits = subprocess.run(["git", "-C", "/repo", "log", "--format=%H %s"], capture_output=True, text=True).stdout.splitlines()
hook_commits = [c.split()[0] for c in commits if c.split(" ", 1)[1].startswith("verif:")]
checks = []
for pr in props:
    pid = pr["id"]
    if pid in frags:
        f = frags[pid]
        c = {"property_id": pid,
             "quick_cmd": "./check %s --tier quick" % pid,
             "thorough_cmd": "./check %s --tier thorough" % pid,
             "evidence_file": "/verif/evidence/%s.json" % pid,
             "replay_cmd_template": "./check %s --replay {path}" % pid,
             "engine": "coq-proof+correspondence",
             "level_claimed": {"category": "proof", "text": f["level_text"], "design_ref": f.get("design_ref", "DESIGN.md section 6/" + pid)},
             "level_note": f["level_note"],
             "technique": f.get("technique", "machine-checked proof in Coq 8.16.1 over an executable model, tied to the code by differential correspondence (impl = model = spec on generated inputs)")}
        checks.append(c)
m = {"version": 1,
     "setup_cmd": "./setup.sh",
     "hooks": {"guard": "verif",
               "enable": "go test -c -tags 'dae_stub_ebpf verif' -overlay <harness overlay> ./control (the guard tag is always used with the repository's own dae_stub_ebpf tag; harness files are injected with -overlay and never written into /repo)",
               "baseline_off_cmd": "cd /repo && export PATH=/root/go/pkg/mod/golang.org/toolchain@v0.0.1-go1.26.0.linux-amd64/bin:$PATH GOFLAGS=-mod=mod GOPROXY=off GOTOOLCHAIN=local && go test -vet=off -count=1 ./...",
               "source_commits": hook_commits, "add_only": True},
     "engines": [{"name": "coq-proof+correspondence", "path": "/verif/check", "serves_properties": [c["property_id"] for c in checks],
                  "kind_free_text": "Coq 8.16.1 theorems over hand-written executable models (coq/), regenerated constants (coq/gen), Go/C harnesses run against /repo and compared with the model and the spec inside Coq by vm_compute"}],
     "checks": checks,
     "notes": "See DESIGN.md. known_findings.txt lists recorded genuine defects (open:) and repaired ones (fixed:).",
     "not_applicable": [{"property_id": pr["id"], "reason": na_reasons.get(pr["id"], "check not built yet (build in progress)")} for pr in props if pr["id"] not in frags]}
json.dump(m, open(os.path.join(here, "MANIFEST.json"), "w"), indent=1)
print("claimed:", [c["property_id"] for c in checks])
