#!/bin/bash
# usage: recheck_seeds.sh Cnn_k ...  -- re-run the property's quick check against each recorded seed (patched scratch worktree), 5 at a time
run_one() { sd=$1; p=${sd%%_*}; wt=/tmp/wt_re_$sd; git -C /repo worktree remove --force $wt >/dev/null 2>&1; git -C /repo worktree add --detach $wt HEAD -q || exit 2
  git -C $wt apply /verif/seeded/$sd/patch.diff || { echo "$sd PATCH DOES NOT APPLY"; exit 3; }
  cd /verif && VERIF_REPO=$wt timeout 2400 ./check $p --tier quick > /tmp/recheck_$sd.log 2>/tmp/recheck_$sd.err; echo "rc=$?" >> /tmp/recheck_$sd.log
  git -C /repo worktree remove --force $wt; }
export -f run_one
printf "%s\n" "$@" | xargs -P 5 -I{} bash -c 'run_one {}'
for sd in "$@"; do echo "=== $sd $(tail -n 1 /tmp/recheck_$sd.log)"; grep -a '^VIOLATION' /tmp/recheck_$sd.log | sed 's#replay=/var/tmp/verif-alt-[0-9a-f]*/replays/##' | cut -c1-160 | head -4; done
