#!/usr/bin/env python3
import subprocess,re
out=subprocess.run(['python3','/verif/tools/mkreport.py'],capture_output=True,text=True).stdout
t1,t2=out.split("\n\n",1)
p='/verif/DESIGN.md'
s=open(p).read()
s=re.sub(r"<!-- BEGIN GENERATED TABLES -->.*?<!-- END GENERATED TABLES -->",lambda m:"<!-- BEGIN GENERATED TABLES -->\n"+t1+"\n<!-- END GENERATED TABLES -->",s,flags=re.S)
s=re.sub(r"<!-- BEGIN SEED TABLE -->.*?<!-- END SEED TABLE -->",lambda m:"<!-- BEGIN SEED TABLE -->\n"+t2.strip()+"\n<!-- END SEED TABLE -->",s,flags=re.S)
open(p,'w').write(s)
