#!/usr/bin/env python3
import subprocess,re
out=subprocess.run(['python3','/verif/tools/mkreport.py'],capture_output=True,text=True).stdout
parts=out.split("\n\n")
t1="\n\n".join(parts[:-1]); t2=parts[-1]
p='/verif/DESIGN.md'
s=open(p).read()
s=re.sub(r"<!-- BEGIN GENERATED TABLES -->.*?<!-- END GENERATED TABLES -->",lambda m:"<!-- BEGIN GENERATED TABLES -->\n"+t1+"\n<!-- END GENERATED TABLES -->",s,flags=re.S)
s=re.sub(r"<!-- BEGIN SEED TABLE -->.*?<!-- END SEED TABLE -->",lambda m:"<!-- BEGIN SEED TABLE -->\n"+t2.strip()+"\n<!-- END SEED TABLE -->",s,flags=re.S)
open(p,'w').write(s)
