"""C20 — reload requests are serialised, answered, and never leave dae wedged (DESIGN.md 6/C20).

Pipeline: (1) the Go-AST path translator below (embedded Go program, stdlib only) enumerates the
control-flow paths of the reload worker closure and of the main loop's completion code in cmd/run.go and
writes coq/gen/C20_ReloadPaths.v; (2) proofs (C20_Props.v, which evaluates tables_ok on the regenerated
paths); (3) the Go harness drives the real functions of package cmd at call granularity on walks through
the extracted paths interleaved with signals, plus adversarial call sequences; the model and the spec
are evaluated on the same sequences in Coq; (4) classification; (5) evidence."""
import json
import os
import re
import sys

sys.path.insert(0, os.path.dirname(os.path.abspath(__file__)))
import vlib
from vlib import log

PID = "C20"
PROPS = "C20_Props.v"
GEN = "gen/C20_ReloadPaths.v"
BASE_TARGETS = ["gen/C20_ReloadPaths.vo", "C20_Check.vo"]
TARGETS = ["C20_Props.vo", "C20_Check.vo"]
HARNESS = ["cmd/common_test.go", "cmd/c20_test.go"]
EXPORT = ("component/outbound/dialer/zz_verif_c20_export.go", "dialer/c20_export.go")
M_DROPPED = "C20/signal-dropped-during-ready-wait"
M_OVERTAKEN = "C20/busy-report-overtaken-by-release"

GO_XLATE = r'''
// C20 path translator: enumerates the control-flow paths of the reload worker closure and of the
// main loop's completion code in cmd/run.go and abstracts each to its sequence of lock-relevant calls.
// Output: JSON on stdout.  Fails loudly ("anchor moved") when the expected shape is gone.
package main

import (
	"bytes"
	"encoding/json"
	"fmt"
	"go/ast"
	"go/parser"
	"go/printer"
	"go/token"
	"go/types"
	"os"
	"path/filepath"
	"regexp"
	"strconv"
	"strings"
)

type path struct {
	Effs   []string `json:"effs"`
	Term   string   `json:"term"` // "" (falls off the end), "continue", "exit", "return", "breaksw"
	Labels []string `json:"labels"`
}

var fset = token.NewFileSet()

func die(f string, a ...any) {
	fmt.Fprintf(os.Stderr, "anchor moved: "+f+"\n", a...)
	os.Exit(3)
}

func exprStr(e ast.Expr) string { return types.ExprString(e) }

var flagRe = regexp.MustCompile(`\b(reloadPending|reloadActive|reloading)\b`)

// classify one call; returns effect name ("" = irrelevant) and whether it terminates the process
func classify(c *ast.CallExpr) (string, bool) {
	fn := exprStr(c.Fun)
	args := make([]string, len(c.Args))
	for i, a := range c.Args {
		args[i] = exprStr(a)
	}
	boolArg := func() (string, bool) {
		if len(args) == 1 && (args[0] == "true" || args[0] == "false") {
			return args[0], true
		}
		return "", false
	}
	switch {
	case fn == "reloadManager.reloadActive.Store":
		if b, ok := boolArg(); ok {
			return "SetActive " + b, false
		}
		return "Unknown", false
	case fn == "reloadManager.reloading.Store":
		if b, ok := boolArg(); ok {
			return "SetReloading " + b, false
		}
		return "Unknown", false
	case fn == "reloadManager.reloadActive.Load" || fn == "reloadManager.reloading.Load" || fn == "reloadManager.reloadPending.Load":
		return "", false
	case fn == "clearReloadPending":
		if len(args) == 1 && args[0] == "&reloadManager.reloadPending" {
			return "ClearPending", false
		}
		return "Unknown", false
	case fn == "reloadManager.finishReloadSuccess":
		return "FinishOk", false
	case fn == "reloadManager.finishReloadFailure":
		return "FinishFail", false
	case fn == "setRunSignalProgress":
		if len(args) >= 1 && strings.HasPrefix(args[0], "consts.Reload") {
			return "Progress " + strings.TrimPrefix(args[0], "consts.Reload"), false
		}
		return "Unknown", false
	case fn == "reloadManager.coalesceReloadRequest":
		return "Coalesce", false
	case fn == "reloadManager.beginHandoff":
		return "BeginHandoff", false
	case fn == "beginReloadHandoff":
		if len(args) == 2 && args[0] == "&reloadManager.reloading" {
			return "BeginHandoff", false
		}
		return "Unknown", false
	case fn == "notifyRunStateChange":
		return "Notify", false
	case fn == "reloadManager.startControlPlaneRetirement":
		return "StartRetirement", false
	case fn == "reloadManager.clearPendingRetirement":
		return "ClearPendingRetirement", false
	case fn == "waitReloadReadyOrSignal":
		return "Other 1", false
	case fn == "reloadManager.setPendingStagedHandoff":
		return "Other 2", false
	case fn == "reloadManager.clearPendingStagedHandoff":
		return "Other 3", false
	case fn == "os.Exit" || strings.HasSuffix(fn, ".Fatalln") || strings.HasSuffix(fn, ".Fatalf") || strings.HasSuffix(fn, ".Fatal") || fn == "panic":
		return "Exit", true
	case fn == "reloadManager.queueReloadRequest" || fn == "tryQueueReloadRequest" ||
		fn == "reloadManager.takePendingRetirementDone" || fn == "releaseReloadPendingAfterRetirement" ||
		fn == "endReloadProxyFailureSuppression" || fn == "beginReloadProxyFailureSuppression":
		return "Unknown", false
	}
	// any other call that gets its hands on one of the three flags
	if flagRe.MatchString(fn) {
		return "Unknown", false
	}
	for _, a := range args {
		if flagRe.MatchString(a) && strings.Contains(a, "reloadManager") {
			return "Unknown", false
		}
	}
	return "", false
}

// effects of the calls inside an expression/simple statement, in source order, not entering closures
func nodeEffs(n ast.Node) (effs []string, fatal bool) {
	if n == nil {
		return nil, false
	}
	ast.Inspect(n, func(x ast.Node) bool {
		if fatal {
			return false
		}
		switch v := x.(type) {
		case *ast.FuncLit:
			return false
		case *ast.CallExpr:
			// arguments are evaluated before the call itself
			for _, a := range v.Args {
				e, f := nodeEffs(a)
				effs = append(effs, e...)
				fatal = fatal || f
			}
			if sel, ok := v.Fun.(*ast.SelectorExpr); ok {
				e, f := nodeEffs(sel.X)
				effs = append(effs, e...)
				fatal = fatal || f
			}
			if e, f := classify(v); e != "" {
				effs = append(effs, e)
				fatal = fatal || f
			}
			return false
		}
		return true
	})
	return
}

type walker struct {
	loopLabel string // label of the enclosing main loop ("" for the worker)
	isWorker  bool
}

func key(p path) string { return strings.Join(p.Effs, ";") + "|" + p.Term }

func dedup(ps []path) []path {
	seen := map[string]bool{}
	var out []path
	for _, p := range ps {
		k := key(p)
		if !seen[k] {
			seen[k] = true
			out = append(out, p)
		}
	}
	return out
}

func cat(p path, q path) path {
	r := path{Term: q.Term}
	r.Effs = append(append([]string{}, p.Effs...), q.Effs...)
	r.Labels = append(append([]string{}, p.Labels...), q.Labels...)
	return r
}

func (w *walker) block(list []ast.Stmt) []path {
	cur := []path{{}}
	var done []path
	for _, s := range list {
		var next []path
		sp := w.stmt(s)
		for _, p := range cur {
			for _, q := range sp {
				r := cat(p, q)
				if r.Term == "" {
					next = append(next, r)
				} else {
					done = append(done, r)
				}
			}
		}
		cur = dedup(next)
		done = dedup(done)
		if len(cur) == 0 {
			break
		}
	}
	return append(done, cur...)
}

func line(n ast.Node) string { return strconv.Itoa(fset.Position(n.Pos()).Line) }

func simple(n ast.Node) []path {
	e, fatal := nodeEffs(n)
	if fatal {
		return []path{{Effs: e, Term: "exit"}}
	}
	return []path{{Effs: e}}
}

func (w *walker) stmt(s ast.Stmt) []path {
	switch v := s.(type) {
	case nil:
		return []path{{}}
	case *ast.ExprStmt, *ast.AssignStmt, *ast.DeclStmt, *ast.IncDecStmt, *ast.SendStmt, *ast.EmptyStmt:
		return simple(v)
	case *ast.GoStmt:
		// the spawned goroutine is a different agent; its argument expressions are evaluated here
		var effs []string
		for _, a := range v.Call.Args {
			e, _ := nodeEffs(a)
			effs = append(effs, e...)
		}
		return []path{{Effs: effs}}
	case *ast.DeferStmt:
		e, _ := nodeEffs(v.Call)
		if len(e) > 0 {
			die("defer with lock-relevant call at line %s", line(v))
		}
		return []path{{}}
	case *ast.BlockStmt:
		return w.block(v.List)
	case *ast.LabeledStmt:
		return w.stmt(v.Stmt)
	case *ast.IfStmt:
		pre := []path{{}}
		if v.Init != nil {
			pre = w.stmt(v.Init)
		}
		ce, cf := nodeEffs(v.Cond)
		if cf {
			die("fatal call in condition at line %s", line(v))
		}
		var out []path
		thenP := w.block(v.Body.List)
		var elseP []path
		if v.Else != nil {
			elseP = w.stmt(v.Else)
		} else {
			elseP = []path{{}}
		}
		for _, p := range pre {
			if p.Term != "" {
				out = append(out, p)
				continue
			}
			base := cat(p, path{Effs: ce})
			for _, q := range thenP {
				r := cat(base, q)
				r.Labels = append([]string{"L" + line(v) + "+"}, r.Labels...)
				out = append(out, r)
			}
			for _, q := range elseP {
				r := cat(base, q)
				r.Labels = append([]string{"L" + line(v) + "-"}, r.Labels...)
				out = append(out, r)
			}
		}
		return dedup(out)
	case *ast.SwitchStmt, *ast.TypeSwitchStmt, *ast.SelectStmt:
		var body *ast.BlockStmt
		var pre []string
		hasDefault := false
		switch sw := v.(type) {
		case *ast.SwitchStmt:
			body = sw.Body
			if sw.Init != nil {
				e, _ := nodeEffs(sw.Init)
				pre = append(pre, e...)
			}
			e, _ := nodeEffs(sw.Tag)
			pre = append(pre, e...)
		case *ast.TypeSwitchStmt:
			body = sw.Body
		case *ast.SelectStmt:
			body = sw.Body
			hasDefault = true // a select without default blocks; it does not fall through
		}
		var out []path
		for i, cl := range body.List {
			var list []ast.Stmt
			switch c := cl.(type) {
			case *ast.CaseClause:
				list = c.Body
				if c.List == nil {
					hasDefault = true
				}
			case *ast.CommClause:
				list = c.Body
				if c.Comm != nil {
					list = append([]ast.Stmt{c.Comm}, list...)
				}
			}
			for _, q := range w.block(list) {
				r := cat(path{Effs: pre}, q)
				if r.Term == "breaksw" {
					r.Term = ""
				}
				r.Labels = append([]string{"L" + line(s) + "#" + strconv.Itoa(i)}, r.Labels...)
				out = append(out, r)
			}
		}
		if !hasDefault {
			out = append(out, path{Effs: pre, Labels: []string{"L" + line(s) + "#none"}})
		}
		return dedup(out)
	case *ast.BranchStmt:
		switch v.Tok {
		case token.CONTINUE:
			if v.Label == nil || v.Label.Name == w.loopLabel {
				return []path{{Term: "continue"}}
			}
		case token.BREAK:
			if v.Label == nil {
				return []path{{Term: "breaksw"}}
			}
			if v.Label.Name == w.loopLabel {
				return []path{{Term: "exit"}}
			}
		}
		die("unsupported branch statement at line %s", line(v))
	case *ast.ReturnStmt:
		return []path{{Term: "return"}}
	case *ast.ForStmt, *ast.RangeStmt:
		// a nested loop is accepted only when it is irrelevant to the lock
		irrelevant := true
		ast.Inspect(v, func(x ast.Node) bool {
			switch y := x.(type) {
			case *ast.CallExpr:
				if e, _ := classify(y); e != "" {
					irrelevant = false
				}
			case *ast.BranchStmt:
				if y.Label != nil {
					irrelevant = false
				}
			case *ast.ReturnStmt:
				irrelevant = false
			}
			return true
		})
		if !irrelevant {
			die("nested loop with lock-relevant content at line %s", line(v))
		}
		return []path{{}}
	}
	die("unsupported statement %T at line %s", s, line(s))
	return nil
}

// finalise: an unlabeled break directly in the loop body would leave the loop
func finish(ps []path, worker bool) []path {
	var out []path
	for _, p := range ps {
		switch p.Term {
		case "", "continue":
			p.Term = "continue"
		case "breaksw":
			// break out of the range loop (worker) / for-select (cannot happen: select consumes it)
			p.Term = "return"
		}
		if p.Term == "return" {
			if worker {
				// the worker goroutine would end: nobody serves the channel any more
				p.Effs = append(p.Effs, "Unknown")
			} else {
				p.Effs = append(p.Effs, "Exit")
			}
		}
		if p.Term == "exit" && (len(p.Effs) == 0 || p.Effs[len(p.Effs)-1] != "Exit") {
			p.Effs = append(p.Effs, "Exit")
		}
		out = append(out, p)
	}
	return dedup(out)
}

// straight-line effect list of a small function (for the cross-check of the hand-written expansions)
func fnCalls(fd *ast.FuncDecl) []string {
	var out []string
	ast.Inspect(fd.Body, func(x ast.Node) bool {
		if c, ok := x.(*ast.CallExpr); ok {
			out = append(out, exprStr(c.Fun)+"("+strings.Join(func() []string {
				a := make([]string, len(c.Args))
				for i, e := range c.Args {
					a[i] = exprStr(e)
				}
				return a
			}(), ",")+")")
		}
		return true
	})
	return out
}

// linearise: the statements of a goroutine body in EXECUTED order: the body without its top-level defer
// statements, followed by the deferred calls last-registered-first (valid because the body has no
// return statement and no nested defer; otherwise the shape is refused)
func lineariseDefers(body *ast.BlockStmt, where string) []ast.Stmt {
	var plain []ast.Stmt
	var deferred [][]ast.Stmt
	for _, st := range body.List {
		if ds, ok := st.(*ast.DeferStmt); ok {
			if fl, ok := ds.Call.Fun.(*ast.FuncLit); ok && len(ds.Call.Args) == 0 {
				deferred = append(deferred, fl.Body.List)
			} else {
				deferred = append(deferred, []ast.Stmt{&ast.ExprStmt{X: ds.Call}})
			}
			continue
		}
		plain = append(plain, st)
	}
	bad := false
	for _, st := range plain {
		ast.Inspect(st, func(x ast.Node) bool {
			switch x.(type) {
			case *ast.FuncLit:
				return false
			case *ast.ReturnStmt, *ast.DeferStmt:
				bad = true
			}
			return true
		})
	}
	if bad {
		die("%s: return or nested defer in a goroutine body with deferred calls", where)
	}
	out := plain
	for i := len(deferred) - 1; i >= 0; i-- {
		out = append(out, deferred[i]...)
	}
	return out
}

func tailKind(st ast.Stmt) string {
	kind := ""
	ast.Inspect(st, func(x ast.Node) bool {
		if _, ok := x.(*ast.FuncLit); ok {
			return false
		}
		if c, ok := x.(*ast.CallExpr); ok {
			switch exprStr(c.Fun) {
			case "retireControlPlaneConnections":
				kind = "drain"
			case "oldCancel":
				kind = "TCancel"
			case "oldControlPlane.Close":
				kind = "TCloseGen"
			case "successor.RunReloadRetirementCleanup":
				kind = "TCleanup"
			case "close":
				if len(c.Args) == 1 && exprStr(c.Args[0]) == "done" {
					kind = "TCloseDone"
				}
			}
		}
		return true
	})
	return kind
}

// retTail: what the retirement goroutine does after the drain, in executed order
func retTail(fd *ast.FuncDecl) []string {
	var fl *ast.FuncLit
	ast.Inspect(fd.Body, func(x ast.Node) bool {
		if g, ok := x.(*ast.GoStmt); ok {
			if f, ok := g.Call.Fun.(*ast.FuncLit); ok {
				if fl != nil {
					die("startControlPlaneRetirement: more than one goroutine")
				}
				fl = f
			}
			return false
		}
		return true
	})
	if fl == nil {
		die("startControlPlaneRetirement: retirement goroutine not found")
	}
	tail := []string{}
	seenDrain := false
	for _, st := range lineariseDefers(fl.Body, "startControlPlaneRetirement") {
		k := tailKind(st)
		switch {
		case k == "drain":
			if seenDrain {
				die("startControlPlaneRetirement: retireControlPlaneConnections called twice")
			}
			seenDrain = true
		case k != "" && !seenDrain:
			die("startControlPlaneRetirement: %s before the connections are drained", k)
		case k != "":
			tail = append(tail, k)
		}
	}
	if !seenDrain {
		die("startControlPlaneRetirement: retireControlPlaneConnections not called in the goroutine")
	}
	return tail
}

func bodyText(fd *ast.FuncDecl) string {
	var b bytes.Buffer
	_ = printer.Fprint(&b, token.NewFileSet(), fd.Body)
	return strings.Join(strings.Fields(b.String()), " ")
}

// drainGuard: under which condition on maxWait the timeout case of waitForControlPlaneDrain can fire
// stagingShape: how writeSignalProgressBytesFile (cmd/reload.go) names its staging file
func stagingShape(repo string) string {
	rf, err := parser.ParseFile(fset, filepath.Join(repo, "cmd", "reload.go"), nil, 0)
	if err != nil {
		die("parse cmd/reload.go: %v", err)
	}
	shape := ""
	for _, d := range rf.Decls {
		fd, ok := d.(*ast.FuncDecl)
		if !ok || fd.Recv != nil || fd.Name.Name != "writeSignalProgressBytesFile" {
			continue
		}
		shape = "SUnknown"
		renames := 0
		ast.Inspect(fd.Body, func(x ast.Node) bool {
			if c, ok := x.(*ast.CallExpr); ok {
				switch exprStr(c.Fun) {
				case "os.CreateTemp", "ioutil.TempFile":
					if len(c.Args) == 2 && strings.Contains(exprStr(c.Args[1]), "*") {
						shape = "SUnique"
					} else {
						shape = "SShared"
					}
				case "os.OpenFile", "os.Create":
					shape = "SShared"
				case "os.Rename":
					renames++
				}
			}
			return true
		})
		if renames != 1 {
			shape = "SUnknown"
		}
	}
	if shape == "" {
		die("function writeSignalProgressBytesFile not found in cmd/reload.go")
	}
	return shape
}

// readyDeadline: where waitReloadReadyOrSignal evaluates its timer expression relative to its loop
func readyDeadline(fd *ast.FuncDecl) string {
	var loop *ast.ForStmt
	for _, st := range fd.Body.List {
		if f, ok := st.(*ast.ForStmt); ok {
			if loop != nil {
				return "RNone"
			}
			loop = f
		}
	}
	if loop == nil {
		return "RNone"
	}
	hasTimeout := false
	ast.Inspect(loop, func(x ast.Node) bool {
		if cc, ok := x.(*ast.CommClause); ok {
			for _, st := range cc.Body {
				if rs, ok := st.(*ast.ReturnStmt); ok && len(rs.Results) >= 1 && exprStr(rs.Results[0]) == "reloadReadyWaitTimeout" {
					hasTimeout = true
				}
			}
		}
		return true
	})
	if !hasTimeout {
		return "RNone"
	}
	before, inside := 0, 0
	ast.Inspect(fd.Body, func(x ast.Node) bool {
		if c, ok := x.(*ast.CallExpr); ok {
			switch exprStr(c.Fun) {
			case "time.NewTimer", "time.After", "time.AfterFunc", "time.Tick", "time.NewTicker":
				if c.Pos() >= loop.Pos() && c.End() <= loop.End() {
					inside++
				} else if c.Pos() < loop.Pos() {
					before++
				}
			}
		}
		return true
	})
	switch {
	case inside > 0:
		return "RRearmed"
	case before == 1:
		return "RFixed"
	}
	return "RNone"
}

func drainGuard(fd *ast.FuncDecl) string {
	// the select clause that returns controlPlaneDrainTimeout
	recv := ""
	ast.Inspect(fd.Body, func(x ast.Node) bool {
		cc, ok := x.(*ast.CommClause)
		if !ok || cc.Comm == nil {
			return true
		}
		es, ok := cc.Comm.(*ast.ExprStmt)
		if !ok {
			return true
		}
		ue, ok := es.X.(*ast.UnaryExpr)
		if !ok || ue.Op != token.ARROW {
			return true
		}
		for _, st := range cc.Body {
			if rs, ok := st.(*ast.ReturnStmt); ok && len(rs.Results) == 1 && exprStr(rs.Results[0]) == "controlPlaneDrainTimeout" {
				recv = exprStr(ue.X)
			}
		}
		return true
	})
	if recv == "" {
		return "GNever"
	}
	// condition guarding a statement: walk with a stack of enclosing if-conditions
	var find func(list []ast.Stmt, conds []string, match func(ast.Stmt) bool) ([]string, bool)
	find = func(list []ast.Stmt, conds []string, match func(ast.Stmt) bool) ([]string, bool) {
		for _, st := range list {
			if match(st) {
				return conds, true
			}
			if ifs, ok := st.(*ast.IfStmt); ok && ifs.Else == nil && ifs.Init == nil {
				if c, ok := find(ifs.Body.List, append(append([]string{}, conds...), exprStr(ifs.Cond)), match); ok {
					return c, true
				}
			}
		}
		return nil, false
	}
	isNewTimer := func(st ast.Stmt) bool {
		as, ok := st.(*ast.AssignStmt)
		return ok && len(as.Lhs) == 1 && len(as.Rhs) == 1 && exprStr(as.Lhs[0]) == "timer" && exprStr(as.Rhs[0]) == "time.NewTimer(maxWait)"
	}
	conds, ok := find(fd.Body.List, nil, isNewTimer)
	if !ok {
		return "GNever"
	}
	if recv != "timer.C" {
		// an intermediate channel variable: it must be assigned timer.C under the same conditions
		c2, ok2 := find(fd.Body.List, nil, func(st ast.Stmt) bool {
			as, ok := st.(*ast.AssignStmt)
			return ok && len(as.Lhs) == 1 && len(as.Rhs) == 1 && exprStr(as.Lhs[0]) == recv && exprStr(as.Rhs[0]) == "timer.C"
		})
		if !ok2 || strings.Join(c2, "&") != strings.Join(conds, "&") {
			return "GNever"
		}
	}
	switch strings.Join(conds, "&") {
	case "":
		return "GAlways"
	case "maxWait >= 0":
		return "GNonNeg"
	case "maxWait > 0":
		return "GPositive"
	}
	return "GNever"
}

func main() {
	repo := os.Args[1]
	runGo := filepath.Join(repo, "cmd", "run.go")
	f, err := parser.ParseFile(fset, runGo, nil, 0)
	if err != nil {
		die("parse %s: %v", runGo, err)
	}
	var runFn *ast.FuncDecl
	fns := map[string]*ast.FuncDecl{}
	for _, d := range f.Decls {
		if fd, ok := d.(*ast.FuncDecl); ok {
			if fd.Name.Name == "Run" && fd.Recv != nil {
				runFn = fd
			}
			if fd.Recv == nil {
				fns[fd.Name.Name] = fd
			}
		}
	}
	if runFn == nil {
		die("method Run not found in cmd/run.go")
	}
	// worker: go func() { for req := range reloadManager.reloadReqs { ... } }()
	var workerBody *ast.BlockStmt
	var mainThen *ast.BlockStmt
	var mainElse ast.Stmt
	mainLabel := ""
	chanCap := -1
	ast.Inspect(runFn.Body, func(x ast.Node) bool {
		switch v := x.(type) {
		case *ast.GoStmt:
			if fl, ok := v.Call.Fun.(*ast.FuncLit); ok && len(fl.Body.List) == 1 {
				if rs, ok := fl.Body.List[0].(*ast.RangeStmt); ok && exprStr(rs.X) == "reloadManager.reloadReqs" {
					if workerBody != nil {
						die("two reload workers")
					}
					workerBody = rs.Body
				}
			}
		case *ast.AssignStmt:
			if len(v.Lhs) == 1 && exprStr(v.Lhs[0]) == "reloadReqs" {
				if c, ok := v.Rhs[0].(*ast.CallExpr); ok && exprStr(c.Fun) == "make" && len(c.Args) == 2 && exprStr(c.Args[0]) == "chan reloadRequest" {
					n, err := strconv.Atoi(exprStr(c.Args[1]))
					if err == nil {
						chanCap = n
					}
				}
			}
		case *ast.LabeledStmt:
			if fs, ok := v.Stmt.(*ast.ForStmt); ok && fs.Cond == nil && len(fs.Body.List) == 1 {
				if sel, ok := fs.Body.List[0].(*ast.SelectStmt); ok {
					for _, cl := range sel.Body.List {
						cc := cl.(*ast.CommClause)
						if cc.Comm == nil {
							continue
						}
						if es, ok := cc.Comm.(*ast.ExprStmt); ok && exprStr(es.X) == "<-runStateChanges" {
							if len(cc.Body) != 1 {
								die("runStateChanges case body is not a single if statement")
							}
							ifs, ok := cc.Body[0].(*ast.IfStmt)
							if !ok || exprStr(ifs.Cond) != "reloadManager.reloading.Load()" {
								die("runStateChanges case does not start with `if reloadManager.reloading.Load()`")
							}
							mainThen = ifs.Body
							mainElse = ifs.Else
							mainLabel = v.Label.Name
						}
					}
				}
			}
		}
		return true
	})
	if workerBody == nil {
		die("reload worker closure (for req := range reloadManager.reloadReqs) not found")
	}
	if mainThen == nil {
		die("main loop `case <-runStateChanges` not found")
	}
	if chanCap < 0 {
		die("reloadReqs := make(chan reloadRequest, N) not found")
	}
	// the worker must be the only receiver statement on the channel besides coalesce; the first
	// statement must publish reloadActive
	ww := &walker{isWorker: true}
	wp := finish(ww.block(workerBody.List), true)
	mw := &walker{loopLabel: mainLabel}
	mp := finish(mw.block(mainThen.List), false)
	// the branch taken when reloading is not set must not touch the lock
	var idle []path
	if mainElse != nil {
		idle = finish(mw.stmt(mainElse), false)
	}
	// signals handled by the main loop: which signal queues what
	res := map[string]any{
		"worker": wp, "main": mp, "main_idle": idle, "cap": chanCap,
		"worker_line": fset.Position(workerBody.Pos()).Line, "main_line": fset.Position(mainThen.Pos()).Line,
	}
	// helper functions whose expansion the model writes by hand
	helper := map[string][]string{}
	for _, n := range []string{"clearReloadPending", "beginReloadHandoff", "releaseReloadPendingAfterRetirement", "tryQueueReloadRequest", "restoreRejectedReloadProgress", "clearRejectedReloadProgress", "notifyRunStateChange"} {
		fd := fns[n]
		if fd == nil {
			die("function %s not found in cmd/run.go", n)
		}
		helper[n] = fnCalls(fd)
	}
	mf, err := parser.ParseFile(fset, filepath.Join(repo, "cmd", "reload_manager.go"), nil, 0)
	if err != nil {
		die("parse reload_manager.go: %v", err)
	}
	for _, d := range mf.Decls {
		if fd, ok := d.(*ast.FuncDecl); ok && fd.Recv != nil {
			switch fd.Name.Name {
			case "finishReloadFailure", "finishReloadSuccess", "beginHandoff", "queueReloadRequest", "takePendingRetirementDone", "clearPendingRetirement":
				helper["reloadManager."+fd.Name.Name] = fnCalls(fd)
			}
		}
	}
	res["helpers"] = helper
	bodies := map[string]string{}
	for _, n := range []string{"remainingReloadRetirementBudget", "retireControlPlaneConnections", "waitForControlPlaneDrain"} {
		fd := fns[n]
		if fd == nil {
			die("function %s not found in cmd/run.go", n)
		}
		bodies[n] = bodyText(fd)
	}
	for _, d := range mf.Decls {
		if fd, ok := d.(*ast.FuncDecl); ok && fd.Recv != nil && fd.Name.Name == "startControlPlaneRetirement" {
			bodies["reloadManager.startControlPlaneRetirement"] = bodyText(fd)
			res["ret_tail"] = retTail(fd)
		}
	}
	res["bodies"] = bodies
	res["timer_guard"] = drainGuard(fns["waitForControlPlaneDrain"])
	if fns["waitReloadReadyOrSignal"] == nil {
		die("function waitReloadReadyOrSignal not found in cmd/run.go")
	}
	res["ready_deadline"] = readyDeadline(fns["waitReloadReadyOrSignal"])
	res["staging"] = stagingShape(repo)
	// constants
	consts := map[string]string{}
	grab := func(file string, names ...string) {
		cf, err := parser.ParseFile(fset, filepath.Join(repo, file), nil, 0)
		if err != nil {
			die("parse %s: %v", file, err)
		}
		for _, d := range cf.Decls {
			gd, ok := d.(*ast.GenDecl)
			if !ok || gd.Tok != token.CONST {
				continue
			}
			for i, sp := range gd.Specs {
				vs := sp.(*ast.ValueSpec)
				for j, nm := range vs.Names {
					for _, want := range names {
						if nm.Name == want {
							if j < len(vs.Values) {
								consts[want] = exprStr(vs.Values[j])
							} else {
								consts[want] = "iota:" + strconv.Itoa(i)
							}
						}
					}
				}
			}
		}
	}
	grab("common/consts/reload.go", "ReloadSend", "ReloadProcessing", "ReloadDone", "ReloadError", "ReloadBusy")
	grab("component/outbound/dialer/sticky_cache.go", "reloadFailureQuiesce")
	grab("component/outbound/dialer/connectivity_check.go", "Timeout")
	grab("cmd/run.go", "reloadBusyActiveMessage", "reloadBusyRetiringMessage", "reloadReadyTimeout", "reloadTotalSwitchBudget")
	res["consts"] = consts
	enc := json.NewEncoder(os.Stdout)
	enc.SetIndent("", " ")
	_ = enc.Encode(res)
}
'''


GO_INSTR = r'''
// C20 yield instrumenter: copies cmd/run.go and component/outbound/dialer/sticky_cache.go with a
// yield call inserted before every statement of the functions whose atomic operations the reload
// lock consists of.  The code itself is not changed.  Output files are written to the directory
// given as second argument; a JSON description of the inserted points goes to stdout.
package main

import (
	"bytes"
	"encoding/json"
	"fmt"
	"go/ast"
	"go/parser"
	"go/printer"
	"go/token"
	"go/types"
	"os"
	"path/filepath"
	"sort"
	"strings"
)

type point struct {
	Fn    string `json:"fn"`
	Label string `json:"label"`
	Line  int    `json:"line"`
}

var fset = token.NewFileSet()
var points []point

func die(f string, a ...any) {
	fmt.Fprintf(os.Stderr, "anchor moved: "+f+"\n", a...)
	os.Exit(3)
}

// functions that are called as one step (their inside is not instrumented)
var fused = map[string]bool{"restoreRejectedReloadProgress": true, "clearRejectedReloadProgress": true,
	"setRunSignalProgress": true, "getRunSignalProgress": true}
var inner = map[string]bool{"clearReloadPending": true, "beginReloadProxyFailureSuppression": true,
	"endReloadProxyFailureSuppression": true, "releaseReloadPendingAfterRetirement": true}

// atomic operations in the part of a statement that is executed before any nested block
func label(n ast.Node) string {
	set := map[string]bool{}
	ast.Inspect(n, func(x ast.Node) bool {
		switch v := x.(type) {
		case *ast.FuncLit, *ast.BlockStmt:
			return false
		case *ast.UnaryExpr:
			if v.Op == token.ARROW {
				set["recv"] = true
			}
		case *ast.SendStmt:
			set["send"] = true
		case *ast.CallExpr:
			fn := types.ExprString(v.Fun)
			if i := strings.LastIndex(fn, "."); i >= 0 {
				switch fn[i+1:] {
				case "CompareAndSwap":
					set["cas"] = true
				case "Load":
					set["load"] = true
				case "Store":
					set["store"] = true
				case "Add":
					set["add"] = true
				case "Swap":
					set["swap"] = true
				}
			}
			switch fn {
			case "os.CreateTemp", "os.OpenFile", "os.Create":
				set["fs:create"] = true
			case "tmpFile.Write":
				set["fs:write"] = true
			case "os.Rename":
				set["fs:rename"] = true
			case "os.Remove":
				set["fs:remove"] = true
			case "retireControlPlaneConnections":
				set["tail:drain"] = true
			case "oldCancel":
				set["tail:cancel"] = true
			case "oldControlPlane.Close":
				set["tail:close"] = true
			case "successor.RunReloadRetirementCleanup":
				set["tail:cleanup"] = true
			case "close":
				set["tail:closedone"] = true
			}
			if fused[fn] {
				set["call:"+fn] = true
			}
			if inner[fn] {
				set["into:"+fn] = true
			}
		}
		return true
	})
	var ks []string
	for k := range set {
		ks = append(ks, k)
	}
	sort.Strings(ks)
	return strings.Join(ks, ",")
}

func headLabel(s ast.Stmt) string {
	switch v := s.(type) {
	case *ast.IfStmt:
		l := ""
		if v.Init != nil {
			l = label(v.Init)
		}
		if c := label(v.Cond); c != "" {
			if l != "" {
				l += ","
			}
			l += c
		}
		return l
	case *ast.ForStmt:
		return ""
	case *ast.SelectStmt:
		// the communication clauses are evaluated by the select itself
		set := []string{"select"}
		for _, cl := range v.Body.List {
			if cc := cl.(*ast.CommClause); cc.Comm != nil {
				if l := label(cc.Comm); l != "" {
					set = append(set, l)
				}
			}
		}
		return strings.Join(set, ",")
	case *ast.GoStmt:
		return "go"
	case *ast.BlockStmt, *ast.SwitchStmt, *ast.LabeledStmt:
		return ""
	case *ast.ReturnStmt:
		return label(v)
	default:
		return label(v)
	}
}

func yieldCall(hook, fn, lab string) ast.Stmt {
	return &ast.ExprStmt{X: &ast.CallExpr{Fun: ast.NewIdent(hook),
		Args: []ast.Expr{&ast.BasicLit{Kind: token.STRING, Value: fmt.Sprintf("%q", fn)}, &ast.BasicLit{Kind: token.STRING, Value: fmt.Sprintf("%q", lab)}}}}
}

func instrBlock(hook, fn string, b *ast.BlockStmt) {
	b.List = instrList(hook, fn, b.List)
}

func instrList(hook, fn string, list []ast.Stmt) []ast.Stmt {
	var out []ast.Stmt
	for _, s := range list {
		lab := headLabel(s)
		points = append(points, point{Fn: fn, Label: lab, Line: fset.Position(s.Pos()).Line})
		out = append(out, yieldCall(hook, fn, lab))
		instrStmt(hook, fn, s)
		out = append(out, s)
	}
	return out
}

func instrStmt(hook, fn string, s ast.Stmt) {
	switch v := s.(type) {
	case *ast.BlockStmt:
		instrBlock(hook, fn, v)
	case *ast.IfStmt:
		instrBlock(hook, fn, v.Body)
		if v.Else != nil {
			if eb, ok := v.Else.(*ast.BlockStmt); ok {
				instrBlock(hook, fn, eb)
			} else {
				// else if: wrap so that the condition gets its own yield
				nb := &ast.BlockStmt{List: []ast.Stmt{v.Else}}
				instrBlock(hook, fn, nb)
				v.Else = nb
			}
		}
	case *ast.ForStmt:
		instrBlock(hook, fn, v.Body)
	case *ast.RangeStmt:
		instrBlock(hook, fn, v.Body)
	case *ast.SelectStmt:
		for _, cl := range v.Body.List {
			cc := cl.(*ast.CommClause)
			cc.Body = instrList(hook, fn, cc.Body)
		}
	case *ast.SwitchStmt:
		for _, cl := range v.Body.List {
			cc := cl.(*ast.CaseClause)
			cc.Body = instrList(hook, fn, cc.Body)
		}
	case *ast.LabeledStmt:
		instrStmt(hook, fn, v.Stmt)
	case *ast.GoStmt:
		if fl, ok := v.Call.Fun.(*ast.FuncLit); ok {
			sub := fn + ".go"
			// deferred calls are put where they are executed: after the body, last registered first
			fl.Body.List = lineariseDefers(fl.Body, fn)
			instrBlock(hook, sub, fl.Body)
			// the new goroutine announces itself before anything else
			exit := &ast.DeferStmt{Call: yieldCall(hook, sub, "exit").(*ast.ExprStmt).X.(*ast.CallExpr)}
			fl.Body.List = append([]ast.Stmt{yieldCall(hook, sub, "spawned"), exit}, fl.Body.List...)
		} else {
			die("go statement without function literal in %s", fn)
		}
	case *ast.DeferStmt:
		// a deferred closure runs in the same goroutine: its statements get their yields too
		if fl, ok := v.Call.Fun.(*ast.FuncLit); ok {
			instrBlock(hook, fn, fl.Body)
		} else {
			die("defer of a plain call in %s", fn)
		}
	}
}

func lineariseDefers(body *ast.BlockStmt, where string) []ast.Stmt {
	var plain []ast.Stmt
	var deferred [][]ast.Stmt
	for _, st := range body.List {
		if ds, ok := st.(*ast.DeferStmt); ok {
			if fl, ok := ds.Call.Fun.(*ast.FuncLit); ok && len(ds.Call.Args) == 0 {
				deferred = append(deferred, fl.Body.List)
			} else {
				deferred = append(deferred, []ast.Stmt{&ast.ExprStmt{X: ds.Call}})
			}
			continue
		}
		plain = append(plain, st)
	}
	if len(deferred) == 0 {
		return body.List
	}
	bad := false
	for _, st := range plain {
		ast.Inspect(st, func(x ast.Node) bool {
			switch x.(type) {
			case *ast.FuncLit:
				return false
			case *ast.ReturnStmt, *ast.DeferStmt:
				bad = true
			}
			return true
		})
	}
	if bad {
		die("%s: return or nested defer in a goroutine body with deferred calls", where)
	}
	out := plain
	for i := len(deferred) - 1; i >= 0; i-- {
		out = append(out, deferred[i]...)
	}
	return out
}

// clock seam: inside the named functions every timer constructor of package time goes through a
// counting wrapper of the harness (same behaviour, one more observable: how often a timeout is armed)
var seamFuncs = map[string]bool{"waitReloadReadyOrSignal": true}
var seams = 0

func clockSeam(fd *ast.FuncDecl) {
	ast.Inspect(fd.Body, func(x ast.Node) bool {
		if c, ok := x.(*ast.CallExpr); ok {
			switch types.ExprString(c.Fun) {
			case "time.NewTimer":
				c.Fun = ast.NewIdent("verifC20NewTimer")
				seams++
			case "time.After":
				c.Fun = ast.NewIdent("verifC20After")
				seams++
			}
		}
		return true
	})
}

func instrument(path, hook string, want []string, outPath string) {
	f, err := parser.ParseFile(fset, path, nil, parser.ParseComments)
	if err != nil {
		die("parse %s: %v", path, err)
	}
	found := map[string]bool{}
	for _, d := range f.Decls {
		fd, ok := d.(*ast.FuncDecl)
		if !ok || fd.Body == nil {
			continue
		}
		if seamFuncs[fd.Name.Name] && fd.Recv == nil {
			clockSeam(fd)
		}
		for _, w := range want {
			if fd.Name.Name == w {
				found[w] = true
				instrBlock(hook, w, fd.Body)
			}
		}
	}
	for _, w := range want {
		if !found[w] {
			die("function %s not found in %s", w, path)
		}
	}
	var b bytes.Buffer
	if err := printer.Fprint(&b, fset, f); err != nil {
		die("print: %v", err)
	}
	if err := os.WriteFile(outPath, b.Bytes(), 0644); err != nil {
		die("write: %v", err)
	}
}

func main() {
	repo, out := os.Args[1], os.Args[2]
	instrument(filepath.Join(repo, "cmd", "run.go"), "verifC20Yield",
		[]string{"tryQueueReloadRequest", "clearReloadPending", "releaseReloadPendingAfterRetirement"}, filepath.Join(out, "run_instrumented.go"))
	instrument(filepath.Join(repo, "component", "outbound", "dialer", "sticky_cache.go"), "VerifC20Yield",
		[]string{"BeginReloadProxyFailureSuppression", "EndReloadProxyFailureSuppression"}, filepath.Join(out, "sticky_cache_instrumented.go"))
	instrument(filepath.Join(repo, "cmd", "reload_manager.go"), "verifC20Yield",
		[]string{"startControlPlaneRetirement"}, filepath.Join(out, "reload_manager_instrumented.go"))
	instrument(filepath.Join(repo, "cmd", "reload.go"), "verifC20Yield",
		[]string{"writeSignalProgressBytesFile"}, filepath.Join(out, "reload_instrumented.go"))
	if seams == 0 {
		die("waitReloadReadyOrSignal: no time.NewTimer/time.After call to put the clock seam on")
	}
	_ = json.NewEncoder(os.Stdout).Encode(points)
}
'''


# (function, label) of every yield point on the unchanged tree: a different list means the atomic-step
# mapping below (micro_actions) has to be re-read
EXPECTED_POINTS = [
    ("tryQueueReloadRequest", "cas"), ("tryQueueReloadRequest", ""), ("tryQueueReloadRequest", ""),
    ("tryQueueReloadRequest", "call:restoreRejectedReloadProgress"), ("tryQueueReloadRequest", ""),
    ("tryQueueReloadRequest", "into:beginReloadProxyFailureSuppression"), ("tryQueueReloadRequest", "select,send"),
    ("tryQueueReloadRequest", ""), ("tryQueueReloadRequest", ""), ("tryQueueReloadRequest", "store"),
    ("tryQueueReloadRequest", "into:endReloadProxyFailureSuppression"), ("tryQueueReloadRequest", ""), ("tryQueueReloadRequest", ""),
    ("tryQueueReloadRequest", "call:restoreRejectedReloadProgress"), ("tryQueueReloadRequest", ""),
    ("clearReloadPending", ""), ("clearReloadPending", "store"), ("clearReloadPending", "into:endReloadProxyFailureSuppression"),
    ("clearReloadPending", "call:clearRejectedReloadProgress"),
    ("releaseReloadPendingAfterRetirement", ""), ("releaseReloadPendingAfterRetirement", "into:endReloadProxyFailureSuppression"),
    ("releaseReloadPendingAfterRetirement", ""), ("releaseReloadPendingAfterRetirement", ""),
    ("releaseReloadPendingAfterRetirement", "into:clearReloadPending"), ("releaseReloadPendingAfterRetirement", ""),
    ("releaseReloadPendingAfterRetirement", "go"), ("releaseReloadPendingAfterRetirement.go", "recv"),
    ("releaseReloadPendingAfterRetirement.go", "into:clearReloadPending"),
    ("BeginReloadProxyFailureSuppression", "add"),
    ("EndReloadProxyFailureSuppression", ""), ("EndReloadProxyFailureSuppression", "load"), ("EndReloadProxyFailureSuppression", ""),
    ("EndReloadProxyFailureSuppression", ""), ("EndReloadProxyFailureSuppression", "cas"), ("EndReloadProxyFailureSuppression", ""),
    ("EndReloadProxyFailureSuppression", "add,store"), ("EndReloadProxyFailureSuppression", ""),
] + [("startControlPlaneRetirement", "")] * 16 + [("startControlPlaneRetirement", "go")] + [("startControlPlaneRetirement.go", x) for x in (
    "", "tail:drain", "", "tail:cancel", "tail:close", "", "", "tail:cleanup", "", "", "tail:closedone")]


# labelled statements of writeSignalProgressBytesFile in source order (the deferred remove is written first)
EXPECTED_FS_LABELS = ["fs:create", "fs:remove", "fs:write", "fs:rename"]


def instrument(sc):
    """build-time overlay: copies of cmd/run.go and dialer/sticky_cache.go with a yield call before every
    statement of the lock's functions (nothing is written into the repository).  Returns (overlay, points)."""
    dd = sc.path("instr")
    os.makedirs(os.path.join(dd, "out"), exist_ok=True)
    with open(os.path.join(dd, "main.go"), "w") as f:
        f.write(GO_INSTR)
    with open(os.path.join(dd, "go.mod"), "w") as f:
        f.write("module c20instr\ngo 1.22\n")
    rc, so, se, dt = vlib.run(["go", "build", "-o", "instr", "."], cwd=dd, env=vlib.go_env(), timeout=300)
    if rc != 0:
        raise AnchorMoved("instrumenter does not build: " + (so + se)[-800:])
    rc, so, se, dt = vlib.run([os.path.join(dd, "instr"), vlib.REPO, os.path.join(dd, "out")], cwd=dd, timeout=60)
    if rc != 0:
        raise AnchorMoved((se or so).strip()[-800:])
    points = [(p["fn"], p["label"]) for p in json.loads(so)]
    overlay = {os.path.join(vlib.REPO, "cmd", "run.go"): os.path.join(dd, "out", "run_instrumented.go"),
               os.path.join(vlib.REPO, "component", "outbound", "dialer", "sticky_cache.go"): os.path.join(dd, "out", "sticky_cache_instrumented.go"),
               os.path.join(vlib.REPO, "cmd", "reload_manager.go"): os.path.join(dd, "out", "reload_manager_instrumented.go"),
               os.path.join(vlib.REPO, "cmd", "reload.go"): os.path.join(dd, "out", "reload_instrumented.go")}
    return overlay, points


# ------------------------------------------------------------------------------------------------
# atomic-step schedules
# ------------------------------------------------------------------------------------------------
HOLDERS = [
    [{"op": "T"}, {"op": "A", "b": True}, {"op": "A", "b": False}, {"op": "K"}],
    [{"op": "T"}, {"op": "A", "b": True}, {"op": "F"}],
    [{"op": "T"}, {"op": "A", "b": True}, {"op": "RD"}, {"op": "H"}, {"op": "O"}],
    [{"op": "T"}, {"op": "A", "b": True}, {"op": "X"}, {"op": "H"}, {"op": "O"}],
    # a successful reload with the REAL retirement goroutine (startControlPlaneRetirement on an empty old generation)
    [{"op": "T"}, {"op": "A", "b": True}, {"op": "X"}, {"op": "H"}, {"op": "RS"}, {"op": "L", "b": False}, {"op": "O"}],
]


def micro_threads(nsig, holder, rng):
    return [{"kind": "sig", "b": rng.random() < 0.4} for _ in range(nsig)] + [{"kind": "holder", "ops": holder}]


def gen_micro_adversarial(rng):
    """the schedules a proof attempt stumbles over first"""
    out = []
    for hi, holder in enumerate(HOLDERS):
        h = 2   # index of the holder thread with two signal threads
        rel = "clearReloadPending/store"
        th = micro_threads(2, holder, rng)
        # two signals interleaved around the CompareAndSwap, statement by statement
        out.append({"threads": th, "steps": [{"t": i % 2} for i in range(40)], "drain": True, "name": "lockstep-signals"})
        out.append({"threads": th, "steps": [{"t": 0, "until": "cas"}, {"t": 1, "until": "cas"}, {"t": 0}, {"t": 1}], "drain": True, "name": "both-at-cas"})
        out.append({"threads": th, "steps": [{"t": 1, "until": "cas"}, {"t": 0, "until": "done"}, {"t": 1, "until": "done"}], "drain": True, "name": "late-cas"})
        # a refusal racing clearReloadPending: CAS fails just before the Store(false), report lands after
        out.append({"threads": th, "steps": [{"t": 0, "until": "done"}, {"t": h, "until": rel}, {"t": 1, "until": "cas"}, {"t": 1},
                                            {"t": h, "until": "done"}, {"t": 3, "until": "done"}, {"t": 1, "until": "done"}], "drain": True, "name": "refusal-races-release"})
        # ... and just after it: the second request is accepted while the first one's End is still to come
        for where in ("EndReloadProxyFailureSuppression/load", "EndReloadProxyFailureSuppression/cas", "clearReloadPending/call:clear"):
            out.append({"threads": th, "steps": [{"t": 0, "until": "done"}, {"t": h, "until": where}, {"t": 1, "until": "done"},
                                                {"t": h, "until": "done"}], "drain": True, "name": "end-races-begin@" + where.split("/")[1]})
            out.append({"threads": th, "steps": [{"t": 0, "until": "done"}, {"t": h, "until": where}, {"t": 1, "until": "add"}, {"t": h},
                                                {"t": 1}, {"t": h, "until": "done"}], "drain": True, "name": "end-step-begin-step@" + where.split("/")[1]})
        # three signals, lockstep
        th3 = micro_threads(3, holder, rng)
        out.append({"threads": th3, "steps": [{"t": i % 3} for i in range(60)], "drain": True, "name": "lockstep-3"})
        out.append({"threads": th3, "steps": [{"t": i % 4} for i in range(160)], "drain": True, "name": "lockstep-all"})
    # the previous generation is still being torn down: the retirement goroutine is parked just before a
    # statement of its tail (before oldCancel, before Close(), before the cleanup, before close(done)), the
    # release goroutine gets its chance, request #2 is fired: it must be refused as busy; then the
    # retirement finishes, the release runs, request #3 is accepted
    th = micro_threads(3, HOLDERS[4], rng)
    h, ret, rel = 3, 4, 5
    for where in ("tail:cancel", "tail:close", "tail:cleanup", "tail:closedone"):
        out.append({"threads": th, "steps": [{"t": 0, "until": "done"}, {"t": h, "until": "done"}, {"t": ret, "until": where},
                                            {"t": rel, "until": "done"}, {"t": 1, "until": "done"}, {"t": ret, "until": "done"},
                                            {"t": rel, "until": "done"}, {"t": 2, "until": "done"}], "drain": True, "name": "teardown-gap@" + where.split(":")[1]})
        out.append({"threads": th, "steps": [{"t": 0, "until": "done"}, {"t": h, "until": "done"}, {"t": ret, "until": where}, {"t": ret},
                                            {"t": rel, "until": "done"}, {"t": 1, "until": "done"}, {"t": ret, "until": "done"},
                                            {"t": rel, "until": "done"}, {"t": 2, "until": "done"}], "drain": True, "name": "teardown-gap-after@" + where.split(":")[1]})
    out.append({"threads": th, "steps": [{"t": i % 6} for i in range(240)], "drain": True, "name": "lockstep-teardown"})
    return out


def gen_micro_writers(rng):
    """two or three goroutines in the real writeSignalProgressBytesFile on the same progress file"""
    out = []
    for n in (2, 3):
        th = [{"kind": "writer"} for _ in range(n)]
        out.append({"threads": th, "steps": [{"t": i % n} for i in range(30 * n)], "drain": True, "name": "writers-lockstep"})
        out.append({"threads": th, "steps": [{"t": 0, "until": "fs:write"}, {"t": 1, "until": "fs:write"}, {"t": 0, "until": "fs:rename"}, {"t": 1, "until": "fs:rename"},
                                            {"t": 0, "until": "done"}, {"t": 1, "until": "done"}], "drain": True, "name": "writers-create-create-write-write"})
        out.append({"threads": th, "steps": [{"t": 0, "until": "fs:rename"}, {"t": 1, "until": "done"}, {"t": 0, "until": "done"}], "drain": True, "name": "writers-remove-under-rename"})
    for _ in range(24):
        n = rng.choice([2, 3])
        out.append({"threads": [{"kind": "writer"} for _ in range(n)], "steps": [{"t": rng.randrange(n)} for _ in range(rng.choice([10, 25, 50]))],
                    "drain": True, "name": "writers-random"})
    return out


def run_writers(sc, binary, cases, tag, d, scale=1):
    inp, outp = sc.path("c20w_%s.in" % tag), sc.path("c20w_%s.out" % tag)
    with open(inp, "w") as f:
        for c in cases:
            f.write(json.dumps({"threads": c["threads"], "steps": c["steps"], "drain": c["drain"]}) + "\n")
    rc, so, se, dt = vlib.run_go_harness(binary, "TestVerifC20Micro", inp, outp, timeout=1800, extra_env={"VERIF_C20_SCALE": str(scale)})
    if rc != 0:
        return None, None, "writer harness failed rc=%d: %s %s" % (rc, so[-1500:], se[-1500:])
    results = [json.loads(l) for l in open(outp)]
    pre, terms, idx = {}, [], []
    for i, (c, r) in enumerate(zip(cases, results)):
        if r.get("panic"):
            pre[i] = [(0, 9, "panic: " + r["panic"])]
            continue
        if r.get("note"):
            pre[i] = [(len(r.get("recs") or []), 8, r["note"])]
            continue
        steps = []
        for rec in r.get("recs") or []:
            fs = any(x.startswith("fs:") for x in rec["label"].split(","))
            steps.append("(%d, %d%%N)" % (rec["t"] if fs else 1000, rec["obs"].get("file", 0)))
        rets = r.get("rets") or []
        terms.append("check_pw %s %d [%s] %s" % (d["staging"], len(c["threads"]), "; ".join(steps), vlib.cbool(all(x == 0 for x in rets))))
        idx.append(i)
    text = ("From Coq Require Import List NArith ZArith Bool.\nFrom Dae Require Import C20_Spec C20_Model C20_Check.\nImport ListNotations.\n"
            "Definition R := Eval vm_compute in [\n" + ";\n".join(terms) + "\n].\nPrint R.\n")
    ok, outtxt = vlib.coq_eval("C20_writers_%s" % tag, text, timeout=3600)
    if not ok:
        return None, None, "coq evaluation of the writer cases failed: " + outtxt[-2000:]
    m = re.search(r"R\s*=\s*(.*?)\n\s*:\s*list", outtxt, re.S)
    body = re.sub(r"\s+", "", m.group(1)).replace("%N", "")
    per = re.findall(r"\[((?:\(\d+,\d+\);?)*)\]", body[1:-1])
    if len(per) != len(idx):
        return None, None, "cannot parse coq output of the writer cases (%d vs %d)" % (len(per), len(idx))
    errors = {}
    for i, pp in zip(idx, per):
        e = [(int(x), int(y), "") for x, y in re.findall(r"\((\d+),(\d+)\)", pp)]
        if e:
            errors[i] = e
    errors.update(pre)
    return errors, results, None


def gen_micro_random(rng):
    nsig = rng.choice([2, 2, 3])
    holder = rng.choice(HOLDERS)
    th = micro_threads(nsig, holder, rng)
    steps = []
    for _ in range(rng.choice([30, 60, 120])):
        r = rng.random()
        if r < 0.04:
            steps.append({"is_close": True, "close": 0})
        elif r < 0.12:
            steps.append({"t": rng.randrange(nsig + 3), "n": rng.choice([2, 3, 5])})
        else:
            steps.append({"t": rng.randrange(nsig + 3)})
    return {"threads": th, "steps": steps, "drain": rng.random() < 0.9, "name": "random"}


HOLDER_EFF = {"K": "EClearPending", "F": "EFinishFail", "O": "EFinishOk", "H": "EBeginHandoff", "X": "EClearPendingRetirement", "RD": "EStartRetirement",
              "RS": "EStartRetirement"}


def micro_actions(rec, prev, kind, own, tail=("TCancel", "TCloseGen", "TCleanup", "TCloseDone")):
    """the model actions one micro-step amounts to (the statement executed is the one after the yield
    the goroutine was parked at: function rec['fn'], atomic operations rec['label'])"""
    fn, lab = rec["fn"], [x for x in rec["label"].split(",") if x]
    if rec["t"] == -1:
        # a harness-made retirement: drain, the tail up to and including close(done), in one go
        n = 1 + (list(tail).index("TCloseDone") + 1 if "TCloseDone" in tail else len(tail))
        return ["ARetire %d" % rec.get("close", 0)] * n
    if fn == "startControlPlaneRetirement.go":
        return [own] if any(x.startswith("tail:") for x in lab) else []
    if fn == "EndReloadProxyFailureSuppression":
        if "load" in lab and prev["supp"] <= 0:
            return [own]
        if "cas" in lab and rec["obs"]["supp"] == prev["supp"] - 1:
            return [own]
        return []
    if fn == "BeginReloadProxyFailureSuppression":
        return [own] if "add" in lab else []
    if fn == "tryQueueReloadRequest":
        if any(x in lab for x in ("cas", "select", "send", "store", "swap")) or any(x.startswith("call:restoreRejected") for x in lab):
            return [own]
        return []
    if fn == "clearReloadPending":
        if "store" in lab or any(x.startswith("call:clearRejected") for x in lab):
            return [own]
        return []
    if fn == "releaseReloadPendingAfterRetirement.go":
        return [own] if "recv" in lab else []
    if fn == "op":
        k = rec["label"]
        return {"T": ["AWorkerTake 0"], "K": [], "F": ["AWorker"] * 2, "O": ["AWorker"] * 3}.get(k, ["AWorker"])
    return []


def mobs_coq(o):
    if o["code"] not in ("Send", "Processing", "Done", "Error", "Busy") or not 0 <= o["supp"] <= 4000:
        raise ValueError("observation outside the model's vocabulary: %r" % o)
    return "(Build_mobs %s %s %s %d %d C%s Msg%s %s %s)" % (vlib.cbool(o["pending"]), vlib.cbool(o["active"]), vlib.cbool(o["reloading"]),
                                                              o["supp"], o["qlen"], o["code"], o["msg"], vlib.cbool(o.get("done0")), vlib.cbool(o.get("genclosed0")))


def run_micro(sc, binary, cases, tag, d, scale=1):
    """returns ({case index: [(step, code, note)]}, results, error)"""
    inp, outp = sc.path("c20m_%s.in" % tag), sc.path("c20m_%s.out" % tag)
    with open(inp, "w") as f:
        for c in cases:
            f.write(json.dumps({"threads": c["threads"], "steps": c["steps"], "drain": c["drain"]}) + "\n")
    rc, so, se, dt = vlib.run_go_harness(binary, "TestVerifC20Micro", inp, outp, timeout=1800, extra_env={"VERIF_C20_SCALE": str(scale)})
    if rc != 0:
        return None, None, "micro harness failed rc=%d: %s %s" % (rc, so[-1500:], se[-1500:])
    results = [json.loads(l) for l in open(outp)]
    if len(results) != len(cases):
        return None, None, "micro harness returned %d results for %d cases" % (len(results), len(cases))
    pre, terms, idx = {}, [], []
    init = {"pending": False, "active": False, "reloading": False, "supp": 0, "qlen": 0, "code": "Done", "msg": "None", "done0": False, "genclosed0": False}
    for i, (c, r) in enumerate(zip(cases, results)):
        if r.get("panic"):
            pre[i] = [(0, 9, "panic: " + r["panic"])]
            continue
        if r.get("note"):
            pre[i] = [(len(r.get("recs") or []), 8, r["note"])]
            continue
        kinds = r.get("kinds") or []
        sig_ix, rel_ix, ret_ix = {}, {}, {}
        for t, k in enumerate(kinds):
            if k == "sig":
                sig_ix[t] = len(sig_ix)
            elif k == "releaser":
                rel_ix[t] = len(rel_ix)
            elif k == "retirer":
                ret_ix[t] = len(ret_ix)
        holder = next(t["ops"] for t in c["threads"] if t["kind"] == "holder")
        effs = []
        for op in holder:
            if op["op"] == "T":
                continue
            effs.append({"A": "ESetActive %s" % vlib.cbool(op.get("b")), "L": "ESetReloading %s" % vlib.cbool(op.get("b"))}.get(op["op"]) or HOLDER_EFF[op["op"]])
        setup = ["ASignal %s" % vlib.cbool(t.get("b")) for t in c["threads"] if t["kind"] == "sig"]
        prev = init
        steps = []
        try:
            for rec in r.get("recs") or []:
                t = rec["t"]
                kind = kinds[t] if 0 <= t < len(kinds) else "sched"
                own = {"sig": "ASig %d" % sig_ix.get(t, 0), "holder": "AWorker", "releaser": "AReleaser %d" % rel_ix.get(t, 0),
                       "retirer": "ARetire %d" % ret_ix.get(t, 0)}.get(kind, "")
                acts = micro_actions(rec, prev, kind, own, d["ret_tail"])
                steps.append("(Build_micro_step %d [%s] %s)" % (1000 if t < 0 else t, "; ".join(acts), mobs_coq(rec["obs"])))
                prev = rec["obs"]
        except ValueError as e:
            pre[i] = [(0, 6, str(e))]
            continue
        rets = r.get("rets") or []
        res = ["(%d, %d%%N)" % (t, {1: 1, 0: 0}.get(rets[t], 2)) for t in sig_ix]
        quiescent = all(x >= 0 for x in rets)
        terms.append("(Build_micro_case (Build_tables [[%s]] [] %d %s%%N GAlways %s%%Z [%s]) [%s] [%s] [%s] %s [%s])" % (
            "; ".join(effs), d["cap"], hex(d["quiesce_ns"]), hex(d["budget_total_ns"]), "; ".join(d["ret_tail"]), "; ".join(setup), ";\n ".join(steps),
            "; ".join(res), vlib.cbool(quiescent), "; ".join(str(t) for t in rel_ix)))
        idx.append(i)
    text = ("From Coq Require Import List NArith ZArith Bool.\nFrom Dae Require Import C20_Spec C20_Model C20_Check.\nImport ListNotations.\n"
            "Definition cases : list micro_case := [\n" + ";\n".join(terms) + "\n].\n"
            "Definition R := Eval vm_compute in map check_micro cases.\nPrint R.\n")
    ok, outtxt = vlib.coq_eval("C20_micro_%s" % tag, text, timeout=3600)
    if not ok:
        return None, None, "coq evaluation of the atomic-step cases failed: " + outtxt[-2000:]
    m = re.search(r"R\s*=\s*(.*?)\n\s*:\s*list", outtxt, re.S)
    body = re.sub(r"\s+", "", m.group(1)).replace("%N", "")
    per = re.findall(r"\[((?:\(\d+,\d+\);?)*)\]", body[1:-1])
    if len(per) != len(idx):
        return None, None, "cannot parse coq output of the atomic-step cases (%d vs %d)" % (len(per), len(idx))
    errors = {}
    for i, pp in zip(idx, per):
        e = [(int(a), int(b), "") for a, b in re.findall(r"\((\d+),(\d+)\)", pp)]
        if e:
            errors[i] = e
    errors.update(pre)
    return errors, results, None


class AnchorMoved(Exception):
    pass


# shape of the small functions whose expansion the model writes by hand (C20_Model.expand_eff,
# sig_step, exec_prim); a change here means the hand model must be re-read
EXPECTED_HELPERS = {
    "clearReloadPending": ["flag.Store(false)", "endReloadProxyFailureSuppression()", "clearRejectedReloadProgress()"],
    "beginReloadHandoff": ["reloading.Store(true)", "notifyRunStateChange(runStateChanges)"],
    "clearRejectedReloadProgress": ["getRunSignalProgress()", 'setRunSignalProgress(consts.ReloadDone,"")'],
    "releaseReloadPendingAfterRetirement": ["endReloadProxyFailureSuppression()", "clearReloadPending(flag)", "(func() literal)()", "clearReloadPending(flag)"],
    "reloadManager.beginHandoff": ["beginReloadHandoff(&m.reloading,m.runStateChanges)"],
    "reloadManager.finishReloadFailure": ["m.reloading.Store(false)", "m.reloadActive.Store(false)", "clearReloadPending(&m.reloadPending)"],
    "reloadManager.finishReloadSuccess": ["m.reloading.Store(false)", "m.reloadActive.Store(false)",
                                          "releaseReloadPendingAfterRetirement(&m.reloadPending,m.takePendingRetirementDone())", "m.takePendingRetirementDone()"],
    "reloadManager.queueReloadRequest": ["tryQueueReloadRequest(log,m.reloadReqs,&m.reloadActive,&m.reloadPending,req)"],
    "restoreRejectedReloadProgress": ["reloadActive.Load()", "setRunSignalProgress(consts.ReloadBusy,reloadBusyActiveMessage)",
                                      "setRunSignalProgress(consts.ReloadBusy,reloadBusyRetiringMessage)"],
    "tryQueueReloadRequest": ["reloadPending.CompareAndSwap(false,true)", "restoreRejectedReloadProgress(reloadActive,false)",
                              "beginReloadProxyFailureSuppression()", "reloadPending.Store(false)", "endReloadProxyFailureSuppression()",
                              "restoreRejectedReloadProgress(reloadActive,true)"],
}


def _nolit(t):
    return re.sub(r'"[^"]*"', '""', t)


# whitespace-normalised bodies (string literals blanked) of the retirement code the model writes by hand
# (C20_Model.remaining_budget, ret_step, PStartRetirement)
EXPECTED_BODIES = {
    "remainingReloadRetirementBudget": '{ if budget <= 0 { return 0 } if startedAt.IsZero() { return budget } remaining := budget - time.Since(startedAt) if remaining < 0 { return 0 } return remaining }',
    "retireControlPlaneConnections": _nolit('{ switch { case abort: log.Warnln("") _ = c.AbortConnections() case !hasOverlap: log.Infoln("") _ = c.AbortConnections() default: switch waitForControlPlaneDrain(log, ctx, c, maxDrain, controlPlaneRetirementLogEvery) { case controlPlaneDrainIdle: log.Infoln("") case controlPlaneDrainCanceled: log.Warnln("") _ = c.AbortConnections() case controlPlaneDrainTimeout: log.WithField("", c.ActiveSessionCount()).Warnln("") _ = c.AbortConnections() } } }'),
    "reloadManager.startControlPlaneRetirement": _nolit('{ if m == nil || oldControlPlane == nil { return } m.lastRetirementMu.Lock() if m.lastRetirementCancel != nil { m.lastRetirementCancel() } retireCtx, retireCancel := context.WithCancel(context.Background()) m.lastRetirementCancel = retireCancel m.lastRetirementMu.Unlock() if log != nil { log.Warnln("") } retirementDone := make(chan struct{}) m.mu.Lock() m.pendingRetirementDone = retirementDone drainBudget := remainingReloadRetirementBudget(m.pendingReloadRequestedAt, reloadTotalSwitchBudget) staleBeforeNs := m.pendingReloadRequestedAtMono m.mu.Unlock() go func(done chan struct{}) { defer close(done) oldControlPlane.MarkRetired() retireControlPlaneConnections(log, retireCtx, oldControlPlane, abortConnections, hasOverlap, drainBudget) if oldCancel != nil { oldCancel() } if closeErr := oldControlPlane.Close(); closeErr != nil && log != nil { log.WithError(closeErr).Warnln("") } if successor != nil { successor.RunReloadRetirementCleanup(staleBeforeNs) } if log != nil { log.Warnln("") } }(retirementDone) }'),
}


def translate(sc):
    """run the Go translator on vlib.REPO; returns its JSON"""
    d = sc.path("xlate")
    os.makedirs(d, exist_ok=True)
    with open(os.path.join(d, "main.go"), "w") as f:
        f.write(GO_XLATE)
    with open(os.path.join(d, "go.mod"), "w") as f:
        f.write("module c20xlate\ngo 1.22\n")
    rc, so, se, dt = vlib.run(["go", "build", "-o", "xlate", "."], cwd=d, env=vlib.go_env(), timeout=300)
    if rc != 0:
        raise AnchorMoved("translator does not build: " + (so + se)[-800:])
    rc, so, se, dt = vlib.run([os.path.join(d, "xlate"), vlib.REPO], cwd=d, timeout=60)
    if rc != 0:
        raise AnchorMoved((se or so).strip()[-800:])
    return json.loads(so)


def eval_duration(expr, env):
    e = expr
    for k, v in env.items():
        e = re.sub(r"\b%s\b" % re.escape(k), "(%d)" % v, e)
    e = e.replace("time.Second", "1000000000").replace("time.Millisecond", "1000000").replace("time.Minute", "60000000000")
    if not re.fullmatch(r"[0-9+*() ]+", e):
        raise AnchorMoved("cannot evaluate duration expression: " + expr)
    return int(eval(e, {"__builtins__": {}}))


def eff_coq(e):
    k = e.split()
    if k[0] in ("SetActive", "SetReloading"):
        return "E%s %s" % (k[0], k[1])
    if k[0] == "Progress":
        if k[1] not in ("Send", "Processing", "Done", "Error", "Busy"):
            raise AnchorMoved("unknown progress code consts.Reload" + k[1])
        return "EProgress C" + k[1]
    if k[0] == "Other":
        return "EOther %s" % k[1]
    if k[0] == "Unknown":
        return "EUnknownFlagOp"
    return "E" + k[0]


def gen_text(d):
    c = d["consts"]
    if c.get("ReloadSend") != "'0' + iota":
        raise AnchorMoved("consts.ReloadSend is no longer '0' + iota: %r" % c.get("ReloadSend"))
    codes = {"ReloadSend": 48}
    for i, n in enumerate(["ReloadProcessing", "ReloadDone", "ReloadError", "ReloadBusy"], 1):
        if c.get(n) != "iota:%d" % i:
            raise AnchorMoved("consts.%s moved in the iota block: %r" % (n, c.get(n)))
        codes[n] = 48 + i
    timeout = eval_duration(c["Timeout"], {})
    quiesce = eval_duration(c["reloadFailureQuiesce"], {"Timeout": timeout})
    d["quiesce_ns"] = quiesce
    d["budget_total_ns"] = eval_duration(c["reloadTotalSwitchBudget"], {})
    if not isinstance(d.get("ret_tail"), list) or any(x not in ("TCancel", "TCloseGen", "TCleanup", "TCloseDone") for x in d["ret_tail"]):
        raise AnchorMoved("startControlPlaneRetirement: tail of the retirement goroutine not understood: %r" % d.get("ret_tail"))
    if d.get("staging") not in ("SUnique", "SShared", "SUnknown"):
        raise AnchorMoved("writeSignalProgressBytesFile: staging file shape not understood: %r" % d.get("staging"))
    if d.get("ready_deadline") not in ("RFixed", "RRearmed", "RNone"):
        raise AnchorMoved("waitReloadReadyOrSignal: timer shape not understood: %r" % d.get("ready_deadline"))
    if d.get("timer_guard") not in ("GAlways", "GNonNeg", "GPositive", "GNever"):
        raise AnchorMoved("waitForControlPlaneDrain: timer shape not understood: %r" % d.get("timer_guard"))
    # cmd/reload.go: the client sends its signal only when the progress file says Done or Error
    # (C20_Model.client_would_send)
    src = open(os.path.join(vlib.REPO, "cmd", "reload.go")).read()
    if not re.search(r"if err == nil && code != consts\.ReloadDone && code != consts\.ReloadError \{", src):
        raise AnchorMoved("cmd/reload.go: client gate `err == nil && code != consts.ReloadDone && code != consts.ReloadError` not found")
    d["codes"] = [codes[n] for n in ["ReloadSend", "ReloadProcessing", "ReloadDone", "ReloadError", "ReloadBusy"]]

    def paths(ps):
        rows = []
        for i, p in enumerate(ps):
            rows.append("  (* %d: %s *)\n  [%s]" % (i, " ".join(p["labels"] or []), "; ".join(eff_coq(e) for e in p["effs"])))
        return "[\n" + ";\n".join(rows) + "\n]"
    t = ["(* GENERATED by tools/c20.py from cmd/run.go, common/consts/reload.go and",
         "   component/outbound/dialer/sticky_cache.go on every run.  Do not edit.",
         "   Worker closure body at cmd/run.go line %d; completion code at line %d.  Branch labels: Lnnn+ / Lnnn- =" % (d["worker_line"], d["main_line"]),
         "   then/else of the `if` at that line, Lnnn#k = k-th clause of the switch/select at that line. *)",
         "From Coq Require Import List NArith ZArith Bool.", "From Dae Require Import C20_Model.", "Import ListNotations.", "",
         "Definition gen_worker_paths : list (list eff) := " + paths(d["worker"]) + ".", "",
         "Definition gen_main_paths : list (list eff) := " + paths(d["main"]) + ".", "",
         "Definition gen_cap : nat := %d." % d["cap"],
         "Definition gen_quiesce : N := %s%%N." % hex(quiesce),
         "Definition gen_codes : list N := [%s]%%N." % "; ".join(str(x) for x in d["codes"]),
         "(* waitForControlPlaneDrain: condition on maxWait under which `return controlPlaneDrainTimeout` can be reached *)",
         "Definition gen_timer_guard : guard := %s." % d["timer_guard"],
         "Definition gen_budget_total : Z := %s%%Z.  (* reloadTotalSwitchBudget, ns *)" % hex(d["budget_total_ns"]),
         "(* cmd/reload_manager.go startControlPlaneRetirement: the goroutine after the drain, deferred calls in executed order *)",
         "Definition gen_ret_tail : list tail_step := [%s]." % "; ".join(d["ret_tail"]),
         "(* cmd/run.go waitReloadReadyOrSignal: timer created before the `for` (RFixed) or timer/After evaluated inside it (RRearmed) *)",
         "Definition gen_ready_deadline : ready_deadline := %s." % d["ready_deadline"],
         "(* cmd/reload.go writeSignalProgressBytesFile: os.CreateTemp with a pattern (SUnique) or one fixed staging name (SShared) *)",
         "Definition gen_staging : staging := %s." % d["staging"],
         "Definition gen_tables : tables := Build_tables gen_worker_paths gen_main_paths gen_cap gen_quiesce gen_timer_guard gen_budget_total gen_ret_tail.", ""]
    return "\n".join(t)


def helper_mismatches(d):
    bad = []
    for k, exp in EXPECTED_HELPERS.items():
        got = [x for x in (d["helpers"].get(k) or []) if not x.startswith("log.")]
        if got != exp:
            bad.append({"function": k, "expected_calls": exp, "found_calls": got})
    for k, exp in EXPECTED_BODIES.items():
        got = _nolit((d.get("bodies") or {}).get(k) or "")
        if k == "reloadManager.startControlPlaneRetirement":
            # the goroutine's tail is extracted structurally (gen_ret_tail); the shape check covers the rest
            got, exp = got.split(" go func(")[0], exp.split(" go func(")[0]
        if got != exp:
            bad.append({"function": k, "expected_body": exp, "found_body": got})
    for p in d.get("main_idle") or []:
        if any(e != "Exit" for e in p["effs"]):
            bad.append({"function": "main loop, branch taken when reloading is not set", "found_calls": p["effs"], "expected_calls": []})
    return bad


# ------------------------------------------------------------------------------------------------
# case generation
# ------------------------------------------------------------------------------------------------
EFF_OP = {"SetActive true": {"op": "A", "b": True}, "SetActive false": {"op": "A", "b": False},
          "SetReloading true": {"op": "L", "b": True}, "SetReloading false": {"op": "L", "b": False},
          "ClearPending": {"op": "K"}, "FinishOk": {"op": "O"}, "FinishFail": {"op": "F"}, "Coalesce": {"op": "C"},
          "BeginHandoff": {"op": "H"}, "Notify": {"op": "N"}, "StartRetirement": {"op": "R"},
          "ClearPendingRetirement": {"op": "X"}}


class Walk:
    """random walk of the agents (signals, worker, main loop, retirements) through the extracted paths at
    call granularity; keeps the simple bookkeeping needed to know which agent is enabled"""

    def __init__(self, rng, d, ready_wait_signals, force_worker=None, force_main=None, race=0.0):
        self.rng, self.d = rng, d
        self.race = race
        self.ops = []
        self.queue = 0
        self.held = False
        self.wprog, self.mprog = None, None
        self.handoffs = 0
        self.pend_ret = None
        self.waiting = None
        self.open = []
        self.need = {}          # retirement -> ns after which it must have finished (0: nothing to wait for)
        self.nret = 0
        self.exited = False
        self.ready_wait_signals = ready_wait_signals
        self.force_worker, self.force_main = force_worker, force_main
        self.wpaths, self.mpaths = [], []

    def emit(self, op):
        self.ops.append(op)

    def do_eff(self, e):
        if e.startswith("Progress "):
            self.emit({"op": "P", "code": e.split()[1]})
        elif e == "Exit":
            self.exited = True
        elif e == "Other 1":
            if self.ready_wait_signals and self.rng.random() < self.ready_wait_signals:
                self.emit({"op": "S"})
        elif e.startswith("Other") or e == "Unknown":
            pass
        else:
            op = dict(EFF_OP[e])
            if op["op"] == "R":
                # the retirement that is still running is accelerated (its context is cancelled)
                if self.nret - 1 in self.need:
                    self.need[self.nret - 1] = 0
                self.need[self.nret] = 0
                if self.rng.random() < 0.6:
                    op = gen_ret_params(self.rng)
                    self.need[self.nret] = ret_need(op, self.d["budget_total_ns"])
            if op["op"] == "K" and self.race and self.held and self.rng.random() < self.race:
                # a signal arrives just now: its failed CAS precedes, its busy report follows this release
                op = {"op": "QK", "b": self.rng.random() < 0.4}
            self.emit(op)
            k = {"QK": "K", "RF": "R"}.get(op["op"], op["op"])
            if k in ("K", "F"):
                self.held = False
            elif k == "H":
                self.handoffs += 1
            elif k == "R":
                self.pend_ret = self.nret
                self.open.append(self.nret)
                self.nret += 1
            elif k == "X":
                self.pend_ret = None
            elif k == "O":
                if self.pend_ret is not None and self.pend_ret in self.open:
                    self.waiting = self.pend_ret
                else:
                    self.held = False
                self.pend_ret = None

    def enabled(self, signals):
        acts = []
        if signals:
            acts += ["sig"] * 3
        if self.wprog:
            acts += ["w"] * 4
        elif self.queue > 0:
            acts += ["take"] * 4
        if self.mprog:
            acts += ["m"] * 4
        elif self.handoffs > 0:
            acts += ["mstart"] * 3
        if self.open:
            acts += ["ret"] * (3 if self.waiting is not None else 1)
        return acts

    def step(self, signals):
        acts = self.enabled(signals)
        if not acts or self.exited:
            return False
        a = self.rng.choice(acts)
        if a == "sig":
            self.emit({"op": "Q", "b": self.rng.random() < 0.4})
            if not self.held and self.queue == 0:
                self.held = True
                self.queue = 1
        elif a == "take":
            self.emit({"op": "T"})
            self.queue = 0
            k = self.force_worker if self.force_worker is not None else self.rng.randrange(len(self.d["worker"]))
            self.force_worker = None
            self.wpaths.append(k)
            self.wprog = list(self.d["worker"][k]["effs"])
        elif a == "w":
            self.do_eff(self.wprog.pop(0))
        elif a == "mstart":
            self.handoffs -= 1
            k = self.force_main if self.force_main is not None else self.rng.randrange(len(self.d["main"]))
            self.force_main = None
            self.mpaths.append(k)
            self.mprog = list(self.d["main"][k]["effs"])
        elif a == "m":
            self.do_eff(self.mprog.pop(0))
        elif a == "ret":
            dch = self.rng.choice(self.open)
            need = self.need.get(dch, 0)
            if need > 0:
                # budget is left and sessions are alive: the retirement goes on until the sessions end (or
                # the next retirement cancels it); the harness never sits out a real budget
                self.emit({"op": "SD", "d": dch})
                self.need[dch] = 0
                return True
            self.open.remove(dch)
            self.emit({"op": "D", "d": dch})
            if self.waiting == dch:
                self.waiting = None
                self.held = False
        return True


MS = 1000000
SEC = 1000000000


def gen_ret_params(rng):
    """circumstances of one retirement: --abort, dialer overlap, age of the request (fresh: seconds of
    budget left; exactly used up; long used up - never a real budget that could run out during the
    case), sessions of the old generation"""
    return {"op": "RF", "abort": rng.random() < 0.15, "overlap": rng.random() < 0.8,
            "elapsed_ns": rng.choice([0, SEC, 10 * SEC, 11 * SEC, 60 * SEC]),
            "zero": rng.random() < 0.08, "sessions": rng.choice([0, 1, 1, 3])}


def ret_need(op, total):
    if op.get("abort") or not op.get("overlap") or op.get("sessions", 0) == 0:
        return 0
    if op.get("zero"):
        return max(0, total)
    return max(0, total - op.get("elapsed_ns", 0))


def gen_drain(rng, d, n_ops, boundary=False):
    """probes of the real waitForControlPlaneDrain / remainingReloadRetirementBudget at boundary budgets"""
    total = d["budget_total_ns"]
    ops = []

    def wd(mw, sessions, idle=-1, cancel=-1):
        return {"op": "WD", "maxw_ns": mw, "sessions": sessions, "idle_ms": idle, "cancel_ms": cancel, "watch_ms": 10000}
    if boundary:
        for mw in (-SEC, -1, 0, 1, 1000):
            ops.append(wd(mw, 2))
        ops += [wd(total, 2), wd(total, 2, idle=0), wd(total, 2, cancel=0), wd(total, 0), wd(0, 0)]
        for b, e, z in ((-1, 0, False), (0, 0, False), (1, 0, False), (total, 0, False), (total, 3 * SEC, False),
                        (total, total, False), (total, total + SEC, False), (total, 60 * SEC, False), (5, 0, True), (total, 0, True)):
            ops.append({"op": "RB", "budget_ns": b, "elapsed_ns": e, "zero": z})
    while len(ops) < n_ops:
        if rng.random() < 0.6:
            # an exhausted/non-positive/tiny budget with nothing else happening, or a budget of seconds with
            # at most one event (never two wake-ups racing each other)
            if rng.random() < 0.6:
                ops.append(wd(rng.choice([-SEC, -1, 0, 0, 1, 1000]), rng.choice([0, 1, 5])))
            else:
                ev = rng.choice(["none", "idle", "cancel"])
                ops.append(wd(total, rng.choice([0, 1, 5]), idle=0 if ev == "idle" else -1, cancel=0 if ev == "cancel" else -1))
        else:
            b = rng.choice([-SEC, -1, 0, 1, 5 * SEC, total])
            ops.append({"op": "RB", "budget_ns": b, "elapsed_ns": rng.choice([0, SEC, 4 * SEC, 6 * SEC, total + SEC, 60 * SEC]), "zero": rng.random() < 0.15})
    return {"cap": d["cap"], "ops": ops, "legal": False, "drained": False, "wpaths": [], "mpaths": [], "kind": "drain"}


def gen_ready_wait(rng, d, boundary=False):
    """the real waitReloadReadyOrSignal fed k ignored signals (SIGUSR1/SIGUSR2/SIGHUP) one after the other
    and then readiness; observable: how many timers it arms (clock seam of the build-time overlay)"""
    ks = [0, 1, 2, 5, 16] if boundary else [rng.choice([0, 1, 2, 3, 7, 12]) for _ in range(rng.choice([1, 2, 3]))]
    return {"cap": d["cap"], "ops": [{"op": "SW", "d": k} for k in ks], "legal": False, "drained": False, "wpaths": [], "mpaths": [], "kind": "readywait-arms"}


def gen_legal(rng, d, n_ops, ready_wait_signals=0.0, force_worker=None, force_main=None, race=0.0):
    w = Walk(rng, d, ready_wait_signals, force_worker, force_main, race)
    w.emit({"op": "Q", "b": rng.random() < 0.4})
    w.held, w.queue = True, 1
    while len(w.ops) < n_ops and w.step(True):
        pass
    drained = False
    if not w.exited:
        guard = 0
        while w.step(False) and guard < 400:
            guard += 1
        drained = not w.exited and not w.enabled(False)
    return {"cap": d["cap"], "ops": w.ops, "legal": True, "drained": drained, "wpaths": w.wpaths, "mpaths": w.mpaths,
            "kind": "readywait" if ready_wait_signals else ("race" if race else "legal")}


ADV_OPS = ["Q", "Q", "Q", "T", "A", "L", "C", "P", "K", "H", "N", "O", "F", "R", "RF", "X", "D", "D", "SD", "E", "K", "T"]


def gen_adversarial(rng, d, n_ops):
    ops = []
    nret = 0
    need = {}
    for _ in range(n_ops):
        k = rng.choice(ADV_OPS)
        op = {"op": k}
        if k in ("Q", "A", "L"):
            op["b"] = rng.random() < 0.5
        if k == "P":
            op["code"] = rng.choice(["Send", "Processing", "Done", "Error", "Busy"])
        if k in ("R", "RF"):
            if nret >= 6:
                continue
            if nret - 1 in need:
                need[nret - 1] = 0
            need[nret] = 0
            if k == "RF":
                op = gen_ret_params(rng)
                need[nret] = ret_need(op, d["budget_total_ns"])
            nret += 1
        if k in ("D", "SD"):
            if nret == 0:
                continue
            op["d"] = rng.randrange(nret)
            if k == "D" and need.get(op["d"], 0) > 0:
                op["op"] = "SD"
            if op["op"] == "SD":
                need[op["d"]] = 0
        ops.append(op)
    if not ops:
        ops = [{"op": "Q", "b": False}]
    return {"cap": d["cap"], "ops": ops, "legal": False, "drained": False, "wpaths": [], "mpaths": [], "kind": "adversarial"}


# ------------------------------------------------------------------------------------------------
# evaluation
# ------------------------------------------------------------------------------------------------
READY_MODE = ["RFixed"]    # where the source arms the readiness timer (set from the translator's output)


def _optn(ms):
    return "None" if ms is None or ms < 0 else "(Some %d%%N)" % (ms * MS)


def op_coq(op):
    k = op["op"]
    b = "true" if op.get("b") else "false"
    if k == "RF":
        return "OStartRetirementWith (Build_ret_params %s %s %d%%N %s %d)" % (
            vlib.cbool(op.get("abort")), vlib.cbool(op.get("overlap")), op.get("elapsed_ns", 0), vlib.cbool(op.get("zero")), op.get("sessions", 0))
    if k == "D":
        return "ORetire %d 0%%N" % op.get("d", 0)
    if k == "SD":
        return "OSessionsEnd %d" % op.get("d", 0)
    if k == "SW":
        return "OReadyWaitArms %s %d" % (READY_MODE[0], op.get("d", 0))
    if k == "WD":
        return "OWaitDrain (%d)%%Z %d %s %s %d%%N" % (op["maxw_ns"], op["sessions"], _optn(op["idle_ms"]), _optn(op["cancel_ms"]), op["watch_ms"] * MS)
    if k == "RB":
        return "OBudget (%d)%%Z %d%%N %s" % (op["budget_ns"], op.get("elapsed_ns", 0), vlib.cbool(op.get("zero")))
    return {"Q": "OQueue " + b, "QK": "OQueueRace " + b, "T": "OTake", "A": "OSetActive " + b, "L": "OSetReloading " + b, "C": "OCoalesce",
            "P": "OProgress C" + op.get("code", "Done"), "K": "OClearPending", "H": "OBeginHandoff", "N": "ONotify",
            "O": "OFinishOk", "F": "OFinishFail", "R": "OStartRetirement", "X": "OClearPendingRetirement",
            "S": "OReadyWaitSignal", "E": "OEnd"}[k]


def obs_coq(o):
    if o["code"] not in ("Send", "Processing", "Done", "Error", "Busy") or o["supp"] < 0 or o["supp"] > 4000:
        raise ValueError("observation outside the model's vocabulary: %r" % o)
    return "(Build_obs %s %s %s %d %d C%s Msg%s %s %d%%N)" % (
        vlib.cbool(o["pending"]), vlib.cbool(o["active"]), vlib.cbool(o["reloading"]), o["supp"], o["qlen"],
        o["code"], o["msg"], vlib.cbool(o["suppressed"]), o["ret"])


def run_batch(sc, binary, cases, tag, d, scale=1):
    inp, outp = sc.path("c20_%s.in" % tag), sc.path("c20_%s.out" % tag)
    with open(inp, "w") as f:
        for c in cases:
            f.write(json.dumps({"cap": c["cap"], "ops": c["ops"]}) + "\n")
    rc, so, se, dt = vlib.run_go_harness(binary, "TestVerifC20", inp, outp, timeout=1800, extra_env={"VERIF_C20_SCALE": str(scale)})
    if rc != 0:
        return None, None, None, "harness failed rc=%d: %s %s" % (rc, so[-1500:], se[-1500:])
    results = [json.loads(l) for l in open(outp)]
    if len(results) != len(cases):
        return None, None, None, "harness returned %d results for %d cases" % (len(results), len(cases))
    pre = {}
    terms = []
    idx = []
    for i, (c, r) in enumerate(zip(cases, results)):
        if r.get("panic"):
            pre[i] = [(0, 9, "panic: " + r["panic"])]
            continue
        r["obs"] = r.get("obs") or []
        notes = [(j, o["note"]) for j, o in enumerate(r["obs"]) if o.get("note")]
        stuck = [x for x in notes if "stuck" in x[1]]
        if stuck:
            pre[i] = [(stuck[0][0], 8, stuck[0][1])]
            continue
        if notes:
            pre[i] = [(notes[0][0], 1, notes[0][1])]
            continue
        if r["codes"] != d["codes"] or r["quiesce_ns"] != d["quiesce_ns"] or not r["until_ok"]:
            pre[i] = [(0, 1, "constants: codes %r quiesce %r until_ok %r (translator: %r %r)" % (r["codes"], r["quiesce_ns"], r["until_ok"], d["codes"], d["quiesce_ns"]))]
            continue
        try:
            steps = "; ".join("(%s, %s)" % (op_coq(op), obs_coq(o)) for op, o in zip(c["ops"], r["obs"]))
        except ValueError as e:
            pre[i] = [(0, 1, str(e))]
            continue
        terms.append("(Build_obs_case %s %s [%s])" % (vlib.cbool(c["legal"]), vlib.cbool(c["drained"]), steps))
        idx.append(i)
    text = ("From Coq Require Import List NArith ZArith Bool.\nFrom Dae Require Import C20_Spec C20_Model C20_Check.\n"
            "From Dae.gen Require Import C20_ReloadPaths.\nImport ListNotations.\n"
            "Definition cases : list obs_case := [\n" + ";\n".join(terms) + "\n].\n"
            "Definition R := Eval vm_compute in map (check_case gen_tables) cases.\nPrint R.\n"
            "Definition S := Eval vm_compute in map (case_signature gen_tables) cases.\nPrint S.\n")
    ok, outtxt = vlib.coq_eval("C20_cases_%s" % tag, text, timeout=3600)   # a loaded machine must not turn into a verdict
    if not ok:
        return None, None, None, "coq evaluation failed: " + outtxt[-2000:]
    m = re.search(r"R\s*=\s*(.*?)\n\s*:\s*list", outtxt, re.S)
    body = re.sub(r"\s+", "", m.group(1)).replace("%N", "")
    per = re.findall(r"\[((?:\(\d+,\d+\);?)*)\]", body[1:-1])
    if len(per) != len(idx):
        return None, None, None, "cannot parse coq output (%d vs %d): %s" % (len(per), len(idx), body[:300])
    errors = {}
    for i, p in zip(idx, per):
        errors[i] = [(int(a), int(b), "") for a, b in re.findall(r"\((\d+),(\d+)\)", p)]
    errors.update(pre)
    m2 = re.search(r"S\s*=\s*(.*?)\n\s*:\s*list", outtxt, re.S)
    sg = re.findall(r"\((\d+),(\d+),(\d+),(\d+)\)", re.sub(r"\s+", "", m2.group(1)).replace("%N", "")) if m2 else []
    sigs = {}
    for i, s in zip(idx, sg):
        sigs[i] = tuple(int(x) for x in s)
    return errors, sigs, results, None


SPEC_CODES = (2, 4, 8, 9)      # impl <> spec
MODEL_CODES = (1,)             # impl <> model
THM_CODES = (3, 5)             # model <> spec


def spec_errs(e):
    return [x for x in e if x[1] in SPEC_CODES]


def shrink(sc, binary, case, d, want):
    """shortest failing prefix (a prefix of a legal walk is a legal walk), then drop calls that are not
    needed (signals, progress writes, notifications), keeping an impl<>spec failure of the same code at
    a call of the same kind; all candidates of a round go through one harness/Coq run"""
    step0, code, kind = want

    def failing(cands):
        errs, _, _, err = run_batch(sc, binary, cands, "shrink", d)
        if err:
            return []
        res = []
        for j, c in enumerate(cands):
            if any(cd == code and (cd in (4, 5) or (st < len(c["ops"]) and c["ops"][st]["op"] == kind)) for (st, cd, _) in errs.get(j, [])):
                res.append(j)
        return res
    best = dict(case)
    if code != 4 and step0 + 1 < len(case["ops"]):
        cand = dict(case, ops=case["ops"][:step0 + 1], drained=False)
        if failing([cand]):
            best = cand
    for _ in range(4):
        ops = best["ops"]
        cands = [dict(best, ops=ops[:i] + ops[i + 1:]) for i in range(1, len(ops)) if ops[i]["op"] in ("Q", "P", "N")]
        if kind.endswith("QK"):
            cands = [c for c in cands if any(o["op"] == "QK" for o in c["ops"])]
        if not cands:
            break
        ok = failing(cands)
        if not ok:
            break
        # remove greedily all individually removable calls whose removal still fails together
        keep = [i for i in range(1, len(ops)) if ops[i]["op"] in ("Q", "P", "N")]
        drop = set(keep[j] for j in ok)
        cand = dict(best, ops=[o for i, o in enumerate(ops) if i not in drop])
        if failing([cand]):
            best = cand
            break
        best = cands[ok[0]]
    return best


def describe(case, err):
    step, code, note = err
    op = case["ops"][step] if step < len(case["ops"]) else None
    if code == 4 and any(o["op"] == "QK" for o in case["ops"]):
        return ("a request refused just before the release writes its busy report after the release has cleared the progress file: "
                "nothing is in progress any more but the progress file says busy, so `dae reload` (cmd/reload.go) refuses to send any further request")
    if code == 4:
        return "after every agent has run to its end dae is not free again (reloadPending/reloadActive/reloading/suppression/queue not back to the initial condition)"
    if code == 8:
        return "a goroutine the protocol relies on never finished: " + note
    if code == 9:
        return "the implementation panicked: " + note
    if op and op["op"] == "SW":
        return ("waitReloadReadyOrSignal armed a new timeout for every ignored signal (%d signals): the readiness deadline is not fixed before the loop, "
                "so signals arriving faster than the timeout keep the hand-off waiting for ever (no ReloadError answer, no rollback, no release)" % op.get("d", 0))
    if op and op["op"] == "WD":
        return ("waitForControlPlaneDrain(maxWait=%d ns) with %d session(s) that never drain and no cancellation was still waiting after %d ms: "
                "the drain budget does not bound the retirement" % (op["maxw_ns"], op["sessions"], op["watch_ms"]))
    if op and op["op"] == "RB":
        return "remainingReloadRetirementBudget returned a value outside [0, budget]"
    if op and op["op"] == "D":
        return ("the old generation's retirement did not finish although its drain budget was used up (sessions that never drain): done is never closed, "
                "reloadPending is never released, every later request is refused as busy and the failure muting is never lifted")
    if op and op["op"] == "S":
        return ("a reload/suspend signal that arrives while the main loop waits for the new generation to become ready "
                "(waitReloadReadyOrSignal) is dropped: not queued and NOT reported as busy")
    if op and op["op"] == "Q":
        return "a reload/suspend request got an answer that the lock forbids (accepted while one is in progress, or refused while none is, or the refusal changed more than the busy report)"
    return "after call %r the lock/muting state differs from what the property demands" % (op,)


def main(argv):
    args = vlib.main_args(argv)
    out = vlib.Outcome(PID, args.tier, args.seed)
    rng = vlib.rng_for(args.seed, PID)
    quick = args.tier == "quick"
    n_legal, n_adv, n_rw, n_race, n_drain = (150, 80, 10, 16, 4) if quick else (5000, 2500, 200, 300, 60)

    cov = {"obligations": 0, "discharged": 0,
           "checker_cmd": "cd /verif/coq && coq_makefile -f _CoqProject -o Makefile && make -j16 " + " ".join(TARGETS) + " && coqc -Q . Dae C20_Props.v (Print Assumptions captured)",
           "trusted_base": vlib.TRUSTED_BASE_COMMON + [
               "path translator (Go AST walk embedded in tools/c20.py): enumeration of the paths of the worker closure and completion code of cmd/run.go and their abstraction to lock-relevant calls; conditions are treated as nondeterministic",
               "atomicity: each sync/atomic operation, channel operation and progress write is one step; clearRejectedReloadProgress (read then write) is taken as one step; wake-ups through runStateChanges are level-triggered on the reloading flag",
               "construction/teardown of control planes inside the stages is abstracted to success/failure (= choice of path); sdnotify and the progress file are replaced by memory in the harness",
               "verif read-out of the suppression counter (harness/dialer/c20_export.go, injected by -overlay)"],
           "evaluations": 0, "distinct_nontrivial": 0, "traces_validated_against_impl": 0, "samples": [], "rule": ""}
    out.coverage = cov
    out.assumptions = ["weak fairness of the worker, main-loop, retirement and release goroutines (C20_no_wedge is reachability of a settled state by enabled steps)",
                       "every SIGUSR1/SIGUSR2 is handed to tryQueueReloadRequest (signal threads of the model); the check tests this separately against waitReloadReadyOrSignal",
                       "blocking calls inside the stages terminate (they are bounded by reloadPrepareTimeout/reloadReadyTimeout/drain budget in the code)"]

    with vlib.Scratch() as sc:
        # ---- 1. translator ----
        tie_problems = {}
        d = None
        try:
            d = translate(sc)
            text = gen_text(d)
            vlib.write_if_changed(os.path.join(vlib.COQ, GEN), text)
            bad = helper_mismatches(d)
            if bad:
                tie_problems["helper_functions_changed_shape"] = bad
        except AnchorMoved as e:
            tie_problems["translator"] = "anchor moved: %s" % e
        except (OSError, ValueError, KeyError) as e:
            tie_problems["translator"] = "translator failed: %r" % (e,)
        if d is None or "translator" in tie_problems:
            out.violation("tie", tie_problems, "path translator no longer understands cmd/run.go; no failing input found", no_failing_input=True)
            return out.finish()
        READY_MODE[0] = d["ready_deadline"]
        cov["paths"] = {"worker": len(d["worker"]), "main": len(d["main"]), "channel_capacity": d["cap"], "quiesce_ns": d["quiesce_ns"]}

        # ---- 2. proofs ----
        okb, blog = vlib.coq_make(BASE_TARGETS)
        proof_ok, pinfo = vlib.proof_stage(out, PROPS, TARGETS)
        cov.update(obligations=pinfo["obligations"], discharged=pinfo["discharged"], theorems=pinfo.get("theorems", []),
                   print_assumptions=pinfo.get("assumptions", []))
        if not okb:
            out.violation("tie", {"coq": blog[-2000:]}, "generated path file or Check no longer compiles", no_failing_input=True)
            return out.finish()

        # ---- 3. correspondence ----
        extra = {os.path.join(vlib.REPO, EXPORT[0]): os.path.join(vlib.VERIF, "harness", EXPORT[1])}
        try:
            yield_overlay, points = instrument(sc)
            extra.update(yield_overlay)
            if points[:len(EXPECTED_POINTS)] != EXPECTED_POINTS or [x[1] for x in points[len(EXPECTED_POINTS):] if x[1]] != EXPECTED_FS_LABELS:
                tie_problems["yield_points_changed_shape"] = {"expected": EXPECTED_POINTS, "found": points}
            cov["yield_points"] = len(points)
        except AnchorMoved as e:
            out.violation("tie", {"instrumenter": "anchor moved: %s" % e}, "yield instrumenter no longer understands the source; no failing input found", no_failing_input=True)
            return out.finish()
        binary, blog = vlib.build_go_test_binary(sc, "cmd", HARNESS, extra_overlay=extra)
        if binary is None:
            out.violation("build", {"broken": "harness build against the repository failed", "log": blog[-3000:]},
                          "correspondence harness no longer builds", no_failing_input=True)
            return out.finish()
        cases = []
        cdir = os.path.join(vlib.VERIF, "corpus", PID)
        if os.path.isdir(cdir):
            for n in sorted(os.listdir(cdir)):
                c = json.load(open(os.path.join(cdir, n)))
                c["cap"] = d["cap"]
                cases.append(c)
        n_corpus = len(cases)
        if args.replay:
            rp = json.load(open(args.replay))
            c = rp.get("replay", {}).get("case") or rp.get("case")
            errs, sigs, results, err = run_batch(sc, binary, [c], "replay", d)
            print(json.dumps({"case": c, "observations": results[0]["obs"] if results else None, "errors (step, code)": errs.get(0) if errs else err,
                              "codes": "1 impl<>model 2 impl<>spec 3 model<>spec 4 impl final state not free 5 model final state not free 8 stuck 9 panic"}, indent=1))
            return 1 if (err or errs.get(0)) else 0
        # every worker path x every completion path at least once, deterministically first
        for wi in range(len(d["worker"])):
            hands_over = "BeginHandoff" in d["worker"][wi]["effs"]
            for mi in (range(len(d["main"])) if hands_over else [None]):
                cases.append(gen_legal(rng, d, rng.choice([8, 14, 22]), 0.0, wi, mi))
        for i in range(n_legal):
            cases.append(gen_legal(rng, d, rng.choice([6, 12, 25, 40, 70] if quick else [6, 12, 25, 40, 70, 150]), 0.0))
        for i in range(n_rw):
            cases.append(gen_legal(rng, d, rng.choice([10, 20, 30]), 1.0 if i < 3 else 0.6))
        for i in range(n_race):
            kp = [k for k, p in enumerate(d["worker"]) if "ClearPending" in p["effs"]]
            cases.append(gen_legal(rng, d, rng.choice([6, 12, 25]), 0.0, force_worker=kp[0] if (i < 3 and kp) else None,
                                   race=1.0 if i < 3 else 0.5))
        for i in range(3 if quick else 40):
            cases.append(gen_ready_wait(rng, d, boundary=(i == 0)))
        for i in range(n_drain):
            cases.append(gen_drain(rng, d, 17 if i == 0 else rng.choice([4, 8]), boundary=(i == 0)))
        for i in range(n_adv):
            cases.append(gen_adversarial(rng, d, rng.choice([3, 6, 12, 30, 60])))

        all_err, sigs, all_res = {}, {}, {}
        tie_broken = None
        shard = 600
        for s in range(0, len(cases), shard):
            errs, sg, rs, err = run_batch(sc, binary, cases[s:s + shard], "b%d" % s, d)
            if err:
                tie_broken = err
                break
            for i, r in enumerate(rs):
                all_res[s + i] = r
            for i, e in errs.items():
                if e:
                    all_err[s + i] = e
            for i, x in sg.items():
                sigs[s + i] = x
        n_eval = len(cases)
        has_spec = any(spec_errs(e) for e in all_err.values())
        widened = False
        if (not proof_ok or tie_problems or any(all_err.values())) and not has_spec and not tie_broken:
            widened = True
            extra = [gen_legal(rng, d, rng.choice([12, 40, 90]), 0.0) for _ in range(10 * n_legal // 2)] + \
                    [gen_adversarial(rng, d, rng.choice([6, 30, 80])) for _ in range(10 * n_adv // 2)]
            base = len(cases)
            for s in range(0, len(extra), shard):
                errs, sg, _, err = run_batch(sc, binary, extra[s:s + shard], "w%d" % s, d)
                if err:
                    break
                for i, e in errs.items():
                    if e:
                        all_err[base + s + i] = e
                for i, x in sg.items():
                    sigs[base + s + i] = x
            cases += extra
            n_eval = len(cases)

        # ---- 3b. a verdict that depends on real time is believed only if it persists ----
        # (all waits in the harness are for events with a long deadline; the deadline is multiplied by 4
        # and by 16 before "this never happened" is reported)
        TIME_OPS = ("D", "WD", "RB", "O", "SD", "RF", "R", "SW")

        def time_dependent(i):
            step, code, _ = all_err[i][0]
            ops = cases[i]["ops"]
            return code == 8 or (step < len(ops) and ops[step]["op"] in TIME_OPS)

        retried, retried_passed, retried_confirmed = 0, 0, 0
        dumps = {}
        cands = sorted((i for i in all_err if all_err[i] and time_dependent(i)), key=lambda j: (j >= n_corpus, len(cases[j]["ops"])))

        def retry(idx):
            nonlocal retried, retried_passed, retried_confirmed
            still = list(idx)
            for scale in (4, 16):
                if not still:
                    break
                errs, sg, rs, err = run_batch(sc, binary, [cases[i] for i in still], "retry%d" % scale, d, scale=scale)
                if err:
                    break
                nxt = []
                for j, i in enumerate(still):
                    if errs.get(j):
                        all_err[i] = errs[j]
                        all_res[i] = rs[j]
                        if rs[j].get("dump"):
                            dumps[i] = rs[j]["dump"]
                        nxt.append(i)
                    else:
                        all_err.pop(i, None)
                        all_res[i] = rs[j]
                        if j in sg:
                            sigs[i] = sg[j]
                        retried_passed += 1
                still = nxt
            retried += len(idx)
            retried_confirmed += len(still)
            return still
        if cands and not tie_broken:
            confirmed = retry(cands[:3])
            if len(cands) > 3 and not confirmed:
                retry(cands[3:])
        has_spec = any(spec_errs(e) for e in all_err.values())

        # ---- 3c. atomic-step schedules through the yield points ----
        n_micro = 220 if quick else 4000
        mcases = gen_micro_adversarial(rng) + [gen_micro_random(rng) for _ in range(n_micro)]
        merr, mres, mfail = {}, [], None
        mshard = 700
        for s0 in range(0, len(mcases), mshard):
            e, r, err = run_micro(sc, binary, mcases[s0:s0 + mshard], "m%d" % s0, d)
            if err:
                mfail = err
                break
            mres += r
            for i, x in e.items():
                merr[s0 + i] = x
        micro_retried = micro_passed = 0
        if not mfail:
            # a stuck goroutine is believed only if it persists with the deadlines x4 and x16
            for i in sorted(i for i, e in merr.items() if any(x[1] == 8 for x in e))[:3]:
                micro_retried += 1
                for scale in (4, 16):
                    e, r, err = run_micro(sc, binary, [mcases[i]], "mretry", d, scale=scale)
                    if err:
                        break
                    if not e.get(0):
                        merr.pop(i, None)
                        mres[i] = r[0]
                        micro_passed += 1
                        break
                    merr[i], mres[i] = e[0], r[0]
        m_spec = sorted((i for i, e in merr.items() if any(x[1] in (7, 8, 9) for x in e)), key=lambda j: (mcases[j]["name"] != "teardown-gap@close", not mcases[j]["name"].startswith("teardown-gap@"), mcases[j]["name"] == "random", len(mres[j].get("recs") or [])))
        m_model = sorted(i for i, e in merr.items() if any(x[1] == 6 for x in e) and i not in m_spec)
        if m_spec:
            i = m_spec[0]
            recs = mres[i].get("recs") or []
            out.violation("impl_vs_spec_schedule",
                          {"case": mcases[i], "errors": merr[i], "trace": [(x["t"], x["fn"], x["label"], x["obs"], x.get("done"), x.get("ret")) for x in recs],
                           "thread_results": mres[i].get("rets"), "goroutine_dump": mres[i].get("dump"), "failing_schedules": len(m_spec),
                           "how": "feed `case` to TestVerifC20Micro (binary built with the yield overlay of tools/c20.py); t = goroutine released for one statement; "
                                  "code 7: a request returned accepted without having taken the lock itself / a refused request changed flags, counter or queue / "
                                  "at quiescence the muting counter or the number of accepted-unreleased requests is not (pending ? 1 : 0); code 8: a goroutine never came back"},
                          "under an interleaving of the atomic steps of %d signal goroutines, the holder and the release goroutine the lock is broken: "
                          "schedule %r (%d failing schedules)" % (sum(1 for t in mcases[i]["threads"] if t["kind"] == "sig"), mcases[i]["name"], len(m_spec)))
        # ---- 3d. two or three real writers of the progress file ----
        wcases = gen_micro_writers(rng)
        werr, wres, wfail = run_writers(sc, binary, wcases, "w", d)
        if wfail:
            tie_problems["progress_writers_stage"] = wfail
        else:
            for i in sorted(i for i, e in werr.items() if any(x[1] == 8 for x in e))[:2]:
                for scale in (4, 16):
                    e, r, err = run_writers(sc, binary, [wcases[i]], "wretry", d, scale=scale)
                    if err or not e.get(0):
                        if not err:
                            werr.pop(i, None)
                            micro_passed += 1
                        break
                    werr[i], wres[i] = e[0], r[0]
            w_spec = sorted((i for i, e in werr.items() if any(x[1] in (7, 8, 9) for x in e)), key=lambda j: (wcases[j]["name"] == "writers-random", len(wres[j].get("recs") or [])))
            w_model = [i for i, e in werr.items() if i not in w_spec]
            if w_spec:
                i = w_spec[0]
                out.violation("impl_vs_spec_progress_writers",
                              {"case": wcases[i], "errors": werr[i], "thread_results (0 = nil error)": wres[i].get("rets"),
                               "trace (goroutine, function, statement, what a reader of the progress file saw: 0 old record, w+1 record of writer w, 99 missing/truncated/spliced)":
                                   [(x["t"], x["fn"], x["label"], x["obs"].get("file")) for x in (wres[i].get("recs") or [])],
                               "failing_schedules": len(w_spec), "goroutine_dump": wres[i].get("dump"),
                               "how": "feed `case` to TestVerifC20Micro (binary built with the yield overlay): goroutines run the real writeSignalProgressBytesFile on one temp path"},
                              "two or three overlapping writes of the reload progress file do not replace it atomically: a reader finds a missing, truncated or spliced "
                              "record, or a writer's rename is lost so that its answer is never published; schedule %r (%d failing schedules)" % (wcases[i]["name"], len(w_spec)))
            if w_model:
                tie_problems["progress_writers_correspondence"] = {"case": wcases[w_model[0]], "errors": werr[w_model[0]]}
            cov["progress_writer_schedules"] = len(wcases)
            cov["progress_writer_schedules_matching_model"] = len(wcases) - len(werr)
        if mfail:
            tie_problems["atomic_step_stage"] = mfail
        elif m_model:
            i = m_model[0]
            tie_problems["atomic_step_correspondence"] = {"case": mcases[i], "errors": merr[i],
                                                          "trace": [(x["t"], x["fn"], x["label"], x["obs"]) for x in (mres[i].get("recs") or [])]}

        # ---- 4. classify ----
        spec_fail = sorted(i for i, e in all_err.items() if spec_errs(e))
        model_fail = sorted(i for i, e in all_err.items() if any(x[1] in MODEL_CODES for x in e))
        thm_fail = sorted(i for i, e in all_err.items() if any(x[1] in THM_CODES for x in e) and not spec_errs(e))
        # group impl<>spec failures by kind of the first failing step; report the smallest of each kind
        groups = {}
        for i in spec_fail:
            e0 = spec_errs(all_err[i])[0]
            step, code, _ = e0
            kind = cases[i]["ops"][step]["op"] if step < len(cases[i]["ops"]) and code == 2 else \
                "code%d%s" % (code, "QK" if any(o["op"] == "QK" for o in cases[i]["ops"]) else "")
            g = groups.setdefault((code, kind), [])
            g.append(i)
        known = 0
        for (code, kind), idxs in sorted(groups.items()):
            i = min(idxs, key=lambda j: (j >= n_corpus, len(cases[j]["ops"])))
            e0 = spec_errs(all_err[i])[0]
            matchers = []
            if code == 2 and kind == "S":
                matchers.append(M_DROPPED)
            if code == 4 and kind.endswith("QK"):
                matchers.append(M_OVERTAKEN)
            is_known = any(e["property"] == PID and e["match"] in matchers for e in out.kf["open"])
            minimal = is_known or i < n_corpus or code not in (2, 4)      # corpus cases are minimised already
            small = cases[i] if minimal else shrink(sc, binary, cases[i], d, (e0[0], code, kind))
            if minimal:
                errs, res = {0: all_err[i]}, ([all_res[i]] if i in all_res else None)
            else:
                errs, _, res, err = run_batch(sc, binary, [small], "final", d)
            r = out.violation("impl_vs_spec_%s_%s" % (code, kind),
                              {"case": small, "observations": res[0]["obs"] if res else None, "errors": errs.get(0) if errs else None,
                               "goroutine_dump": (res[0].get("dump") if res else None) or dumps.get(i),
                               "failing_cases": len(idxs), "matchers": matchers,
                               "how": "./check C20 --replay <this file>; ops: Q=queueReloadRequest T=worker receives A=reloadActive.Store L=reloading.Store C=coalesce P=setRunSignalProgress "
                                      "K=clearReloadPending H=beginHandoff N=notify O=finishReloadSuccess F=finishReloadFailure R=startControlPlaneRetirement X=clearPendingRetirement "
                                      "RF=the same with a plane whose sessions the harness controls (abort/overlap/age of request/sessions) D=retirement goroutine d runs for wait_ms SD=sessions of d end WD=waitForControlPlaneDrain probe RB=remainingReloadRetirementBudget probe S=SIGUSR1 during waitReloadReadyOrSignal E=EndReloadProxyFailureSuppression"},
                              describe(small if errs and errs.get(0) else cases[i], spec_errs(errs.get(0))[0] if errs and spec_errs(errs.get(0) or []) else e0) + " (%d failing sequences)" % len(idxs),
                              matchers=matchers)
            if r == "known":
                known += 1
        model_fail = [i for i in model_fail if not spec_errs(all_err[i])]
        if model_fail or thm_fail or tie_broken or tie_problems or not proof_ok:
            what = dict(tie_problems)
            if not proof_ok:
                what["proof"] = pinfo["failed"]
            if tie_broken:
                what["correspondence"] = tie_broken
            if model_fail:
                what["correspondence_case"] = {"case": cases[model_fail[0]], "errors": all_err[model_fail[0]]}
            if thm_fail:
                what["model_vs_spec_case"] = {"case": cases[thm_fail[0]], "errors": all_err[thm_fail[0]]}
            what["searched"] = "%d call sequences (widened=%s); impl<>spec disagreements found: %d (reported separately)" % (n_eval, widened, len(spec_fail))
            out.violation("tie", what, "proof obligation, translator cross-check or model correspondence no longer holds; no failing input found",
                          no_failing_input=True)

        # ---- 5. evidence ----
        legal_idx = [i for i, c in enumerate(cases) if c["legal"]]
        wcov = sorted(set(k for i in legal_idx for k in cases[i]["wpaths"]))
        mcov = sorted(set(k for i in legal_idx for k in cases[i]["mpaths"]))
        full = set()
        for i, c in enumerate(cases):
            if i in sigs:
                full.add((c["kind"], tuple(c["wpaths"][:3]), tuple(c["mpaths"][:3]), sigs[i]))
        nontrivial = len(set(x for x in full if x[3][0] >= 1 and x[3][1] >= 1 and x[3][2] >= 1))
        kinds = {}
        for c in cases:
            kinds[c["kind"]] = kinds.get(c["kind"], 0) + 1
        sample = next((c for c in cases[n_corpus:] if c["legal"] and c["drained"] and len(c["ops"]) > 12), cases[0])
        cov.update(evaluations=n_eval, distinct_nontrivial=nontrivial, distinct_signatures=len(full),
                   traces_validated_against_impl=n_eval - len(model_fail),
                   rule="walks of signals/worker/main loop/retirements through the extracted paths at call granularity (every worker path x every completion path first, then random with random interleaving of the worker's tail and the completion), "
                        "walks with a signal during waitReloadReadyOrSignal, and adversarial call sequences (double release, release without request, send on a full channel, lone EndSuppression); "
                        "signature = (kind, first worker paths, first completion paths, #accepted, #refused, #released, #unmuted); non-trivial = at least one accept, one refusal and one release",
                   case_kinds=kinds, worker_paths_exercised=wcov, main_paths_exercised=mcov,
                   worker_paths_unvalidated=[k for k in range(len(d["worker"])) if k not in wcov],
                   main_paths_unvalidated=[k for k in range(len(d["main"])) if k not in mcov],
                   comparisons="per call: impl observation (pending, active, reloading, suppression counter, queue length, progress code, message class, suppressed predicate, return value) = model; "
                               "impl and model against the lock of the spec (held, muted, answer, refusal changes nothing); final state free after draining",
                   samples=[{"ops": sample["ops"], "drained": sample["drained"], "worker_paths": sample["wpaths"], "completion_paths": sample["mpaths"]}],
                   widened_search=widened, known_findings_matched=known,
                   time_dependent_verdicts_retried=retried + micro_retried, retried_and_passed=retried_passed + micro_passed, retried_and_confirmed=retried_confirmed,
                   atomic_step_schedules=len(mcases), atomic_step_schedules_matching_model=len(mcases) - len(m_model) - len(m_spec),
                   atomic_step_micro_steps=sum(len(r.get("recs") or []) for r in mres),
                   atomic_step_schedule_kinds=sorted(set(c["name"] for c in mcases)),
                   extracted_paths={"worker": [" | ".join(p["effs"]) for p in d["worker"]], "main": [" | ".join(p["effs"]) for p in d["main"]]})
    return out.finish()


if __name__ == "__main__":
    sys.exit(main(sys.argv[1:]))
