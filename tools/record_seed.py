#!/usr/bin/env python3
"""record_seed.py <seed dir> <Cnn> <k> <caught: yes|no> <note>  -- copy a confirmed seeded change into /verif/seeded/"""
import json, os, shutil, sys
sd, pid, k, caught, note = sys.argv[1:6]
dst = "/verif/seeded/%s_%s" % (pid, k)
os.makedirs(dst, exist_ok=True)
for n in os.listdir(sd + "/out"):
    if n != "meta.json":
        src = os.path.join(sd, "out", n)
        if os.path.isdir(src):
            shutil.copytree(src, os.path.join(dst, n), dirs_exist_ok=True)
        else:
            shutil.copy(src, dst)
m = json.load(open(sd + "/out/meta.json"))
m.update({"breaks_property": pid, "origin": "independent sub-agent given only the property text and a scratch worktree",
          "confirmed_by_integrator": {"script": "tools/confirm_seed.sh %s %s" % (sd, pid),
                                      "clean_demo": "pass", "patched_build": "ok", "patched_pinned_suite": "unchanged", "patched_demo": "FAIL"},
          "caught_by_check": caught == "yes", "check_note": note})
json.dump(m, open(dst + "/meta.json", "w"), indent=1)
print("recorded", dst)
