"""C02 — the kernel routing program and the userspace matcher decide identically (DESIGN.md 6/C02).

Pipeline: lift the real encoders out of control/bpf_utils.go (excluded by the dae_stub_ebpf tag) into a generated
harness file, build the Go harness and the C driver (real route() of tproxy.c, host build), take struct layout and
enum/limit values from BOTH compilers -> coq/gen/C02_Consts.v, build the proofs, then run generated routing programs:
Go side (real parser/builder/encoders/ring allocation/userspace matcher) -> bytes -> C side (real route()) and the Coq
byte-level model; compare C = kernel model, Go = userspace model (C01), C = dns_adjust(Go)."""
import copy
import json
import os
import re
import sys

sys.path.insert(0, os.path.dirname(os.path.abspath(__file__)))
import vlib
import cbuild
import c01
from vlib import clist, cpair, cbool, log

PID = "C02"
PROPS = "C02_Props.v"
TARGETS = ["C02_Props.vo", "C02_Check.vo"]
HARNESS = ["control/common_test.go", "control/c01_test.go", "control/c02_test.go"]
DRIVER = os.path.join(cbuild.CDIR, "c02_route.c")


class AnchorMoved(Exception):
    pass


# ----------------------------------------------------------------------------------------------
# lifting: the production encoders live in a file the stub build excludes
# ----------------------------------------------------------------------------------------------

def go_func_text(src, header_re):
    """text of a top-level gofmt'd function: from its header line to the first line that is exactly '}'"""
    m = re.search(header_re, src, re.M)
    if not m:
        return None
    end = src.find("\n}\n", m.end())
    if end < 0:
        return None
    return src[m.start():end + 3], src[m.end():end + 1]


def lift_sources(sc):
    """returns {overlay path: generated file}; raises AnchorMoved"""
    bu = open(os.path.join(vlib.REPO, "control", "bpf_utils.go")).read()
    if not bu.startswith("//go:build !dae_stub_ebpf"):
        raise AnchorMoved("control/bpf_utils.go is no longer excluded by dae_stub_ebpf: call the real functions directly")
    parts = []
    for name, hdr, sig in (
            ("c02LiftedEncode", r"^func \(r bpfPortRange\) Encode\(\) \(b \[16\]byte\) \{\n", "func c02LiftedEncode(r bpfPortRange) (b [16]byte) {\n"),
            ("c02LiftedParsePortRange", r"^func ParsePortRange\(b \[\]byte\) \(portStart, portEnd uint16\) \{\n",
             "func c02LiftedParsePortRange(b []byte) (portStart, portEnd uint16) {\n"),
            ("c02LiftedCidrToBpfLpmKey", r"^func cidrToBpfLpmKey\(prefix netip\.Prefix\) _bpfLpmKey \{\n",
             "func c02LiftedCidrToBpfLpmKey(prefix netip.Prefix) _bpfLpmKey {\n")):
        r = go_func_text(bu, hdr)
        if r is None:
            raise AnchorMoved("anchor moved: %s not found in control/bpf_utils.go" % hdr)
        parts.append("// lifted verbatim from control/bpf_utils.go\n" + sig + r[1] + "}\n")
    m = re.search(r"type _bpfLpmKey struct \{\n\tPrefixLen uint32\n\tData      \[4\]uint32\n\}", bu)
    if not m:
        raise AnchorMoved("anchor moved: _bpfLpmKey of bpf_utils.go no longer {PrefixLen uint32; Data [4]uint32}")
    rb = open(os.path.join(vlib.REPO, "control", "routing_matcher_builder.go")).read()
    r = go_func_text(rb, r"^func buildRoutingKernspace\(\n")
    if r is None:
        raise AnchorMoved("anchor moved: buildRoutingKernspace")
    body = r[0]
    exprs = re.findall(r"\n\s*lpmIndex:\s*(.+),\n", body)
    if len(exprs) != 2:
        raise AnchorMoved("anchor moved: expected two lpmIndex slot expressions in buildRoutingKernspace, found %d" % len(exprs))
    if sorted("idx" if "uint32(idx)" in ex else "i" for ex in exprs) != ["i", "idx"]:
        raise AnchorMoved("anchor moved: the slot expressions of the parallel (idx) and the serial (i) path of buildRoutingKernspace")
    for ex in exprs:
        var = "idx" if "uint32(idx)" in ex else "i"
        nm = "Par" if var == "idx" else "Ser"
        parts.append("// slot expression of buildRoutingKernspace\nfunc c02LiftedSlot%s(allocStartIdx uint32, %s int) uint32 {\n\treturn %s\n}\n" % (nm, var, ex))
    for needle, what in ((r"allocStartIdx, err := reserveLpmRingSlots\(lpmCount\)", "ring reservation"),
                         (r"lpmCount := uint32\(len\(simulatedLpmTries\)\)", "lpm count"),
                         (r"keys\[j\] = cidrToBpfLpmKey\(cidr\)", "key conversion"),
                         (r"bpf\.LpmArrayMap\.Update\(r\.lpmIndex, m, ebpf\.UpdateAny\)", "lpm_array_map update"),
                         (r"rules\[len\(rules\)-1\]\.Type != uint8\(consts\.MatchType_Fallback\)", "fallback-last check"),
                         (r"kernRules, err := rewriteKernRulesWithRingLpmIndex\(rules, allocStartIdx, lpmCount\)", "ring rewrite"),
                         (r"routingsKeys := common\.ARangeU32\(routingsLen\)", "routing_map keys"),
                         (r"BpfMapBatchUpdate\(bpf\.RoutingMap, routingsKeys, kernRules,", "routing_map write"),
                         (r"bpf\.RoutingMetaMap\.Update\(uint32\(0\), routingsLen, ebpf\.UpdateAny\)", "meta write")):
        if len(re.findall(needle, body)) < 1:
            raise AnchorMoved("anchor moved: buildRoutingKernspace no longer contains the %s (%s); the harness replays these steps" % (what, needle))
    if not re.search(r'if len\(rules\) == 0 \{\n\t\treturn nil, fmt\.Errorf\("no routing rules to build"\)', body):
        raise AnchorMoved("anchor moved: buildRoutingKernspace's empty-rules check")
    if not re.search(r"func \(s \*routingKernspaceSnapshot\) BuildKernspace\(log \*logrus\.Logger, bpf \*bpfObjects\) \(usedIndices \[\]uint32, err error\) \{\n(?:.*\n){3}\treturn buildRoutingKernspace\(log, bpf, s\.rules, s\.simulatedLpmTries, s\.dedupCount\)", rb):
        raise AnchorMoved("anchor moved: routingKernspaceSnapshot.BuildKernspace no longer forwards (rules, simulatedLpmTries, dedupCount) to buildRoutingKernspace")
    cp = open(os.path.join(vlib.REPO, "control", "control_plane.go")).read()
    i1, i2, i3 = cp.find("kernspaceSnapshot := builder.KernspaceSnapshot()"), cp.find("kernspaceSnapshot.BuildKernspace(log, core.bpf.Load())"), cp.find("routingMatcher, err := builder.BuildUserspace()")
    if not (0 <= i1 < i2 < i3) or "if !buildOpts.delayDatapathCommit {" not in cp[i1:i2]:
        raise AnchorMoved("anchor moved: NewControlPlane no longer does snapshot -> [install unless delayDatapathCommit] -> BuildUserspace")
    for fn in ("CommitPreparedDatapath", "RebuildReloadDatapath"):
        r2 = go_func_text(cp, r"^func \(c \*ControlPlane\) %s\(\) error \{\n" % fn)
        if r2 is None or "c.routingKernspaceSnapshot.BuildKernspace(c.log, c.core.bpf.Load())" not in r2[0]:
            raise AnchorMoved("anchor moved: %s no longer installs from the kept routingKernspaceSnapshot" % fn)
    txt = ("//go:build verif\n\npackage control\n\n// GENERATED by tools/c02.py on every run from control/bpf_utils.go and control/routing_matcher_builder.go.\n\n"
           "import (\n\t\"encoding/binary\"\n\t\"net/netip\"\n\n\t\"github.com/daeuniverse/dae/common\"\n\t\"github.com/daeuniverse/dae/common/consts\"\n)\n\n"
           "var _ = binary.LittleEndian\nvar _ = netip.Prefix{}\nvar _ = common.Ipv6ByteSliceToUint32Array\nvar _ = consts.MaxMatchSetLen\n\n" + "\n".join(parts))
    p = sc.path("c02_lifted_test.go")
    open(p, "w").write(txt)
    return {os.path.join(vlib.REPO, "control", "zz_verif_c02_lifted_test.go"): p}


# ----------------------------------------------------------------------------------------------
# translator: compilers' view -> coq/gen/C02_Consts.v
# ----------------------------------------------------------------------------------------------

K_NAMES = ["MatchType_DomainSet", "MatchType_IpSet", "MatchType_SourceIpSet", "MatchType_Port", "MatchType_SourcePort",
           "MatchType_L4Proto", "MatchType_IpVersion", "MatchType_Mac", "MatchType_ProcessName", "MatchType_Dscp", "MatchType_Fallback"]
COMMON_KEYS = ["ms_size", "ms_value", "ms_not", "ms_type", "ms_outbound", "ms_must", "ms_mark", "lpm_size", "lpm_prefixlen", "lpm_data",
               "dr_size", "dr_bitmap", "pr_size", "pr_start", "pr_end", "max_match_set_len", "task_comm_len"] + K_NAMES + [
    "OutboundDirect", "OutboundBlock", "OutboundMustRules", "OutboundControlPlaneRouting", "OutboundLogicalOr", "OutboundLogicalAnd",
    "OutboundLogicalMask", "L4ProtoType_TCP", "L4ProtoType_UDP", "IpVersion_4", "IpVersion_6"]
C_ONLY_KEYS = ["ms_index", "ms_index_size", "ms_port_range", "ms_l4proto_type", "ms_l4proto_size", "ms_ip_version", "ms_ip_version_size",
               "ms_pname", "ms_pname_size", "ms_dscp", "ms_type_size", "max_lpm_num"]


def write_consts(c_lay, go_lay, go_consts):
    go = dict(go_lay)
    go.update(go_consts)
    missing = [k for k in COMMON_KEYS if k not in c_lay or k not in go] + [k for k in C_ONLY_KEYS if k not in c_lay]
    if missing:
        raise AnchorMoved("layout/enum report lacks " + ", ".join(missing))
    txt = ("(* GENERATED by tools/c02.py on every run.  K_* and C_TABLE: values printed by the host C compiler for control/kern/tproxy.c\n"
           "   (harness/c/c02_route.c LAYOUT); GO_TABLE: unsafe.Offsetof/Sizeof of the Go structs and the consts package as compiled\n"
           "   into the harness (layout) and as written in common/consts/ebpf_generated.go, ebpf.go (enums; tools/c01.py translator). *)\n"
           "From Coq Require Import List NArith String.\nImport ListNotations.\nOpen Scope N_scope.\n")
    for n in K_NAMES:
        txt += "Definition K_%s : N := %d.\n" % (n, c_lay[n])
    for kn, cn in (("K_OUTBOUND_DIRECT", "OutboundDirect"), ("K_OUTBOUND_BLOCK", "OutboundBlock"), ("K_OUTBOUND_MUST_RULES", "OutboundMustRules"),
                   ("K_OUTBOUND_CONTROL_PLANE_ROUTING", "OutboundControlPlaneRouting"), ("K_OUTBOUND_LOGICAL_OR", "OutboundLogicalOr"),
                   ("K_OUTBOUND_LOGICAL_AND", "OutboundLogicalAnd"), ("K_OUTBOUND_LOGICAL_MASK", "OutboundLogicalMask"),
                   ("K_L4ProtoType_TCP", "L4ProtoType_TCP"), ("K_L4ProtoType_UDP", "L4ProtoType_UDP"),
                   ("K_IpVersionType_4", "IpVersion_4"), ("K_IpVersionType_6", "IpVersion_6"),
                   ("K_ROUTE_STATE_BAD_RULE", "ROUTE_STATE_BAD_RULE"), ("K_ROUTE_STATE_GOOD_SUBRULE", "ROUTE_STATE_GOOD_SUBRULE"),
                   ("K_ROUTE_STATE_MUST", "ROUTE_STATE_MUST"), ("K_ROUTE_STATE_DNS_QUERY", "ROUTE_STATE_DNS_QUERY"),
                   ("K_EFAULT", "EFAULT"), ("K_EINVAL", "EINVAL"), ("K_EPERM", "EPERM"), ("K_ENOEXEC", "ENOEXEC"),
                   ("K_MAX_MATCH_SET_LEN", "max_match_set_len"), ("K_MAX_LPM_NUM", "max_lpm_num"), ("K_TASK_COMM_LEN", "task_comm_len")):
        txt += "Definition %s : N := %d.\n" % (kn, c_lay[cn])
    txt += "Definition C_TABLE : list (string * N) := %s.\n" % clist(['("%s"%%string, %d)' % (k, c_lay[k]) for k in COMMON_KEYS])
    txt += "Definition GO_TABLE : list (string * N) := %s.\n" % clist(['("%s"%%string, %d)' % (k, go[k]) for k in COMMON_KEYS])
    txt += "Definition C_UNION_TABLE : list (string * N) := %s.\n" % clist(['("%s"%%string, %d)' % (k, c_lay[k]) for k in C_ONLY_KEYS])
    vlib.write_if_changed(os.path.join(vlib.COQ, "gen", "C02_Consts.v"), txt)


# ----------------------------------------------------------------------------------------------
# generators (programs: those of C01 plus the empty process name; probes: LAN/WAN, port 53 bias)
# ----------------------------------------------------------------------------------------------

def gen_program(rng, big=False):
    prog = c01.gen_program(rng, big=big)
    # C01's group "must_see" can never be referenced (patchMustOutbound strips the prefix): here every program should install
    ren = lambda n: n.replace("must_see", "seen")
    prog["groups"] = {ren(k): v for k, v in prog["groups"].items()}
    for o in [r["out"] for r in prog["rules"]] + [prog["fallback"]]:
        o["name"] = ren(o["name"])
    for r in prog["rules"]:
        for c in r["conds"]:
            if c["kind"] == "pname":
                for p in c["params"]:
                    if rng.random() < 0.12:
                        p[1] = ""
    if rng.random() < 0.2:
        # process names at the comm buffer's edge: 15, 16, 17, 20 bytes (toProcessName keeps the first 16)
        base = rng.choice(["abcdefghijklmnopqrstuvwx", "systemd-resolved-helperd", "NetworkManager-dispatcher"])
        vals = [["", base[:L]] for L in rng.sample([15, 16, 17, 20], rng.choice([1, 2, 3]))]
        prog["rules"].insert(rng.randint(0, len(prog["rules"])),
                             {"conds": [{"kind": "pname", "neg": rng.random() < 0.25, "params": vals}], "out": c01.gen_outbound(rng, prog["groups"])})
    if rng.random() < 0.3:
        prog = share_prefix_sets(rng, prog)
    return prog


def share_prefix_sets(rng, prog):
    """reuse the prefix set of an ip()/sip() condition verbatim under the OTHER address role (values permuted, one
    duplicated: canonicalizePrefixes makes them equal again), so that the builder's lpmDedup gives both match-sets ONE
    trie index; the boundary probes then have source inside / destination outside the set and vice versa.
    (self-contained: C01's generator can apply the same post-processing)"""
    ipconds = [(ri, ci) for ri, r in enumerate(prog["rules"]) for ci, c in enumerate(r["conds"]) if c["kind"] in ("ip", "sip")]
    if not ipconds:
        vals = [list(c01.gen_value(rng, "ip")) for _ in range(rng.choice([1, 1, 2, 3]))]
        for kv in vals:
            kv[0] = ""
        prog["rules"].insert(rng.randint(0, len(prog["rules"])),
                             {"conds": [{"kind": rng.choice(["ip", "sip"]), "neg": False, "params": vals}], "out": c01.gen_outbound(rng, prog["groups"])})
        ipconds = [(ri, ci) for ri, r in enumerate(prog["rules"]) for ci, c in enumerate(r["conds"]) if c["kind"] in ("ip", "sip")]
    for _ in range(rng.choice([1, 1, 2])):
        ri, ci = rng.choice(ipconds)
        src = prog["rules"][ri]["conds"][ci]
        vals = [list(kv) for kv in src["params"]]
        rng.shuffle(vals)
        if rng.random() < 0.5:
            vals.append(list(rng.choice(vals)))
        twin = {"kind": "sip" if src["kind"] == "ip" else "ip", "neg": rng.random() < 0.3, "params": vals}
        r = rng.random()
        if r < 0.35:      # same rule: sip(S) && [!]ip(S)
            prog["rules"][ri]["conds"].insert(rng.randint(0, len(prog["rules"][ri]["conds"])), twin)
        elif r < 0.8:     # a rule of its own right after (or before) the original
            prog["rules"].insert(ri + rng.choice([0, 1]), {"conds": [twin], "out": c01.gen_outbound(rng, prog["groups"])})
        else:             # into some other rule
            rj = rng.randrange(len(prog["rules"]))
            prog["rules"][rj]["conds"].append(twin)
        ipconds = [(a, b) for a, r2 in enumerate(prog["rules"]) for b, c in enumerate(r2["conds"]) if c["kind"] in ("ip", "sip")]
    return prog


def gen_wide_program(rng):
    """many rules with one domain set each, so that the domain sets spread over several 32-bit words of the bitmap
    (the kernel caches one word at a time) and the decisive one lies deep in the array"""
    prog = gen_program(rng)
    names = list(prog["groups"])
    rules = []
    for i in range(rng.randint(36, 110)):
        k = rng.choice(["full", "suffix", "suffix", "keyword"])
        conds = [{"kind": "domain", "neg": rng.random() < 0.1, "params": [[k, "h%d.wide%d.net" % (i, i % 7) if k != "keyword" else "kw%dz" % i]]}]
        if rng.random() < 0.3:
            kind = rng.choice(["port", "l4proto", "ipversion", "dscp"])
            conds.insert(rng.randint(0, 1), {"kind": kind, "neg": rng.random() < 0.3, "params": [list(c01.gen_value(rng, kind))]})
        rules.append({"conds": conds, "out": c01.gen_outbound(rng, prog["groups"])})
    prog["rules"] = rules + prog["rules"][:2]
    return prog


def gen_packets(rng, prog, n):
    pkts = c01.gen_packets(rng, prog, n)
    has_pname = any(c["kind"] == "pname" for r in prog["rules"] for c in r["conds"])
    names = []
    for r_ in prog["rules"]:
        for c_ in r_["conds"]:
            if c_["kind"] == "pname":
                for _, v in c_["params"]:
                    b = v.encode()
                    if b:
                        names += [c01.pname16(v), b[:15] + b"\0" * (16 - len(b[:15])), b[:8] + b"\0" * (16 - len(b[:8])),
                                  b[:14] + b"\0" * (16 - len(b[:14]))]
    for p in pkts:
        p["via"] = "match"
        if names and rng.random() < 0.5:
            p["pname"] = rng.choice(names).hex()   # the rule's name as a comm buffer: full 16 bytes, 15 bytes + NUL, shorter
        is4 = (p["dst128"] >> 32) == 0xffff
        p["ipver"] = 1 if is4 else 2
        p["wan"] = rng.random() < (0.6 if has_pname else 0.4)
        if not p["wan"]:
            p["pname"] = "00" * 16          # LAN hooks know no process
        elif rng.random() < 0.15:
            p["pname"] = "00" * 16          # WAN socket whose process is unknown (pid_pname == NULL)
        if p["dst128"] in (0, 0xffff00000000):
            p["domain"] = ""                # the control plane never binds a name to an unspecified address (extractIPsFromDnsCache)
        r = rng.random()
        if r < 0.30:
            p["dport"] = 53
        elif r < 0.34:
            p["dport"] = rng.choice([52, 54, 5353])
    return pkts


def reload_history(rng):
    r = rng.random()
    if r < 0.35:
        return []
    if r < 0.55:
        return [rng.choice([1020, 1023, 1024, 1000, 1019, 1021, 1022])]
    return [rng.choice([0, 1, 3, 7, 100, 511, 512, 1000, 1023, 1024]) for _ in range(rng.randint(1, 5))]


# S = builder.KernspaceSnapshot(), U = builder.BuildUserspace(), I = snapshot.BuildKernspace():
#   SIU first start; SUI staged reload (delayDatapathCommit, CommitPreparedDatapath); SIUI first start, later
#   RebuildReloadDatapath; SUII staged reload, later rebuild; USI never happens in production (empty snapshot: error)
ORDERS = ["SIU", "SIU", "SIU", "SUI", "SUI", "SUI", "SUI", "SUI", "SIUI", "SIUI", "SUII", "SUII", "USI"]
COQ_STEP = {"S": "BSnapshot", "U": "BUserspace", "I": "BInstall"}


def has_lpm(prog):
    return any(c["kind"] in ("ip", "sip", "mac") for r in prog["rules"] for c in r["conds"])


def pick_order(rng, prog):
    o = rng.choice(ORDERS)
    if o != "SIU" and not has_lpm(prog):
        share_prefix_sets(rng, prog)       # every case that exercises an order has LPM-backed sets
    return o


def make_case(prog, packets, reloads, rng=None, order="SIU"):
    return {"prog": prog, "text": c01.render(prog, rng), "groups": prog["groups"], "packets": packets, "reloads": reloads, "order": order}


# ----------------------------------------------------------------------------------------------
# running: Go harness -> C driver -> Coq
# ----------------------------------------------------------------------------------------------

GO_PKT_KEYS = ("src", "dst", "sport", "dport", "l4", "ipver", "domain", "pname", "mac", "dscp", "wan")
KERN_ERR = [("too many lpm tries", 20), ("bad lpm index", 11), ("fallback rule MUST be the last", 4), ("no routing rules to build", 22)]


def kern_class(inst):
    e = inst.get("kernerr")
    if not e:
        return 0
    for pat, code in KERN_ERR:
        if pat in e:
            return code
    return 97


def installed(r):
    return any(not i.get("kernerr") for i in r.get("installs") or [])


def run_go(sc, gobin, cases, tag):
    inp, outp = sc.path("c02_%s.in" % tag), sc.path("c02_%s.out" % tag)
    with open(inp, "w") as f:
        for c in cases:
            if c.get("layout"):
                f.write(json.dumps({"layout": True}) + "\n")
            else:
                f.write(json.dumps({"text": c["text"], "groups": c["groups"], "reloads": c["reloads"], "order": c.get("order", "SIU"),
                                    "packets": [{k: p[k] for k in GO_PKT_KEYS} for p in c["packets"]]}) + "\n")
    rc, so, se, dt = vlib.run_go_harness(gobin, "TestVerifC02", inp, outp)
    if rc != 0:
        return None, "go harness failed rc=%d: %s %s" % (rc, so[-2000:], se[-2000:])
    results = [json.loads(l) for l in open(outp)]
    if len(results) != len(cases):
        return None, "go harness returned %d results for %d cases" % (len(results), len(cases))
    return results, None


def c_input(cases, results, idx):
    lines = []
    for i in idx:
        c, r = cases[i], results[i]
        lines.append("C %d" % i)
        for inst in r["installs"]:          # every successful call, in order: later calls overwrite
            if inst.get("kernerr"):
                continue
            for k, hx in zip(inst["rkeys"], inst["kern"]):
                lines.append("R %d %s" % (k, hx))
            lines.append("N %d" % inst["metalen"])
            for slot, keys in zip(inst.get("slots") or [], inst.get("keys") or []):
                lines.append("T %d" % slot)
                for k in keys:
                    lines.append("K " + k)
        for j, (p, pr) in enumerate(zip(c["packets"], r["results"])):
            lines.append("P %d %d %d %s %d %d %d %d %s %s %s %s %s" % (
                j, p["l4"], p["ipver"], p["pname"], p["dscp"], 1 if p["wan"] else 0, p["sport"], p["dport"], pr["src16"], pr["dst16"], p["mac"],
                pr.get("dkey") or "-", pr.get("dval") or "-"))
    return "\n".join(lines) + "\n"


def run_c(sc, cbin, text, tag):
    p = sc.path("c02_%s.cin" % tag)
    open(p, "w").write(text)
    rc, so, se, dt = vlib.run([cbin, p], timeout=600)
    if rc != 0:
        return None, "C driver failed rc=%d: %s" % (rc, (so[-500:] + se[-1500:]))
    res = {}
    for l in so.split("\n"):
        if not l.strip():
            continue
        a, b, w = l.split()
        res[(int(a), int(b))] = int(w)
    return res, None


def kret_coq(cx, w):
    if w is None:
        return "(KErrno 999)"
    if w < 0:
        return "(KErrno %d)" % (-w)
    return "(KWord %s)" % cx.n(w)


def big(cx, hx):
    return cx.n(int(hx, 16)) if hx else "0"


def packet_to_coq(cx, pk, r, cword):
    pn = bytes.fromhex(pk["pname"])
    p = ("(Build_packet %s %s %d %d %s %s %s %s %s %s %d)"
         % (cx.n(pk["src128"]), cx.n(pk["dst128"]), pk["sport"], pk["dport"], "TCP" if pk["l4"] == 1 else "UDP",
            "V4" if pk["ipver"] == 1 else "V6", cx.s(pk["domain"]), cx.t("list string", "[]"),
            cx.t("list N", clist([str(b) for b in pn])), cx.n(int(pk["mac"], 16)), pk["dscp"]))
    bm = "None" if not pk["domain"] else "(Some %s)" % cx.t("list N", clist([cx.n(w) for w in (r.get("bm") or [])]))
    dkey = "(Some %s)" % big(cx, r["dkey"]) if r.get("dkey") else "None"
    return "(Build_obs_packet %s %s %s %s %s %s %s)" % (p, cbool(pk["wan"]), bm, dkey, big(cx, r.get("dval")),
                                                       c01.impl_res_to_coq(cx, r), kret_coq(cx, cword))


def tries_to_coq(cx, tries):
    out = []
    for t in tries or []:
        ps = []
        for s_ in t:
            fam, rest = s_[0], s_[1:]
            hx, bits = rest.split("/")
            ps.append(cx.t("prefix128", "(Build_prefix128 %s %s %s)" % (cbool(fam == "4"), cx.n(int(hx, 16)), bits)))
        out.append(clist(ps))
    return clist(out)


def case_to_coq(cx, case, res, cwords, ci):
    msets = []
    for m in res.get("msets") or []:
        msets.append("(Build_mset %d %s %d %s %s %d %d %d %d %s %d)"
                     % (m["type"], cbool(m["not"]), m["out"], cx.n(m["mark"]), cbool(m["must"]), m["lpm"], m["ps"], m["pe"], m["mask"],
                        cx.t("list N", clist([str(b) for b in bytes.fromhex(m["pname"])])), m["dscp"]))
    insts = []
    for i in res.get("installs") or []:
        insts.append("(Build_obs_install %d %d %d %s\n %s %s %d %s\n %s)"
                     % (i.get("alloc", 0), i.get("next", 0), kern_class(i), tries_to_coq(cx, i.get("tries")),
                        clist([big(cx, h) for h in i.get("kern") or []]), clist([str(k) for k in i.get("rkeys") or []]), i.get("metalen", 0),
                        clist([str(x) for x in i.get("slots") or []]), clist([clist([big(cx, k) for k in ks]) for ks in i.get("keys") or []])))
    pkts = [packet_to_coq(cx, pk, r, cwords.get((ci, j))) for j, (pk, r) in enumerate(zip(case["packets"], res.get("results") or []))]
    return ("(Build_obs_case %s\n %s\n %s %s\n %s\n %s\n %s)"
            % (clist(msets), tries_to_coq(cx, res.get("tries")), clist([str(x) for x in case["reloads"]]),
               clist([COQ_STEP[ch] for ch in res.get("order", "SIU")]),
               clist([big(cx, h) for h in res.get("raw") or []]), clist(insts), clist(pkts)))


def consistent_inputs(case, res):
    """the 16-byte forms the Go side handed to Match are the numbers the Coq packet carries"""
    for p, r in zip(case["packets"], res.get("results") or []):
        if r.get("src16") and (int(r["src16"], 16) != p["src128"] or int(r["dst16"], 16) != p["dst128"]):
            return False
    return True


CPR = 0xFD   # consts.OutboundControlPlaneRouting; refreshed from the translator in main()


def expected_py(dport, r):
    if r.get("err"):
        return None
    if dport == 53 and not r["must"]:
        return (CPR, r["mark"], False)
    return (r["o"], r["mark"], r["must"])


def decode_py(w):
    if w is None or w < 0:
        return None
    return (w & 0xff, (w >> 8) & 0xffffffff, bool((w >> 40) & 1))


def run_impl(sc, gobin, cbin, cases, tag):
    """both real implementations: returns (go results, C words, pre-errors, indices of comparable cases, fatal)"""
    results, err = run_go(sc, gobin, cases, tag)
    if err:
        return None, None, None, None, err
    pre, idx = {}, []
    for i, (c, r) in enumerate(zip(cases, results)):
        if r.get("stage"):
            # text not accepted / builder rejects / panic: not an installable program (C01/C17 territory) unless harness trouble
            pre[i] = [(0, 8)] if r["stage"] in ("harness", "compile", "panic") else [(0, 0)]
            continue
        if not consistent_inputs(c, r):
            pre[i] = [(0, 8)]
            continue
        idx.append(i)
    runnable = [i for i in idx if installed(results[i])]
    cwords = {}
    if runnable:
        cwords, err = run_c(sc, cbin, c_input(cases, results, runnable), tag)
        if err:
            return results, None, pre, idx, err
    return results, cwords, pre, idx, None


def py_spec_fail(cases, results, cwords, idx):
    """the property on the two real implementations, computed without Coq: {case: [packet indices]}"""
    bad = {}
    for i in idx:
        if not installed(results[i]):
            continue
        for j, (p, r) in enumerate(zip(cases[i]["packets"], results[i]["results"])):
            if decode_py(cwords.get((i, j))) != expected_py(p["dport"], r):
                bad.setdefault(i, []).append(j)
    return bad


def run_batch(sc, gobin, cbin, cases, tag):
    """returns (errors {case: [(pkt, code)]}, sigs, go results, c words, fatal)"""
    results, cwords, pre, idx, err = run_impl(sc, gobin, cbin, cases, tag)
    if err:
        return None, None, results, cwords, err
    cx = c01.Ctx()
    cx.pool = vlib.NumPool("c02k")
    terms = [case_to_coq(cx, cases[i], results[i], cwords, i) for i in idx]
    text = ("From Coq Require Import List NArith Bool String.\nFrom Dae Require Import C01_Spec C01_Model C02_Spec C02_Model C02_Check.\n"
            "Import ListNotations.\nOpen Scope N_scope.\n" + cx.header() +
            "".join("Definition case%d : obs_case := %s.\n" % (j, t) for j, t in enumerate(terms)) +
            "Definition cases : list obs_case := %s.\n" % clist(["case%d" % j for j in range(len(terms))]) +
            "Definition R := Eval vm_compute in map check_case cases.\nPrint R.\n"
            "Definition S := Eval vm_compute in map case_signature cases.\nPrint S.\n")
    name = "C02_cases_%s_%d" % (tag, os.getpid())
    ok, outtxt = vlib.coq_eval(name, text)
    if ok:
        try:
            os.remove(os.path.join(vlib.COQ, "cases", name + ".v"))
        except OSError:
            pass
    else:
        return None, None, results, cwords, "coq evaluation failed: " + outtxt[-3000:]
    m = re.search(r"R\s*=\s*(.*?)\n\s*:\s*list", outtxt, re.S)
    body = re.sub(r"\s+", "", m.group(1))
    per = re.findall(r"\[((?:\(\d+,\d+\);?)*)\]", body[1:-1])
    if len(per) != len(idx):
        return None, None, results, cwords, "cannot parse coq output (%d vs %d): %s" % (len(per), len(idx), body[:500])
    errors = {i: e for i, e in pre.items() if e != [(0, 0)]}
    for i, p in zip(idx, per):
        e = [(int(a), int(b)) for a, b in re.findall(r"\((\d+),(\d+)\)", p)]
        if e:
            errors[i] = e
    m2 = re.search(r"S\s*=\s*(.*?)\n\s*:\s*list", outtxt, re.S)
    sigs = re.findall(r"\((\d+),(\d+),(\d+),(\d+),(\d+)\)", re.sub(r"\s+", "", m2.group(1))) if m2 else []
    pybad = py_spec_fail(cases, results, cwords, idx)
    coqbad = {i: sorted(p for (p, c) in e if c == 2) for i, e in errors.items() if any(c == 2 for (_, c) in e)}
    if {i: sorted(v) for i, v in pybad.items()} != coqbad:
        return errors, sigs, results, cwords, "orchestrator and Coq disagree on C = dns_adjust(Go): %s vs %s" % (str(pybad)[:300], str(coqbad)[:300])
    return errors, sigs, results, cwords, None


# ----------------------------------------------------------------------------------------------
# shrinking and classification
# ----------------------------------------------------------------------------------------------

def has_code(errs, i, code):
    return any(c == code for (_, c) in errs.get(i, []))


def still_fails(sc, gobin, cbin, cases, tag):
    """per case: does the (single) probe still violate C = dns_adjust(Go)?  Only the two implementations run."""
    results, cwords, pre, idx, err = run_impl(sc, gobin, cbin, cases, tag)
    if err:
        return None
    bad = py_spec_fail(cases, results, cwords, idx)
    return [i in bad for i in range(len(cases))]


def shrink(sc, gobin, cbin, prog, pkt, reloads, order):
    for rnd in range(12):
        cands = c01.shrink_candidates(prog)
        if not cands:
            break
        f = still_fails(sc, gobin, cbin, [make_case(p, [pkt], reloads, order=order) for p in cands], "shrink")
        if f is None:
            break
        hit = [i for i in range(len(cands)) if f[i]]
        if not hit:
            break
        prog = min((cands[i] for i in hit), key=c01.prog_size)
    if reloads:
        f = still_fails(sc, gobin, cbin, [make_case(prog, [pkt], [], order=order)], "shrinkr")
        if f and f[0]:
            reloads = []
    for o in ("SIU", "SUI"):        # the simplest order that still fails
        if o != order and len(o) <= len(order):
            f = still_fails(sc, gobin, cbin, [make_case(prog, [pkt], reloads, order=o)], "shrinko")
            if f and f[0]:
                order = o
                break
    neutral = {"domain": "", "pname": "00" * 16, "mac": "0" * 12, "dscp": 0, "sport": 0, "dport": 0, "wan": False}
    pk = dict(pkt)
    for k in [k for k, v in neutral.items() if pkt[k] != v]:   # one field at a time, keeping what still fails
        c = dict(pk)
        c[k] = neutral[k]
        f = still_fails(sc, gobin, cbin, [make_case(prog, [c], reloads, order=order)], "shrinkp")
        if f and f[0]:
            pk = c
    return prog, pk, reloads, order


def matcher_ids(prog, pkt, outside):
    kinds = sorted(set(c["kind"] for r in prog["rules"] for c in r["conds"]))
    ids = ["kinds=" + "+".join(kinds)]
    if outside:
        ids.append("C02/lan-probe-with-process-name")   # not generated: outside the property's quantifier
    return sorted(set(ids))


def probe_view(p):
    return {k: p[k] for k in GO_PKT_KEYS}


def main(argv):
    args = vlib.main_args(argv)
    out = vlib.Outcome(PID, args.tier, args.seed)
    rng = vlib.rng_for(args.seed, PID)
    quick = args.tier == "quick"
    n_prog = 110 if quick else 2500
    n_pkt = 28 if quick else 48

    cov = {"obligations": 0, "discharged": 0,
           "checker_cmd": "cd /verif/coq && coq_makefile -f _CoqProject -o Makefile && make -j16 " + " ".join(TARGETS) + " && coqc -Q . Dae C02_Props.v (Print Assumptions captured)",
           "trusted_base": vlib.TRUSTED_BASE_COMMON + [
               "host build of control/kern/tproxy.c (clang, shim headers harness/c/headers) and the in-process map runtime harness/c/maprt.h standing in for the kernel's maps: array (zero-initialised), hash, array-of-maps, LPM trie with the documented longest-prefix semantics; bpf_loop is a plain loop",
               "the kernel-side data is obtained through builder.KernspaceSnapshot() and read from the snapshot at the time of each (replayed) snapshot.BuildKernspace call, in the production orders relative to builder.BuildUserspace(); source-shape checks guard NewControlPlane / CommitPreparedDatapath / RebuildReloadDatapath's order and the snapshot's forwarding",
               "the production encoders of control/bpf_utils.go (excluded by the dae_stub_ebpf tag) are lifted as text into the harness on every run; buildRoutingKernspace's map writes cannot run without a kernel: the harness replays its steps with the real reserveLpmRingSlots, rewriteKernRulesWithRingLpmIndex, common.ARangeU32 and the lifted slot expression; a source-shape check guards the sequence",
               "the C driver builds route()'s arguments the way do_tproxy_lan_ingress / do_tproxy_wan_egress_{tcp,udp} do (flag words, mac_be, l4 header); the hooks themselves are C03's subject",
               "the BPF verifier, JIT, per-CPU scratch maps and real concurrency are not modelled"],
           "evaluations": 0, "distinct_nontrivial": 0, "rule": "", "samples": [], "traces_validated_against_impl": 0}
    out.coverage = cov
    out.assumptions = ["LPM lookups: the kernel trie answers by longest-prefix semantics over the installed keys; the userspace trie is modelled as CIDR containment (C12 proves it); every probe compares both real answers through the decisions",
                       "the domain_routing_map entry of the destination address is the bitmap MatchDomainBitmap returns for the probe's domain (maintained by C10; produced here by the real buildDomainRoutingOwnerSnapshot)",
                       "probes are those of the property's quantifier: a LAN probe carries no process name (do_tproxy_lan_ingress never passes one); without this side condition the statement is false (C02_kscan_scan_unrestricted_refuted: pname(curl) and is_wan=0 with the name curl)",
                       "no domain is bound to an unspecified destination address (extractIPsFromDnsCache skips :: and 0.0.0.0): probes to such addresses carry no domain",
                       "at most MaxMatchSetLen match-sets and LPM tries (larger programs are rejected at build time; C17)"]

    with vlib.Scratch() as sc:
        try:
            overlay = lift_sources(sc)
        except AnchorMoved as e:
            out.violation("anchor", {"broken": str(e)}, "translator anchor moved: " + str(e), no_failing_input=True)
            return out.finish()
        try:
            d = cbuild.prepare(sc)
            cbin, clog = cbuild.compile(d, DRIVER, "c02drv")
        except Exception as e:
            cbin, clog = None, str(e)
        if cbin is None:
            out.violation("build", {"broken": "C harness build against %s failed" % vlib.REPO, "log": clog[-3000:]},
                          "C correspondence harness no longer builds against tproxy.c", no_failing_input=True)
            return out.finish()
        gobin, blog = vlib.build_go_test_binary(sc, "control", HARNESS, out_name="c02.test", extra_overlay=overlay)
        if gobin is None:
            out.violation("build", {"broken": "Go harness build failed", "log": blog[-3000:]},
                          "Go correspondence harness no longer builds against the repository", no_failing_input=True)
            return out.finish()

        # layout and enum values from both compilers -> gen, then the proofs
        rc, so, se, _ = vlib.run([cbin], input="LAYOUT\n", timeout=60)
        gl, err = run_go(sc, gobin, [{"layout": True}], "lay")
        try:
            if rc != 0 or err:
                raise AnchorMoved("layout report failed: %s %s" % (se[-500:], err))
            goc = c01.translate_consts()
            global CPR
            CPR = goc["OutboundControlPlaneRouting"]
            write_consts(json.loads(so), gl[0]["layout"], goc)
        except (AnchorMoved, ValueError, KeyError) as e:
            out.violation("anchor", {"broken": str(e)}, "layout/enum translator failed: " + str(e), no_failing_input=True)
            return out.finish()
        proof_ok, pinfo = vlib.proof_stage(out, PROPS, TARGETS)
        cov.update(obligations=pinfo["obligations"], discharged=pinfo["discharged"], theorems=pinfo.get("theorems", []),
                   print_assumptions=pinfo.get("assumptions", []))

        if args.replay:
            payload = json.load(open(args.replay))["replay"]
            if "program" not in payload:
                print("replay file names a broken proof obligation / correspondence, not an input:")
                print(json.dumps(payload, indent=1)[:3000])
                return 1
            pk = payload["packet"]
            case = make_case(payload["program"], [pk], payload.get("reloads", []), order=payload.get("order", "SIU"))
            errs, _, results, cwords, fatal = run_batch(sc, gobin, cbin, [case], "replay")
            print("program:\n" + case["text"])
            print("steps (S snapshot, U BuildUserspace, I install from the snapshot):", case["order"])
            print("probe:", json.dumps(probe_view(pk)))
            if results:
                r0 = (results[0].get("results") or [{}])[0]
                print("userspace matcher (Go):", json.dumps({k: r0.get(k) for k in ("o", "mark", "must", "err")}))
                w = (cwords or {}).get((0, 0))
                print("kernel route() word:", w, "" if w is None or w < 0 else "= outbound %d mark %d must %d" % (w & 0xff, (w >> 8) & 0xffffffff, (w >> 40) & 1))
            print("codes: 1 C<>kernel model  2 C<>dns_adjust(Go) [the property]  3 kernel model<>spec  4 Go<>userspace model  5/6/7 encodings  9 probe outside the quantifier (LAN probe with a process name)")
            print(json.dumps({"errors": errs, "fatal": fatal}))
            return 1 if (fatal or errs) else 0

        corpus = []
        cdir = os.path.join(vlib.VERIF, "corpus", PID)
        if os.path.isdir(cdir):
            for n in sorted(os.listdir(cdir)):
                if n.endswith(".json"):
                    j = json.load(open(os.path.join(cdir, n)))
                    corpus.append(make_case(j["program"], j["packets"], j.get("reloads", []), order=j.get("order", "SIU")))

        def gen(n, big_every=0):
            cs = []
            for i in range(n):
                prog = gen_wide_program(rng) if (big_every and i % (3 * big_every) == 5) else gen_program(rng, big=(big_every and i % big_every == 0))
                order = pick_order(rng, prog)
                cs.append(make_case(prog, gen_packets(rng, prog, n_pkt), reload_history(rng), rng, order=order))
            return cs

        cases = corpus + gen(n_prog, big_every=(13 if quick else 7))
        all_err, sigs, all_res, all_cw = {}, [], {}, {}
        fatal = None
        shard = 300 if quick else 800

        def run_all(cs, base, tagp):
            nonlocal fatal
            for s in range(0, len(cs), shard):
                errs, sg, results, cw, f = run_batch(sc, gobin, cbin, cs[s:s + shard], "%s%d" % (tagp, s))
                if f:
                    fatal = f
                    return
                for i, e in errs.items():
                    all_err[base + s + i] = e
                for i, r in enumerate(results):
                    all_res[base + s + i] = r
                for (i, j), w in cw.items():
                    all_cw[(base + s + i, j)] = w
                sigs.extend(sg)

        run_all(cases, 0, "b")
        widened = False
        spec_fail = lambda: sorted(i for i, e in all_err.items() if any(c == 2 for (_, c) in e))
        def corr_broken(e):
            """a correspondence failure: impl<>model, encodings, harness trouble, or model<>spec on a probe where impl=spec"""
            return any(c in (1, 4, 5, 6, 7, 8) or (c == 3 and (p, 2) not in e) for (p, c) in e)
        other_fail = lambda: sorted(i for i, e in all_err.items() if corr_broken(e))
        # property violations on probes of the quantifier
        real_spec = lambda: sorted(i for i, e in all_err.items() if any(c == 2 and (p, 9) not in e for (p, c) in e))
        if (not proof_ok or other_fail()) and not real_spec() and not fatal:
            widened = True
            extra = gen(n_prog * (10 if quick else 2), big_every=9)
            base = len(cases)
            cases += extra
            run_all(extra, base, "w")
        n_eval = sum(len(c["packets"]) for c in cases)

        queue = []
        for i in sorted(spec_fail(), key=lambda i: c01.prog_size(cases[i]["prog"])):
            pidx = [p for (p, c) in all_err[i] if c == 2][0]
            queue.append((cases[i]["prog"], cases[i]["packets"][pidx], cases[i]["reloads"], i, cases[i]["order"]))
        n_classes = 0
        while queue and n_classes < 3:
            prog, pkt, rel, i, order = queue.pop(0)
            sprog, spkt, srel, sorder = shrink(sc, gobin, cbin, prog, pkt, rel, order)
            e, _, res1, cw1, _ = run_batch(sc, gobin, cbin, [make_case(sprog, [spkt], srel, order=sorder)], "final")
            guard_violated = has_code(e or {}, 0, 9)
            ids = matcher_ids(sprog, spkt, guard_violated)
            n_classes += 1
            impl = (res1[0].get("results") or [{}])[0] if res1 else {}
            w = (cw1 or {}).get((0, 0))
            kdesc = "route() = %s" % w if (w is None or w < 0) else "route() word %d = outbound %d mark %d must %d" % (w, w & 0xff, (w >> 8) & 0xffffffff, (w >> 40) & 1)
            out.violation("impl_vs_spec_%d" % n_classes,
                          {"program": sprog, "program_text": c01.render(sprog), "packet": spkt, "reloads": srel, "order": sorder,
                           "order_meaning": "S builder.KernspaceSnapshot(), U builder.BuildUserspace(), I snapshot.BuildKernspace() - SIU first start, SUI staged reload (CommitPreparedDatapath), ..I again RebuildReloadDatapath",
                           "installed_prefix_lists": [i_.get("tries") for i_ in (res1[0].get("installs") or [])] if res1 else None, "lowered_prefix_lists": res1[0].get("tries") if res1 else None,
                           "userspace": {k: impl.get(k) for k in ("o", "mark", "must", "err")}, "kernel_word": w, "original_case_index": i,
                           "outside_quantifier_lan_probe_with_name": guard_violated, "port_codec": (res1[0].get("portcodec") if res1 else None),
                           "how": "./check C02 --replay <this file>; the text is parsed by config_parser, lowered by NewRoutingMatcherBuilder, its match-set bytes, ring slots and LPM keys are loaded into the host-compiled tproxy.c maps and the real route() is called with the probe; RoutingMatcher.Match gets the same probe"},
                          "kernel route() and userspace RoutingMatcher.Match decide differently (%s, steps %s): %s, userspace %s" % (
                              ", ".join(ids), sorder, kdesc, json.dumps({k: impl.get(k) for k in ("o", "mark", "must", "err")})),
                          matchers=ids)
            if queue:
                feats = set(c["kind"] for r in sprog["rules"] for c in r["conds"])
                queue = [q for q in queue if not feats <= set(c["kind"] for r in q[0]["rules"] for c in r["conds"])]
        # correspondence failures on programs none of whose probes violates the property itself have no failing input
        unexplained = [] if real_spec() else [i for i in other_fail() if not has_code(all_err, i, 2)]
        if unexplained or fatal or not proof_ok:
            what = {}
            if not proof_ok:
                what["proof"] = pinfo["failed"]
            if fatal:
                what["correspondence"] = fatal
            of = unexplained
            if of:
                i = of[0]
                what["correspondence_case"] = {"errors": all_err[i], "program_text": cases[i]["text"], "program": cases[i]["prog"], "reloads": cases[i]["reloads"],
                                               "packets": [probe_view(cases[i]["packets"][p]) for (p, c) in all_err[i][:3] if p < len(cases[i]["packets"])],
                                               "impl": {k: all_res.get(i, {}).get(k) for k in ("stage", "err", "order", "tries", "installs", "raw")}, "order": cases[i]["order"],
                                               "codes": "1 C route()<>kernel model, 3 kernel model<>spec, 4 Go Match<>userspace model, 5 builder bytes<>enc_mset, 6 ring/rewrite/keys/meta<>model, 7 domain entry<>model, 8 harness trouble"}
            what["searched"] = "%d probes over %d programs (widened=%s); %d programs show a C<>dns_adjust(Go) disagreement, none of them explains this" % (n_eval, len(cases), widened, len(spec_fail()))
            out.violation("tie", what, "proof obligation or model correspondence no longer checks; no failing input found", no_failing_input=True)

        nontrivial = len(set(s for s in sigs if int(s[1]) >= 2))
        model_bad = len([i for i, e in all_err.items() if any(c in (1, 4, 5, 6, 7, 8) for (_, c) in e)])
        n_installed = len([i for i, r in all_res.items() if not r.get("stage") and installed(r)])
        orders = {}
        for c_ in cases:
            orders[c_["order"]] = orders.get(c_["order"], 0) + 1
        sample = cases[len(corpus)] if len(cases) > len(corpus) else cases[0]
        cov.update(evaluations=n_eval, programs=len(cases), programs_installed=n_installed, step_orders=orders, distinct_nontrivial=nontrivial, distinct_signatures=len(set(sigs)),
                   dns_handovers=sum(int(s[2]) for s in sigs), wan_probes=sum(int(s[3]) for s in sigs), must_decisions=sum(int(s[4]) for s in sigs),
                   rule="random routing programs as in C01 (0-40 rules over the ten functions, negation, keyed groups, must_rules, must_ prefix, (must), marks up to 2^32-1, group ids incl. 251) plus the empty process name, rendered as config text, "
                        "parsed and lowered by the real code; the ControlPlane's steps KernspaceSnapshot / BuildUserspace / snapshot.BuildKernspace executed in the orders SIU (first start), SUI (staged reload), SIUI and SUII (RebuildReloadDatapath) and USI (never in production: empty snapshot, install error), every order other than SIU on a program with LPM-backed sets; ring histories of earlier reloads (counts near 0, 512, 1019..1024) so that slots wrap; every LPM slot not written by the generation under test holds a match-everything trie; "
                        "probes from the program's boundary values, 30% to port 53 (tcp and udp), LAN (no process name) and WAN (name, or unknown process) with and without MAC, both families; "
                        "signature = (#match-sets, #distinct kernel result words, #DNS hand-overs, #WAN probes, #must decisions); non-trivial = at least two distinct result words",
                   traces_validated_against_impl=len(cases) - model_bad,
                   comparisons="per program: builder bytes = enc_mset; per replayed buildRoutingKernspace call: prefix lists read from the snapshot = the lowered program's (model log of the step machine), ring allocation/slots/rewritten rules/LPM keys/meta = install; per probe: C route() = kernel model (exact word), Go Match = userspace model, C = dns_adjust(Go), kernel model = dns_adjust(userspace model), domain entry = model",
                   samples=[{"text": sample["text"], "groups": sample["groups"], "reloads": sample["reloads"], "packets": [probe_view(p) for p in sample["packets"][:2]]}],
                   widened_search=widened)
    return out.finish()


if __name__ == "__main__":
    sys.exit(main(sys.argv[1:]))
