"""Shared machinery for the dae verification checks.

Every check (tools/cNN.py) follows the same pipeline (DESIGN.md section 3):

  1. translate   regenerate coq/gen/*.v from /repo's working tree (only rewritten when changed)
  2. prove       `make` the .vo targets of the property (full .vo build, shell timeout), re-compile the
                 property's *_Props.v to capture `Print Assumptions`, count obligations
  3. correspond  build the Go/C harness from /repo (overlay-injected harness files, tags
                 "dae_stub_ebpf verif"), run generated cases on the implementation, evaluate the
                 same cases in the Coq model and spec with vm_compute
  4. classify    impl<>spec -> VIOLATION with replay (unless listed in known_findings.txt);
                 broken proof / impl<>model without failing input -> VIOLATION ... no-failing-input-found
  5. evidence    write evidence/<id>.json
"""
import fcntl
import hashlib
import json
import os
import random
import re
import shutil
import subprocess
import sys
import tempfile
import time

VERIF = os.path.dirname(os.path.dirname(os.path.abspath(__file__)))
REPO = os.environ.get("VERIF_REPO", "/repo")
COQ = os.path.join(VERIF, "coq")
# A run against another tree (VERIF_REPO=<scratch worktree>, used for mutation/seed testing) must not
# disturb the shared development: it works on a private copy of coq/ (regenerated gen files, .vo files)
# and writes its evidence and replays under a private directory.
ALT_RUN = os.path.realpath(REPO) != "/repo"
OUTDIR = VERIF
if ALT_RUN:
    OUTDIR = "/var/tmp/verif-alt-" + hashlib.sha1(os.path.realpath(REPO).encode()).hexdigest()[:12]
    os.makedirs(os.path.join(OUTDIR, "coq"), exist_ok=True)
    subprocess.run(["rsync", "-a", "--delete", "--exclude", "cases/", "--exclude", ".lock*",
                    os.path.join(VERIF, "coq") + "/", os.path.join(OUTDIR, "coq") + "/"], check=True)
    COQ = os.path.join(OUTDIR, "coq")
GO_TOOLCHAINS = [
    "/root/go/pkg/mod/golang.org/toolchain@v0.0.1-go1.26.0.linux-amd64/bin",
    "/opt/veriftools/go1.26.8/bin",
]
TAGS = "dae_stub_ebpf verif"


def log(*a):
    print("[verif]", *a, file=sys.stderr, flush=True)


def go_env():
    env = dict(os.environ)
    for tc in GO_TOOLCHAINS:
        if os.path.exists(os.path.join(tc, "go")):
            env["PATH"] = tc + ":" + env.get("PATH", "")
            break
    env.update(GOFLAGS="-mod=mod", GOPROXY="off", GOTOOLCHAIN="local", CGO_ENABLED=env.get("CGO_ENABLED", "1"))
    env.pop("GOSUMDB", None)
    return env


class Scratch:
    """mktemp -d outside /repo and /verif, removed on exit."""

    def __init__(self, prefix="verif-"):
        base = os.environ.get("VERIF_SCRATCH_BASE", "/var/tmp")
        os.makedirs(base, exist_ok=True)
        self.dir = tempfile.mkdtemp(prefix=prefix, dir=base)

    def path(self, *p):
        return os.path.join(self.dir, *p)

    def __enter__(self):
        return self

    def __exit__(self, *a):
        shutil.rmtree(self.dir, ignore_errors=True)


def run(cmd, cwd=None, env=None, timeout=600, input=None, check=False):
    t0 = time.time()
    try:
        p = subprocess.run(cmd, cwd=cwd, env=env, input=input, capture_output=True, text=True, timeout=timeout)
        rc, out, err = p.returncode, p.stdout, p.stderr
    except subprocess.TimeoutExpired as e:
        rc = 124
        out = e.stdout.decode() if isinstance(e.stdout, bytes) else (e.stdout or "")
        err = (e.stderr.decode() if isinstance(e.stderr, bytes) else (e.stderr or "")) + "\nTIMEOUT"
    if check and rc != 0:
        raise RuntimeError("command failed (%d): %s\n%s\n%s" % (rc, cmd, out[-4000:], err[-4000:]))
    return rc, out, err, time.time() - t0


# ----------------------------------------------------------------------------------------------
# Go harness: harness files live in /verif/harness/<pkgdir>/*.go and are injected into the /repo
# package with `go test -overlay`, so /repo is not touched and unexported functions are reachable.
# ----------------------------------------------------------------------------------------------

def build_go_test_binary(scratch, pkg, harness_files, out_name=None, extra_overlay=None, timeout=1500):
    """pkg: path relative to /repo (e.g. 'control').  harness_files: paths relative to /verif/harness.
    Returns (binary_path or None, build_log)."""
    replace = {}
    for hf in harness_files:
        src = os.path.join(VERIF, "harness", hf)
        base = "zz_verif_" + os.path.basename(hf)
        if not base.endswith("_test.go"):
            base = base[:-3] + "_test.go"
        replace[os.path.join(REPO, pkg, base)] = src
    if extra_overlay:
        replace.update(extra_overlay)
    ov = scratch.path("overlay_%s.json" % pkg.replace("/", "_"))
    with open(ov, "w") as f:
        json.dump({"Replace": replace}, f)
    out = scratch.path(out_name or (pkg.replace("/", "_") + ".test"))
    cmd = ["go", "test", "-c", "-vet=off", "-tags", TAGS, "-overlay", ov, "-o", out, "./" + pkg]
    rc, so, se, dt = run(cmd, cwd=REPO, env=go_env(), timeout=timeout)
    logtxt = so + se
    if rc != 0 or not os.path.exists(out):
        return None, logtxt
    log("built %s harness in %.1fs" % (pkg, dt))
    return out, logtxt


def run_go_harness(binary, test_name, in_path, out_path, cwd=None, timeout=600, extra_env=None):
    env = go_env()
    env["VERIF_IN"] = in_path
    env["VERIF_OUT"] = out_path
    if extra_env:
        env.update(extra_env)
    cmd = [binary, "-test.run", "^%s$" % test_name, "-test.count=1", "-test.timeout", "%ds" % timeout]
    return run(cmd, cwd=cwd or os.path.dirname(binary), env=env, timeout=timeout + 30)


# ----------------------------------------------------------------------------------------------
# Coq
# ----------------------------------------------------------------------------------------------

class CoqLock:
    """flock on coq/.lock[.<name>]: the global lock protects _CoqProject/Makefile generation and the shared
    common/ targets; a per-property lock serialises builds of one property's files only."""

    def __init__(self, name="", shared=False):
        self.path = os.path.join(COQ, ".lock" + ("." + name if name else ""))
        self.shared = shared

    def __enter__(self):
        self.f = open(self.path, "w")
        fcntl.flock(self.f, fcntl.LOCK_SH if self.shared else fcntl.LOCK_EX)
        return self

    def __exit__(self, *a):
        fcntl.flock(self.f, fcntl.LOCK_UN)
        self.f.close()


def write_if_changed(path, text):
    os.makedirs(os.path.dirname(path), exist_ok=True)
    if os.path.exists(path) and open(path).read() == text:
        return False
    with open(path, "w") as f:
        f.write(text)
    return True


def coq_project_files():
    fs = []
    for sub in ("common", "gen", "."):
        d = os.path.join(COQ, sub)
        if not os.path.isdir(d):
            continue
        for n in sorted(os.listdir(d)):
            if n.endswith(".v"):
                fs.append(n if sub == "." else sub + "/" + n)
    return fs


def coq_prepare():
    """(Re)generate _CoqProject and Makefile when the file list changed."""
    files = coq_project_files()
    proj = "-Q . Dae\n" + "\n".join(files) + "\n"
    changed = write_if_changed(os.path.join(COQ, "_CoqProject"), proj)
    if changed or not os.path.exists(os.path.join(COQ, "Makefile")):
        run(["coq_makefile", "-f", "_CoqProject", "-o", "Makefile"], cwd=COQ, check=True)


def _lock_name(targets):
    for t in targets:
        b = os.path.basename(t)
        m = re.match(r"(C\d+)_", b)
        if m:
            return m.group(1)
    return "misc"


def coq_make(targets, timeout=1500, clean=False, exclusive=False):
    """Full .vo build of the given targets (paths relative to coq/). Returns (ok, log).
    Property builds hold the 'linkgate' lock shared; a cross-property build (Link_*.v, which may have to
    rebuild several properties' files) holds it exclusively, so the two kinds never write the same .vo
    at the same time."""
    t0 = time.time()
    if exclusive:
        with CoqLock("linkgate"):
            with CoqLock():
                coq_prepare()
            rc, so, se, dt = run(["timeout", str(timeout), "make", "-j16"] + list(targets), cwd=COQ, timeout=timeout + 30)
        log("coq make (exclusive) %s: rc=%d %.1fs (%.1fs incl. locks)" % (" ".join(targets)[:120], rc, dt, time.time() - t0))
        return rc == 0, so + se
    with CoqLock("linkgate", shared=True):
        return _coq_make_property(targets, timeout, clean, t0)


def _coq_make_property(targets, timeout, clean, t0):
    with CoqLock():
        coq_prepare()
        if clean:
            run(["make", "clean"], cwd=COQ, timeout=120)
            coq_prepare()
        common = [f[:-2] + ".vo" for f in coq_project_files() if f.startswith("common/")]
        if common:
            run(["timeout", str(timeout), "make", "-j8"] + common, cwd=COQ, timeout=timeout + 30)
    with CoqLock(_lock_name(targets)):
        # -k: a proof file that no longer compiles must not keep the independent targets (Cnn_Check.vo,
        # which the search for a failing input needs) from being rebuilt; rc stays non-zero.
        rc, so, se, dt = run(["timeout", str(timeout), "make", "-k", "-j16"] + list(targets), cwd=COQ, timeout=timeout + 30)
    log("coq make %s: rc=%d %.1fs (%.1fs incl. locks)" % (" ".join(targets)[:120], rc, dt, time.time() - t0))
    return rc == 0, so + se


def coq_compile_capture(vfile, timeout=600):
    """Recompile one file (relative to coq/) and return (ok, stdout+stderr) - used for *_Props.v so that
    `Print Assumptions` output is captured on every run."""
    # The output goes to a scratch .vo so that the real one keeps its time stamp (files that depend on it,
    # e.g. the Link_*.v compositions, are not rebuilt on every run).
    d = os.path.join(COQ, "cases", "capture_%d" % os.getpid())
    os.makedirs(d, exist_ok=True)
    tmp = os.path.join(d, os.path.basename(vfile)[:-2] + ".vo")   # coqc requires the same base name
    with CoqLock("linkgate", shared=True):
        rc, so, se, dt = run(["timeout", str(timeout), "coqc", "-Q", ".", "Dae", "-o", tmp, vfile], cwd=COQ, timeout=timeout + 30)
    shutil.rmtree(d, ignore_errors=True)
    return rc == 0, so + se


def coq_eval(name, text, timeout=900):
    """Write coq/cases/<name>.v, compile it, return (ok, output)."""
    d = os.path.join(COQ, "cases")
    os.makedirs(d, exist_ok=True)
    p = os.path.join(d, name + ".v")
    with open(p, "w") as f:
        f.write(text)
    rc, so, se, dt = run(["timeout", str(timeout), "coqc", "-Q", ".", "Dae", "cases/" + name + ".v"], cwd=COQ, timeout=timeout + 30)
    log("coq eval %s: rc=%d %.1fs" % (name, rc, dt))
    for ext in (".vo", ".vok", ".vos", ".glob"):
        try:
            os.remove(os.path.join(d, name + ext))
        except OSError:
            pass
    try:
        os.remove(os.path.join(d, "." + name + ".aux"))
    except OSError:
        pass
    return rc == 0, so + se


def coqchk(module, timeout=3000):
    """Independent re-check of a compiled module and everything it depends on; -o lists the axioms."""
    with CoqLock():
        rc, so, se, dt = run(["timeout", str(timeout), "coqchk", "-silent", "-o", "-Q", ".", "Dae", module], cwd=COQ, timeout=timeout + 30)
    log("coqchk %s: rc=%d %.0fs" % (module, rc, dt))
    return rc == 0, so + se


THEOREM_RE = re.compile(r"^\s*(Theorem|Lemma|Corollary|Example)\s+([A-Za-z0-9_']+)", re.M)
FORBIDDEN_RE = re.compile(
    r"\b(Admitted|admit|Axiom|Axioms|Parameter|Parameters|Conjecture|Abort All|Unset Guard Checking|"
    r"Unset Positivity Checking|Unset Universe Checking|bypass_check|Admit Obligations|type-in-type|native_compute)\b")


def coq_hygiene(files):
    """grep for forbidden declarations in the given .v files (relative to coq/). Returns list of hits.
    `Variable`/`Hypothesis`/`Context` are allowed only inside sections; checked by a section depth scan."""
    hits = []
    for rel in files:
        p = os.path.join(COQ, rel)
        if not os.path.exists(p):
            continue
        txt = strip_coq_comments(open(p).read())
        depth = 0
        for i, line in enumerate(txt.split("\n"), 1):
            if re.match(r"\s*Section\s+\w+\s*\.", line):
                depth += 1
            elif re.match(r"\s*End\s+\w+\s*\.", line) and depth > 0:
                depth -= 1
            m = FORBIDDEN_RE.search(line)
            if m:
                hits.append("%s:%d: %s" % (rel, i, m.group(1)))
            if depth == 0 and re.match(r"\s*(Variable|Variables|Hypothesis|Hypotheses|Context)\b", line):
                hits.append("%s:%d: %s outside section" % (rel, i, line.strip().split()[0]))
    return hits


def strip_coq_comments(s):
    out = []
    depth = 0
    i = 0
    instr = False
    while i < len(s):
        if not instr and s.startswith("(*", i):
            depth += 1
            i += 2
            continue
        if not instr and depth > 0 and s.startswith("*)", i):
            depth -= 1
            i += 2
            continue
        c = s[i]
        if depth == 0:
            if c == '"':
                instr = not instr
            out.append(c)
        elif c == "\n":
            out.append(c)
        i += 1
    return "".join(out)


def props_theorems(props_file):
    txt = strip_coq_comments(open(os.path.join(COQ, props_file)).read())
    return [m.group(2) for m in THEOREM_RE.finditer(txt)]


def parse_assumptions(output):
    """Split coqc output of a *_Props.v file into per-`Print Assumptions` blocks."""
    blocks = []
    cur = None
    for line in output.split("\n"):
        if line.startswith("Closed under the global context"):
            blocks.append("Closed under the global context")
            cur = None
        elif line.startswith("Axioms:"):
            cur = []
            blocks.append(cur)
        elif cur is not None:
            if line.strip() == "" or not (line.startswith(" ") or re.match(r"^[A-Za-z_][\w.']* :", line)):
                cur = None
            else:
                cur.append(line.rstrip())
    res = []
    for b in blocks:
        res.append(b if isinstance(b, str) else "Axioms: " + " ".join(x.strip() for x in b))
    return res


# ----------------------------------------------------------------------------------------------
# Coq term printing helpers
# ----------------------------------------------------------------------------------------------

def cN(n):
    """N literal; callers open N_scope. Big numbers in hex: Coq's decimal number notation is quadratic."""
    return hex(n) if n >= 1 << 32 else str(n)


class NumPool:
    """Intern big N constants as named definitions: elaborating a 300-digit literal costs ~10 ms, and the
    same addresses/bitmaps occur thousands of times in a cases file."""

    def __init__(self, prefix="k"):
        self.names = {}
        self.prefix = prefix

    def n(self, x):
        if x < 1 << 16:
            return str(x)
        if x not in self.names:
            self.names[x] = "%s%d" % (self.prefix, len(self.names))
        return self.names[x]

    def header(self):
        return "".join("Definition %s : N := %s.\n" % (nm, hex(x)) for x, nm in self.names.items())


def cZ(n):
    return "(%d)%%Z" % n


def cnat(n):
    assert 0 <= n <= 5000, n
    return "%d%%nat" % n


def cbool(b):
    return "true" if b else "false"


def clist(xs):
    return "[" + "; ".join(xs) + "]"


def cpair(*xs):
    return "(" + ", ".join(xs) + ")"


def copt(x):
    return "None" if x is None else "(Some %s)" % x


def cstr(s):
    """Coq string literal for a python str of bytes<128 printable; other bytes via String (ascii) cons."""
    if all(32 <= ord(c) < 127 and c != '"' for c in s):
        return '"%s"%%string' % s
    parts = "EmptyString"
    for c in reversed(s):
        parts = "(String (Ascii.ascii_of_nat %d) %s)" % (ord(c) & 255, parts)
    return parts


def cbytes(bs):
    """list N of bytes"""
    return "[" + ";".join(str(b) for b in bs) + "]%N"


# ----------------------------------------------------------------------------------------------
# Known findings
# ----------------------------------------------------------------------------------------------

def load_known_findings():
    """known_findings.txt lines:
         open: property=Cnn match=<matcher-id> <what fails>
         fixed: property=Cnn <commit> <what failed>
    Only open: lines suppress."""
    res = {"open": [], "fixed": []}
    p = os.path.join(VERIF, "known_findings.txt")
    if not os.path.exists(p):
        return res
    for line in open(p):
        line = line.strip()
        if not line or line.startswith("#"):
            continue
        m = re.match(r"open:\s+property=(\S+)\s+match=(\S+)\s+(.*)$", line)
        if m:
            res["open"].append({"property": m.group(1), "match": m.group(2), "what": m.group(3)})
            continue
        m = re.match(r"fixed:\s+property=(\S+)\s+(\S+)\s+(.*)$", line)
        if m:
            res["fixed"].append({"property": m.group(1), "commit": m.group(2), "what": m.group(3)})
    return res


# ----------------------------------------------------------------------------------------------
# Result / evidence
# ----------------------------------------------------------------------------------------------

class Outcome:
    """Collects what a check run found and turns it into stdout lines, exit code and evidence."""

    def __init__(self, pid, tier, seed):
        self.pid = pid
        self.tier = tier
        self.seed = seed
        self.t0 = time.time()
        self.violations = []      # (replay_path, description, no_failing_input: bool)
        self.known = []           # descriptions
        self.coverage = {}
        self.assumptions = []
        self.notes = []
        self.replay_dir = os.path.join(OUTDIR, "replays")
        os.makedirs(self.replay_dir, exist_ok=True)
        self.kf = load_known_findings()
        self._known_seen = set()

    def replay_path(self, tag):
        return os.path.join(self.replay_dir, "%s_%s_%d.json" % (self.pid, tag, self.seed))

    def violation(self, tag, payload, description, matchers=(), no_failing_input=False):
        """Record a violation unless one of `matchers` (ids computed by the check from the minimised failing
        input) is listed as an open known finding for this property."""
        if not no_failing_input:
            for e in self.kf["open"]:
                if e["property"] == self.pid and e["match"] in matchers:
                    if e["match"] not in self._known_seen:
                        self._known_seen.add(e["match"])
                        self.known.append(e["what"])
                    return "known"
        path = self.replay_path(tag)
        with open(path, "w") as f:
            json.dump({"property": self.pid, "seed": self.seed, "tier": self.tier, "description": description,
                       "no_failing_input_found": no_failing_input, "replay": payload}, f, indent=1, default=str)
        self.violations.append((path, description, no_failing_input))
        return "violation"

    def finish(self, level="proof"):
        wall = time.time() - self.t0
        ev = {
            "property_id": self.pid,
            "tier": self.tier,
            "seed": self.seed,
            "level": level,
            "coverage": self.coverage,
            "assumptions": self.assumptions,
            "wall_s": round(wall, 2),
            "violations": len(self.violations),
        }
        if self.notes:
            ev["notes"] = self.notes
        if self.known:
            ev["known_findings_reported"] = self.known
        os.makedirs(os.path.join(OUTDIR, "evidence"), exist_ok=True)
        with open(os.path.join(OUTDIR, "evidence", self.pid + ".json"), "w") as f:
            json.dump(ev, f, indent=1, default=str)
        for k in self.known:
            print("KNOWN-FINDING: property=%s %s" % (self.pid, k))
        seen = set()
        for path, desc, nfi in self.violations:
            if path in seen:
                continue
            seen.add(path)
            print("VIOLATION property=%s replay=%s%s" % (self.pid, path, " no-failing-input-found" if nfi else ""))
            log("  " + desc)
        sys.stdout.flush()
        return 1 if self.violations else 0


def proof_stage(out, props_file, targets, extra_hygiene_files=()):
    """Tie 1: build the proofs, count obligations, capture Print Assumptions, hygiene grep.
    Returns (ok, info).  On failure the caller widens its search and finally reports
    no-failing-input-found naming `info['failed']`."""
    info = {"obligations": 0, "discharged": 0, "failed": None, "assumptions": []}
    theorems = props_theorems(props_file)
    info["obligations"] = len(theorems)
    info["theorems"] = theorems
    ok, mlog = coq_make(targets)
    if not ok:
        m = re.findall(r'File "\./([^"]+)", line (\d+)', mlog)
        info["failed"] = {"stage": "make", "where": m[-1] if m else None, "log_tail": mlog[-3000:]}
        return False, info
    ok, plog = coq_compile_capture(props_file)
    if not ok:
        info["failed"] = {"stage": "props", "log_tail": plog[-3000:]}
        return False, info
    ass = parse_assumptions(plog)
    info["assumptions"] = ass
    info["discharged"] = len(theorems)
    pid = os.path.basename(props_file).split("_")[0]
    files = [f for f in coq_project_files() if f.startswith(("common/", "gen/")) or os.path.basename(f).startswith(pid + "_")
             or any(os.path.basename(f).startswith(x) for x in extra_hygiene_files)]
    hits = coq_hygiene(files)
    if hits:
        info["failed"] = {"stage": "hygiene", "hits": hits}
        info["discharged"] = 0
        return False, info
    if len(ass) < len([t for t in theorems if True]) and "Print Assumptions" in open(os.path.join(COQ, props_file)).read():
        # every property theorem is followed by Print Assumptions; fewer blocks than expected is suspicious
        n_pa = len(re.findall(r"^\s*Print Assumptions", strip_coq_comments(open(os.path.join(COQ, props_file)).read()), re.M))
        if len(ass) != n_pa:
            info["failed"] = {"stage": "assumptions", "expected": n_pa, "got": len(ass)}
            return False, info
    return True, info


TRUSTED_BASE_COMMON = [
    "Coq 8.16.1 kernel (coqc), vm_compute bytecode VM; native_compute not used; no guard/positivity/universe switches",
    "hand-written Gallina model of the Go/C code, tied to /repo only by the correspondence run of this check",
    "Go harness injected into the /repo package by `go test -overlay` (tags dae_stub_ebpf verif) and its canonicalisation",
    "python orchestrator (case generation, Coq term printing, comparison of projected observables)",
]


def rng_for(seed, pid):
    h = hashlib.sha256(("%s:%d" % (pid, seed)).encode()).digest()
    return random.Random(int.from_bytes(h[:8], "big"))


def parse_coq_list_of_nat(output, name):
    """Find `name = [a; b; c]` (possibly wrapped over lines) in coqc output and return python ints."""
    m = re.search(re.escape(name) + r"\s*=\s*\[(.*?)\]\s*:", output, re.S)
    if not m:
        return None
    body = m.group(1).replace("\n", " ")
    body = re.sub(r"%\w+", "", body)
    return [int(x) for x in re.split(r"[;\s]+", body) if x.strip()]


def main_args(argv):
    import argparse
    ap = argparse.ArgumentParser()
    ap.add_argument("--tier", default=os.environ.get("VERIF_TIER", "quick"), choices=["quick", "thorough"])
    ap.add_argument("--seed", type=int, default=int(os.environ.get("VERIF_SEED", "1") or 1))
    ap.add_argument("--replay", default=None)
    return ap.parse_args(argv)
