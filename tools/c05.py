"""C05 - TCP relay delivers both byte streams intact and honours half-close (DESIGN.md 6/C05)."""
import json
import os
import re
import sys

sys.path.insert(0, os.path.dirname(os.path.abspath(__file__)))
import vlib
from vlib import log

PID = "C05"
PROPS = "C05_Props.v"
TARGETS = ["C05_Props.vo", "C05_Check.vo"]  # Props pulls in C05_Proofs, C05_HCDefs/HCRelay/HCPrologue/HalfClose, C05_Delay
HARNESS = ["control/common_test.go", "control/c05_test.go", "control/c05_splice_test.go"]


# ----------------------------------------------------------------------------------------------
# translators: constants -> coq/gen/C05_Extracted.v ; handleConn prologue -> generated Go file
# ----------------------------------------------------------------------------------------------

class AnchorMoved(Exception):
    pass


def _read(rel):
    return open(os.path.join(vlib.REPO, rel)).read()


def _dur_ms(expr):
    m = re.fullmatch(r"\s*(\d+)\s*\*\s*time\.(Second|Millisecond|Minute)\s*", expr)
    if not m:
        raise AnchorMoved("duration expression not understood: " + expr)
    return int(m.group(1)) * {"Second": 1000, "Millisecond": 1, "Minute": 60000}[m.group(2)]


def extract_consts():
    tcp = _read("control/tcp.go")
    pol = _read("control/tcp_sniff_policy.go")
    core = _read("control/tcp_relay_core.go")
    eng = _read("control/tcp_copy_engine.go")
    gen = _read("common/consts/ebpf_generated.go")

    def one(pat, txt, what):
        m = re.search(pat, txt, re.S)
        if not m:
            raise AnchorMoved(what)
        return m

    c = {}
    c["dns_first"] = _dur_ms(one(r"\n\tTCPDNSFirstReadTimeout\s*=\s*([^\n]+)\n", tcp, "TCPDNSFirstReadTimeout").group(1))
    # the fast path must pass exactly this constant for the first read
    one(r"readDnsMsgFromBufio\(bufReader, TCPDNSFirstReadTimeout, lConn\)", tcp, "first read uses TCPDNSFirstReadTimeout")
    c["half_close"] = _dur_ms(one(r"\nconst relayHalfCloseTimeout\s*=\s*([^\n]+)\n", core, "relayHalfCloseTimeout").group(1))
    one(r"halfCloseTimeout:\s*relayHalfCloseTimeout,", core, "newRelayCore uses relayHalfCloseTimeout")
    c["prefetch"] = int(one(r"\n\ttcpSniffPrefetchBytes\s*=\s*(\d+)\n", pol, "tcpSniffPrefetchBytes").group(1))
    m = one(r"\nconst relayCopyBufferSize\s*=\s*(\d+)\s*<<\s*(\d+)\n", eng, "relayCopyBufferSize")
    c["relay_buf"] = int(m.group(1)) << int(m.group(2))
    blk = one(r"var tcpSniffingExcludedPorts = map\[uint16\]bool\{(.*?)\n\}", pol, "tcpSniffingExcludedPorts").group(1)
    c["excluded"] = [int(x) for x in re.findall(r"^\s*(\d+):\s*true", blk, re.M)]
    blk = one(r"var httpLikePrefixes = \[\]\[\]byte\{(.*?)\n\}", pol, "httpLikePrefixes").group(1)
    c["http"] = re.findall(r'\[\]byte\("([^"\\]*)"\)', blk)
    if not c["excluded"] or not c["http"]:
        raise AnchorMoved("empty table")
    m = re.search(r"bufReader := bufio\.NewReader(Size)?\(lConn(?:,\s*([^\n]*))?\)\n", tcp)
    if not m:
        raise AnchorMoved("bufReader construction in handleConn")
    if m.group(1):
        expr = m.group(2).strip()
        mx = int(one(r"\n\tTCPDNSMaxMessageSize\s*=\s*(\d+)\n", tcp, "TCPDNSMaxMessageSize").group(1))
        try:
            c["bufio_size"] = max(16, int(eval(expr.replace("TCPDNSMaxMessageSize", str(mx)), {"__builtins__": {}}, {})))
        except Exception:
            raise AnchorMoved("bufio reader size expression not understood: " + expr)
    else:
        c["bufio_size"] = 4096    # bufio.NewReader: defaultBufSize of the Go standard library
    c["dns_max"] = int(one(r"\n\tTCPDNSMaxMessageSize\s*=\s*(\d+)\n", tcp, "TCPDNSMaxMessageSize").group(1))
    c.update(extract_splice())
    c.update(extract_ready())
    c.update(extract_loops())
    c.update(extract_writev())
    c["direct"] = int(one(r"\n\tOutboundDirect\s+OutboundIndex\s*=\s*(0x[0-9a-fA-F]+|\d+)\n", gen, "OutboundDirect").group(1), 0)
    c["block"] = int(one(r"\n\tOutboundBlock\s+OutboundIndex\s*=\s*(0x[0-9a-fA-F]+|\d+)\n", gen, "OutboundBlock").group(1), 0)
    return c


SPLICE_RETURNS = ["relayChunkedSpliceCopy(ctx, dst, src, record)"] * 3 + [
    "written, err", "written, nil", "written, err", "written, nil", "written, err", "written, io.ErrShortWrite"]


def extract_splice():
    """relaySpliceCopyExact: the set of exits (return sites, in order) and every place pipe.data is assigned;
    putRelaySplicePipe: the hygiene rule.  Anything of another shape is an anchor failure."""
    src = _read("control/tcp_copy_linux.go")
    m = re.search(r"\nfunc relaySpliceCopyExact\(ctx context\.Context, dst, src \*net\.TCPConn, record func\(int64\)\) \(int64, error\) \{\n(.*?)\n\}\n", src, re.S)
    if not m:
        raise AnchorMoved("relaySpliceCopyExact signature")
    body = re.sub(r"//[^\n]*", "", m.group(1))
    rets = [x.strip() for x in re.findall(r"\breturn ([^\n]+)", body)]
    if rets != SPLICE_RETURNS:
        raise AnchorMoved("relaySpliceCopyExact exits changed: %r" % rets)
    if body.count("defer putRelaySplicePipe(pipe)") != 1 or body.count("getRelaySplicePipe()") != 1:
        raise AnchorMoved("relaySpliceCopyExact pipe acquisition/release")
    a, b = body.find("spliceSocketToPipe("), body.find("splicePipeToSocket(")
    if a < 0 or b < a:
        raise AnchorMoved("relaySpliceCopyExact fill/drain calls")
    head, fill, drain = body[:a], body[a:b], body[b:]
    f_fill = bool(re.search(r"if n > 0 \{[^}]*?pipe\.data \+= n\b", fill))
    f_drain = bool(re.search(r"if n > 0 \{[^}]*?pipe\.data -= n\b", drain))
    f_err = bool(re.search(r"if err != nil \{\s*pipe\.data = inPipe\b", drain))
    f_short = bool(re.search(r"if n == 0 \{\s*pipe\.data = inPipe\b", drain))
    if body.count("pipe.data") != int(f_fill) + int(f_drain) + int(f_err) + int(f_short) or "pipe.data" in head:
        raise AnchorMoved("pipe.data is assigned at a place the model does not know")
    put = re.search(r"\nfunc putRelaySplicePipe\(pipe \*relaySplicePipe\) \{\n(.*?)\n\}\n", src, re.S)
    if not put or not re.search(r"if pipe\.data != 0 \{\s*pipe\.close\(\)\s*return\s*\}", put.group(1)) or "relaySplicePipePool <- pipe" not in put.group(1):
        raise AnchorMoved("putRelaySplicePipe hygiene rule")
    lim = re.search(r"\n\trelaySplicePipePoolLimit\s*=\s*(\d+)\n", src)
    if not lim:
        raise AnchorMoved("relaySplicePipePoolLimit")
    return {"sp_fill": f_fill, "sp_drain": f_drain, "sp_err": f_err, "sp_short": f_short, "sp_limit": int(lim.group(1))}


def extract_loops():
    """relayCopyLoop / relayCopyDirect: the bytes a Read returned are written before its error is looked at"""
    src = _read("control/tcp_copy_engine.go")
    res = {}
    for fn, key in (("relayCopyLoop", "loop_wf"), ("relayCopyDirect", "direct_wf")):
        m = re.search(r"\nfunc %s\([^\n]*\{\n(.*?)\n\}\n" % fn, src, re.S)
        if not m:
            raise AnchorMoved(fn + " signature")
        body = re.sub(r"//[^\n]*", "", m.group(1))
        r, w, e = body.find("nr, er := src.Read(buf)"), body.find("dst.Write(buf[:nr])"), body.find("if er != nil {")
        if min(r, w, e) < 0 or body.count("src.Read(") != 1 or body.count("dst.Write(") != 1 or body.count("if er != nil {") != 1:
            raise AnchorMoved(fn + ": read / write / error check not found once each")
        if not (r < w and r < e):
            raise AnchorMoved(fn + ": the read is not first")
        if not re.search(r"if nr > 0 \{\s*nw, ew := dst\.Write\(buf\[:nr\]\)", body):
            raise AnchorMoved(fn + ": the write is not guarded by nr > 0")
        res[key] = w < e
    return res


def extract_writev():
    """relayWritevAll: what the loop hands to relayAdvanceSegments - this call's byte count applied to the remaining
    list (`segments = relayAdvanceSegments(segments, n)`) or something else"""
    src = _read("control/tcp_copy_gather_linux.go")
    m = re.search(r"\nfunc relayWritevAll\([^\n]*\{\n(.*?)\n\}\n", src, re.S)
    if not m:
        raise AnchorMoved("relayWritevAll signature")
    body = re.sub(r"//[^\n]*", "", m.group(1))
    calls = re.findall(r"(\w+)\s*:?=\s*relayAdvanceSegments\((\w+),\s*(\w+)\)", body)
    if len(calls) != 1 or body.count("relayAdvanceSegments(") != 1 or body.count("relayWritevFunc(") != 1:
        raise AnchorMoved("relayWritevAll: calls of relayAdvanceSegments / relayWritevFunc")
    lhs, arg_list, arg_n = calls[0]
    per_call = (lhs == "segments" and arg_list == "segments" and arg_n == "n"
                and bool(re.search(r"n, err := relayWritevFunc\(int\(fd\), segments\)", body)))
    if not per_call and arg_n not in ("written",):
        raise AnchorMoved("relayWritevAll: unknown advance scheme %r" % (calls[0],))
    adv = re.search(r"\nfunc relayAdvanceSegments\([^\n]*\{\n(.*?)\n\}\n", src, re.S)
    if not adv or "segs[0] = segs[0][n:]" not in adv.group(1) or "segs = segs[1:]" not in adv.group(1):
        raise AnchorMoved("relayAdvanceSegments shape")
    return {"wv_per_call": per_call}


def _blocks(txt):
    """split Go statements of a block: returns a list of ("if", cond, inner_text) / ("stmt", text)"""
    out, i, n = [], 0, len(txt)
    while i < n:
        if txt[i].isspace():
            i += 1
            continue
        if txt.startswith("if ", i):
            j = txt.index("{", i)
            cond = txt[i + 3:j].strip()
            depth, k = 1, j + 1
            while depth:
                if txt[k] == "{":
                    depth += 1
                elif txt[k] == "}":
                    depth -= 1
                k += 1
            out.append(("if", cond, txt[j + 1:k - 1]))
            i = k
            if txt[i:i + 6].lstrip().startswith("else"):
                raise AnchorMoved("else branch in readStreamOnceWithReadDeadline")
        else:
            j = txt.find("\n", i)
            j = n if j < 0 else j
            out.append(("stmt", txt[i:j].strip()))
            i = j
    return out


def extract_ready():
    """Sniffer.readStreamOnceWithReadDeadline: on each way out after the read (no error / the sniff deadline
    expired / another error) how many times close(s.dataReady) runs and whether s.dataError is set - by a small
    interpreter over the statements the function is made of; anything it does not know is an anchor failure."""
    src = _read("component/sniffing/sniffer.go")
    m = re.search(r"\nfunc \(s \*Sniffer\) readStreamOnceWithReadDeadline\(\) error \{\n(.*?)\n\}\n", src, re.S)
    if not m:
        raise AnchorMoved("readStreamOnceWithReadDeadline signature")
    body = re.sub(r"//[^\n]*", "", m.group(1))
    k = body.find("_, err := s.buf.ReadFromOnce(s.conn)")
    if k < 0 or "dataReady" in body[:k]:
        raise AnchorMoved("readStreamOnceWithReadDeadline: the read")
    tail = body[k + len("_, err := s.buf.ReadFromOnce(s.conn)"):]
    res = {}
    for env in ("ok", "timeout", "err"):
        closes, derr, returned = [0], [False], [False]

        def run(txt):
            for st in _blocks(txt):
                if returned[0]:
                    return
                if st[0] == "if":
                    cond = st[1]
                    if cond == "err == nil":
                        take = env == "ok"
                    elif cond == "err != nil":
                        take = env != "ok"
                    elif cond == "errors.As(err, &netErr) && netErr.Timeout()":
                        take = env == "timeout"
                    else:
                        raise AnchorMoved("readStreamOnceWithReadDeadline: condition " + cond)
                    if take:
                        run(st[2])
                else:
                    t = st[1]
                    if t == "close(s.dataReady)":
                        closes[0] += 1
                    elif t == "s.dataError = err":
                        derr[0] = True
                    elif t.startswith("return"):
                        returned[0] = True
                    elif t in ("var netErr net.Error", ""):
                        pass
                    else:
                        raise AnchorMoved("readStreamOnceWithReadDeadline: statement " + t)
        run(tail)
        if not returned[0]:
            raise AnchorMoved("readStreamOnceWithReadDeadline: a path without return")
        res[env] = (closes[0], derr[0])
    return {"rd_ok": res["ok"], "rd_timeout": res["timeout"], "rd_err": res["err"]}


def write_gen(c):
    txt = ("(* GENERATED by tools/c05.py from /repo - do not edit. *)\n"
           "From Coq Require Import List NArith.\nImport ListNotations.\nOpen Scope N_scope.\n"
           "Definition c05_dns_first_timeout_ms : N := %d.\n"
           "Definition c05_half_close_ms : N := %d.\n"
           "Definition c05_prefetch_bytes : N := %d.\n"
           "Definition c05_relay_buf : N := %d.\n"
           "Definition c05_bufio_size : N := %d.\n"
           "Definition c05_excluded_ports : list N := [%s].\n"
           "Definition c05_http_prefixes : list (list N) := [%s].\n"
           "Definition c05_outbound_direct : N := %d.\n"
           "Definition c05_outbound_block : N := %d.\n"
           "Definition c05_splice_upd_fill : bool := %s.\nDefinition c05_splice_upd_drain : bool := %s.\n"
           "Definition c05_splice_set_on_err : bool := %s.\nDefinition c05_splice_set_on_short : bool := %s.\n"
           "Definition c05_splice_pool_limit : N := %d.\n"
           "Definition c05_ready_closes_ok : N := %d.\nDefinition c05_ready_closes_timeout : N := %d.\nDefinition c05_ready_closes_err : N := %d.\n"
           "Definition c05_derr_set_ok : bool := %s.\nDefinition c05_derr_set_timeout : bool := %s.\nDefinition c05_derr_set_err : bool := %s.\n"
           "Definition c05_loop_write_first : bool := %s.\nDefinition c05_direct_write_first : bool := %s.\n"
           "Definition c05_writev_advance_per_call : bool := %s.\n"
           % (c["dns_first"], c["half_close"], c["prefetch"], c["relay_buf"], c["bufio_size"],
              "; ".join(str(x) for x in c["excluded"]),
              "; ".join("[" + ";".join(str(ord(ch)) for ch in p) + "]" for p in c["http"]),
              c["direct"], c["block"],
              vlib.cbool(c["sp_fill"]), vlib.cbool(c["sp_drain"]), vlib.cbool(c["sp_err"]), vlib.cbool(c["sp_short"]), c["sp_limit"],
              c["rd_ok"][0], c["rd_timeout"][0], c["rd_err"][0], vlib.cbool(c["rd_ok"][1]), vlib.cbool(c["rd_timeout"][1]), vlib.cbool(c["rd_err"][1]),
              vlib.cbool(c["loop_wf"]), vlib.cbool(c["direct_wf"]), vlib.cbool(c["wv_per_call"])))
    vlib.write_if_changed(os.path.join(vlib.COQ, "gen", "C05_Extracted.v"), txt)


PROLOGUE_HDR = '''//go:build verif

package control

// GENERATED by tools/c05.py from control/tcp.go (handleConn, from the port-53 test up to the dial) - do not edit.

import (
	"bufio"
	"context"
	"net"
	"net/netip"
	"time"

	daerrors "github.com/daeuniverse/dae/common/errors"
	"github.com/daeuniverse/dae/component/sniffing"
	"github.com/daeuniverse/outbound/netproxy"
	"github.com/sirupsen/logrus"
)

var _ = bufio.NewReader
var _ = time.Now
var _ = daerrors.IsIgnorableConnectionError
var _ = sniffing.IsSniffingError
var _ logrus.Fields

func (c *ControlPlane) verifC05Prologue(ctx context.Context, lConn net.Conn, src, dst netip.AddrPort, routingResult *bpfRoutingResult) (relayOut netproxy.Conn, domainOut string, reached bool, cleanups []func(), err error) {
	err = func() (err error) {
%s
		relayOut, domainOut, reached = lRelayConn, domain, true
		return nil
	}()
	return
}
'''


def lift_prologue():
    """The text of handleConn between the port-53 test and the dial, compiled verbatim inside a closure with the
    same result signature, so that the harness runs the REAL prologue (no copy of its logic in the harness)."""
    src = _read("control/tcp.go")
    m = re.search(r"\nfunc \(c \*ControlPlane\) handleConn\(ctx context\.Context, lConn net\.Conn\) \(err error\) \{\n(.*?)\n\}\n", src, re.S)
    if not m:
        raise AnchorMoved("handleConn signature")
    body = m.group(1)
    a = body.find("\tif dst.Port() == 53 {")
    b = body.find("\tdialParam := &proxyDialParam{")
    if a < 0 or b < 0 or b < a:
        raise AnchorMoved("handleConn prologue markers")
    pro = body[a:b]
    d = "defer func() { _ = sniffer.Close() }()"
    if pro.count(d) != 1:
        raise AnchorMoved("sniffer close defer")
    pro = pro.replace(d, "cleanups = append(cleanups, func() { _ = sniffer.Close() })")
    if "defer " in pro:
        raise AnchorMoved("unexpected defer in prologue")
    rest = body[b:]
    if "RelayTCPContextWithRecords(ctx, lRelayConn, rConn," not in rest:
        raise AnchorMoved("handleConn no longer relays lRelayConn through RelayTCPContextWithRecords")
    return PROLOGUE_HDR % pro


# ----------------------------------------------------------------------------------------------
# case generation
# ----------------------------------------------------------------------------------------------

def pat_bytes(seed, n):
    out = bytearray()
    x = seed
    for _ in range(n):
        out.append(x % 256)
        x = (x * 5 + 17) % 65536
    return bytes(out)


def mk_chunk(at, lit=b"", seed=0, n=0):
    return {"at": at, "lit": lit.hex(), "seed": seed, "n": n}


def chunk_bytes(ch):
    return bytes.fromhex(ch["lit"]) + pat_bytes(ch["seed"], ch["n"])


def client_hello(name=b"example.com"):
    sni = b"\x00" + len(name).to_bytes(2, "big") + name
    sni_list = len(sni).to_bytes(2, "big") + sni
    ext = b"\x00\x00" + len(sni_list).to_bytes(2, "big") + sni_list
    exts = len(ext).to_bytes(2, "big") + ext
    body = b"\x03\x03" + bytes(range(32)) + b"\x00" + b"\x00\x02\x13\x01" + b"\x01\x00" + exts
    hs = b"\x01" + len(body).to_bytes(3, "big") + body
    return b"\x16\x03\x01" + len(hs).to_bytes(2, "big") + hs


def dns_frame(response=False, good_len=True):
    q = b"\x07example\x03com\x00\x00\x01\x00\x01"
    msg = b"\x12\x34" + (b"\x81\x80" if response else b"\x01\x00") + b"\x00\x01\x00\x00\x00\x00\x00\x00" + q
    l = len(msg) if good_len else len(msg) + 7
    return l.to_bytes(2, "big") + msg


HTTP = b"GET / HTTP/1.1\r\nHost: example.com\r\n\r\n"

FIRST_FLIGHTS_ANY = [
    ("none", b""), ("http", HTTP), ("http_lower", b"get / http/1.1\r\nhost: example.com\r\n\r\n"),
    ("http_post", b"POST /x HTTP/1.1\r\nHost: a.example\r\nContent-Length: 3\r\n\r\nabc"),
    ("http_nearmiss", b"GEX / HTTP/1.1\r\n\r\n"), ("http_short", b"GE"), ("http16", HTTP[:16]),
    ("tls", client_hello()), ("tls_partial", client_hello()[:12]), ("tls_1", b"\x16"), ("tls_badver", b"\x16\x02\x01\x00\x05hello"),
    ("ssh", b"SSH-2.0-OpenSSH_9.6\r\n"), ("bin", bytes([0, 1, 2, 3, 250, 251, 252, 253, 254, 255])), ("one", b"x"),
]
FIRST_FLIGHTS_53 = [
    ("none", b""), ("ssh", b"SSH-2.0-OpenSSH_9.6\r\n"), ("one", b"\x00"), ("short_len", b"\x00\x05hello"),
    ("len12_garbage", b"\x00\x0c" + b"\xff" * 12 + b"tail"), ("dns_response", dns_frame(True) + b"after"),
    ("dns_badlen", dns_frame(False, False)), ("biglen", b"\x20\x00" + b"z" * 40), ("len_incomplete", b"\x00\x40abc"),
    ("http", HTTP), ("len_fffe", b"\xff\xfe" + b"q" * 30), ("len_ffff", b"\xff\xff" + b"q" * 30),
]


def split_flight(rng, data, t0):
    """segment the first flight: list of (at, bytes)"""
    if not data:
        return []
    r = rng.random()
    if r < 0.4 or len(data) < 2:
        return [(t0, data)]
    cuts = sorted(set(rng.choice([1, 2, 5, 15, 16, 17, len(data) // 2, len(data) - 1, rng.randint(1, len(data) - 1)]) for _ in range(rng.choice([1, 1, 2, 3]))))
    cuts = [c for c in cuts if 0 < c < len(data)]
    parts, last = [], 0
    for c in cuts + [len(data)]:
        parts.append(data[last:c])
        last = c
    out, t = [], t0
    for i, p in enumerate(parts):
        if i > 0:
            t += rng.choice([0, 0, 20, 20, 100, 500, 980, 1000, 1020, 2000, 4980, 5000, 5020, 6000])
        out.append((t, p))
    return out


def gen_case(rng, tier):
    port = rng.choice([80, 443, 443, 8080, 53, 53, 53, 22, 3306])
    outbound = rng.choice([2, 2, 2, 2, 3, 0, 1])
    dial_ip = rng.random() < 0.1
    sniff_ms = rng.choice([1000, 1000, 1000, 500, 2000, 0])
    flights = FIRST_FLIGHTS_53 if port == 53 else FIRST_FLIGHTS_ANY
    kind, data = rng.choice(flights)
    t0 = rng.choice([0, 0, 0, 20, 500, 980, 1000, 1020, 4980, 5000, 5020])
    chunks = [mk_chunk(at, b) for at, b in split_flight(rng, data, t0)]
    t = chunks[-1]["at"] if chunks else 0
    # follow-up client data
    for _ in range(rng.choice([0, 0, 1, 1, 2, 3])):
        t += rng.choice([0, 20, 20, 100, 1000, 1020, 4000, 5000, 5020, 9980, 10020, 12000, 20000])
        big = rng.random()
        n = rng.choice([1, 3, 100, 1000]) if big < 0.9 else rng.choice([4095, 4096, 4097, 5000, 32767, 32768, 32769, 40000] if tier == "thorough" or big > 0.97 else [4096, 4097, 5000])
        chunks.append(mk_chunk(t, b"", rng.randint(0, 65535), n))
    r = rng.random()
    if r < 0.25:
        ceof = -1
    else:
        ceof = t + rng.choice([0, 0, 20, 100, 1000, 6000, 12000])
    # server side: odd tens so that no event of one socket ties with an event of the other
    schunks, st = [], 10
    for _ in range(rng.choice([0, 1, 1, 2, 3])):
        st += rng.choice([0, 100, 100, 1000, 980, 1020, 5000, 4980, 9980, 10000, 10020, 12000])
        schunks.append(mk_chunk(st, b"", rng.randint(0, 65535), rng.choice([1, 3, 100, 100, 1000, 1000, 3, 1, 4097] + ([32769, 40000] if tier == "thorough" else []))))
    if ceof >= 0 and rng.random() < 0.5:
        # around the end of the grace period after the client's end of stream
        st = max(st, ceof + rng.choice([9970, 9990, 10010, 10030]) - (ceof + 9970) % 20 + 10 - 20)
        st = st - (st % 20) + 10
        schunks.append(mk_chunk(st, b"", rng.randint(0, 65535), rng.choice([1, 7])))
    r = rng.random()
    seof = -1 if r < 0.3 else st + rng.choice([0, 100, 1000, 9980, 10020, 12000])
    if seof >= 0:
        seof = seof - (seof % 20) + 10
        if seof < st:
            seof = st
    return {"kind": "mem", "port": port, "outbound": outbound, "dial_ip": dial_ip, "sniff_ms": sniff_ms, "grace_ms": 0,
            "client": {"chunks": chunks, "eof_at": ceof}, "server": {"chunks": schunks, "eof_at": seof}, "flight": kind}


def gen_tcp_case(rng, tier):
    """real sockets: scripts whose outcome does not depend on timing: everything is sent promptly and both
    sides end their streams"""
    port = rng.choice([80, 443, 8080, 53, 22])
    flights = [f for f in (FIRST_FLIGHTS_53 if port == 53 else FIRST_FLIGHTS_ANY)
               if f[0] in ("http", "http_post", "tls", "ssh", "bin", "short_len", "len12_garbage", "http_nearmiss")]
    kind, data = rng.choice(flights)
    chunks = [mk_chunk(i, b) for i, (at, b) in enumerate(split_flight(rng, data, 0))]
    t = len(chunks)
    for _ in range(rng.choice([0, 1, 2, 3])):
        t += 1
        chunks.append(mk_chunk(t, b"", rng.randint(0, 65535), rng.choice([1, 100, 100, 4097, 5000, 32769, 70000 if tier == "thorough" else 5000])))
    schunks, st = [], 0
    for _ in range(rng.choice([0, 1, 2])):
        st += 1
        schunks.append(mk_chunk(st, b"", rng.randint(0, 65535), rng.choice([1, 100, 100, 4097, 32769, 70000 if tier == "thorough" else 4097])))
    first = rng.random() < 0.5
    ceof, seof = (t + 1, t + 40) if first else (t + 40, st + 1)
    return {"kind": "tcp", "port": port, "outbound": 2, "dial_ip": rng.random() < 0.2, "sniff_ms": 300, "grace_ms": 0,
            "client": {"chunks": chunks, "eof_at": ceof}, "server": {"chunks": schunks, "eof_at": seof}, "flight": kind}


def sniff_pause_family():
    """the sniffing window expires on an incomplete TLS record / incomplete HTTP head, the rest arrives afterwards:
    everything must be relayed, byte for byte, and both ends of stream honoured"""
    hello = client_hello()
    firsts = [("tls7", hello[:7], hello[7:]), ("tls12", hello[:12], hello[12:]), ("http8", HTTP[:8], HTTP[8:]),
              ("http16", HTTP[:16], HTTP[16:]), ("http20", HTTP[:20], HTTP[20:])]
    out = []
    for name, a, b in firsts:
        for pause in (1020, 6000):
            cl = [mk_chunk(0, a), mk_chunk(pause, b), mk_chunk(pause + 100, b"", 21, 30)]
            sv = [mk_chunk(110, b"", 22, 5), mk_chunk(pause + 210, b"", 23, 40)]
            out.append({"kind": "mem", "port": 443, "outbound": 2, "dial_ip": False, "sniff_ms": 1000, "grace_ms": 0,
                        "client": {"chunks": cl, "eof_at": pause + 200}, "server": {"chunks": sv, "eof_at": pause + 310},
                        "flight": "sniffpause_%s_%d" % (name, pause)})
    return out


def fin_family():
    """a side's LAST bytes arrive in the same Read as its end of stream (n > 0 with io.EOF) or as a connection
    reset (n > 0 with an error): on every wrapper stack, for either side and for both"""
    stacks = [("sock", 22, b"plain hello\r\n"), ("bufio", 53, b"\x00\x05hello-not-dns"),
              ("prefixed", 8080, b"SSH-2.0-OpenSSH_9.6\r\n"), ("sniffer", 443, HTTP)]
    out = []
    for name, port, first in stacks:
        for cf, sf in (("eof", ""), ("", "eof"), ("eof", "eof"), ("reset", ""), ("", "reset")):
            cl = [mk_chunk(0, first), mk_chunk(400, b"", 31, 60), mk_chunk(2000, b"last-bytes-of-the-client")]
            sv = [mk_chunk(110, b"", 32, 20), mk_chunk(2510, b"last-bytes-of-the-server")]
            out.append({"kind": "mem", "port": port, "outbound": 2, "dial_ip": False, "sniff_ms": 1000, "grace_ms": 0,
                        "client": {"chunks": cl, "eof_at": 2000, "fin": cf}, "server": {"chunks": sv, "eof_at": 2510, "fin": sf},
                        "flight": "fin_%s_c%s_s%s" % (name, cf or "sep", sf or "sep")})
    return out


def grace_family(grace):
    """fixed scenarios: data both ways, the FIRST half-close at relay age {0.5, 1, 1.5, 3} x grace, the other
    direction delivering its remaining bytes half a grace period later and half-closing after that - on every
    wrapper stack and with either side half-closing first"""
    stacks = [("sock", 22, b"plain-protocol hello\r\n"), ("bufio", 53, b"\x00\x05hello-not-dns"),
              ("prefixed", 8080, b"SSH-2.0-OpenSSH_9.6\r\n"), ("sniffer", 443, HTTP)]
    out = []
    for name, port, first in stacks:
        for who in ("client", "server"):
            for num, den in ((1, 2), (1, 1), (3, 2), (3, 1)):
                t1 = grace * num // den
                t1 -= t1 % 20
                cl = [mk_chunk(0, first), mk_chunk(200, b"", 7, 50)]
                sv = [mk_chunk(110, b"", 9, 30)]
                if who == "client":
                    cl.append(mk_chunk(t1 - 100, b"", 11, 20))
                    ceof = t1
                    sv.append(mk_chunk(t1 + grace // 2 + 10, b"", 13, 40))
                    seof = t1 + grace // 2 + 110
                else:
                    sv.append(mk_chunk(t1 - 90, b"", 11, 20))
                    seof = t1 + 10
                    cl.append(mk_chunk(t1 + grace // 2 + 20, b"", 13, 40))
                    ceof = t1 + grace // 2 + 120
                out.append({"kind": "mem", "port": port, "outbound": 2, "dial_ip": False, "sniff_ms": 1000, "grace_ms": 0,
                            "client": {"chunks": cl, "eof_at": ceof}, "server": {"chunks": sv, "eof_at": seof},
                            "flight": "grace_%s_%s_%d_%d" % (name, who, num, den)})
    return out


NON_SNIFFED_FLIGHTS = [f for f in FIRST_FLIGHTS_ANY if f[0] in ("ssh", "bin", "one", "http_nearmiss", "tls_badver", "http_short")]


def gen_multi_case(rng, tier):
    """k connections sharing the process-wide pools: every prologue may run while another connection is parked
    between its prologue and its relay (the time of the upstream dial)"""
    k = rng.choice([2, 2, 2, 3, 3, 4])
    conns = []
    for j in range(k):
        c = gen_case(rng, tier)
        if rng.random() < 0.75:
            c["port"], c["outbound"], c["dial_ip"], c["sniff_ms"] = rng.choice([80, 443, 8080]), 2, False, 1000
            r = rng.random()
            kind, data = rng.choice(NON_SNIFFED_FLIGHTS) if r < 0.6 else rng.choice(FIRST_FLIGHTS_ANY)
            if data:
                data = data + bytes([65 + j]) * rng.choice([0, 3, 20])   # make the connections' bytes differ
            later = [ch for ch in c["client"]["chunks"] if ch["n"] > 0]
            first = [mk_chunk(at, b) for at, b in split_flight(rng, data, 0)]
            t = first[-1]["at"] if first else 0
            for ch in later:
                if ch["at"] < t:
                    ch["at"] = t
                t = ch["at"]
            c["client"]["chunks"] = first + later
            if c["client"]["eof_at"] >= 0 and c["client"]["eof_at"] < t:
                c["client"]["eof_at"] = t
            c["flight"] = kind
        conns.append(c)
    idx = list(range(k))
    if rng.random() < 0.6:
        a, b = idx[:], idx[:]
        rng.shuffle(a)
        rng.shuffle(b)
        order = [[0, i] for i in a] + [[1, i] for i in b]
    else:
        pending_p, pending_r, order = idx[:], [], []
        while pending_p or pending_r:
            if pending_p and (not pending_r or rng.random() < 0.6):
                i = pending_p.pop(rng.randrange(len(pending_p)))
                order.append([0, i])
                pending_r.append(i)
            else:
                i = pending_r.pop(rng.randrange(len(pending_r)))
                order.append([1, i])
    return {"kind": "multi", "conns": conns, "order": order, "flight": "multi%d" % k}


def tcp_gate_family(tier):
    """real sockets: the client's first segment is probed by the prologue, the next one is made to wait in the
    socket buffer before the relay starts (TIOCINQ > 0: tryRelayGatherWrite reads once BEFORE it writes the held
    prefix), sizes around bufio's reader size and the 32 KiB relay buffer"""
    out = []
    firsts = [7, 4096, 4097] + ([4095, 5000, 32768, 65535, 65536, 65537, 65538] if tier == "thorough" else [])
    seconds = [1, 100, 32768, 40000] + ([4096, 32767, 32769, 70000] if tier == "thorough" else [])
    combos = [(53, "bufio", n1, n2) for n1 in firsts for n2 in seconds]
    combos += [(8080, "prefixed", 0, n2) for n2 in (100, 40000)] + [(443, "sniffer", 0, n2) for n2 in (100, 40000)]
    for i, (port, name, n1, n2) in enumerate(combos):
        if name == "bufio":
            first = mk_chunk(0, b"\x00\x05", 1000 + i, n1 - 2)      # length prefix 5 < 12: not DNS, falls back at once
        elif name == "prefixed":
            first = mk_chunk(0, b"SSH-2.0-OpenSSH_9.6\r\n")
        else:
            first = mk_chunk(0, HTTP)
        cl = [first, mk_chunk(1, b"", 2000 + i, n2), mk_chunk(2, b"tail")]
        out.append({"kind": "tcp", "port": port, "outbound": 2, "dial_ip": False, "sniff_ms": 300, "grace_ms": 0, "gate_after": 1,
                    "client": {"chunks": cl, "eof_at": 3}, "server": {"chunks": [mk_chunk(1, b"", 3000 + i, 50)], "eof_at": 40},
                    "flight": "tcpgate_%s_%d_%d" % (name, n1, n2)})
    return out


def gen_writev_cases(rng, tier):
    """gather write: the real relayWritevAll over a scripted writev - partial acceptances inside a segment and on
    boundaries, EAGAIN (the poller re-enters the callback), EINTR, zero-length writes - over generated segment lists"""
    out = [{"kind": "writev", "segs": [b"PREFIX--".hex(), b"0123456789abcdefghijklmnopqrstuvwxyz".hex()],
            "script": [{"n": 13, "e": ""}, {"n": 0, "e": "EAGAIN"}], "flight": "writev_demo"}]
    for _ in range(24 if tier == "quick" else 400):
        segs = [bytes(rng.randrange(256) for _ in range(rng.choice([0, 1, 2, 3, 8, 16, 36, 100]))) for _ in range(rng.choice([1, 2, 2, 3, 4, 9]))]
        total = sum(len(x) for x in segs)
        bounds, acc = [], 0
        for x in segs:
            acc += len(x)
            bounds.append(acc)
        script, left = [], total
        for _ in range(rng.choice([1, 2, 3, 5, 8])):
            r = rng.random()
            if r < 0.25:
                script.append({"n": 0, "e": rng.choice(["EAGAIN", "EAGAIN", "EINTR"])})
            elif r < 0.30:
                script.append({"n": 0, "e": ""})
            else:
                n = rng.choice([1, 2, 3, rng.randint(1, max(1, left)), max(1, left // 2)] + [b for b in bounds if b > 0][:2])
                script.append({"n": n, "e": ""})
                left = max(0, left - n)
        out.append({"kind": "writev", "segs": [x.hex() for x in segs], "script": script, "flight": "writev"})
    return out


SPLICE_MODES = [("partial", 1), ("partial", 2), ("record", 1), ("record", 3), ("blocked", 0), ("upstream_close", 0), ("clean", 0), ("partial", 3)]


def gen_splice_cases(rng, tier):
    """splice path on real sockets: connection 1 (bulk upload into a stalled upstream) is ended at a chosen exit of
    relaySpliceCopyExact - ctx seen at the loop top right after the n-th partial / n-th drain, cancelled while
    blocked, upstream reset, clean EOF - then 1-3 healthy connections draw pipes from the pool"""
    modes = SPLICE_MODES[:6] if tier == "quick" else [rng.choice(SPLICE_MODES) for _ in range(40)]
    out = []
    for mode, k in modes:
        n = rng.choice([131072, 196608, 262144]) if mode != "clean" else rng.choice([1, 5000, 70000])
        later = []
        for _ in range(rng.choice([1, 2, 2, 3])):
            later.append({"up": [rng.randint(0, 65535), rng.choice([1, 55, 4096, 9000])],
                          "down": [rng.randint(0, 65535), rng.choice([0, 1, 42, 4097, 9000])]})
        out.append({"kind": "splice", "upload": [rng.randint(0, 65535), n], "mode": mode, "cancel_at": k, "pool_seed": rng.choice([2, 2, 3]),
                    "later": later, "concurrent": rng.random() < 0.3, "flight": "splice_%s_%d" % (mode, k)})
    return out


def to_harness(case):
    if case["kind"] == "writev":
        return {"kind": "writev", "segs": case["segs"], "script": case["script"]}
    if case["kind"] == "splice":
        return {"kind": "splice", "upload": pat_bytes(*case["upload"]).hex(), "mode": case["mode"], "cancel_at": case["cancel_at"],
                "pool_seed": case["pool_seed"], "concurrent": case["concurrent"], "wait_scale": case.get("wait_scale", 1),
                "later": [{"up": pat_bytes(*l["up"]).hex(), "down": pat_bytes(*l["down"]).hex()} for l in case["later"]]}
    if case["kind"] == "multi":
        return {"kind": "multi", "conns": [to_harness(dict(c, wait_scale=case.get("wait_scale", 1))) for c in case["conns"]],
                "order": case["order"], "wait_scale": case.get("wait_scale", 1)}

    def side(s):
        return {"chunks": [{"at": c["at"], "data": chunk_bytes(c).hex()} for c in s["chunks"]], "eof_at": s["eof_at"], "fin": s.get("fin", "")}
    return {"kind": case["kind"], "port": case["port"], "outbound": case["outbound"], "dial_ip": case["dial_ip"],
            "sniff_ms": case["sniff_ms"], "grace_ms": case.get("grace_ms", 0), "client": side(case["client"]), "server": side(case["server"]),
            "wait_scale": case.get("wait_scale", 1), "gate_after": case.get("gate_after", 0)}


# ----------------------------------------------------------------------------------------------
# Coq term printing
# ----------------------------------------------------------------------------------------------

def cbytes(b):
    return "[" + ";".join(str(x) for x in b) + "]"


def cdata(ch):
    lit = bytes.fromhex(ch["lit"])
    if ch["n"] == 0:
        return cbytes(lit)
    if not lit:
        return "(pat %d %d)" % (ch["seed"], ch["n"])
    return "(%s ++ pat %d %d)" % (cbytes(lit), ch["seed"], ch["n"])


def cchunk(ch):
    return "(mkChunk %d %s)" % (ch["at"], ch.get("_name") or cdata(ch))


def cside(s):
    return "(mkSide [%s] %s)" % ("; ".join(cchunk(c) for c in s["chunks"]), "None" if s["eof_at"] < 0 else "(Some %d)" % s["eof_at"])


def name_chunks(case, prefix, defs):
    """one Definition per chunk payload, referenced from the script and from the observed byte strings"""
    for sname in ("client", "server"):
        for i, ch in enumerate(case[sname]["chunks"]):
            ch["_name"] = "%s_%s%d" % (prefix, sname[0], i)
            defs.append("Definition %s : list N := %s." % (ch["_name"], cdata(ch)))


def cbytes_big(b):
    if len(b) <= 1500:
        return cbytes(b)
    return "(" + " ++ ".join(cbytes(b[i:i + 1500]) for i in range(0, len(b), 1500)) + ")"


def compress_bytes(b, case_side):
    """express observed bytes through the case's chunks when they are a concatenation of whole chunks plus a
    partial one (keeps the cases file small and fast to elaborate); else a literal"""
    parts, pos = [], 0
    for ch in case_side["chunks"]:
        if pos >= len(b):
            break
        data = chunk_bytes(ch)
        if not data:
            continue
        expr = ch.get("_name") or cdata(ch)
        rest = b[pos:]
        if rest.startswith(data):
            parts.append(expr)
            pos += len(data)
        elif data.startswith(rest):
            parts.append("(take %d %s)" % (len(rest), expr))
            pos = len(b)
        else:
            break
    if pos < len(b):
        parts.append(cbytes_big(b[pos:]))
    return "(" + " ++ ".join(parts) + ")" if parts else "[]"


SHAPE_RE = re.compile(r"(sock|tcp|bufio\[(\d+)\]|prefixed\[(\d+)\]|sniffer)")


def cshape(stack):
    out = []
    for m in SHAPE_RE.finditer(stack):
        w = m.group(1)
        if w in ("sock", "tcp"):
            out.append("(0,0)")
        elif w.startswith("bufio"):
            out.append("(1,%s)" % m.group(2))
        elif w.startswith("prefixed"):
            out.append("(2,%s)" % m.group(3))
        else:
            out.append("(3,0)")
    return "[" + ";".join(out) + "]"


def sniff_answers(case, res):
    """oracle answers of the sniffing parsers as observed: one (need-more?, room) per read round"""
    reads = [r for r in res.get("l_reads") or [] if r["s"] == 0]
    if case["port"] == 53 or not reads:
        return []
    pre = reads[0]
    rounds = reads[1:]
    ans = []
    for i, r in enumerate(rounds):
        room = r["q"] + (pre["n"] if i == 0 else 0)
        more = i + 1 < len(rounds)
        ans.append((more, room))
        if r["e"] == 1:  # EOF round: a following round means the parser still wants more (busy loop)
            break
    return ans


def shut_flags(res):
    """clean write-shutdown passed on: CloseWrite on the conn while it was open, followed by the grace deadline"""
    out = {}
    for conn in ("R", "L"):
        evs = [e for e in res.get("events") or [] if e["c"] == conn]
        ok = False
        for i, e in enumerate(evs):
            if e["w"] in ("close", "dlpast"):
                break
            if e["w"] == "cw":
                ok = i + 1 < len(evs) and evs[i + 1]["w"] == "dl"
                break
        out[conn] = ok
    return out["R"], out["L"]


def cw_triple(res, conn, n):
    for e in res.get("events") or []:
        if e["c"] == conn and e["w"] == "cw":
            return "(%d,%d,%d)" % (n, e["t"], e["a"])
    return "(%d,0,0)" % n


def obs_to_coq(case, res):
    tcp = case["kind"] == "tcp"
    dns = {"response": "DnsResponse", "query": "DnsQuery"}.get(res.get("dns_parse"), "DnsErr")
    ans = sniff_answers(case, res) if not tcp else []
    p = "(mkP %d %d %s %d false %s [%s])" % (
        case["port"], case["sniff_ms"], vlib.cbool(case["dial_ip"]), case["outbound"],
        dns, "; ".join("(%s,%d)" % (vlib.cbool(m), r) for m, r in ans))
    grace = "c05_half_close_ms" if not case.get("grace_ms") else str(case["grace_ms"])
    if tcp:
        up_shut, down_shut = res["up_eof"], res["down_eof"]
    else:
        up_shut, down_shut = shut_flags(res)
    err = res["relay_err"] not in ("nil", "alive", "norelay")
    return ("(mkObs %s %s %s %s %s\n  %s %d %s %s %s\n  %s %s %s %s %s %s %s %s %d)" % (
        vlib.cbool(tcp), p, grace, cside(case["client"]), cside(case["server"]),
        vlib.cbool(res["handled_dns"]), res.get("start_ms", 0), "None" if res.get("dl_at_start", -1) < 0 else "(Some %d)" % res["dl_at_start"],
        cshape(res.get("stack") or ""), vlib.cbool(res.get("spin", 0) > 0),
        compress_bytes(bytes.fromhex(res["up"]), case["client"]), compress_bytes(bytes.fromhex(res["down"]), case["server"]),
        cw_triple(res, "R", res.get("cw_up_n", 0)), cw_triple(res, "L", res.get("cw_down_n", 0)),
        vlib.cbool(up_shut), vlib.cbool(down_shut), vlib.cbool(err), vlib.cbool(res.get("alive", False)), res.get("end_ms", 0)))


# ----------------------------------------------------------------------------------------------
# run
# ----------------------------------------------------------------------------------------------

STUCK_SEEN = [0]


def run_harness_resilient(sc, binary, hcases, tag):
    """run the harness over the cases; a stuck case ends its process (exit 3) after its result is written, a process
    that dies or times out loses only the case it was running: the rest continues in a fresh process"""
    results, pos, restarts, total = [], 0, 0, 0.0
    while pos < len(hcases):
        inp, outp = sc.path("c05_%s_%d.in" % (tag, restarts)), sc.path("c05_%s_%d.out" % (tag, restarts))
        with open(inp, "w") as f:
            for c in hcases[pos:]:
                f.write(json.dumps(c) + "\n")
        if os.path.exists(outp):
            os.remove(outp)
        rc, so, se, dt = vlib.run_go_harness(binary, "TestVerifC05", inp, outp, timeout=1500, extra_env={"C05_STUCK_SEEN": str(STUCK_SEEN[0])})
        total += dt
        got = []
        if os.path.exists(outp):
            for l in open(outp):
                try:
                    got.append(json.loads(l))
                except ValueError:
                    break
        got = got[:len(hcases) - pos]
        results += got
        pos += len(got)
        if rc == 0 and pos >= len(hcases):
            break
        if rc == 3 and got:
            STUCK_SEEN[0] += 1
        elif pos < len(hcases):
            results.append({"hang": "harness process ended (rc=%d) while running this case: %s" % (rc, (so + se)[-1500:])})
            pos += 1
            STUCK_SEEN[0] += 1
        restarts += 1
        if restarts > 400:
            return None, "harness restarted more than 400 times"
    log("harness %s: %d cases %.1fs%s" % (tag, len(hcases), total, " (%d restarts after stuck cases)" % restarts if restarts else ""))
    return results, None


def run_batch(sc, binary, cases, tag):
    """run on the implementation, evaluate in Coq.  A multi-connection case is judged connection by connection
    against the single-connection model and spec (the connections must be independent).
    Returns (errors: case index -> codes (union over its connections), signatures, raw results, error text)"""
    results, herr = run_harness_resilient(sc, binary, [to_harness(c) for c in cases], tag)
    if herr:
        return None, None, None, herr
    flat = []
    sflat = []
    wflat = []
    for i, (c, r) in enumerate(zip(cases, results)):
        if c["kind"] == "writev":
            wflat.append((i, c, r))
        elif c["kind"] == "splice":
            sflat.append((i, c, r))
        elif c["kind"] == "multi" and "multi" not in r:
            r["_sub_codes"] = {"0": [99]}
            sflat.append((i, c, r))       # recorded below as code 99 (the whole scenario is stuck)
        elif c["kind"] == "multi":
            r["_sub_codes"] = {}
            for j, (cc, rr) in enumerate(zip(c["conns"], r.get("multi") or [])):
                flat.append((i, j, cc, rr))
        else:
            flat.append((i, 0, c, r))
    errors = {}

    def add(i, j, codes):
        errors.setdefault(i, [])
        errors[i] = sorted(set(errors[i]) | set(codes))
        if cases[i]["kind"] == "multi":
            results[i]["_sub_codes"][str(j)] = codes

    terms, defs, owners = [], [], []
    sterms, sowners = [], []
    rterms, rowners = [], []
    wterms, wowners = [], []
    for i, c, r in wflat:
        if r.get("panic") or r.get("hang"):
            add(i, 0, [99])
            continue
        calls = []
        for st in c["script"]:
            calls.append("WAgain" if st["e"] == "EAGAIN" else "WIntr" if st["e"] == "EINTR" else "(WAccept (N.to_nat %d))" % min(st["n"], 100000))
        calls.append("(WAccept (N.to_nat %d))" % (sum(len(x) // 2 for x in c["segs"]) + 1))
        wterms.append("([%s], [%s], %s, %d, %s)" % ("; ".join(cbytes(bytes.fromhex(x)) for x in c["segs"]), "; ".join(calls),
                                                   cbytes_big(bytes.fromhex(r["wire"])), r["written"], vlib.cbool(r["err"] == "nil")))
        wowners.append(i)
    for i, c, r in sflat:
        if r.get("panic") or r.get("hang"):
            add(i, 0, [99])
        elif r.get("skipped") or len(r.get("later") or []) != len(c["later"]):
            r["_skipped"] = True
        else:
            sterms.append(splice_to_coq(c, r))
            sowners.append(i)
    for n, (i, j, c, r) in enumerate(flat):
        if r.get("panic") or r.get("hang"):
            add(i, j, [99])
            continue
        if c["port"] == 53 and r.get("dns_parse") == "query":
            # a well-formed DNS query: the DNS fast path owns the connection (not a relay; the harness has no
            # DNS controller to answer it) - outside this property
            continue
        if c["client"].get("fin") == "reset" or c["server"].get("fin") == "reset":
            rterms.append("(%s, %s, %s, %s, %s)" % (cbytes_big(b"".join(chunk_bytes(x) for x in c["client"]["chunks"])),
                                                    cbytes_big(b"".join(chunk_bytes(x) for x in c["server"]["chunks"])),
                                                    cbytes_big(bytes.fromhex(r["up"])), cbytes_big(bytes.fromhex(r["down"])),
                                                    vlib.cbool(c["client"].get("fin") == "reset")))
            rowners.append((i, j))
            continue
        name_chunks(c, "k%d" % n, defs)
        terms.append((n, obs_to_coq(c, r)))
        owners.append((i, j))
        for sname in ("client", "server"):
            for ch in c[sname]["chunks"]:
                ch.pop("_name", None)
    text = ("From Coq Require Import List NArith ZArith Bool.\nFrom Dae Require Import C05_Spec C05_Model C05_SpliceModel C05_WritevModel C05_Check.\n"
            "From Dae.gen Require Import C05_Extracted.\nImport ListNotations.\nOpen Scope N_scope.\n"
            + "\n".join(defs) + "\n"
            + "".join("Definition case_%d : obs := %s.\n" % (n, t) for n, t in terms) +
            "Definition cases : list obs := [" + "; ".join("case_%d" % n for n, _ in terms) + "].\n"
            "Definition R := Eval vm_compute in map check_case cases.\nPrint R.\n"
            + "".join("Definition scase_%d : sobs := %s.\n" % (n, t) for n, t in enumerate(sterms)) +
            "Definition RS := Eval vm_compute in map check_splice [" + "; ".join("scase_%d" % n for n in range(len(sterms))) + "].\nPrint RS.\n"
            "Definition RW := Eval vm_compute in map check_writev [" + "; ".join(wterms) + "].\nPrint RW.\n"
            "Definition RB := Eval vm_compute in map check_reset [" + "; ".join(rterms) + "].\nPrint RB.\n")
    ok, outtxt = vlib.coq_eval("C05_cases_%s" % tag, text, timeout=3000)
    if not ok:
        return None, None, None, "coq evaluation failed: " + outtxt[-2500:]
    m = re.search(r"(?m)^R\s*=\s*(.*?)\n\s*:\s*list", outtxt, re.S)
    body = re.sub(r"\s+", "", m.group(1)) if m else ""
    per = re.findall(r"\(\[([\d;]*)\],\((\d+),(\d+),(\d+),(\d+),(\d+)\)\)", body)
    if len(per) != len(terms):
        return None, None, None, "cannot parse coq output (%d vs %d): %s" % (len(per), len(terms), body[:300])
    ms = re.search(r"(?m)^RS\s*=\s*(.*?)\n\s*:\s*list", outtxt, re.S)
    sbody = re.sub(r"\s+", "", ms.group(1)) if ms else "[]"
    sper = re.findall(r"\[([\d;]*)\]", sbody[1:-1]) if sterms else []
    if len(sper) != len(sterms):
        return None, None, None, "cannot parse coq output for the splice scenarios (%d vs %d): %s" % (len(sper), len(sterms), sbody[:300])
    for i, p_ in zip(sowners, sper):
        codes = [int(x) for x in p_.split(";") if x]
        if codes:
            add(i, 0, codes)
    mw = re.search(r"(?m)^RW\s*=\s*(.*?)\n\s*:\s*list", outtxt, re.S)
    wbody = re.sub(r"\s+", "", mw.group(1)) if mw else "[]"
    wper = re.findall(r"\[([\d;]*)\]", wbody[1:-1]) if wterms else []
    if len(wper) != len(wterms):
        return None, None, None, "cannot parse coq output for the writev cases (%d vs %d): %s" % (len(wper), len(wterms), wbody[:300])
    for i, p_ in zip(wowners, wper):
        codes = [int(x) for x in p_.split(";") if x]
        if codes:
            add(i, 0, codes)
    mb = re.search(r"(?m)^RB\s*=\s*(.*?)\n\s*:\s*list", outtxt, re.S)
    bbody = re.sub(r"\s+", "", mb.group(1)) if mb else "[]"
    bper = re.findall(r"\[([\d;]*)\]", bbody[1:-1]) if rterms else []
    if len(bper) != len(rterms):
        return None, None, None, "cannot parse coq output for the reset cases (%d vs %d): %s" % (len(bper), len(rterms), bbody[:300])
    for (i, j), p_ in zip(rowners, bper):
        codes = [int(x) for x in p_.split(";") if x]
        if codes:
            add(i, j, codes)
    sigs = []
    for i in sowners:
        sigs.append(("20", str(SPLICE_MODES.index((cases[i]["mode"], cases[i]["cancel_at"])) if (cases[i]["mode"], cases[i]["cancel_at"]) in SPLICE_MODES else 9),
                     "1" if any(u > 0 for _, u in (results[i].get("drains") or [])) else "0", str(len(cases[i]["later"])), "0"))
    for (i, j), p_ in zip(owners, per):
        codes = [int(x) for x in p_[0].split(";") if x]
        if codes:
            add(i, j, codes)
        sigs.append(tuple(p_[1:]))
    return errors, sigs, results, None


def cpat(sn):
    return "(pat %d %d)" % (sn[0], sn[1]) if sn[1] else "[]"


def splice_to_coq(case, res):
    drains = res.get("drains") or []
    its, prev_u = [], 0
    for k, u in drains:
        its.append("(mkIt false (FillN %d) (DrainN %d))" % ((k + u) if prev_u == 0 else 0, k))
        prev_u = u
    mode = case["mode"]
    ended_at_loop_top = mode in ("partial", "record") and res.get("cancel_idx", -1) == len(drains) - 1 and drains
    if ended_at_loop_top:
        its.append("(mkIt true FillEof DrainZero)")
        exact = True
    elif mode == "clean" and prev_u == 0:
        its.append("(mkIt false FillEof DrainZero)")
        exact = True
    else:
        its.append("(mkIt false (FillN 1) DrainErr)")     # ended inside a splice: which one is not observable
        exact = False
    later_s = "; ".join("(%s, %s)" % (cpat(l["up"]), cpat(l["down"])) for l in case["later"])

    def obs_bytes(hexs, sn):
        b = bytes.fromhex(hexs)
        full = pat_bytes(*sn)
        if b == full:
            return cpat(sn)
        if len(b) <= len(full) and full.startswith(b):
            return "(take %d %s)" % (len(b), cpat(sn))
        return cbytes_big(b)
    later_i = "; ".join("(%s, %s, %s, %s)" % (obs_bytes(r["up"], l["up"]), obs_bytes(r["down"], l["down"]), vlib.cbool(r["up_eof"]), vlib.cbool(r["down_eof"]))
                        for l, r in zip(case["later"], res.get("later") or []))
    return "(mkSObs %d ([%s], %s) %s [%s] %d %d [%s] [%s])" % (
        case["pool_seed"], "; ".join(its), "(repeat 7 (N.to_nat %d))" % case["upload"][1], vlib.cbool(exact), later_s,
        res.get("delivered", 0), res.get("pool_len", 0), "; ".join(str(x) for x in res.get("pool_dirty") or []), later_i)


def timeout_classified(case, codes):
    """failures that may be caused by real time on a loaded machine: a harness watchdog (code 99) anywhere, and
    anything on the real-socket cases (their only real-time dependences are read deadlines and goroutine
    scheduling).  Verdicts on the virtual clock do not depend on real time and are never retried."""
    return 99 in codes or case["kind"] in ("tcp", "splice")


def strip_obs(r):
    r = dict(r)
    r.pop("l_reads", None)
    if "multi" in r:
        r["multi"] = [strip_obs(x) for x in r["multi"]]
    return r


def is_spec_fail(codes):
    return any(20 <= c < 30 or c == 99 for c in codes)


def is_model_fail(codes):
    return any(10 <= c < 20 or 40 <= c < 50 for c in codes)


def is_thm_fail(codes):
    return any(30 <= c < 40 for c in codes)


GRACE_MS = [10000]


def matcher_of(case, res, codes):
    """class of a failing input, computed from the input and what the implementation did with it"""
    if case["kind"] == "writev":
        return "gather-write-loses-bytes-after-partial-writev" if 21 in codes else "writev-other-" + "-".join(str(c) for c in sorted(set(codes)))
    if case["kind"] == "splice":
        if 99 in codes:
            return "harness-panic-or-hang"
        if 29 in codes or 21 in codes or 22 in codes:
            return "stale-splice-pipe-returned-to-the-pool"
        return "splice-other-" + "-".join(str(c) for c in sorted(set(codes)))
    if case["kind"] == "multi":
        sub = res.get("_sub_codes") or {}
        for j in sorted(sub, key=int):
            if is_spec_fail(sub[j]):
                return "overlapping-connections-" + matcher_of(case["conns"][int(j)], (res.get("multi") or [])[int(j)], sub[j])
        return "overlapping-connections-other"
    st = res.get("stack") or ""
    wrapped = bool(st) and not st.startswith(("sock", "tcp"))
    if 99 in codes and str(res.get("hang") or "").startswith("stuck"):
        if (res.get("stack") or "").startswith("sniffer") and any(r["s"] == 0 and r["e"] == 2 for r in res.get("l_reads") or []):
            return "relay-blocked-after-sniff-timeout"
        return "implementation-stuck"
    if 99 in codes:
        if res.get("panic"):
            first = b"".join(chunk_bytes(ch) for ch in case["client"]["chunks"])[:2]
            if case["port"] == 53 and first in (b"\xff\xfe", b"\xff\xff") and "slice bounds" in res["panic"]:
                return "port53-length-prefix-fffe-ffff-panics-readDnsMsgFromBufio"
            return "implementation-panic"
        return "harness-panic-or-hang"
    if 26 in codes and case["port"] == 53:
        return "F5-port53-dns-peek-deadline-left-armed"
    if 26 in codes:
        return "detection-deadline-left-armed"
    if 21 in codes and case["port"] == 53 and res.get("dns_parse") == "response":
        return "port53-dns-response-frame-dropped"
    if 24 in codes and wrapped and not any(c in codes for c in (21, 22, 25, 27)):
        return "wrapped-client-conn-has-no-CloseWrite-server-eof-not-passed-on"
    if 27 in codes:
        return "detection-delay-above-window"
    if (21 in codes and case["client"].get("fin")) or (22 in codes and case["server"].get("fin")):
        return "bytes-returned-together-with-the-read-error-dropped"
    if case["kind"] == "tcp" and 21 in codes:
        sent = b"".join(chunk_bytes(ch) for ch in case["client"]["chunks"])
        got = bytes.fromhex(res.get("up") or "")
        if len(got) == len(sent) and got != sent:
            return "held-prefix-overwritten-before-it-was-written"
    want = case.get("grace_ms") or GRACE_MS[0]
    started = False
    for e in res.get("events") or []:
        if e["w"] == "start":
            started = True
        elif started and e["w"] == "dl" and e["a"] != want:
            return "half-close-grace-not-counted-from-the-end-of-stream"
    return "other-" + "-".join(str(c) for c in sorted(set(codes)) if 20 <= c < 30)


def shrink(sc, binary, case, want, rounds=2):
    """greedy, batched: every round evaluates single-step reductions (strongest first) in ONE harness + coqc run
    and keeps the first that still fails in the same class.  Returns (case, codes, observation) or None."""
    cur, best = json.loads(json.dumps(case)), None
    if case["kind"] == "writev":
        return None
    if case["kind"] == "splice":
        # one later connection with tiny payloads is the smallest interesting history
        c2 = json.loads(json.dumps(case))
        c2["later"] = [{"up": [c2["later"][0]["up"][0], 55], "down": [c2["later"][0]["down"][0], 42]}]
        c2["concurrent"] = False
        errs, _, results, err = run_batch(sc, binary, [c2], "shrink")
        if not err and 0 in errs and is_spec_fail(errs[0]) and matcher_of(c2, results[0], errs[0]) == want:
            return (c2, errs[0], results[0])
        return None
    if case["kind"] == "multi":
        # keep two connections (every pair, order of the events preserved), then drop what the servers send
        k = len(case["conns"])
        cands = []
        for a in range(k):
            for b in range(a + 1, k):
                keep = {a: 0, b: 1}
                c2 = {"kind": "multi", "flight": "multi2", "conns": [json.loads(json.dumps(case["conns"][a])), json.loads(json.dumps(case["conns"][b]))],
                      "order": [[op, keep[i]] for op, i in case["order"] if i in keep]}
                c3 = json.loads(json.dumps(c2))
                for cc in c3["conns"]:
                    cc["server"] = {"chunks": [], "eof_at": -1}
                    cc["client"]["chunks"] = cc["client"]["chunks"][:1]
                cands += [c3, c2]
        cands = cands[:12]
        errs, _, results, err = run_batch(sc, binary, cands, "shrink")
        if err:
            return None
        for j, c2 in enumerate(cands):
            if j in errs and is_spec_fail(errs[j]) and matcher_of(c2, results[j], errs[j]) == want:
                return (c2, errs[j], results[j])
        return None
    for rnd in range(rounds):
        cands = []
        for sname in ("server", "client"):
            n = len(cur[sname]["chunks"])
            c2 = json.loads(json.dumps(cur))
            changed = False
            if n > 1:
                c2[sname]["chunks"] = c2[sname]["chunks"][:1]
                changed = True
            for ch in c2[sname]["chunks"]:
                if ch["n"] > 1:
                    ch["n"] = 1 if ch["lit"] == "" else 0
                    changed = True
            if changed:
                cands.append(c2)
            if sname == "server" and n > 0:
                c2 = json.loads(json.dumps(cur))
                c2[sname]["chunks"] = []
                cands.append(c2)
            for i in range(n - 1, 0, -1):
                c2 = json.loads(json.dumps(cur))
                del c2[sname]["chunks"][i]
                cands.append(c2)
            if cur[sname]["eof_at"] >= 0:
                c2 = json.loads(json.dumps(cur))
                c2[sname]["eof_at"] = -1
                cands.append(c2)
        cands = cands[:10]
        if not cands:
            break
        errs, _, results, err = run_batch(sc, binary, cands, "shrink")
        if err:
            break
        pick = None
        for j, c2 in enumerate(cands):
            if j in errs and is_spec_fail(errs[j]) and matcher_of(c2, results[j], errs[j]) == want:
                pick = (c2, errs[j], results[j])
                break
        if pick is None:
            break
        cur, best = pick[0], pick
    return best


def main(argv):
    args = vlib.main_args(argv)
    out = vlib.Outcome(PID, args.tier, args.seed)
    rng = vlib.rng_for(args.seed, PID)
    n_mem = 120 if args.tier == "quick" else 2600
    n_tcp = 10 if args.tier == "quick" else 120
    n_multi = 36 if args.tier == "quick" else 600

    xlate_err = None
    prologue_go = None
    consts = {"half_close": 10000}
    try:
        consts = extract_consts()
        GRACE_MS[0] = consts["half_close"]
        write_gen(consts)
    except (AnchorMoved, OSError) as e:
        xlate_err = "anchor moved: %s" % e
    try:
        prologue_go = lift_prologue()
    except (AnchorMoved, OSError) as e:
        xlate_err = (xlate_err + "; " if xlate_err else "") + "anchor moved: %s" % e
    # constants that could not be extracted: the search for a failing input still runs, with the constants of
    # the last successful extraction (coq/gen/C05_Extracted.v), and the broken tie is reported at the end
    xlate_fatal = prologue_go is None or not os.path.exists(os.path.join(vlib.COQ, "gen", "C05_Extracted.v"))

    proof_ok, pinfo = vlib.proof_stage(out, PROPS, TARGETS)
    cov = {"obligations": pinfo["obligations"], "discharged": pinfo["discharged"],
           "checker_cmd": "cd /verif/coq && coq_makefile -f _CoqProject -o Makefile && make -j16 " + " ".join(TARGETS) + " && coqc -Q . Dae C05_Props.v (Print Assumptions captured)",
           "theorems": pinfo.get("theorems", []), "print_assumptions": pinfo.get("assumptions", []),
           "trusted_base": vlib.TRUSTED_BASE_COMMON + [
               "in-memory net.Conn of the harness with a virtual clock (Read blocks until min(arrival, deadline), expired deadline fails at once, tie -> deadline); deadline arguments converted to virtual ms by rounding their distance from time.Now() to 500 ms",
               "handleConn prologue text lifted verbatim from control/tcp.go into a closure (defer of sniffer.Close turned into a cleanup); routing lookup and dial are not run",
               "oracles supplied per case from the run: miekg Unpack verdict on the first frame, need-more verdicts of the sniffing parsers (C06), free space of Sniffer.buf per round",
               "kernel behaviour of splice/writev/TIOCINQ on real sockets is observed (24+ loopback cases per run), not modelled"]}
    out.coverage = cov
    out.assumptions = ["bufio.Reader semantics (default size 4096, Peek/Discard/Read) as in the Go standard library",
                       "Go netpoll deadline semantics: a Read with an expired deadline fails before looking at data",
                       "goroutine interleaving inside relayCore.run only matters at equal virtual instants; both orders are evaluated in the model and the implementation must lie between them"]

    with vlib.Scratch() as sc:
        if xlate_err and xlate_fatal:
            out.violation("anchor", {"broken": xlate_err}, "translator could not find its anchors in the anchored files: " + xlate_err, no_failing_input=True)
            cov.update(evaluations=0, distinct_nontrivial=0, rule="", samples=[], traces_validated_against_impl=0)
            return out.finish()
        gen_go = sc.path("c05_prologue_gen_test.go")
        with open(gen_go, "w") as f:
            f.write(prologue_go)
        binary, blog = vlib.build_go_test_binary(
            sc, "control", HARNESS,
            extra_overlay={os.path.join(vlib.REPO, "control", "zz_verif_c05_prologue_gen_test.go"): gen_go})
        if binary is None:
            out.violation("build", {"broken": "harness build against /repo failed", "log": blog[-3000:]},
                          "correspondence harness (with the lifted handleConn prologue) no longer builds against /repo", no_failing_input=True)
            cov.update(evaluations=0, distinct_nontrivial=0, rule="", samples=[], traces_validated_against_impl=0)
            return out.finish()

        if args.replay:
            rp = json.load(open(args.replay))
            case = rp["replay"]["case"]
            errs, sigs, results, err = run_batch(sc, binary, [case], "replay")
            r = strip_obs(results[0]) if results else {}
            print(json.dumps({"error": err, "codes": (errs or {}).get(0, []), "impl": r}, indent=1)[:6000])
            return 0

        corpus = []
        cdir = os.path.join(vlib.VERIF, "corpus", PID)
        if os.path.isdir(cdir):
            for n in sorted(os.listdir(cdir)):
                corpus.append(json.load(open(os.path.join(cdir, n))))
        cases = (corpus + fin_family() + sniff_pause_family() + grace_family(consts["half_close"]) + [gen_case(rng, args.tier) for _ in range(n_mem)] + [gen_multi_case(rng, args.tier) for _ in range(n_multi)]
                 + tcp_gate_family(args.tier) + [gen_tcp_case(rng, args.tier) for _ in range(n_tcp)] + gen_splice_cases(rng, args.tier) + gen_writev_cases(rng, args.tier))
        all_err, sigs, all_res = {}, [], {}
        tie_broken = None
        shard = 150

        def run_all(cs, base, tagp):
            nonlocal tie_broken
            for s in range(0, len(cs), shard):
                errs, sg, results, err = run_batch(sc, binary, cs[s:s + shard], "%s%d" % (tagp, s))
                if err:
                    tie_broken = err
                    return
                for i, e in errs.items():
                    all_err[base + s + i] = e
                for i, r in enumerate(results):
                    all_res[base + s + i] = r
                sigs.extend(sg)

        run_all(cases, 0, "b")
        # retry timeout-classified failures with the harness' patience x4, x16, x16 before believing them
        retried_passed, retried_failed = 0, 0
        cand = [i for i in sorted(all_err) if not tie_broken and timeout_classified(cases[i], all_err[i])]
        # stuck verdicts: re-run only the first two with doubled patience; when they are stuck again the
        # implementation hangs and the others are believed (each would cost its full patience again)
        stuck = [i for i in cand if 99 in all_err[i]]
        pending = [i for i in cand if 99 not in all_err[i]] + stuck[:2]
        n_retry = len(pending)
        unretried_stuck = stuck[2:]
        passed_on_retry = [0]
        for scale in (2, 4, 16):
            if not pending or (scale == 16 and len(pending) > 2):
                break
            errs, _, results, err = run_batch(sc, binary, [dict(cases[i], wait_scale=scale) for i in pending], "retry%d" % scale)
            if err:
                break
            still = []
            for j, i in enumerate(pending):
                if errs.get(j):
                    all_err[i], all_res[i] = errs[j], results[j]
                    if not (99 in errs[j] and scale >= 2 and i in stuck):
                        still.append(i)
                    else:
                        unretried_stuck.append(i)      # stuck again with doubled patience: final
                else:
                    del all_err[i]
                    passed_on_retry[0] += 1
            pending = still
        pending = pending + [i for i in unretried_stuck if i in all_err]
        retried_failed = len(pending)
        retried_passed = passed_on_retry[0]
        widened = False
        only_tie = any(not is_spec_fail(e) for e in all_err.values())
        if ((not proof_ok) or only_tie) and not tie_broken and not any(is_spec_fail(e) for e in all_err.values()):
            widened = True
            extra = [gen_case(rng, args.tier) for _ in range(10 * n_mem if args.tier == "quick" else 2 * n_mem)]
            base = len(cases)
            cases += extra
            run_all(extra, base, "w")
        n_eval = len(cases)

        spec_fail = sorted(i for i, e in all_err.items() if is_spec_fail(e))
        model_fail = sorted(i for i, e in all_err.items() if is_model_fail(e))
        thm_fail = sorted(i for i, e in all_err.items() if is_thm_fail(e) and not is_spec_fail(e))
        classes = {}
        for i in spec_fail:
            classes.setdefault(matcher_of(cases[i], all_res.get(i, {}), all_err[i]), []).append(i)
        for mname, idxs in sorted(classes.items()):
            i = idxs[0]
            known = any(e["property"] == PID and e["match"] == mname for e in out.kf["open"])
            sh = shrink(sc, binary, cases[i], mname) if (not mname.endswith(("harness-panic-or-hang", "implementation-panic", "implementation-stuck", "relay-blocked-after-sniff-timeout")) and not known) else None
            small, codes_s, r = sh if sh else (cases[i], all_err[i], all_res.get(i, {}))
            errs = {0: codes_s}
            r = strip_obs(r)
            out.violation("impl_vs_spec_" + re.sub(r"[^A-Za-z0-9]+", "_", mname),
                          {"case": small, "harness_input": to_harness(small), "codes": (errs or {}).get(0, all_err[i]), "observed": r,
                           "how": "./check C05 --replay <this file>; codes 21/22 bytes up/down differ from what was sent, 23/24 write-shutdown not passed on, 25 connection ended/kept, 26 read deadline left armed at relay start, 27 detection delay above window"},
                          "%s: relay outcome differs from the property on this connection script (%d failing scripts of this class)" % (mname, len(idxs)),
                          matchers=[mname])
        if xlate_err and not spec_fail:
            out.violation("anchor", {"broken": xlate_err, "searched": "%d connection scripts" % n_eval},
                          "translator could not find its anchors in the anchored files: " + xlate_err, no_failing_input=True)
        if (model_fail and not all(i in spec_fail for i in model_fail)) or thm_fail or tie_broken or not proof_ok:
            pure_model = [i for i in model_fail if i not in spec_fail] or model_fail
            what = {}
            if not proof_ok:
                what["proof"] = pinfo["failed"]
            if tie_broken:
                what["correspondence"] = tie_broken
            if pure_model:
                i = pure_model[0]
                r = strip_obs(all_res.get(i, {}))
                what["correspondence_case"] = {"case": cases[i], "codes": all_err[i], "observed": r}
            if thm_fail:
                what["model_vs_spec_case"] = {"case": cases[thm_fail[0]], "codes": all_err[thm_fail[0]]}
            what["searched"] = "%d connection scripts (widened=%s)" % (n_eval, widened)
            if not spec_fail or tie_broken or not proof_ok or thm_fail or [i for i in model_fail if i not in spec_fail]:
                out.violation("tie", what, "proof obligation or model correspondence no longer checks; no failing input found", no_failing_input=True)
        distinct = len(set(sigs))
        nontrivial = len(set(s for s in sigs if s[0] not in ("0", "8") or s[3] != "0"))
        sample = next((c for c in cases[len(corpus):] if c["kind"] == "mem"), cases[0])
        n_conn = sum(len(c["conns"]) if c["kind"] == "multi" else (1 + len(c["later"]) if c["kind"] == "splice" else (0 if c["kind"] == "writev" else 1)) for c in cases)
        n_splice_skipped = len([1 for i, c in enumerate(cases) if c["kind"] == "splice" and all_res.get(i, {}).get("_skipped")])
        flights = {}
        for c in cases:
            flights[c.get("flight", "?")] = flights.get(c.get("flight", "?"), 0) + 1
        cov.update(evaluations=n_eval, distinct_nontrivial=nontrivial, distinct_signatures=distinct,
                   rule="random connection scripts: first flight (none/HTTP variants/TLS full+partial/SSH/binary/port-53 frames: short, garbage, DNS response, oversized, incomplete) segmented at 1,2,15,16,17,half,len-1 with gaps around the sniff (1 s) and DNS (5 s) windows +-20 ms, follow-up payloads incl. 4095-4097 and 32767-32769 bytes, both orders of the two ends of stream, server data around client-EOF + grace +-10 ms, ports 53/22/3306 (excluded) and 80/443/8080, outbounds direct/block/user, dial mode ip; splice-pool scenarios on real sockets (back-pressured upload ended at each exit of relaySpliceCopyExact - ctx at the loop top after the n-th partial / n-th drain, cancelled while blocked, upstream reset, clean EOF - then 1-3 healthy connections reusing the pooled pipes; pool fill levels observed); real-socket gate family (bufio/prefixed/sniffer stacks, the client's next segment pending in the socket when the relay starts, sizes around 4096 and 32768); gather-write scripts (the real relayWritevAll over a scripted writev: partial acceptances inside segments and on boundaries, EAGAIN with callback re-entry, EINTR, zero-length writes); final-read family (a side's last bytes returned in the same Read as io.EOF or as a reset, every stack, either side and both); sniff-pause family (sniffing window expires on an incomplete TLS record / HTTP head, the rest arrives 20 ms or 5 s later); fixed half-close family (first half-close at relay age 0.5/1/1.5/3 x grace, remaining bytes of the other direction half a grace later, every wrapper stack, either side first); overlapping-connection scenarios (2-4 connections over the shared buffer pools on one P: each prologue runs while others are parked between prologue and relay, random valid orders, every connection judged on its own bytes); "
                        "signature = (stack at relay start x holds-bytes, detection stages run, ending alive/error/clean, order of the ends of stream, stale-deadline/sticky-error/spin bits); non-trivial = a wrapper on the stack or at least one end of stream",
                   traces_validated_against_impl=sum((len(c["conns"]) if c["kind"] == "multi" else 1) for i, c in enumerate(cases)
                                                     if c["kind"] in ("mem", "multi") and not is_model_fail(all_err.get(i, []))),
                   connections_run=n_conn,
                   gather_write_scripts=len([1 for c in cases if c["kind"] == "writev"]),
                   splice_pool_scenarios=len([1 for c in cases if c["kind"] == "splice"]), splice_pool_scenarios_skipped=n_splice_skipped,
                   retried_and_passed=retried_passed, retried_and_still_failing=retried_failed,
                   real_time_policy="verdicts of the in-memory cases use the virtual clock only; harness watchdogs (30-120 s) and real-socket cases are retried x3 with patience x4/x16 before a failure is reported; a persistent hang carries a goroutine dump",
                   overlapping_connection_scenarios=len([1 for c in cases if c["kind"] == "multi"]),
                   real_socket_cases=len([1 for c in cases if c["kind"] == "tcp"]),
                   first_flight_distribution=flights,
                   failing_classes={k: len(v) for k, v in classes.items()},
                   model_mismatch_codes={str(i): all_err[i] for i in model_fail[:5]},
                   comparisons="impl=model: relay start time, deadline armed at start, wrapper stack and held bytes, bytes up (exact), bytes down (between the two interleavings), CloseWrite count/time/position, error/alive/end time, busy loop; impl=spec and model=spec: bytes both ways, shutdown passed on, alive, no deadline at start, delay within windows",
                   samples=[sample], widened_search=widened)
    return out.finish()


if __name__ == "__main__":
    sys.exit(main(sys.argv[1:]))
